import GoitModel
