import GoitProofs.Lemmas.Bytes
import GoitProofs.Props.C01
