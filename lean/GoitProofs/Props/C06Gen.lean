import GoitProofs.Props.C06World
set_option linter.unusedSimpArgs false
set_option linter.unusedVariables false

/-! The loops of `add`, `rm` and `restore --staged` keep the staging area canonical and keep **any** predicate of
    single entries that holds of the entries they put in (generic version of the lemmas of `C06World`). -/

namespace W

open C04 C06 C17

variable {P : Entry → Prop}

structure GoodP (P : Entry → Prop) (es : List Entry) : Prop where
  canon : Canonical es
  all : ∀ e ∈ es, P e

theorem goodp_nil : GoodP P [] := ⟨by simp [Canonical, SortedKeys, IndexOps.paths], fun e he => by cases he⟩

theorem goodp_update (es : List Entry) (hg : GoodP P es) (id p : Bytes) (hp : P ⟨id, p⟩) (ch : Bool) (es' : List Entry)
    (h : IndexOps.update es id p = .ok (ch, es')) : GoodP P es' := by
  refine ⟨update_canonical es hg.canon id p ch es' h, ?_⟩
  -- the new list is a permutation-free rebuild: every entry is the new one or an old one
  intro e he
  unfold IndexOps.update at h
  cases hge : IndexOps.getEntry es p with
  | crash => simp [hge] at h
  | notFound =>
    simp only [hge] at h
    injection h with h; injection h with _ h2; subst h2
    have : e ∈ es ++ [⟨id, p⟩] := (List.mergeSort_perm _ _).mem_iff.mp he
    rcases List.mem_append.mp this with h1 | h1
    · exact hg.all e h1
    · simp at h1; subst h1; exact hp
  | found i =>
    simp only [hge] at h
    cases hei : es[i]? with
    | none => simp [hei] at h
    | some e0 =>
      simp only [hei] at h
      split at h
      · injection h with h; injection h with _ h2; subst h2; exact hg.all e he
      · injection h with h; injection h with _ h2; subst h2
        have : e ∈ es.eraseIdx i ++ [⟨id, p⟩] := (List.mergeSort_perm _ _).mem_iff.mp he
        rcases List.mem_append.mp this with h1 | h1
        · exact hg.all e (List.mem_of_mem_eraseIdx h1)
        · simp at h1; subst h1; exact hp

theorem goodp_delete (es : List Entry) (hg : GoodP P es) (p : Bytes) (es' : List Entry) (h : IndexOps.delete es p = .ok es') : GoodP P es' := by
  unfold IndexOps.delete at h
  split at h
  · cases h
  · rename_i i _
    injection h with h; subst h
    exact ⟨eraseIdx_canonical es hg.canon i, fun e he => hg.all e (List.mem_of_mem_eraseIdx he)⟩
  · cases h

theorem goodp_filter (es : List Entry) (hg : GoodP P es) (f : Entry → Bool) : GoodP P (es.filter f) :=
  ⟨filter_canonical es hg.canon f, fun e he => hg.all e ((List.mem_filter.mp he).1)⟩

theorem goodp_addOne (H : HashFn) (es : List Entry) (hg : GoodP P es) (p d : Bytes) (hp : P ⟨Obj.id H .blob d, p⟩) (es' : List Entry)
    (h : Cmds.addOne H es p d = .ok es') : GoodP P es' := by
  unfold Cmds.addOne at h
  cases hu : IndexOps.update es (Obj.id H .blob d) p with
  | ok r => obtain ⟨ch, e2⟩ := r; simp [hu, Res.map] at h; subst h; exact goodp_update es hg _ p hp ch e2 hu
  | err => simp [hu, Res.map] at h
  | crash => simp [hu, Res.map] at h

theorem goodp_addFold (H : HashFn) (fs : List (Bytes × Bytes)) (hfs : ∀ f ∈ fs, P ⟨Obj.id H .blob f.2, f.1⟩) (es : List Entry) (hg : GoodP P es)
    (es' : List Entry) (h : fs.foldl (fun (acc : Res (List Entry)) f => acc.bind fun i => Cmds.addOne H i f.1 f.2) (Res.ok es) = .ok es') :
    GoodP P es' := by
  induction fs generalizing es with
  | nil => simp at h; subst h; exact hg
  | cons f fs ih =>
    simp only [List.foldl_cons] at h
    have hb : (Res.ok es : Res (List Entry)).bind (fun i => Cmds.addOne H i f.1 f.2) = Cmds.addOne H es f.1 f.2 := rfl
    rw [hb] at h
    cases ho : Cmds.addOne H es f.1 f.2 with
    | ok e1 =>
      rw [ho] at h
      exact ih (fun g hg' => hfs g (List.mem_cons_of_mem _ hg')) e1 (goodp_addOne H es hg f.1 f.2 (hfs f List.mem_cons_self) e1 ho) h
    | err =>
      rw [ho] at h
      have : ∀ (l : List (Bytes × Bytes)), l.foldl (fun (acc : Res (List Entry)) f => acc.bind fun i => Cmds.addOne H i f.1 f.2) Res.err = Res.err := by
        intro l; induction l with
        | nil => rfl
        | cons x xs ihx => simp only [List.foldl_cons]; exact ihx
      rw [this] at h; cases h
    | crash =>
      rw [ho] at h
      have : ∀ (l : List (Bytes × Bytes)), l.foldl (fun (acc : Res (List Entry)) f => acc.bind fun i => Cmds.addOne H i f.1 f.2) Res.crash = Res.crash := by
        intro l; induction l with
        | nil => rfl
        | cons x xs ihx => simp only [List.foldl_cons]; exact ihx
      rw [this] at h; cases h

theorem fileAt_mem (w : Cmds.WS) (p d : Bytes) (h : Cmds.fileAt w p = some d) : (p, d) ∈ w.files := by
  unfold Cmds.fileAt at h
  cases hf : w.files.find? (fun f => f.1 == p) with
  | none => simp [hf] at h
  | some f =>
    simp [hf] at h
    have hm := List.mem_of_find?_eq_some hf
    have hp : f.1 = p := by simpa using List.find?_some hf
    have : f = (p, d) := by cases f; simp_all
    rw [← this]; exact hm

/-- every (also partial) result of the `add` loop: what it stages are work files that are not ignored -/
theorem goodp_addArgsP (H : HashFn) (w : Cmds.WS) (args : List Bytes) (idx : List Entry) (bs : List Bytes) (hg : GoodP P idx)
    (hnew : ∀ (ix : List Entry) (p d : Bytes), ¬ Cmds.ignored { w with index := ix } p = true → (p, d) ∈ w.files → P ⟨Obj.id H .blob d, p⟩) :
    GoodP P (addArgsP H w args idx bs).idx := by
  induction args generalizing idx bs with
  | nil => exact hg
  | cons a rest ih =>
    unfold addArgsP
    dsimp only
    split
    · exact ih _ _ hg
    · rename_i hign
      split
      · cases hd : IndexOps.delete idx (Cmds.cleanPath a) with
        | ok i => exact ih _ _ (goodp_delete idx hg _ i hd)
        | err => exact hg
        | crash => exact hg
      · split
        · cases hf : (List.filter (fun f => !Cmds.ignored { w with index := idx } f.1) (Cmds.filesUnder w (Cmds.cleanPath a))).foldl
              (fun (acc : Res (List Entry)) f => acc.bind fun i => Cmds.addOne H i f.1 f.2) (Res.ok idx) with
          | ok i =>
            refine ih _ _ (goodp_addFold H _ ?_ idx hg i hf)
            intro f hfm
            obtain ⟨hm, hni⟩ := List.mem_filter.mp hfm
            have hin : f ∈ w.files := (List.mem_filter.mp hm).1
            exact hnew idx f.1 f.2 (by simpa using hni) (by cases f; exact hin)
          | err => exact hg
          | crash => exact hg
        · cases hfa : Cmds.fileAt w (Cmds.cleanPath a) with
          | none => exact hg
          | some data =>
            dsimp only
            cases ho : Cmds.addOne H idx (Cmds.cleanPath a) data with
            | ok i => exact ih _ _ (goodp_addOne H idx hg _ data (hnew idx _ data hign (fileAt_mem w _ data hfa)) i ho)
            | err => exact hg
            | crash => exact hg

theorem goodp_rmArgsP (args : List Bytes) (idx : List Entry) (removed : List Bytes) (hg : GoodP P idx) :
    GoodP P (rmArgsP args idx removed).2.1 := by
  induction args generalizing idx removed with
  | nil => exact hg
  | cons a rest ih =>
    unfold rmArgsP
    dsimp only
    cases hwd : IndexOps.isDir idx (Cmds.cleanPath a) <;>
      simp only [Bool.false_eq_true, if_false, if_true, Bool.not_false, Bool.not_true, Bool.and_true, Bool.and_false] <;>
      (split <;> first
        | exact goodp_filter idx hg _
        | (apply ih; split <;> first | exact goodp_filter _ (goodp_filter idx hg _) _ | exact goodp_filter idx hg _)
        | (apply ih; first | exact goodp_filter _ (goodp_filter idx hg _) _ | exact goodp_filter idx hg _))

theorem snapId_entry (snap : List Entry) (p id : Bytes) (h : Cmds.snapId snap p = some id) : (⟨id, p⟩ : Entry) ∈ snap := by
  unfold Cmds.snapId at h
  cases hf : snap.find? (fun e => e.path == p) with
  | none => simp [hf] at h
  | some e =>
    simp [hf] at h
    have hm := List.mem_of_find?_eq_some hf
    have hp : e.path = p := by simpa using List.find?_some hf
    have : e = ⟨id, p⟩ := by cases e; simp_all
    rw [← this]; exact hm

theorem goodp_restoreIndexOne (idx snap : List Entry) (hg : GoodP P idx) (hs : ∀ e ∈ snap, P e) (p : Bytes) (idx' : List Entry)
    (h : Cmds.restoreIndexOne idx snap p = .ok idx') : GoodP P idx' := by
  unfold Cmds.restoreIndexOne at h
  cases hsi : Cmds.snapId snap p with
  | some id =>
    simp only [hsi] at h
    cases hu : IndexOps.update idx id p with
    | ok r => obtain ⟨ch, e2⟩ := r; simp [hu, Res.map] at h; subst h; exact goodp_update idx hg id p (hs _ (snapId_entry snap p id hsi)) ch e2 hu
    | err => simp [hu, Res.map] at h
    | crash => simp [hu, Res.map] at h
  | none =>
    simp only [hsi] at h
    split at h
    · exact goodp_delete idx hg p idx' h
    · cases h

theorem goodp_rsFold (snap : List Entry) (hs : ∀ e ∈ snap, P e) (ps : List Bytes) (idx : List Entry) (hg : GoodP P idx) :
    GoodP P (Cmds.rsFold snap ps idx).2 := by
  induction ps generalizing idx with
  | nil => exact hg
  | cons p ps ih =>
    unfold Cmds.rsFold
    cases hr : Cmds.restoreIndexOne idx snap p with
    | ok i => exact ih i (goodp_restoreIndexOne idx snap hg hs p i hr)
    | err => exact hg
    | crash => exact hg

theorem goodp_restoreStagedArgs (snap : List Entry) (hs : ∀ e ∈ snap, P e) (args : List Bytes) (idx : List Entry) (hg : GoodP P idx) :
    GoodP P (Cmds.restoreStagedArgs snap args idx).2 := by
  induction args generalizing idx with
  | nil => exact hg
  | cons a rest ih =>
    unfold Cmds.restoreStagedArgs
    dsimp only
    have hfold := goodp_rsFold snap hs
      (if (snap.any (fun t => IndexOps.under (Cmds.cleanPath a) t.path) || IndexOps.isDir idx (Cmds.cleanPath a)) = true
        then Cmds.stagedDirPaths idx snap (Cmds.cleanPath a) else []) idx hg
    cases hr : Cmds.rsFold snap
      (if (snap.any (fun t => IndexOps.under (Cmds.cleanPath a) t.path) || IndexOps.isDir idx (Cmds.cleanPath a)) = true
        then Cmds.stagedDirPaths idx snap (Cmds.cleanPath a) else []) idx with
    | mk okf idx1 =>
      rw [hr] at hfold
      cases okf with
      | false => exact hfold
      | true =>
        dsimp only
        split
        · cases hone : Cmds.restoreIndexOne idx1 snap (Cmds.cleanPath a) with
          | ok i => exact ih i (goodp_restoreIndexOne idx1 snap hfold hs _ i hone)
          | err => exact hfold
          | crash => exact hfold
        · split
          · exact hfold
          · exact ih idx1 hfold

end W
