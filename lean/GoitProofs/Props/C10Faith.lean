import GoitProofs.Props.C04World
set_option linter.unusedSimpArgs false
set_option linter.unusedVariables false

/-! C10 (`revparse-faithful`, `list-faithful`) on the whole-repository model: what `rev-parse` and `branch --list` print is read
    off the stored state and nothing else. -/

namespace C10

/-- **`rev-parse` prints the stored state**: each argument that is answered contributes the bytes of the branch file it names
    (`HEAD`: the branch HEAD names) followed by a line break, in argument order; an argument naming no branch file makes the
    command fail; in a connected repository (`W.Conn`) those bytes are the 40 hex digits of a stored commit. -/
theorem world_revparse_faithful (w : W.World) (l : W.Loaded) (args : List Bytes) (acc out : Bytes)
    (h : W.revParseCmd w l args acc = .ok (some out)) :
    ∃ raws : List Bytes, raws.length = args.length ∧ out = acc ++ (raws.map (· ++ [10])).flatten ∧
      ∀ k (hk : k < args.length) (hk' : k < raws.length),
        W.aget w.heads (if args[k] == asc "HEAD" then l.ref else args[k]) = some raws[k] := by
  induction args generalizing acc with
  | nil =>
    simp only [W.revParseCmd] at h
    injection h with h; injection h with h
    exact ⟨[], rfl, by simp [h], fun k hk => by cases hk⟩
  | cons a rest ih =>
    unfold W.revParseCmd at h
    split at h
    · cases h
    · cases hr : W.aget w.heads (if a == asc "HEAD" then l.ref else a) with
      | none => simp only [hr] at h; cases h
      | some raw =>
        simp only [hr] at h
        obtain ⟨raws, hlen, hout, hall⟩ := ih _ h
        refine ⟨raw :: raws, by simp [hlen], by simp [hout, List.append_assoc], ?_⟩
        intro k hk hk'
        cases k with
        | zero => simpa using hr
        | succ k => simpa using hall k (by simpa using hk) (by simpa using hk')

/-- **`branch --list` prints the loaded branch list**: one line per branch file, in the list's order, the branch HEAD names
    marked with `* `, and nothing is changed -/
theorem world_list_faithful (w : W.World) (l : W.Loaded) (tz : Int) (ts : List Int) :
    W.branchCmd w l [] true [] [] tz ts =
      (w, .ok (some ((l.refs.map fun b => (if b.1 == l.ref then asc "* " else []) ++ b.1 ++ [10]).flatten))) := by
  unfold W.branchCmd
  simp

end C10
