import GoitProofs.Props.C04World
set_option linter.unusedSimpArgs false
set_option linter.unusedVariables false

/-! C10 (`revparse-faithful`, `list-faithful`) on the whole-repository model: what `rev-parse` and `branch --list` print is read
    off the stored state and nothing else. -/

namespace C10

/-- **`rev-parse` prints the stored state**: each argument that is answered contributes the bytes of the branch file it names
    (`HEAD`: the branch HEAD names) followed by a line break, in argument order; an argument naming no branch file makes the
    command fail; in a connected repository (`W.Conn`) those bytes are the 40 hex digits of a stored commit. -/
theorem world_revparse_faithful (w : W.World) (l : W.Loaded) (args : List Bytes) (acc out : Bytes)
    (h : W.revParseCmd w l args acc = .ok (some out)) :
    ∃ raws : List Bytes, raws.length = args.length ∧ out = acc ++ (raws.map (· ++ [10])).flatten ∧
      ∀ k (hk : k < args.length) (hk' : k < raws.length),
        W.aget w.heads (if args[k] == asc "HEAD" then l.ref else args[k]) = some raws[k] := by
  induction args generalizing acc with
  | nil =>
    simp only [W.revParseCmd] at h
    injection h with h; injection h with h
    exact ⟨[], rfl, by simp [h], fun k hk => by cases hk⟩
  | cons a rest ih =>
    unfold W.revParseCmd at h
    split at h
    · cases h
    · cases hr : W.aget w.heads (if a == asc "HEAD" then l.ref else a) with
      | none => simp only [hr] at h; cases h
      | some raw =>
        simp only [hr] at h
        obtain ⟨raws, hlen, hout, hall⟩ := ih _ h
        refine ⟨raw :: raws, by simp [hlen], by simp [hout, List.append_assoc], ?_⟩
        intro k hk hk'
        cases k with
        | zero => simpa using hr
        | succ k => simpa using hall k (by simpa using hk) (by simpa using hk')

/-- **`branch --list` prints the loaded branch list**: one line per branch file, in the list's order, the branch HEAD names
    marked with `* `, and nothing is changed -/
theorem world_list_faithful (w : W.World) (l : W.Loaded) (tz : Int) (ts : List Int) :
    W.branchCmd w l [] true [] [] tz ts =
      (w, .ok (some ((l.refs.map fun b => (if b.1 == l.ref then asc "* " else []) ++ b.1 ++ [10]).flatten))) := by
  unfold W.branchCmd
  simp

end C10

namespace C10

/-- **`update-ref refs/heads/<b> <id>`, when it ends `ok`** (whole-repository model): `<b>` is an existing branch, `<id>` is the
    id of a stored object of kind commit that parses, the branch file now holds its 40 hex digits, HEAD names `<b>`, and every other
    branch file keeps its bytes -/
theorem world_update_ref_spec (H : HashFn) (w : W.World) (l : W.Loaded) (path hs : Bytes) (o : Option Bytes)
    (hok : (W.updateRefCmd H w l [path, hs]).2 = .ok o) :
    ∃ id d b, readHash hs = some id ∧ hs = hashStr id ∧ Store.get H (W.store w) id = .ok (.commit, d) ∧ (Commit.parse d).isSome = true ∧
      b = (Bytes.split1 47 path).getLast?.getD [] ∧ Refs.exists_ l.refs b = true ∧
      W.aget (W.updateRefCmd H w l [path, hs]).1.heads b = some (hashStr id) ∧
      (W.updateRefCmd H w l [path, hs]).1.head = some (Head.render b) ∧
      ∀ n, n ≠ b → W.aget (W.updateRefCmd H w l [path, hs]).1.heads n = W.aget w.heads n := by
  unfold W.updateRefCmd at hok ⊢
  dsimp only at hok ⊢
  by_cases h1 : (!W.isBranchPath path) = true
  · rw [if_pos h1] at hok; cases hok
  · rw [if_neg h1] at hok ⊢
    by_cases h2 : (hs.length != 40) = true
    · rw [if_pos h2] at hok; cases hok
    · rw [if_neg h2] at hok ⊢
      cases hr : readHash hs with
      | none => simp only [hr] at hok; cases hok
      | some id =>
        simp only [hr] at hok ⊢
        by_cases h3 : (hs != hashStr id) = true
        · rw [if_pos h3] at hok; cases hok
        · rw [if_neg h3] at hok ⊢
          have hseq : hs = hashStr id := by simpa using h3
          cases hg : Store.get H (W.store w) id with
          | crash => simp only [hg] at hok; cases hok
          | err => simp only [hg] at hok; cases hok
          | ok kd =>
            obtain ⟨k, d⟩ := kd
            cases k with
            | commit =>
              simp only [hg] at hok ⊢
              unfold W.updateRefTo at hok ⊢
              by_cases h4 : (!Refs.exists_ l.refs ((Bytes.split1 47 path).getLast?.getD [])) = true
              · rw [if_pos h4] at hok; cases hok
              · rw [if_neg h4] at hok ⊢
                by_cases h5 : w.head.isNone = true
                · rw [if_pos h5] at hok; cases hok
                · rw [if_neg h5] at hok ⊢
                  by_cases h6 : (Commit.parse d).isNone = true
                  · rw [if_pos h6] at hok; cases hok
                  · rw [if_neg h6]
                    refine ⟨id, d, _, rfl, hseq, hg, ?_, rfl, (by simpa using h4), ?_, rfl, ?_⟩
                    · cases hp : Commit.parse d with
                      | none => simp [hp] at h6
                      | some c => rfl
                    · simp [W.setHead, W.aget_aset_self]
                    · intro n hn
                      simp only [W.setHead]
                      exact W.aget_aset_ne _ _ _ _ hn
            | undefined => simp only [hg] at hok; cases hok
            | blob => simp only [hg] at hok; cases hok
            | tree => simp only [hg] at hok; cases hok
            | tag => simp only [hg] at hok; cases hok

end C10

namespace C10

/-- **`init`**: a successful `init` marks the directory as a repository whose HEAD names `main`, with an empty local configuration,
    and touches nothing else; in a directory that already is a repository `init` fails and changes nothing -/
theorem world_init_spec (H : HashFn) (w : W.World) (tz : Int) (ts : List Int) :
    (∀ o, (W.run H w ⟨.init, tz, ts⟩).2 = .ok o →
      w.inited = false ∧
      (W.run H w ⟨.init, tz, ts⟩).1 = { w with inited := true, head := some (Head.render (asc "main")), cfgLocal := some [] }) ∧
    (w.inited = true → (W.run H w ⟨.init, tz, ts⟩).1 = w ∧ ∀ o, (W.run H w ⟨.init, tz, ts⟩).2 ≠ .ok o) := by
  constructor
  · intro o hok
    unfold W.run at hok ⊢
    dsimp only at hok ⊢
    by_cases hi : (!w.inited) = true
    · rw [if_pos hi] at hok ⊢
      unfold W.initCmd at hok ⊢
      split at hok
      · cases hok
      · split at hok
        · cases hok
        · rename_i h1 h2
          rw [if_neg h1, if_neg h2]
          exact ⟨by simpa using hi, rfl⟩
    · rw [if_neg hi] at hok
      split at hok
      · cases hok
      · split at hok <;> cases hok
  · intro hi
    unfold W.run
    dsimp only
    have : (!w.inited) = false := by simp [hi]
    rw [this]
    simp only [Bool.false_eq_true, if_false]
    split
    · exact ⟨rfl, fun o h => by cases h⟩
    · split
      · exact ⟨rfl, fun o h => by cases h⟩
      · exact ⟨rfl, fun o h => by cases h⟩

end C10
