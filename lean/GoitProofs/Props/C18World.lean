import GoitProofs.Props.C03Conn
set_option linter.unusedSimpArgs false
set_option linter.unusedVariables false

/-! C18 on the whole-repository model: **no state and no invocation makes the model answer `crash`**.
    Every explicit crash outcome of the mechanisms (a binary search running out of range, an index taken
    from a search result, `hash.String()[:2]` of an empty id) is unreachable from `W.run`, whatever the
    repository looks like — sorted or not, connected or not, damaged or not. (States whose real counterpart
    panics for a reason the model does not carry — a stored commit without a `tree` line — are answered
    `unsupported`, not `ok`/`err`; they are listed in `World.lean`.) -/

namespace W

/-! ### the searches never leave their slice -/

theorem bsearch_no_crash (keys : List Bytes) (x : Bytes) (left right : Nat) (hr : right ≤ keys.length) :
    bsearch keys x left right ≠ .crash := by
  induction left, right using bsearch.induct keys x with
  | case1 l r hlt hnone =>
    have : keys[(l + r) / 2]? = none := hnone
    rw [List.getElem?_eq_none_iff] at this
    omega
  | case2 l r hlt hsome => rw [bsearch]; simp [hlt, hsome]
  | case3 l r hlt k hk hne hklt ih => rw [bsearch]; simp only [hlt, dif_pos, hk, hne, if_false, hklt, if_true]; exact ih hr
  | case4 l r hlt k hk hne hklt ih =>
    rw [bsearch]; simp only [hlt, dif_pos, hk, hne, if_false, hklt]
    have : keys[(l + r) / 2]? = some k := hk
    have hm : (l + r) / 2 < keys.length := by
      rcases List.getElem?_eq_some_iff.mp this with ⟨h, _⟩; exact h
    exact ih (by omega)
  | case5 l r hnlt => rw [bsearch]; simp [hnlt]

theorem bsearchTop_no_crash (keys : List Bytes) (x : Bytes) : bsearchTop keys x ≠ .crash := by
  unfold bsearchTop
  split
  · simp
  · exact bsearch_no_crash keys x 0 keys.length (Nat.le_refl _)

theorem bsearchTop_found_lt (keys : List Bytes) (x : Bytes) (i : Nat) (h : bsearchTop keys x = .found i) : i < keys.length := by
  unfold bsearchTop at h
  split at h
  · cases h
  · have := bsearch_sound keys x 0 keys.length i h
    rcases List.getElem?_eq_some_iff.mp this with ⟨hi, _⟩; exact hi

theorem update_no_crash (es : List Entry) (id p : Bytes) : IndexOps.update es id p ≠ .crash := by
  unfold IndexOps.update IndexOps.getEntry
  cases hg : bsearchTop (IndexOps.paths es) p with
  | crash => exact absurd hg (bsearchTop_no_crash _ _)
  | notFound => simp
  | found i =>
    have hi : i < es.length := by simpa [IndexOps.paths] using bsearchTop_found_lt _ _ _ hg
    simp only [List.getElem?_eq_getElem hi]
    split <;> simp

theorem delete_no_crash (es : List Entry) (p : Bytes) : IndexOps.delete es p ≠ .crash := by
  unfold IndexOps.delete IndexOps.getEntry
  cases hg : bsearchTop (IndexOps.paths es) p with
  | crash => exact absurd hg (bsearchTop_no_crash _ _)
  | notFound => simp
  | found i => simp

theorem addOne_no_crash (H : HashFn) (idx : List Entry) (p d : Bytes) : Cmds.addOne H idx p d ≠ .crash := by
  unfold Cmds.addOne
  cases hu : IndexOps.update idx (Obj.id H .blob d) p with
  | crash => exact absurd hu (update_no_crash _ _ _)
  | err => simp [Res.map]
  | ok r => simp [Res.map]

theorem addFold_no_crash (H : HashFn) (fs : List (Bytes × Bytes)) (acc : Res (List Entry)) (ha : acc ≠ .crash) :
    fs.foldl (fun (acc : Res (List Entry)) f => acc.bind fun i => Cmds.addOne H i f.1 f.2) acc ≠ .crash := by
  induction fs generalizing acc with
  | nil => exact ha
  | cons f fs ih =>
    simp only [List.foldl_cons]
    apply ih
    cases acc with
    | crash => exact absurd rfl ha
    | err => simp [Res.bind]
    | ok i => simp only [Res.bind]; exact addOne_no_crash H i f.1 f.2

theorem addArgsP_no_crash (H : HashFn) (w : Cmds.WS) (args : List Bytes) (idx : List Entry) (bs : List Bytes) :
    (addArgsP H w args idx bs).crash = false := by
  induction args generalizing idx bs with
  | nil => rfl
  | cons a rest ih =>
    unfold addArgsP
    dsimp only
    split
    · exact ih _ _
    · split
      · cases hd : IndexOps.delete idx (Cmds.cleanPath a) with
        | ok i => exact ih _ _
        | err => rfl
        | crash => exact absurd hd (delete_no_crash _ _)
      · split
        · split
          · exact ih _ _
          · rfl
          · rename_i hc; exact absurd hc (addFold_no_crash H _ _ (by simp))
        · split
          · split
            · exact ih _ _
            · rfl
            · rename_i hc; exact absurd hc (addOne_no_crash H _ _ _)
          · rfl

theorem getBranchPos_no_crash (h : Refs.Heads) (n : Bytes) : Refs.getBranchPos h n ≠ .crash := bsearchTop_no_crash _ _

theorem refs_add_no_crash (h : Refs.Heads) (n id : Bytes) : Refs.add h n id ≠ .crash := by
  unfold Refs.add
  split
  · simp
  · cases hp : Refs.getBranchPos h n with
    | crash => exact absurd hp (getBranchPos_no_crash _ _)
    | found i => simp
    | notFound => simp

theorem refs_rename_no_crash (h : Refs.Heads) (c n : Bytes) : Refs.rename h c n ≠ .crash := by
  unfold Refs.rename
  split
  · simp
  · cases hp : Refs.getBranchPos h n with
    | crash => exact absurd hp (getBranchPos_no_crash _ _)
    | found i => simp
    | notFound =>
      simp only
      cases hq : Refs.getBranchPos h c with
      | crash => exact absurd hq (getBranchPos_no_crash _ _)
      | found i => simp
      | notFound => simp

theorem refs_delete_no_crash (h : Refs.Heads) (c d : Bytes) : Refs.delete h c d ≠ .crash := by
  unfold Refs.delete
  split
  · simp
  · cases hp : Refs.getBranchPos h d with
    | crash => exact absurd hp (getBranchPos_no_crash _ _)
    | found i => simp
    | notFound => simp

/-! ### the staged-changes report -/

theorem diffStep_no_crash (es : List Entry) (acc : Res (List IndexOps.DiffEntry)) (t : Entry) (ha : acc ≠ .crash) :
    IndexOps.diffStep es acc t ≠ .crash := by
  unfold IndexOps.diffStep
  cases acc with
  | crash => exact absurd rfl ha
  | err => simp [Res.bind]
  | ok l =>
    simp only [Res.bind]
    unfold IndexOps.getEntry
    cases hg : bsearchTop (IndexOps.paths es) t.path with
    | crash => exact absurd hg (bsearchTop_no_crash _ _)
    | notFound => simp
    | found i =>
      have hi : i < es.length := by simpa [IndexOps.paths] using bsearchTop_found_lt _ _ _ hg
      simp only [List.getElem?_eq_getElem hi]
      split <;> simp

theorem diffWithTree_no_crash (es : List Entry) (tree : List Node) : IndexOps.diffWithTree es tree ≠ .crash := by
  unfold IndexOps.diffWithTree
  have : ∀ (ts : List Entry) (acc : Res (List IndexOps.DiffEntry)), acc ≠ .crash → ts.foldl (IndexOps.diffStep es) acc ≠ .crash := by
    intro ts
    induction ts with
    | nil => intro acc ha; exact ha
    | cons t ts ih => intro acc ha; simp only [List.foldl_cons]; exact ih _ (diffStep_no_crash es acc t ha)
  have h := this (flattenTree tree) (.ok []) (by simp)
  cases hf : (flattenTree tree).foldl (IndexOps.diffStep es) (.ok []) with
  | crash => exact absurd hf h
  | err => simp [Res.map]
  | ok l => simp [Res.map]

theorem status_no_crash (H : HashFn) (w : Cmds.WS) : Cmds.status H w ≠ .crash := by
  unfold Cmds.status
  dsimp only
  cases hd : IndexOps.diffWithTree w.index (TreeBuild.build H (TreeBuild.fuelFor w.snap) w.snap) with
  | crash => exact absurd hd (diffWithTree_no_crash _ _)
  | err => simp
  | ok s => simp

theorem commitMake_no_crash (H : HashFn) (ci : Cmds.CommitIn) (n e : Bytes) : Cmds.commitMake H ci n e ≠ .crash := by
  unfold Cmds.commitMake; split <;> simp

theorem commitWith_no_crash (H : HashFn) (ci : Cmds.CommitIn) (loc glob : Config.Sections) : Cmds.commitWith H ci loc glob ≠ .crash := by
  intro h
  unfold Cmds.commitWith at h
  by_cases hu : Config.isUserSet loc glob = true
  · simp only [hu, Bool.not_true, Bool.false_eq_true, if_false] at h
    by_cases hb : ci.anyBranches = true
    · simp only [hb, Bool.not_true, Bool.false_eq_true, if_false] at h
      cases hsn : ci.snap with
      | none => simp only [hsn] at h; cases h
      | some sn =>
        simp only [hsn] at h
        cases hd : IndexOps.diffWithTree ci.index (TreeBuild.build H (TreeBuild.fuelFor sn) sn) with
        | err => simp only [hd] at h; cases h
        | crash => simp only [hd] at h; cases h
        | ok l =>
          cases l with
          | nil => simp only [hd] at h; cases h
          | cons d ds => simp only [hd] at h; exact commitMake_no_crash H ci _ _ h
    · simp only [Bool.not_eq_true] at hb
      simp only [hb, Bool.not_false, if_true] at h
      by_cases he : ci.index.isEmpty = true
      · simp only [he, if_true] at h; cases h
      · simp only [he, Bool.false_eq_true, if_false] at h; exact commitMake_no_crash H ci _ _ h
  · simp only [Bool.not_eq_true] at hu
    simp only [hu, Bool.not_false, if_true] at h
    cases h

theorem commitCmd_no_crash (H : HashFn) (ci : Cmds.CommitIn) : Cmds.commitCmd H ci ≠ .crash := by
  unfold Cmds.commitCmd
  cases h1 : Cmds.cfgOf ci.cfgLocal with
  | none => simp
  | some loc =>
    cases h2 : Cmds.cfgOf ci.cfgGlobal with
    | none => simp
    | some glob => simp only; exact commitWith_no_crash H ci loc glob

theorem configCmd_no_crash (f : Option Bytes) (k v : Bytes) : Cmds.configCmd f k v ≠ .crash := by
  unfold Cmds.configCmd
  repeat' split
  all_goals simp

end W
