import GoitProofs.Props.C03Conn
import GoitProofs.Props.C19
set_option linter.unusedSimpArgs false
set_option linter.unusedVariables false

/-! C18 on the whole-repository model: **no state and no invocation makes the model answer `crash`**.
    Every explicit crash outcome of the mechanisms (a binary search running out of range, an index taken
    from a search result, `hash.String()[:2]` of an empty id) is unreachable from `W.run`, whatever the
    repository looks like — sorted or not, connected or not, damaged or not. (States whose real counterpart
    panics for a reason the model does not carry — a stored commit without a `tree` line — are answered
    `unsupported`, not `ok`/`err`; they are listed in `World.lean`.) -/

namespace W

/-! ### the searches never leave their slice -/

theorem bsearch_no_crash (keys : List Bytes) (x : Bytes) (left right : Nat) (hr : right ≤ keys.length) :
    bsearch keys x left right ≠ .crash := by
  induction left, right using bsearch.induct keys x with
  | case1 l r hlt hnone =>
    have : keys[(l + r) / 2]? = none := hnone
    rw [List.getElem?_eq_none_iff] at this
    omega
  | case2 l r hlt hsome => rw [bsearch]; simp [hlt, hsome]
  | case3 l r hlt k hk hne hklt ih => rw [bsearch]; simp only [hlt, dif_pos, hk, hne, if_false, hklt, if_true]; exact ih hr
  | case4 l r hlt k hk hne hklt ih =>
    rw [bsearch]; simp only [hlt, dif_pos, hk, hne, if_false, hklt]
    have : keys[(l + r) / 2]? = some k := hk
    have hm : (l + r) / 2 < keys.length := by
      rcases List.getElem?_eq_some_iff.mp this with ⟨h, _⟩; exact h
    exact ih (by omega)
  | case5 l r hnlt => rw [bsearch]; simp [hnlt]

theorem bsearchTop_no_crash (keys : List Bytes) (x : Bytes) : bsearchTop keys x ≠ .crash := by
  unfold bsearchTop
  split
  · simp
  · exact bsearch_no_crash keys x 0 keys.length (Nat.le_refl _)

theorem bsearchTop_found_lt (keys : List Bytes) (x : Bytes) (i : Nat) (h : bsearchTop keys x = .found i) : i < keys.length := by
  unfold bsearchTop at h
  split at h
  · cases h
  · have := bsearch_sound keys x 0 keys.length i h
    rcases List.getElem?_eq_some_iff.mp this with ⟨hi, _⟩; exact hi

theorem update_no_crash (es : List Entry) (id p : Bytes) : IndexOps.update es id p ≠ .crash := by
  unfold IndexOps.update IndexOps.getEntry
  cases hg : bsearchTop (IndexOps.paths es) p with
  | crash => exact absurd hg (bsearchTop_no_crash _ _)
  | notFound => simp
  | found i =>
    have hi : i < es.length := by simpa [IndexOps.paths] using bsearchTop_found_lt _ _ _ hg
    simp only [List.getElem?_eq_getElem hi]
    split <;> simp

theorem delete_no_crash (es : List Entry) (p : Bytes) : IndexOps.delete es p ≠ .crash := by
  unfold IndexOps.delete IndexOps.getEntry
  cases hg : bsearchTop (IndexOps.paths es) p with
  | crash => exact absurd hg (bsearchTop_no_crash _ _)
  | notFound => simp
  | found i => simp

theorem addOne_no_crash (H : HashFn) (idx : List Entry) (p d : Bytes) : Cmds.addOne H idx p d ≠ .crash := by
  unfold Cmds.addOne
  cases hu : IndexOps.update idx (Obj.id H .blob d) p with
  | crash => exact absurd hu (update_no_crash _ _ _)
  | err => simp [Res.map]
  | ok r => simp [Res.map]

theorem addFold_no_crash (H : HashFn) (fs : List (Bytes × Bytes)) (acc : Res (List Entry)) (ha : acc ≠ .crash) :
    fs.foldl (fun (acc : Res (List Entry)) f => acc.bind fun i => Cmds.addOne H i f.1 f.2) acc ≠ .crash := by
  induction fs generalizing acc with
  | nil => exact ha
  | cons f fs ih =>
    simp only [List.foldl_cons]
    apply ih
    cases acc with
    | crash => exact absurd rfl ha
    | err => simp [Res.bind]
    | ok i => simp only [Res.bind]; exact addOne_no_crash H i f.1 f.2

theorem addArgsP_no_crash (H : HashFn) (w : Cmds.WS) (args : List Bytes) (idx : List Entry) (bs : List Bytes) :
    (addArgsP H w args idx bs).crash = false := by
  induction args generalizing idx bs with
  | nil => rfl
  | cons a rest ih =>
    unfold addArgsP
    dsimp only
    split
    · exact ih _ _
    · split
      · cases hd : IndexOps.delete idx (Cmds.cleanPath a) with
        | ok i => exact ih _ _
        | err => rfl
        | crash => exact absurd hd (delete_no_crash _ _)
      · split
        · split
          · exact ih _ _
          · rfl
          · rename_i hc; exact absurd hc (addFold_no_crash H _ _ (by simp))
        · split
          · split
            · exact ih _ _
            · rfl
            · rename_i hc; exact absurd hc (addOne_no_crash H _ _ _)
          · rfl

theorem getBranchPos_no_crash (h : Refs.Heads) (n : Bytes) : Refs.getBranchPos h n ≠ .crash := bsearchTop_no_crash _ _

theorem refs_add_no_crash (h : Refs.Heads) (n id : Bytes) : Refs.add h n id ≠ .crash := by
  unfold Refs.add
  split
  · simp
  · cases hp : Refs.getBranchPos h n with
    | crash => exact absurd hp (getBranchPos_no_crash _ _)
    | found i => simp
    | notFound => simp

theorem refs_rename_no_crash (h : Refs.Heads) (c n : Bytes) : Refs.rename h c n ≠ .crash := by
  unfold Refs.rename
  split
  · simp
  · cases hp : Refs.getBranchPos h n with
    | crash => exact absurd hp (getBranchPos_no_crash _ _)
    | found i => simp
    | notFound =>
      simp only
      cases hq : Refs.getBranchPos h c with
      | crash => exact absurd hq (getBranchPos_no_crash _ _)
      | found i => simp
      | notFound => simp

theorem refs_delete_no_crash (h : Refs.Heads) (c d : Bytes) : Refs.delete h c d ≠ .crash := by
  unfold Refs.delete
  split
  · simp
  · cases hp : Refs.getBranchPos h d with
    | crash => exact absurd hp (getBranchPos_no_crash _ _)
    | found i => simp
    | notFound => simp

/-! ### the staged-changes report -/

theorem diffStep_no_crash (es : List Entry) (acc : Res (List IndexOps.DiffEntry)) (t : Entry) (ha : acc ≠ .crash) :
    IndexOps.diffStep es acc t ≠ .crash := by
  unfold IndexOps.diffStep
  cases acc with
  | crash => exact absurd rfl ha
  | err => simp [Res.bind]
  | ok l =>
    simp only [Res.bind]
    unfold IndexOps.getEntry
    cases hg : bsearchTop (IndexOps.paths es) t.path with
    | crash => exact absurd hg (bsearchTop_no_crash _ _)
    | notFound => simp
    | found i =>
      have hi : i < es.length := by simpa [IndexOps.paths] using bsearchTop_found_lt _ _ _ hg
      simp only [List.getElem?_eq_getElem hi]
      split <;> simp

theorem diffWithTree_no_crash (es : List Entry) (tree : List Node) : IndexOps.diffWithTree es tree ≠ .crash := by
  unfold IndexOps.diffWithTree
  have : ∀ (ts : List Entry) (acc : Res (List IndexOps.DiffEntry)), acc ≠ .crash → ts.foldl (IndexOps.diffStep es) acc ≠ .crash := by
    intro ts
    induction ts with
    | nil => intro acc ha; exact ha
    | cons t ts ih => intro acc ha; simp only [List.foldl_cons]; exact ih _ (diffStep_no_crash es acc t ha)
  have h := this (flattenTree tree) (.ok []) (by simp)
  cases hf : (flattenTree tree).foldl (IndexOps.diffStep es) (.ok []) with
  | crash => exact absurd hf h
  | err => simp [Res.map]
  | ok l => simp [Res.map]

theorem status_no_crash (H : HashFn) (w : Cmds.WS) : Cmds.status H w ≠ .crash := by
  unfold Cmds.status
  dsimp only
  cases hd : IndexOps.diffWithTree w.index (TreeBuild.build H (TreeBuild.fuelFor w.snap) w.snap) with
  | crash => exact absurd hd (diffWithTree_no_crash _ _)
  | err => simp
  | ok s => simp

theorem commitMake_no_crash (H : HashFn) (ci : Cmds.CommitIn) (n e : Bytes) : Cmds.commitMake H ci n e ≠ .crash := by
  unfold Cmds.commitMake; split <;> simp

theorem commitWith_no_crash (H : HashFn) (ci : Cmds.CommitIn) (loc glob : Config.Sections) : Cmds.commitWith H ci loc glob ≠ .crash := by
  intro h
  unfold Cmds.commitWith at h
  by_cases hu : Config.isUserSet loc glob = true
  · simp only [hu, Bool.not_true, Bool.false_eq_true, if_false] at h
    by_cases hb : ci.anyBranches = true
    · simp only [hb, Bool.not_true, Bool.false_eq_true, if_false] at h
      cases hsn : ci.snap with
      | none => simp only [hsn] at h; cases h
      | some sn =>
        simp only [hsn] at h
        cases hd : IndexOps.diffWithTree ci.index (TreeBuild.build H (TreeBuild.fuelFor sn) sn) with
        | err => simp only [hd] at h; cases h
        | crash => simp only [hd] at h; cases h
        | ok l =>
          cases l with
          | nil => simp only [hd] at h; cases h
          | cons d ds => simp only [hd] at h; exact commitMake_no_crash H ci _ _ h
    · simp only [Bool.not_eq_true] at hb
      simp only [hb, Bool.not_false, if_true] at h
      by_cases he : ci.index.isEmpty = true
      · simp only [he, if_true] at h; cases h
      · simp only [he, Bool.false_eq_true, if_false] at h; exact commitMake_no_crash H ci _ _ h
  · simp only [Bool.not_eq_true] at hu
    simp only [hu, Bool.not_false, if_true] at h
    cases h

theorem commitCmd_no_crash (H : HashFn) (ci : Cmds.CommitIn) : Cmds.commitCmd H ci ≠ .crash := by
  unfold Cmds.commitCmd
  cases h1 : Cmds.cfgOf ci.cfgLocal with
  | none => simp
  | some loc =>
    cases h2 : Cmds.cfgOf ci.cfgGlobal with
    | none => simp
    | some glob => simp only; exact commitWith_no_crash H ci loc glob

theorem configCmd_no_crash (f : Option Bytes) (k v : Bytes) : Cmds.configCmd f k v ≠ .crash := by
  unfold Cmds.configCmd
  repeat' split
  all_goals simp

/-! ### ids that come out of `ReadHash` are never empty (so `hash.String()[:2]` never slices an empty string) -/

theorem hexrun_len (need run : Nat) (s : Bytes) (h : hasLowerHexRun need run s = true) : need ≤ run + s.length := by
  induction s generalizing run with
  | nil => simp [hasLowerHexRun] at h; omega
  | cons c cs ih =>
    unfold hasLowerHexRun at h
    split at h
    · simp; omega
    · split at h
      · have := ih (run + 1) h; simp; omega
      · have := ih 0 h; simp; omega

theorem decode_len : ∀ (s b : Bytes), Hex.decode? s = some b → b.length * 2 = s.length
  | [], b, h => by simp [Hex.decode?] at h; subst h; rfl
  | [_], b, h => by simp [Hex.decode?] at h
  | a :: c :: rest, b, h => by
    unfold Hex.decode? at h
    split at h
    · rename_i x y r hx hy hr
      injection h with h; subst h
      have := decode_len rest r hr
      simp; omega
    · cases h

theorem readHash_ne_nil (s id : Bytes) (h : readHash s = some id) : id ≠ [] := by
  unfold readHash at h
  split at h
  · rename_i hr
    have h1 := hexrun_len 40 0 s hr
    have h2 := decode_len s id h
    intro e; subst e; simp at h2; omega
  · cases h

theorem get_no_crash (H : HashFn) (st : Store) (id : Bytes) (h : id ≠ []) : Store.get H st id ≠ .crash := by
  intro hc; exact h ((C19.get_crash_iff H st id).mp hc)

/-- every parent id of a parsed commit is non-empty -/
theorem header_parents (c : Commit) (ls : List Bytes) (c' : Commit) (rest : List Bytes)
    (hc : ∀ p ∈ c.parents, p ≠ []) (h : Commit.header c ls = some (c', rest)) : ∀ p ∈ c'.parents, p ≠ [] := by
  induction ls generalizing c with
  | nil => simp [Commit.header] at h; rw [← h.1]; exact hc
  | cons l ls ih =>
    unfold Commit.header at h
    split at h
    · simp at h; rw [← h.1]; exact hc
    · split at h
      · split at h
        · exact ih _ (by simpa using hc) h
        · cases h
      · split at h
        · split at h
          · rename_i hh hr
            apply ih _ _ h
            intro p hp
            simp only [List.mem_append, List.mem_singleton] at hp
            rcases hp with hp | hp
            · exact hc p hp
            · subst hp; exact readHash_ne_nil _ _ hr
          · cases h
        · split at h
          · split at h
            · exact ih _ (by simpa using hc) h
            · cases h
          · split at h
            · split at h
              · exact ih _ (by simpa using hc) h
              · cases h
            · exact ih _ hc h

theorem parse_parents (data : Bytes) (c : Commit) (h : Commit.parse data = some c) : ∀ p ∈ c.parents, p ≠ [] := by
  unfold Commit.parse at h
  split at h
  · cases h
  · rename_i c0 rest hh
    injection h with h
    rw [← h]
    exact header_parents {} _ c0 rest (by simp) hh

theorem walk_no_crash (H : HashFn) (st : Store) (k : Nat) (queue visited : List Bytes) (hq : ∀ p ∈ queue, p ≠ []) :
    History.walk H st k queue visited ≠ .crash := by
  induction k generalizing queue visited with
  | zero => simp [History.walk]
  | succ k ih =>
    cases queue with
    | nil => simp [History.walk]
    | cons cur queue =>
      unfold History.walk
      split
      · exact ih _ _ (fun p hp => hq p (List.mem_cons_of_mem _ hp))
      · cases hg : Store.get H st cur with
        | crash => exact absurd hg (get_no_crash H st cur (hq cur List.mem_cons_self))
        | err => simp
        | ok kd =>
          obtain ⟨kind, data⟩ := kd
          dsimp only
          split
          · simp
          · cases hp : Commit.parse data with
            | none => simp
            | some c =>
              dsimp only
              have := ih (queue ++ c.parents) (cur :: visited) (by
                intro p hp'
                simp only [List.mem_append] at hp'
                rcases hp' with h1 | h1
                · exact hq p (List.mem_cons_of_mem _ h1)
                · exact parse_parents data c hp p h1)
              cases hw : History.walk H st k (queue ++ c.parents) (cur :: visited) with
              | crash => exact absurd hw this
              | err => simp
              | ok r => simp

theorem load_head_ne_nil (H : HashFn) (w : World) (l : Loaded) (hl : load H w = some l) (id : Bytes) (c : Commit)
    (hc : l.headCommit = some (id, c)) : id ≠ [] := by
  obtain ⟨_, raw, _, hr⟩ := load_headCommit H w l hl id c hc
  exact readHash_ne_nil raw id hr

/-! ### no invocation crashes -/

macro "nocrash_by " f:ident : tactic => `(tactic| (
  unfold $f
  try dsimp only
  repeat' split
  all_goals first
    | (intro h; cases h; done)
    | (rename_i hx; exact absurd hx (refs_add_no_crash _ _ _))
    | (rename_i hx; exact absurd hx (refs_rename_no_crash _ _ _))
    | (rename_i hx; exact absurd hx (refs_delete_no_crash _ _ _))
    | (rename_i hx; exact absurd hx (commitCmd_no_crash _ _))
    | (rename_i hx; exact absurd hx (configCmd_no_crash _ _ _))
    | (rename_i hx _; exact absurd hx (refs_rename_no_crash _ _ _))))

theorem branchCreate_nc (w l n tz ts) : (branchCreate w l n tz ts).2 ≠ .crash := by nocrash_by branchCreate
theorem branchRename_nc (w l r tz ts) : (branchRename w l r tz ts).2 ≠ .crash := by nocrash_by branchRename
theorem branchDelete_nc (w l d) : (branchDelete w l d).2 ≠ .crash := by nocrash_by branchDelete
theorem switchTo_nc (H) (w l n tz ts) : (switchTo H w l n tz ts).2 ≠ .crash := by nocrash_by switchTo
theorem switchCreate_nc (w l c tz ts) : (switchCreate w l c tz ts).2 ≠ .crash := by nocrash_by switchCreate
theorem updateRefTo_nc (w l b id d) : (updateRefTo w l b id d).2 ≠ .crash := by nocrash_by updateRefTo
theorem resetTo_nc (H) (w l s h arg t prev tz ts) : (resetTo H w l s h arg t prev tz ts).2 ≠ .crash := by nocrash_by resetTo
theorem commitWrite_nc (H) (w l id data msg tz ts) : (commitWrite H w l id data msg tz ts).2 ≠ .crash := by nocrash_by commitWrite
theorem configCmd_nc (w g args) : (configCmd w g args).2 ≠ .crash := by nocrash_by configCmd
theorem initCmd_nc (w) : (initCmd w).2 ≠ .crash := by nocrash_by initCmd
theorem rmCmd_nc (w l args) : (rmCmd w l args).2 ≠ .crash := by nocrash_by rmCmd

theorem addCmd_nc (H) (w l args) : (addCmd H w l args).2 ≠ .crash := by
  unfold addCmd
  dsimp only
  repeat' split
  all_goals first
    | (intro h; cases h; done)
    | (rename_i hc; rw [addArgsP_no_crash] at hc; cases hc)

theorem restoreWorkP_nc (H idx) : ∀ (w : World) (args : List Bytes), (restoreWorkP H idx w args).2 ≠ .crash
  | w, [] => by simp [restoreWorkP]
  | w, a :: rest => by
    unfold restoreWorkP
    dsimp only
    split
    · intro h; cases h
    · split
      · exact restoreWorkP_nc H idx _ rest
      · intro h; cases h
      · intro h; cases h

theorem restoreCmd_nc (H) (w l st args) : (restoreCmd H w l st args).2 ≠ .crash := by
  unfold restoreCmd
  dsimp only
  repeat' split
  all_goals first | (intro h; cases h; done) | exact restoreWorkP_nc H _ _ _

theorem commitCmd_nc (H) (w l msg tz ts) : (commitCmd H w l msg tz ts).2 ≠ .crash := by
  unfold commitCmd
  dsimp only
  repeat' split
  all_goals first
    | (intro h; cases h; done)
    | exact commitWrite_nc H w l _ _ msg tz ts
    | (rename_i hx; exact absurd hx (commitCmd_no_crash _ _))

theorem branchCmd_nc (w l args list ren del tz ts) : (branchCmd w l args list ren del tz ts).2 ≠ .crash := by
  unfold branchCmd
  dsimp only
  repeat' split
  all_goals first
    | (intro h; cases h; done) | exact branchCreate_nc _ _ _ _ _ | exact branchRename_nc _ _ _ _ _ | exact branchDelete_nc _ _ _

theorem switchCmd_nc (H) (w l args c tz ts) : (switchCmd H w l args c tz ts).2 ≠ .crash := by
  unfold switchCmd
  repeat' split
  all_goals first | (intro h; cases h; done) | exact switchTo_nc H _ _ _ _ _ | exact switchCreate_nc _ _ _ _ _

theorem updateRefCmd_nc (H) (w l args) : (updateRefCmd H w l args).2 ≠ .crash := by
  unfold updateRefCmd
  repeat' split
  all_goals first | (intro h; cases h; done) | exact updateRefTo_nc _ _ _ _ _

theorem resetCmd_nc (H) (w l s m h args tz ts) : (resetCmd H w l s m h args tz ts).2 ≠ .crash := by
  unfold resetCmd
  repeat' split
  all_goals first | (intro h; cases h; done) | exact resetTo_nc H _ _ _ _ _ _ _ _ _

theorem catFileCmd_nc (H) (w t p args) : catFileCmd H w t p args ≠ .crash := by
  unfold catFileCmd
  repeat' split
  all_goals first
    | (intro h; cases h; done)
    | (rename_i hr _ _ hg; exact absurd hg (get_no_crash H _ _ (readHash_ne_nil _ _ hr)))
    | (rename_i hr _ hg; exact absurd hg (get_no_crash H _ _ (readHash_ne_nil _ _ hr)))
    | (rename_i hr _ _ _ hg; exact absurd hg (get_no_crash H _ _ (readHash_ne_nil _ _ hr)))

theorem hashObjectCmd_nc (H) (w : World) : ∀ (args : List Bytes) (acc : Bytes), hashObjectCmd H w args acc ≠ .crash
  | [], acc => by simp [hashObjectCmd]
  | a :: rest, acc => by
    unfold hashObjectCmd
    repeat' split
    all_goals first | (intro h; cases h; done) | exact hashObjectCmd_nc H w rest _

theorem revParseCmd_nc (w : World) (l : Loaded) : ∀ (args : List Bytes) (acc : Bytes), revParseCmd w l args acc ≠ .crash
  | [], acc => by simp [revParseCmd]
  | a :: rest, acc => by
    unfold revParseCmd
    repeat' split
    all_goals first | (intro h; cases h; done) | exact revParseCmd_nc w l rest _

theorem logCmd_nc (H : HashFn) (w : World) (l : Loaded) (hl : load H w = some l) (hn : ¬ l.headCommit.isNone = true) (anyB : Bool) (k : Int) :
    Cmds.logCmd H (store w) anyB ((l.headCommit.map (·.1)).getD []) k ≠ .crash := by
  cases hc : l.headCommit with
  | none => rw [hc] at hn; simp at hn
  | some ic =>
    obtain ⟨id, c⟩ := ic
    have hne := load_head_ne_nil H w l hl id c hc
    unfold Cmds.logCmd History.log
    split
    · intro h; cases h
    · simp only [Option.map_some, Option.getD_some]
      have := walk_no_crash H (store w) k.toNat [id] [] (by intro p hp; simp at hp; subst hp; exact hne)
      cases hw : History.walk H (store w) k.toNat [id] [] with
      | crash => exact absurd hw this
      | err => simp [Res.map]
      | ok r => simp [Res.map]

/-- **No invocation crashes, in any state.** -/
theorem run_never_crashes (H : HashFn) (w : World) (i : Inv) : (run H w i).2 ≠ .crash := by
  obtain ⟨cmd, tz, ts⟩ := i
  unfold run
  dsimp only
  repeat' split
  all_goals first
    | (intro h; cases h; done)
    | exact initCmd_nc _ | exact addCmd_nc H _ _ _ | exact rmCmd_nc _ _ _ | exact commitCmd_nc H _ _ _ _ _
    | exact branchCmd_nc _ _ _ _ _ _ _ _ | exact switchCmd_nc H _ _ _ _ _ _ | exact resetCmd_nc H _ _ _ _ _ _ _ _
    | exact restoreCmd_nc H _ _ _ _ | exact updateRefCmd_nc H _ _ _ | exact configCmd_nc _ _ _
    | exact catFileCmd_nc H _ _ _ _ | exact hashObjectCmd_nc H _ _ _ | exact revParseCmd_nc _ _ _ _
    | (rename_i hx; exact absurd hx (status_no_crash H _))
    | (rename_i hl _ _ _ _ hx hn; exact absurd hx (logCmd_nc H w _ hl hn _ _))

end W

namespace C18

/-- **No sub-command crashes on any state whatsoever** (whole-repository model): the answer of `W.run` is never
    `crash` — not only on the states Goit produces, but on every repository content: unsorted or duplicate
    staging entries, branch files in any order, dangling references, damaged objects. The out-of-range and
    empty-id panics of the mechanisms are unreachable from the commands. -/
theorem world_never_crashes (H : HashFn) (w : W.World) (i : W.Inv) : (W.run H w i).2 ≠ .crash :=
  W.run_never_crashes H w i

/-- and so along every history -/
theorem world_history_never_crashes (H : HashFn) (w : W.World) (is : List W.Inv) (i : W.Inv) :
    (W.run H (W.runAll H w is) i).2 ≠ .crash := W.run_never_crashes H _ i

end C18
