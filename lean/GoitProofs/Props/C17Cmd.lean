import GoitProofs.Props.C04Add
import GoitProofs.Props.C17

/-! # C17 at command level: no form of `add` stages a path inside Goit's own directory

On the command model `Cmds.add` (compared with the real `add` on every add of the generated histories,
including arguments that name `.goit`, files inside it and non-normalised spellings of them). -/

namespace C17

open IndexOps C06 Cmds C04

/-- a path inside Goit's metadata directory (or the directory itself) -/
def IsMeta (p : Bytes) : Prop := p = asc ".goit" ∨ Bytes.hasPrefix p (asc ".goit/") = true

theorem hasPrefix_append_right (p q r : Bytes) (h : Bytes.hasPrefix p q = true) : Bytes.hasPrefix (p ++ r) q = true := by
  induction p generalizing q with
  | nil =>
    cases q with
    | nil => cases r <;> simp [Bytes.hasPrefix]
    | cons b bs => simp [Bytes.hasPrefix] at h
  | cons a as ih =>
    cases q with
    | nil => simp [Bytes.hasPrefix]
    | cons b bs =>
      simp only [Bytes.hasPrefix, Bool.and_eq_true] at h
      simp only [List.cons_append, Bytes.hasPrefix, Bool.and_eq_true]
      exact ⟨h.1, ih bs h.2⟩

/-- **Goit's own directory is always ignored**, whatever `.goitignore` says and whatever is on disk or staged -/
theorem ignored_meta (w : WS) (p : Bytes) (h : IsMeta p) : ignored w p = true := by
  unfold ignored
  simp only
  rcases h with h | h
  · subst h
    have hex : existsOnDisk w (asc ".goit") = true := by simp [existsOnDisk, isDirOnDisk]
    have hd : isDirOnDisk w (asc ".goit") = true := by simp [isDirOnDisk]
    have hno : List.elem (47 : UInt8) (asc ".goit") = false := by decide
    simp only [Ignore.target, hex, hd, hno, Bool.not_true, Bool.false_eq_true, if_false, Bool.not_false, Bool.and_self, if_true]
    exact meta_always _ []
  · have h1 : Ignore.isMeta (Ignore.target p (existsOnDisk w p) (isDirOnDisk w p) (IndexOps.isDir w.index p)) = true := by
      unfold Ignore.target Ignore.isMeta Ignore.metaPrefix
      split
      · split
        · exact hasPrefix_append_right _ _ _ h
        · exact h
      · split
        · exact hasPrefix_append_right _ _ _ h
        · exact h
    simp [Ignore.matchesTarget, h1]

def NoMeta (idx : List Entry) : Prop := ∀ e ∈ idx, ¬ IsMeta e.path

/-- **No form of `add` ever stages a path inside the metadata directory**: if the staging area holds none
    before, it holds none after `add args` — for a file argument, a directory argument, `.`, the ignored
    path itself, in any spelling (the argument is cleaned first), for every work tree and `.goitignore`. -/
theorem addArgs_no_meta (H : HashFn) (w : WS) (args : List Bytes) (idx : List Entry) (hs : Canonical idx)
    (hn : NoMeta idx) (idx' : List Entry) (h : addArgs H w args idx = .ok idx') : NoMeta idx' := by
  induction args generalizing idx with
  | nil =>
    simp only [addArgs, Res.ok.injEq] at h
    subst h; exact hn
  | cons a rest ih =>
    simp only [addArgs] at h
    by_cases hig : ignored { w with index := idx } (cleanPath a) = true
    · rw [if_pos hig] at h
      exact ih idx hs hn h
    · rw [if_neg hig] at h
      have hnm : ¬ IsMeta (cleanPath a) := fun hm => hig (ignored_meta _ _ hm)
      by_cases hex : (!existsOnDisk w (cleanPath a)) = true
      · rw [if_pos hex] at h
        cases hd : IndexOps.delete idx (cleanPath a) with
        | crash => simp [hd] at h
        | err => simp [hd] at h
        | ok idx1 =>
          simp only [hd] at h
          obtain ⟨hc1, hfr1⟩ := delete_frame idx hs _ idx1 hd
          refine ih idx1 hc1 ?_ h
          intro e he hm
          have hne : e.path ≠ cleanPath a := fun hp => hnm (hp ▸ hm)
          exact hn e ((hfr1 e hne).1 he) hm
      · rw [if_neg hex] at h
        by_cases hdir : isDirOnDisk w (cleanPath a) = true
        · rw [if_pos hdir] at h
          obtain ⟨idx1, hf, hc1, hfr1⟩ := addFold_spec H
            ((filesUnder w (cleanPath a)).filter fun f => !ignored { w with index := idx } f.1) idx hs
          simp only [hf] at h
          refine ih idx1 hc1 ?_ h
          intro e he hm
          by_cases hin : ∀ f ∈ (filesUnder w (cleanPath a)).filter (fun f => !ignored { w with index := idx } f.1), e.path ≠ f.1
          · exact hn e ((hfr1 e hin).1 he) hm
          · apply hin
            intro f hf' hp
            have := (List.mem_filter.1 hf').2
            rw [← hp, ignored_meta _ _ hm] at this
            cases this
        · rw [if_neg hdir] at h
          cases hfa : fileAt w (cleanPath a) with
          | none => simp [hfa] at h
          | some data =>
            simp only [hfa] at h
            obtain ⟨idx1, h1, hc1, _, hfr1⟩ := addOne_spec H idx hs (cleanPath a) data
            simp only [h1] at h
            refine ih idx1 hc1 ?_ h
            intro e he hm
            have hne : e.path ≠ cleanPath a := fun hp => hnm (hp ▸ hm)
            exact hn e ((hfr1 e hne).1 he) hm

/-- an argument naming the metadata directory or anything inside it (in any spelling) is skipped -/
theorem add_skips_meta_arg (H : HashFn) (w : WS) (a : Bytes) (rest : List Bytes) (idx : List Entry)
    (hm : IsMeta (cleanPath a)) : addArgs H w (a :: rest) idx = addArgs H w rest idx := by
  simp only [addArgs, ignored_meta _ _ hm, if_true]

example : IsMeta (cleanPath (asc "./.goit/HEAD")) ∧ IsMeta (cleanPath (asc ".goit/")) ∧ IsMeta (cleanPath (asc ".//.goit//refs/heads/main/")) := by
  refine ⟨Or.inr ?_, Or.inl ?_, Or.inr ?_⟩ <;> decide +kernel

end C17
