import GoitProofs.Lemmas.WorldFrame
set_option linter.unusedSimpArgs false

/-! Frame table of the whole-repository model: which stores a sub-command can modify **at all**, in any state,
    whether it succeeds, is refused or fails half-way. Everything outside the table is proved unchanged
    (`W.frame`); the property-level corollaries are the frame clauses of C02 (commit touches neither the
    staging area nor the working tree), C04/C09 (add/rm/restore leave branches, HEAD, logs and configuration
    alone; add never writes a work file), C10 (commands that do not name a branch change no branch), C18
    (read-only commands change nothing), C20 (only `config` and `init` write configuration). -/

namespace W

inductive Field where
  | inited | objs | heads | head | index | logHead | logHeads | cfgLocal | cfgGlobal | files | dirs
deriving DecidableEq, Repr

def fieldEq : Field → World → World → Prop
  | .inited, w, w' => w'.inited = w.inited
  | .objs, w, w' => w'.objs = w.objs
  | .heads, w, w' => w'.heads = w.heads
  | .head, w, w' => w'.head = w.head
  | .index, w, w' => w'.index = w.index
  | .logHead, w, w' => w'.logHead = w.logHead
  | .logHeads, w, w' => w'.logHeads = w.logHeads
  | .cfgLocal, w, w' => w'.cfgLocal = w.cfgLocal
  | .cfgGlobal, w, w' => w'.cfgGlobal = w.cfgGlobal
  | .files, w, w' => w'.files = w.files
  | .dirs, w, w' => w'.dirs = w.dirs

open Field in
/-- the stores each sub-command may modify -/
def mayTouch : Cmd → List Field
  | .init => [inited, head, cfgLocal]
  | .add _ => [objs, index]
  | .rm _ => [index, files]
  | .commit _ => [objs, heads, head, logHead, logHeads]
  | .branch _ _ _ _ => [heads, head, logHead, logHeads]
  | .switch _ _ => [heads, head, logHead, logHeads]
  | .reset _ _ _ _ => [heads, logHead, logHeads, index, files, dirs]
  | .restore false _ => [files, dirs]
  | .restore true _ => [index]
  | .updateRef _ => [heads, head]
  | .config false _ => [cfgLocal]
  | .config true _ => [cfgLocal, cfgGlobal]
  | .writeTree => [objs]
  | .status | .log _ | .reflog | .lsFiles _ | .catFile _ _ _ | .hashObject _ | .revParse _ => []

macro "frame_by " f:ident : tactic => `(tactic| (
  unfold $f
  try unfold branchCreate
  try unfold branchRename
  try unfold branchDelete
  try unfold switchTo
  try unfold switchCreate
  try unfold updateRefTo
  try unfold resetTo
  try unfold commitWrite
  try dsimp only
  try simp only [Bool.not_false, Bool.not_true, Bool.false_eq_true, if_false, if_true]
  repeat' split
  all_goals first | rfl | (simp_all [setHead, appendLogHead, appendLogBranch, writeFile, putObj_inited', putObjs_inited', putBlobs_inited', writeEntries_inited', restoreWorkP_inited', setIndexIfChanged_inited', writeEntries_objs', restoreWorkP_objs', setIndexIfChanged_objs', putObj_heads', putObjs_heads', putBlobs_heads', writeEntries_heads', restoreWorkP_heads', setIndexIfChanged_heads', putObj_head', putObjs_head', putBlobs_head', writeEntries_head', restoreWorkP_head', setIndexIfChanged_head', putObj_index', putObjs_index', putBlobs_index', writeEntries_index', restoreWorkP_index', putObj_logHead', putObjs_logHead', putBlobs_logHead', writeEntries_logHead', restoreWorkP_logHead', setIndexIfChanged_logHead', putObj_logHeads', putObjs_logHeads', putBlobs_logHeads', writeEntries_logHeads', restoreWorkP_logHeads', setIndexIfChanged_logHeads', putObj_cfgLocal', putObjs_cfgLocal', putBlobs_cfgLocal', writeEntries_cfgLocal', restoreWorkP_cfgLocal', setIndexIfChanged_cfgLocal', putObj_cfgGlobal', putObjs_cfgGlobal', putBlobs_cfgGlobal', writeEntries_cfgGlobal', restoreWorkP_cfgGlobal', setIndexIfChanged_cfgGlobal', putObj_files', putObjs_files', putBlobs_files', setIndexIfChanged_files', putObj_dirs', putObjs_dirs', putBlobs_dirs', setIndexIfChanged_dirs'])))
theorem addCmd_inited (H) (w l args) : (addCmd H w l args).1.inited = w.inited := by frame_by addCmd
theorem addCmd_heads (H) (w l args) : (addCmd H w l args).1.heads = w.heads := by frame_by addCmd
theorem addCmd_head (H) (w l args) : (addCmd H w l args).1.head = w.head := by frame_by addCmd
theorem addCmd_logHead (H) (w l args) : (addCmd H w l args).1.logHead = w.logHead := by frame_by addCmd
theorem addCmd_logHeads (H) (w l args) : (addCmd H w l args).1.logHeads = w.logHeads := by frame_by addCmd
theorem addCmd_cfgLocal (H) (w l args) : (addCmd H w l args).1.cfgLocal = w.cfgLocal := by frame_by addCmd
theorem addCmd_cfgGlobal (H) (w l args) : (addCmd H w l args).1.cfgGlobal = w.cfgGlobal := by frame_by addCmd
theorem addCmd_files (H) (w l args) : (addCmd H w l args).1.files = w.files := by frame_by addCmd
theorem addCmd_dirs (H) (w l args) : (addCmd H w l args).1.dirs = w.dirs := by frame_by addCmd
theorem rmCmd_inited (w l args) : (rmCmd w l args).1.inited = w.inited := by frame_by rmCmd
theorem rmCmd_objs (w l args) : (rmCmd w l args).1.objs = w.objs := by frame_by rmCmd
theorem rmCmd_heads (w l args) : (rmCmd w l args).1.heads = w.heads := by frame_by rmCmd
theorem rmCmd_head (w l args) : (rmCmd w l args).1.head = w.head := by frame_by rmCmd
theorem rmCmd_logHead (w l args) : (rmCmd w l args).1.logHead = w.logHead := by frame_by rmCmd
theorem rmCmd_logHeads (w l args) : (rmCmd w l args).1.logHeads = w.logHeads := by frame_by rmCmd
theorem rmCmd_cfgLocal (w l args) : (rmCmd w l args).1.cfgLocal = w.cfgLocal := by frame_by rmCmd
theorem rmCmd_cfgGlobal (w l args) : (rmCmd w l args).1.cfgGlobal = w.cfgGlobal := by frame_by rmCmd
theorem rmCmd_dirs (w l args) : (rmCmd w l args).1.dirs = w.dirs := by frame_by rmCmd
theorem commitCmd_inited (H) (w l msg tz ts) : (commitCmd H w l msg tz ts).1.inited = w.inited := by frame_by commitCmd
theorem commitCmd_index (H) (w l msg tz ts) : (commitCmd H w l msg tz ts).1.index = w.index := by frame_by commitCmd
theorem commitCmd_cfgLocal (H) (w l msg tz ts) : (commitCmd H w l msg tz ts).1.cfgLocal = w.cfgLocal := by frame_by commitCmd
theorem commitCmd_cfgGlobal (H) (w l msg tz ts) : (commitCmd H w l msg tz ts).1.cfgGlobal = w.cfgGlobal := by frame_by commitCmd
theorem commitCmd_files (H) (w l msg tz ts) : (commitCmd H w l msg tz ts).1.files = w.files := by frame_by commitCmd
theorem commitCmd_dirs (H) (w l msg tz ts) : (commitCmd H w l msg tz ts).1.dirs = w.dirs := by frame_by commitCmd
theorem branchCmd_inited (w l args list ren del tz ts) : (branchCmd w l args list ren del tz ts).1.inited = w.inited := by frame_by branchCmd
theorem branchCmd_objs (w l args list ren del tz ts) : (branchCmd w l args list ren del tz ts).1.objs = w.objs := by frame_by branchCmd
theorem branchCmd_index (w l args list ren del tz ts) : (branchCmd w l args list ren del tz ts).1.index = w.index := by frame_by branchCmd
theorem branchCmd_cfgLocal (w l args list ren del tz ts) : (branchCmd w l args list ren del tz ts).1.cfgLocal = w.cfgLocal := by frame_by branchCmd
theorem branchCmd_cfgGlobal (w l args list ren del tz ts) : (branchCmd w l args list ren del tz ts).1.cfgGlobal = w.cfgGlobal := by frame_by branchCmd
theorem branchCmd_files (w l args list ren del tz ts) : (branchCmd w l args list ren del tz ts).1.files = w.files := by frame_by branchCmd
theorem branchCmd_dirs (w l args list ren del tz ts) : (branchCmd w l args list ren del tz ts).1.dirs = w.dirs := by frame_by branchCmd
theorem switchCmd_inited (H) (w l args create tz ts) : (switchCmd H w l args create tz ts).1.inited = w.inited := by frame_by switchCmd
theorem switchCmd_objs (H) (w l args create tz ts) : (switchCmd H w l args create tz ts).1.objs = w.objs := by frame_by switchCmd
theorem switchCmd_index (H) (w l args create tz ts) : (switchCmd H w l args create tz ts).1.index = w.index := by frame_by switchCmd
theorem switchCmd_cfgLocal (H) (w l args create tz ts) : (switchCmd H w l args create tz ts).1.cfgLocal = w.cfgLocal := by frame_by switchCmd
theorem switchCmd_cfgGlobal (H) (w l args create tz ts) : (switchCmd H w l args create tz ts).1.cfgGlobal = w.cfgGlobal := by frame_by switchCmd
theorem switchCmd_files (H) (w l args create tz ts) : (switchCmd H w l args create tz ts).1.files = w.files := by frame_by switchCmd
theorem switchCmd_dirs (H) (w l args create tz ts) : (switchCmd H w l args create tz ts).1.dirs = w.dirs := by frame_by switchCmd
theorem resetCmd_inited (H) (w l s m h args tz ts) : (resetCmd H w l s m h args tz ts).1.inited = w.inited := by frame_by resetCmd
theorem resetCmd_objs (H) (w l s m h args tz ts) : (resetCmd H w l s m h args tz ts).1.objs = w.objs := by frame_by resetCmd
theorem resetCmd_head (H) (w l s m h args tz ts) : (resetCmd H w l s m h args tz ts).1.head = w.head := by frame_by resetCmd
theorem resetCmd_cfgLocal (H) (w l s m h args tz ts) : (resetCmd H w l s m h args tz ts).1.cfgLocal = w.cfgLocal := by frame_by resetCmd
theorem resetCmd_cfgGlobal (H) (w l s m h args tz ts) : (resetCmd H w l s m h args tz ts).1.cfgGlobal = w.cfgGlobal := by frame_by resetCmd
theorem updateRefCmd_inited (H) (w l args) : (updateRefCmd H w l args).1.inited = w.inited := by frame_by updateRefCmd
theorem updateRefCmd_objs (H) (w l args) : (updateRefCmd H w l args).1.objs = w.objs := by frame_by updateRefCmd
theorem updateRefCmd_index (H) (w l args) : (updateRefCmd H w l args).1.index = w.index := by frame_by updateRefCmd
theorem updateRefCmd_logHead (H) (w l args) : (updateRefCmd H w l args).1.logHead = w.logHead := by frame_by updateRefCmd
theorem updateRefCmd_logHeads (H) (w l args) : (updateRefCmd H w l args).1.logHeads = w.logHeads := by frame_by updateRefCmd
theorem updateRefCmd_cfgLocal (H) (w l args) : (updateRefCmd H w l args).1.cfgLocal = w.cfgLocal := by frame_by updateRefCmd
theorem updateRefCmd_cfgGlobal (H) (w l args) : (updateRefCmd H w l args).1.cfgGlobal = w.cfgGlobal := by frame_by updateRefCmd
theorem updateRefCmd_files (H) (w l args) : (updateRefCmd H w l args).1.files = w.files := by frame_by updateRefCmd
theorem updateRefCmd_dirs (H) (w l args) : (updateRefCmd H w l args).1.dirs = w.dirs := by frame_by updateRefCmd
theorem initCmd_objs (w) : (initCmd w).1.objs = w.objs := by frame_by initCmd
theorem initCmd_heads (w) : (initCmd w).1.heads = w.heads := by frame_by initCmd
theorem initCmd_index (w) : (initCmd w).1.index = w.index := by frame_by initCmd
theorem initCmd_logHead (w) : (initCmd w).1.logHead = w.logHead := by frame_by initCmd
theorem initCmd_logHeads (w) : (initCmd w).1.logHeads = w.logHeads := by frame_by initCmd
theorem initCmd_cfgGlobal (w) : (initCmd w).1.cfgGlobal = w.cfgGlobal := by frame_by initCmd
theorem initCmd_files (w) : (initCmd w).1.files = w.files := by frame_by initCmd
theorem initCmd_dirs (w) : (initCmd w).1.dirs = w.dirs := by frame_by initCmd
theorem restoreCmd_work_inited (H) (w l args) : (restoreCmd H w l false args).1.inited = w.inited := by frame_by restoreCmd
theorem restoreCmd_staged_inited (H) (w l args) : (restoreCmd H w l true args).1.inited = w.inited := by frame_by restoreCmd
theorem restoreCmd_work_objs (H) (w l args) : (restoreCmd H w l false args).1.objs = w.objs := by frame_by restoreCmd
theorem restoreCmd_staged_objs (H) (w l args) : (restoreCmd H w l true args).1.objs = w.objs := by frame_by restoreCmd
theorem restoreCmd_work_heads (H) (w l args) : (restoreCmd H w l false args).1.heads = w.heads := by frame_by restoreCmd
theorem restoreCmd_staged_heads (H) (w l args) : (restoreCmd H w l true args).1.heads = w.heads := by frame_by restoreCmd
theorem restoreCmd_work_head (H) (w l args) : (restoreCmd H w l false args).1.head = w.head := by frame_by restoreCmd
theorem restoreCmd_staged_head (H) (w l args) : (restoreCmd H w l true args).1.head = w.head := by frame_by restoreCmd
theorem restoreCmd_work_index (H) (w l args) : (restoreCmd H w l false args).1.index = w.index := by frame_by restoreCmd
theorem restoreCmd_work_logHead (H) (w l args) : (restoreCmd H w l false args).1.logHead = w.logHead := by frame_by restoreCmd
theorem restoreCmd_staged_logHead (H) (w l args) : (restoreCmd H w l true args).1.logHead = w.logHead := by frame_by restoreCmd
theorem restoreCmd_work_logHeads (H) (w l args) : (restoreCmd H w l false args).1.logHeads = w.logHeads := by frame_by restoreCmd
theorem restoreCmd_staged_logHeads (H) (w l args) : (restoreCmd H w l true args).1.logHeads = w.logHeads := by frame_by restoreCmd
theorem restoreCmd_work_cfgLocal (H) (w l args) : (restoreCmd H w l false args).1.cfgLocal = w.cfgLocal := by frame_by restoreCmd
theorem restoreCmd_staged_cfgLocal (H) (w l args) : (restoreCmd H w l true args).1.cfgLocal = w.cfgLocal := by frame_by restoreCmd
theorem restoreCmd_work_cfgGlobal (H) (w l args) : (restoreCmd H w l false args).1.cfgGlobal = w.cfgGlobal := by frame_by restoreCmd
theorem restoreCmd_staged_cfgGlobal (H) (w l args) : (restoreCmd H w l true args).1.cfgGlobal = w.cfgGlobal := by frame_by restoreCmd
theorem restoreCmd_staged_files (H) (w l args) : (restoreCmd H w l true args).1.files = w.files := by frame_by restoreCmd
theorem restoreCmd_staged_dirs (H) (w l args) : (restoreCmd H w l true args).1.dirs = w.dirs := by frame_by restoreCmd
theorem configCmd_inited (w g args) : (configCmd w g args).1.inited = w.inited := by frame_by configCmd
theorem configCmd_objs (w g args) : (configCmd w g args).1.objs = w.objs := by frame_by configCmd
theorem configCmd_heads (w g args) : (configCmd w g args).1.heads = w.heads := by frame_by configCmd
theorem configCmd_head (w g args) : (configCmd w g args).1.head = w.head := by frame_by configCmd
theorem configCmd_index (w g args) : (configCmd w g args).1.index = w.index := by frame_by configCmd
theorem configCmd_logHead (w g args) : (configCmd w g args).1.logHead = w.logHead := by frame_by configCmd
theorem configCmd_logHeads (w g args) : (configCmd w g args).1.logHeads = w.logHeads := by frame_by configCmd
theorem configCmd_files (w g args) : (configCmd w g args).1.files = w.files := by frame_by configCmd
theorem configCmd_dirs (w g args) : (configCmd w g args).1.dirs = w.dirs := by frame_by configCmd
theorem configCmd_local_cfgGlobal (w args) : (configCmd w false args).1.cfgGlobal = w.cfgGlobal := by frame_by configCmd

theorem addCmd_frame (H) (w l args) (f : Field) (hf : f ∉ mayTouch (.add args)) : fieldEq f w (addCmd H w l args).1 := by
  cases f <;> simp [mayTouch] at hf <;> simp only [fieldEq]
  · exact addCmd_inited _ _ _ _
  · exact addCmd_heads _ _ _ _
  · exact addCmd_head _ _ _ _
  · exact addCmd_logHead _ _ _ _
  · exact addCmd_logHeads _ _ _ _
  · exact addCmd_cfgLocal _ _ _ _
  · exact addCmd_cfgGlobal _ _ _ _
  · exact addCmd_files _ _ _ _
  · exact addCmd_dirs _ _ _ _
theorem rmCmd_frame (w l args) (f : Field) (hf : f ∉ mayTouch (.rm args)) : fieldEq f w (rmCmd w l args).1 := by
  cases f <;> simp [mayTouch] at hf <;> simp only [fieldEq]
  · exact rmCmd_inited _ _ _
  · exact rmCmd_objs _ _ _
  · exact rmCmd_heads _ _ _
  · exact rmCmd_head _ _ _
  · exact rmCmd_logHead _ _ _
  · exact rmCmd_logHeads _ _ _
  · exact rmCmd_cfgLocal _ _ _
  · exact rmCmd_cfgGlobal _ _ _
  · exact rmCmd_dirs _ _ _
theorem commitCmd_frame (H) (w l msg tz ts) (f : Field) (hf : f ∉ mayTouch (.commit msg)) : fieldEq f w (commitCmd H w l msg tz ts).1 := by
  cases f <;> simp [mayTouch] at hf <;> simp only [fieldEq]
  · exact commitCmd_inited _ _ _ _ _ _
  · exact commitCmd_index _ _ _ _ _ _
  · exact commitCmd_cfgLocal _ _ _ _ _ _
  · exact commitCmd_cfgGlobal _ _ _ _ _ _
  · exact commitCmd_files _ _ _ _ _ _
  · exact commitCmd_dirs _ _ _ _ _ _
theorem branchCmd_frame (w l args list ren del tz ts) (f : Field) (hf : f ∉ mayTouch (.branch args list ren del)) : fieldEq f w (branchCmd w l args list ren del tz ts).1 := by
  cases f <;> simp [mayTouch] at hf <;> simp only [fieldEq]
  · exact branchCmd_inited _ _ _ _ _ _ _ _
  · exact branchCmd_objs _ _ _ _ _ _ _ _
  · exact branchCmd_index _ _ _ _ _ _ _ _
  · exact branchCmd_cfgLocal _ _ _ _ _ _ _ _
  · exact branchCmd_cfgGlobal _ _ _ _ _ _ _ _
  · exact branchCmd_files _ _ _ _ _ _ _ _
  · exact branchCmd_dirs _ _ _ _ _ _ _ _
theorem switchCmd_frame (H) (w l args create tz ts) (f : Field) (hf : f ∉ mayTouch (.switch args create)) : fieldEq f w (switchCmd H w l args create tz ts).1 := by
  cases f <;> simp [mayTouch] at hf <;> simp only [fieldEq]
  · exact switchCmd_inited _ _ _ _ _ _ _
  · exact switchCmd_objs _ _ _ _ _ _ _
  · exact switchCmd_index _ _ _ _ _ _ _
  · exact switchCmd_cfgLocal _ _ _ _ _ _ _
  · exact switchCmd_cfgGlobal _ _ _ _ _ _ _
  · exact switchCmd_files _ _ _ _ _ _ _
  · exact switchCmd_dirs _ _ _ _ _ _ _
theorem resetCmd_frame (H) (w l s m h args tz ts) (f : Field) (hf : f ∉ mayTouch (.reset s m h args)) : fieldEq f w (resetCmd H w l s m h args tz ts).1 := by
  cases f <;> simp [mayTouch] at hf <;> simp only [fieldEq]
  · exact resetCmd_inited _ _ _ _ _ _ _ _ _
  · exact resetCmd_objs _ _ _ _ _ _ _ _ _
  · exact resetCmd_head _ _ _ _ _ _ _ _ _
  · exact resetCmd_cfgLocal _ _ _ _ _ _ _ _ _
  · exact resetCmd_cfgGlobal _ _ _ _ _ _ _ _ _
theorem updateRefCmd_frame (H) (w l args) (f : Field) (hf : f ∉ mayTouch (.updateRef args)) : fieldEq f w (updateRefCmd H w l args).1 := by
  cases f <;> simp [mayTouch] at hf <;> simp only [fieldEq]
  · exact updateRefCmd_inited _ _ _ _
  · exact updateRefCmd_objs _ _ _ _
  · exact updateRefCmd_index _ _ _ _
  · exact updateRefCmd_logHead _ _ _ _
  · exact updateRefCmd_logHeads _ _ _ _
  · exact updateRefCmd_cfgLocal _ _ _ _
  · exact updateRefCmd_cfgGlobal _ _ _ _
  · exact updateRefCmd_files _ _ _ _
  · exact updateRefCmd_dirs _ _ _ _
theorem initCmd_frame (w) (f : Field) (hf : f ∉ mayTouch (.init)) : fieldEq f w (initCmd w).1 := by
  cases f <;> simp [mayTouch] at hf <;> simp only [fieldEq]
  · exact initCmd_objs _
  · exact initCmd_heads _
  · exact initCmd_index _
  · exact initCmd_logHead _
  · exact initCmd_logHeads _
  · exact initCmd_cfgGlobal _
  · exact initCmd_files _
  · exact initCmd_dirs _
theorem restoreCmd_frame (H) (w l staged args) (f : Field) (hf : f ∉ mayTouch (.restore staged args)) : fieldEq f w (restoreCmd H w l staged args).1 := by
  cases staged <;> cases f <;> simp [mayTouch] at hf <;> simp only [fieldEq]
  · exact restoreCmd_work_inited _ _ _ _
  · exact restoreCmd_work_objs _ _ _ _
  · exact restoreCmd_work_heads _ _ _ _
  · exact restoreCmd_work_head _ _ _ _
  · exact restoreCmd_work_index _ _ _ _
  · exact restoreCmd_work_logHead _ _ _ _
  · exact restoreCmd_work_logHeads _ _ _ _
  · exact restoreCmd_work_cfgLocal _ _ _ _
  · exact restoreCmd_work_cfgGlobal _ _ _ _
  · exact restoreCmd_staged_inited _ _ _ _
  · exact restoreCmd_staged_objs _ _ _ _
  · exact restoreCmd_staged_heads _ _ _ _
  · exact restoreCmd_staged_head _ _ _ _
  · exact restoreCmd_staged_logHead _ _ _ _
  · exact restoreCmd_staged_logHeads _ _ _ _
  · exact restoreCmd_staged_cfgLocal _ _ _ _
  · exact restoreCmd_staged_cfgGlobal _ _ _ _
  · exact restoreCmd_staged_files _ _ _ _
  · exact restoreCmd_staged_dirs _ _ _ _
theorem configCmd_frame (w g args) (f : Field) (hf : f ∉ mayTouch (.config g args)) : fieldEq f w (configCmd w g args).1 := by
  cases g <;> cases f <;> simp [mayTouch] at hf <;> simp only [fieldEq]
  · exact configCmd_inited _ _ _
  · exact configCmd_objs _ _ _
  · exact configCmd_heads _ _ _
  · exact configCmd_head _ _ _
  · exact configCmd_index _ _ _
  · exact configCmd_logHead _ _ _
  · exact configCmd_logHeads _ _ _
  · exact configCmd_local_cfgGlobal _ _
  · exact configCmd_files _ _ _
  · exact configCmd_dirs _ _ _
  · exact configCmd_inited _ _ _
  · exact configCmd_objs _ _ _
  · exact configCmd_heads _ _ _
  · exact configCmd_head _ _ _
  · exact configCmd_index _ _ _
  · exact configCmd_logHead _ _ _
  · exact configCmd_logHeads _ _ _
  · exact configCmd_files _ _ _
  · exact configCmd_dirs _ _ _

theorem fieldEq_refl (f : Field) (w : World) : fieldEq f w w := by cases f <;> rfl

/-- **Frame table.** A sub-command leaves every store outside its row of `mayTouch` exactly as it was: in any
    state, with any arguments, whether it succeeds, is refused, or fails half-way. -/
theorem frame (H : HashFn) (w : World) (i : Inv) (f : Field) (hf : f ∉ mayTouch i.cmd) : fieldEq f w (run H w i).1 := by
  obtain ⟨cmd, tz, ts⟩ := i
  cases cmd <;> (unfold run; dsimp only; repeat' split) <;>
    first
    | exact fieldEq_refl f w
    | exact initCmd_frame _ _ hf | exact addCmd_frame _ _ _ _ _ hf | exact rmCmd_frame _ _ _ _ hf
    | exact commitCmd_frame _ _ _ _ _ _ _ hf | exact branchCmd_frame _ _ _ _ _ _ _ _ _ hf
    | exact switchCmd_frame _ _ _ _ _ _ _ _ hf | exact resetCmd_frame _ _ _ _ _ _ _ _ _ _ hf
    | exact restoreCmd_frame _ _ _ _ _ _ hf | exact updateRefCmd_frame _ _ _ _ _ hf | exact configCmd_frame _ _ _ _ hf
    | (cases f <;> simp [mayTouch] at hf <;> simp [fieldEq, putObjs_inited', putObjs_heads', putObjs_head', putObjs_index',
        putObjs_logHead', putObjs_logHeads', putObjs_cfgLocal', putObjs_cfgGlobal', putObjs_files', putObjs_dirs'])

end W

/-! ### property-level corollaries -/

namespace C02
/-- `commit` (successful or not) leaves the staging area, the working tree and the configuration alone -/
theorem world_commit_frame (H : HashFn) (w : W.World) (msg : Bytes) (tz : Int) (ts : List Int) :
    let w' := (W.run H w ⟨.commit msg, tz, ts⟩).1
    w'.index = w.index ∧ w'.files = w.files ∧ w'.dirs = w.dirs ∧ w'.cfgLocal = w.cfgLocal ∧ w'.cfgGlobal = w.cfgGlobal :=
  ⟨W.frame H w _ .index (by simp [W.mayTouch]), W.frame H w _ .files (by simp [W.mayTouch]), W.frame H w _ .dirs (by simp [W.mayTouch]),
   W.frame H w _ .cfgLocal (by simp [W.mayTouch]), W.frame H w _ .cfgGlobal (by simp [W.mayTouch])⟩
end C02

namespace C04
/-- `add` never writes a work file, moves no branch, HEAD or log; `rm` moves no branch, HEAD or log and stores nothing -/
theorem world_add_frame (H : HashFn) (w : W.World) (args : List Bytes) (tz : Int) (ts : List Int) :
    let w' := (W.run H w ⟨.add args, tz, ts⟩).1
    w'.files = w.files ∧ w'.dirs = w.dirs ∧ w'.heads = w.heads ∧ w'.head = w.head ∧ w'.logHead = w.logHead :=
  ⟨W.frame H w _ .files (by simp [W.mayTouch]), W.frame H w _ .dirs (by simp [W.mayTouch]), W.frame H w _ .heads (by simp [W.mayTouch]),
   W.frame H w _ .head (by simp [W.mayTouch]), W.frame H w _ .logHead (by simp [W.mayTouch])⟩

theorem world_rm_frame (H : HashFn) (w : W.World) (args : List Bytes) (tz : Int) (ts : List Int) :
    let w' := (W.run H w ⟨.rm args, tz, ts⟩).1
    w'.objs = w.objs ∧ w'.heads = w.heads ∧ w'.head = w.head ∧ w'.logHead = w.logHead ∧ w'.dirs = w.dirs :=
  ⟨W.frame H w _ .objs (by simp [W.mayTouch]), W.frame H w _ .heads (by simp [W.mayTouch]), W.frame H w _ .head (by simp [W.mayTouch]),
   W.frame H w _ .logHead (by simp [W.mayTouch]), W.frame H w _ .dirs (by simp [W.mayTouch])⟩
end C04

namespace C09
/-- `restore` changes only the working tree, `restore --staged` only the staging area -/
theorem world_restore_frame (H : HashFn) (w : W.World) (args : List Bytes) (tz : Int) (ts : List Int) :
    let w' := (W.run H w ⟨.restore false args, tz, ts⟩).1
    w'.index = w.index ∧ w'.objs = w.objs ∧ w'.heads = w.heads ∧ w'.head = w.head :=
  ⟨W.frame H w _ .index (by simp [W.mayTouch]), W.frame H w _ .objs (by simp [W.mayTouch]), W.frame H w _ .heads (by simp [W.mayTouch]),
   W.frame H w _ .head (by simp [W.mayTouch])⟩

theorem world_restore_staged_frame (H : HashFn) (w : W.World) (args : List Bytes) (tz : Int) (ts : List Int) :
    let w' := (W.run H w ⟨.restore true args, tz, ts⟩).1
    w'.files = w.files ∧ w'.dirs = w.dirs ∧ w'.objs = w.objs ∧ w'.heads = w.heads ∧ w'.head = w.head :=
  ⟨W.frame H w _ .files (by simp [W.mayTouch]), W.frame H w _ .dirs (by simp [W.mayTouch]), W.frame H w _ .objs (by simp [W.mayTouch]),
   W.frame H w _ .heads (by simp [W.mayTouch]), W.frame H w _ .head (by simp [W.mayTouch])⟩
end C09

namespace C18
/-- the read-only commands change nothing at all -/
theorem world_readers_change_nothing (H : HashFn) (w : W.World) (i : W.Inv) (h : W.mayTouch i.cmd = []) (f : W.Field) :
    W.fieldEq f w (W.run H w i).1 := W.frame H w i f (by simp [h])
end C18

namespace C20
/-- only `config` and `init` ever write a configuration file -/
theorem world_only_config_writes_config (H : HashFn) (w : W.World) (i : W.Inv)
    (h : W.Field.cfgLocal ∉ W.mayTouch i.cmd) :
    (W.run H w i).1.cfgLocal = w.cfgLocal ∧ (W.run H w i).1.cfgGlobal = w.cfgGlobal := by
  refine ⟨W.frame H w i .cfgLocal h, W.frame H w i .cfgGlobal ?_⟩
  cases hc : i.cmd <;> simp_all [W.mayTouch]
  all_goals (rename_i b _; cases b <;> simp_all [W.mayTouch])
end C20
