import GoitProofs.Props.C03Inputs
set_option linter.unusedSimpArgs false
set_option linter.unusedVariables false

/-! C02 end to end on the whole-repository model: a successful `commit` stores a commit object that reads back — through
    the World's own store and readers — with **exactly the staged entries** as its snapshot, the branch's previous commit
    as its only parent (none for the first commit), the configured identity and the message; the branch file holds its id
    and HEAD names that branch. -/

namespace W

open C04 C05 C06 C17 TreeBuild TreeCodec

theorem run_commit_ok (H : HashFn) (w : World) (msg : Bytes) (tz : Int) (ts : List Int) (o : Option Bytes)
    (h : (run H w ⟨.commit msg, tz, ts⟩).2 = .ok o) :
    ∃ l snap id data, load H w = some l ∧ Cmds.commitCmd H (commitIn w l snap msg tz (clock ts 0)) = .ok (id, data) ∧
      commitObject H w ⟨.commit msg, tz, ts⟩ = some (id, data) ∧
      run H w ⟨.commit msg, tz, ts⟩ = commitWrite H w l id data msg tz ts := by
  unfold run at h ⊢
  dsimp only at h ⊢
  by_cases h1 : (!w.inited) = true
  · rw [if_pos h1] at h; split at h <;> cases h
  · rw [if_neg h1] at h ⊢
    by_cases h2 : (!(pathArgs (Cmd.commit msg)).all pathArgOK) = true
    · rw [if_pos h2] at h; cases h
    · rw [if_neg h2] at h ⊢
      cases hl : load H w with
      | none => simp only [hl] at h; cases h
      | some l =>
        simp only [hl] at h ⊢
        unfold commitCmd at h ⊢
        dsimp only at h ⊢
        cases hs : (if l.headCommit.isNone = true then (Res.ok none : Res (Option (List Entry))) else (headSnap H w l).map some) with
        | crash => simp only [hs] at h; cases h
        | err => simp only [hs] at h; split at h <;> cases h
        | ok snap =>
          simp only [hs] at h ⊢
          cases hcc : Cmds.commitCmd H (commitIn w l snap msg tz (clock ts 0)) with
          | crash => simp only [hcc] at h; cases h
          | err => simp only [hcc] at h; split at h <;> cases h
          | ok p =>
            obtain ⟨id, data⟩ := p
            refine ⟨l, snap, id, data, rfl, hcc, ?_, rfl⟩
            unfold commitObject
            simp only [hl, hs, hcc]

theorem commitWrite_objs (H : HashFn) (w : World) (l : Loaded) (id data msg : Bytes) (tz : Int) (ts : List Int) :
    (commitWrite H w l id data msg tz ts).1.objs =
      (putObj (putObjs w (writeTree H l.idx).writes.reverse) id (Obj.encode .commit data)).objs := by
  unfold commitWrite
  dsimp only
  by_cases hc1 : (!Refs.exists_ l.refs l.ref && !Refs.validName l.ref) = true
  · rw [if_pos hc1]
  · rw [if_neg hc1]
    by_cases hc2 : w.head.isNone = true
    · rw [if_pos hc2]; rfl
    · rw [if_neg hc2]; rfl

/-- reading a commit object that was just stored under the hash of its content -/
theorem commitAt_stored (H : HashFn) (w : World) (id data : Bytes) (c : Commit) (hid : id = Obj.id H .commit data)
    (ha : aget w.objs id = some (Obj.encode .commit data)) (hsz : data.length ≤ Fmt.int64Max) (hp : Commit.parse data = some c) :
    commitAt H w id = some c := by
  have hne : id ≠ [] := by
    intro h0
    have := H.len20 (Obj.encode .commit data)
    rw [hid] at h0; unfold Obj.id at h0; rw [h0] at this; simp at this
  have hsha : H.sha (Obj.encode .commit data) = id := by rw [hid]; rfl
  unfold commitAt Store.get store
  simp only [hne, if_false, ha, C01.decode_encode .commit data (by decide) hsz, hsha, if_true]
  exact hp

end W

namespace C02

open TreeBuild

/-- **A successful `commit`, end to end, on the whole-repository model** — in any state meeting the invariants (`W.Fsck`, which
    every history from the empty directory reaches: `C03.world_fsck`), under the input conditions of the step (`W.StepIn`):
    the branch HEAD names now holds the id of a stored commit object that reads back, through the World's own store and readers,
    with **exactly the staged entries** as its snapshot, the commit the branch held before as its only parent (no parent when
    the branch had no file), the configured identity as author and committer at the clock's instant and offset, and the message;
    HEAD names that branch. (`C02.world_commit_frame`: staging area, working tree and configuration are untouched;
    `C02.world_commit_spec`: the reflog lines.) -/
theorem world_commit_end_to_end (H : HashFn) (w : W.World) (msg : Bytes) (tz : Int) (ts : List Int) (o : Option Bytes)
    (hf : W.Fsck H w) (hin : W.StepIn H w ⟨.commit msg, tz, ts⟩)
    (hout : (W.run H w ⟨.commit msg, tz, ts⟩).2 = .ok o) :
    ∃ (l : W.Loaded) (id : Bytes) (parent : Option Bytes) (a : Sign) (t : Bytes),
      W.load H w = some l ∧
      W.aget w.heads l.ref = parent.map hashStr ∧
      W.aget (W.run H w ⟨.commit msg, tz, ts⟩).1.heads l.ref = some (hashStr id) ∧
      (W.run H w ⟨.commit msg, tz, ts⟩).1.head = some (Head.render l.ref) ∧
      W.commitAt H (W.run H w ⟨.commit msg, tz, ts⟩).1 id = some ⟨some t, parent.toList, some a, some a, msg⟩ ∧
      W.treeEntries H (W.run H w ⟨.commit msg, tz, ts⟩).1 t = some l.idx := by
  obtain ⟨l, snap, id, data, hl, hcc, hco, hrun⟩ := W.run_commit_ok H w msg tz ts o hout
  obtain ⟨hnc, hrest⟩ := hin
  obtain ⟨hsm, hfit, hfuel, hdom⟩ := hrest l hl
  obtain ⟨parent, loc, glob, hbr, _, _, _, hparse⟩ := W.commit_parses H w l snap msg tz _ id data hf.1 hcc hdom
  obtain ⟨_, _, _, _, _, _, hid, _, _, _⟩ := C02.commitCmd_ok H _ id data hcc
  obtain ⟨hcf, hsz⟩ := hnc id data l hco hl
  rw [hrun] at hout ⊢
  obtain ⟨_, hheads, hhead, _⟩ := C02.world_commit_spec H w l id data msg tz ts o hout
  have hg := W.loaded_idx_goodE H w l hl hf.2.1.1
  obtain ⟨_, _, hall, heok⟩ := W.goodE_facts l.idx hg
  have hrb := W.treeEntries_after_write H w l.idx hall heok hfit hsm hfuel
  have hput : W.aget (W.putObj (W.putObjs w (writeTree H l.idx).writes.reverse) id (Obj.encode .commit data)).objs id =
      some (Obj.encode .commit data) := W.aget_putObj_self _ _ _ hcf
  have hobjs := W.commitWrite_objs H w l id data msg tz ts
  refine ⟨l, id, parent, ⟨Config.userField loc glob (asc "name"), Config.userField loc glob (asc "email"), W.clock ts 0, tz⟩,
    (writeTree H l.idx).id, hl, hbr, hheads, hhead, ?_, ?_⟩
  · rw [W.commitAt_congr H (W.putObj (W.putObjs w (writeTree H l.idx).writes.reverse) id (Obj.encode .commit data))
      (W.commitWrite H w l id data msg tz ts).1 id (by rw [hobjs])]
    exact W.commitAt_stored H _ id data _ hid hput hsz hparse
  · rw [W.treeEntries_objs H (W.putObj (W.putObjs w (writeTree H l.idx).writes.reverse) id (Obj.encode .commit data))
      (W.commitWrite H w l id data msg tz ts).1 hobjs]
    exact W.treeEntries_mono H _ _ (W.putObj_le _ _ _) _ l.idx hrb

end C02
