import GoitProofs.Props.C06

/-! # C09 — command-level theorems about `restore` (working tree)

About `Cmds.restoreWork`, the Lean model of `cmd/restore.go` (repaired code: arguments are classified with
the staging area, never by walking the disk). The model is compared with the real command on every observed transition of the generated histories. -/

namespace C09

open Cmds IndexOps

/-- **restore changes no other file**: every path it rewrites is a tracked entry (with its staged id) -/
theorem restore_only_tracked (w : WS) (args : List Bytes) (r : List Entry) (h : restoreWork w args = .ok r) :
    ∀ e ∈ r, e ∈ w.index := by
  induction args generalizing r with
  | nil => simp [restoreWork] at h; subst h; intro e he; cases he
  | cons a rest ih =>
    rw [restoreWork] at h
    simp only at h
    split at h
    · cases h
    · cases hr : restoreWork w rest with
      | ok r' =>
        rw [hr] at h
        simp only [Res.map, Res.ok.injEq] at h
        subst h
        intro e he
        rcases List.mem_append.mp he with he | he
        · split at he
          · exact ((C06.mem_byDir _ _ _).mp he).1
          · exact (List.mem_filter.mp he).1
        · exact ih r' hr e he
      | err => rw [hr] at h; simp [Res.map] at h
      | crash => rw [hr] at h; simp [Res.map] at h

/-- **restore restores every tracked file beneath a named directory, whether or not it exists on disk**
    (the model never looks at the disk), and a named tracked file -/
theorem restore_named (w : WS) (args : List Bytes) (r : List Entry) (h : restoreWork w args = .ok r) :
    ∀ a ∈ args, ∀ e ∈ w.index, (C06.Beneath (cleanPath a) e.path ∨ (e.path = cleanPath a ∧ isDir w.index (cleanPath a) = false)) → e ∈ r := by
  induction args generalizing r with
  | nil => intro a ha; cases ha
  | cons a0 rest ih =>
    rw [restoreWork] at h
    simp only at h
    split at h
    · cases h
    · cases hr : restoreWork w rest with
      | ok r' =>
        rw [hr] at h
        simp only [Res.map, Res.ok.injEq] at h
        subst h
        intro a ha e he hcond
        rcases List.mem_cons.mp ha with rfl | ha'
        · apply List.mem_append_left
          rcases hcond with hb | ⟨hp, hnd⟩
          · have hd : isDir w.index (cleanPath a) = true := (C06.isDir_iff _ _).mpr ⟨e, he, hb⟩
            simp only [hd, if_true]
            exact (C06.mem_byDir _ _ _).mpr ⟨he, hb⟩
          · simp only [hnd, Bool.false_eq_true, if_false]
            exact List.mem_filter.mpr ⟨he, by simp [hp]⟩
        · exact List.mem_append_right _ (ih r' hr a ha' e he hcond)
      | err => rw [hr] at h; simp [Res.map] at h
      | crash => rw [hr] at h; simp [Res.map] at h

/-- **A path known neither as a tracked file nor as a tracked directory is refused.** -/
theorem restore_unknown_refused (w : WS) (a : Bytes) (rest : List Bytes)
    (h1 : found w.index (cleanPath a) = false) (h2 : isDir w.index (cleanPath a) = false) :
    restoreWork w (a :: rest) = .err := by
  simp [restoreWork, h1, h2]

end C09
