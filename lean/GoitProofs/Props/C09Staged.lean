import GoitProofs.Props.C04Add
import GoitProofs.Props.C07Tree

/-! # C09, `restore --staged`: the staged entry of every named path becomes its HEAD entry

On the command model `Cmds.restoreStagedArgs` (compared with the real command on every
`restore --staged` of the generated histories: resulting staging area and success/refusal). -/

namespace C09

open IndexOps C06 Cmds C04

theorem snapId_some (snap : List Entry) (hs : Canonical snap) (p id : Bytes) :
    snapId snap p = some id ↔ (⟨id, p⟩ : Entry) ∈ snap := by
  unfold snapId
  constructor
  · intro h
    cases hf : snap.find? (fun e => e.path == p) with
    | none => simp [hf] at h
    | some e =>
      simp only [hf, Option.map_some, Option.some.injEq] at h
      have hm := List.mem_of_find?_eq_some hf
      have hq := List.find?_some hf
      simp only [beq_iff_eq] at hq
      have : e = ⟨id, p⟩ := by cases e; simp_all
      exact this ▸ hm
  · intro h
    cases hf : snap.find? (fun e => e.path == p) with
    | none =>
      have := List.find?_eq_none.1 hf _ h
      simp at this
    | some e =>
      have hm := List.mem_of_find?_eq_some hf
      have hq := List.find?_some hf
      simp only [beq_iff_eq] at hq
      have := C07.canonical_inj snap hs e ⟨id, p⟩ hm h hq
      simp [this]

theorem snapId_none (snap : List Entry) (p : Bytes) (h : snapId snap p = none) : ∀ e ∈ snap, e.path ≠ p := by
  unfold snapId at h
  simp only [Option.map_eq_none_iff] at h
  intro e he hp
  have := List.find?_eq_none.1 h e he
  simp [hp] at this

/-- entries of the staging area at path `p` -/
def AtPath (p : Bytes) (e : Entry) : Prop := e.path = p

theorem delete_removes (es : List Entry) (hs : Canonical es) (p : Bytes) (es' : List Entry) (h : delete es p = .ok es') :
    ∀ e ∈ es', e.path ≠ p := by
  unfold delete at h
  split at h
  · cases h
  · rename_i i hg
    simp only [Res.ok.injEq] at h
    subst h
    obtain ⟨hi, hp⟩ := getEntry_found es hs p i hg
    intro e he hep
    have hnd := canonical_nodup es hs
    have hsplit : es = es.take i ++ es[i] :: es.drop (i + 1) := by simp
    rw [List.eraseIdx_eq_take_drop_succ] at he
    unfold paths at hnd
    rw [hsplit, List.map_append, List.map_cons, hp] at hnd
    obtain ⟨_, hB, hAB⟩ := List.nodup_append.1 hnd
    have hB' := List.nodup_cons.1 hB
    rcases List.mem_append.1 he with h1 | h1
    · exact hAB p (List.mem_map.2 ⟨e, h1, hep⟩) p List.mem_cons_self rfl
    · exact hB'.1 (List.mem_map.2 ⟨e, h1, hep⟩)
  · cases h

/-- **one path**: afterwards the staged entries at `p` are exactly HEAD's entries at `p` (none if HEAD has
    none), every other path is as before, and the staging area is canonical -/
theorem restoreIndexOne_spec (idx snap : List Entry) (hi : Canonical idx) (hs : Canonical snap) (p : Bytes)
    (idx' : List Entry) (h : restoreIndexOne idx snap p = .ok idx') :
    Canonical idx' ∧ (∀ e : Entry, e.path = p → (e ∈ idx' ↔ e ∈ snap)) ∧
      (∀ e : Entry, e.path ≠ p → (e ∈ idx' ↔ e ∈ idx)) := by
  unfold restoreIndexOne at h
  cases hsn : snapId snap p with
  | some id =>
    simp only [hsn] at h
    obtain ⟨ch, es', hu, hin, hfr⟩ := update_membership idx hi id p
    rw [hu] at h
    simp only [Res.map, Res.ok.injEq] at h
    subst h
    have hc := update_canonical idx hi id p ch es' hu
    refine ⟨hc, ?_, hfr⟩
    intro e hep
    have hsnap := (snapId_some snap hs p id).1 hsn
    constructor
    · intro he
      have := C07.canonical_inj es' hc e ⟨id, p⟩ he hin hep
      exact this ▸ hsnap
    · intro he
      have := C07.canonical_inj snap hs e ⟨id, p⟩ he hsnap hep
      exact this ▸ hin
  | none =>
    simp only [hsn] at h
    split at h
    · obtain ⟨hc, hfr⟩ := delete_frame idx hi p idx' h
      refine ⟨hc, ?_, hfr⟩
      intro e hep
      constructor
      · intro he; exact absurd hep (delete_removes idx hi p idx' h e he)
      · intro he; exact absurd hep (snapId_none snap p hsn e he)
    · cases h

/-- a path known to neither the staging area nor HEAD is refused; nothing else is -/
theorem restoreIndexOne_refused_iff (idx snap : List Entry) (hi : Canonical idx) (p : Bytes) :
    (∀ idx', restoreIndexOne idx snap p ≠ .ok idx') ↔ (snapId snap p = none ∧ found idx p = false) := by
  unfold restoreIndexOne
  cases hsn : snapId snap p with
  | some id =>
    obtain ⟨ch, es', hu, _, _⟩ := update_membership idx hi id p
    simp only [hu, Res.map]
    constructor
    · intro h; exact absurd rfl (h es')
    · rintro ⟨h, _⟩; cases h
  | none =>
    simp only [true_and]
    cases hf : found idx p with
    | false => simp
    | true =>
      simp only [if_true]
      constructor
      · intro h
        exfalso
        obtain ⟨e, he, hp⟩ := (found_iff idx hi p).1 hf
        obtain ⟨i, hi', hget⟩ := List.getElem_of_mem he
        exact h _ ((delete_exact idx hi p).1 i hi' (by rw [hget]; exact hp))
      · intro h; cases h

theorem rsFold_spec (snap : List Entry) (hs : Canonical snap) (ps : List Bytes) (idx : List Entry) (hi : Canonical idx)
    (idx' : List Entry) (h : rsFold snap ps idx = (true, idx')) :
    Canonical idx' ∧ (∀ e : Entry, e.path ∈ ps → (e ∈ idx' ↔ e ∈ snap)) ∧
      (∀ e : Entry, e.path ∉ ps → (e ∈ idx' ↔ e ∈ idx)) := by
  induction ps generalizing idx with
  | nil =>
    simp only [rsFold, Prod.mk.injEq, true_and] at h
    subst h
    exact ⟨hi, fun _ h => (by cases h), fun _ _ => Iff.rfl⟩
  | cons p ps ih =>
    simp only [rsFold] at h
    cases hr : restoreIndexOne idx snap p with
    | ok idx1 =>
      simp only [hr] at h
      obtain ⟨hc1, hat1, hfr1⟩ := restoreIndexOne_spec idx snap hi hs p idx1 hr
      obtain ⟨hc, hat, hfr⟩ := ih idx1 hc1 h
      refine ⟨hc, ?_, ?_⟩
      · intro e he
        by_cases hin : e.path ∈ ps
        · exact hat e hin
        · have hp : e.path = p := by
            rcases List.mem_cons.1 he with h' | h'
            · exact h'
            · exact absurd h' hin
          rw [hfr e hin, hat1 e hp]
      · intro e he
        simp only [List.mem_cons, not_or] at he
        rw [hfr e he.2, hfr1 e he.1]
    | err => simp [hr] at h
    | crash => simp [hr] at h

/-- the paths an argument names: the path itself and everything beneath it -/
def Named (args : List Bytes) (q : Bytes) : Prop := ∃ a ∈ args, q = cleanPath a ∨ Beneath (cleanPath a) q

/-- **`restore --staged args`**: if it succeeds, the staged entry of every named path — the path itself and,
    for a directory, every path beneath it that is staged or in HEAD — equals its entry in the HEAD snapshot
    (removed if HEAD has none, re-created if it had been unstaged), and every other entry is unchanged.
    For every canonical staging area, every canonical snapshot and every argument list. -/
theorem restoreStaged_exact (snap : List Entry) (hs : Canonical snap) (args : List Bytes) (idx : List Entry)
    (hi : Canonical idx) (idx' : List Entry) (h : restoreStagedArgs snap args idx = (true, idx')) :
    Canonical idx' ∧ (∀ e : Entry, Named args e.path → (e ∈ idx' ↔ e ∈ snap)) ∧
      (∀ e : Entry, ¬ Named args e.path → (e ∈ idx' ↔ e ∈ idx)) := by
  induction args generalizing idx with
  | nil =>
    simp only [restoreStagedArgs, Prod.mk.injEq, true_and] at h
    subst h
    exact ⟨hi, fun _ ⟨_, h, _⟩ => (by cases h), fun _ _ => Iff.rfl⟩
  | cons a rest ih =>
    -- what one argument does
    have key : ∀ idx2, Canonical idx2 →
        (∀ e : Entry, (e.path = cleanPath a ∨ Beneath (cleanPath a) e.path) → (e ∈ idx2 ↔ e ∈ snap)) →
        (∀ e : Entry, ¬ (e.path = cleanPath a ∨ Beneath (cleanPath a) e.path) → (e ∈ idx2 ↔ e ∈ idx)) →
        restoreStagedArgs snap rest idx2 = (true, idx') →
        Canonical idx' ∧ (∀ e : Entry, Named (a :: rest) e.path → (e ∈ idx' ↔ e ∈ snap)) ∧
          (∀ e : Entry, ¬ Named (a :: rest) e.path → (e ∈ idx' ↔ e ∈ idx)) := by
      intro idx2 hc2 hat2 hfr2 hrest
      obtain ⟨hc, hat, hfr⟩ := ih idx2 hc2 hrest
      refine ⟨hc, ?_, ?_⟩
      · intro e hn
        by_cases hr : Named rest e.path
        · exact hat e hr
        · obtain ⟨a', ha', hq⟩ := hn
          rcases List.mem_cons.1 ha' with rfl | ha'
          · rw [hfr e hr, hat2 e hq]
          · exact absurd ⟨a', ha', hq⟩ hr
      · intro e hn
        have h1 : ¬ Named rest e.path := fun ⟨a', ha', hq⟩ => hn ⟨a', List.mem_cons_of_mem _ ha', hq⟩
        have h2 : ¬ (e.path = cleanPath a ∨ Beneath (cleanPath a) e.path) := fun hq => hn ⟨a, List.mem_cons_self, hq⟩
        rw [hfr e h1, hfr2 e h2]
    simp only [restoreStagedArgs] at h
    generalize hdir : (snap.any (fun t => under (cleanPath a) t.path) || isDir idx (cleanPath a)) = isDirArg at h
    generalize hfile : (found idx (cleanPath a) || (snapId snap (cleanPath a)).isSome) = isFileArg at h
    generalize hps : (if isDirArg = true then stagedDirPaths idx snap (cleanPath a) else []) = ps at h
    cases hfold : rsFold snap ps idx with
    | mk ok1 idx1 =>
    cases ok1 with
    | false => simp [hfold] at h
    | true =>
      simp only [hfold] at h
      obtain ⟨hc1, hat1, hfr1⟩ := rsFold_spec snap hs ps idx hi idx1 hfold
      -- every path of `ps` lies beneath the argument; every staged or HEAD path beneath it is in `ps`
      have hps_sub : ∀ q ∈ ps, Beneath (cleanPath a) q := by
        intro q hq
        rw [← hps] at hq
        split at hq
        · simp only [stagedDirPaths, List.mem_append, List.mem_map] at hq
          rcases hq with ⟨e, he, rfl⟩ | ⟨e, he, rfl⟩
          · exact ((mem_byDir _ _ _).1 he).2
          · exact (under_iff _ _).1 (List.mem_filter.1 he).2
        · cases hq
      have hbeneath : ∀ e : Entry, Beneath (cleanPath a) e.path → (e ∈ idx1 ↔ e ∈ snap) := by
        intro e hb
        by_cases hin : e.path ∈ ps
        · exact hat1 e hin
        · rw [hfr1 e hin]
          -- not restored: neither staged nor in HEAD
          have hnot : ∀ x : Entry, x.path = e.path → x ∈ idx ∨ x ∈ snap → False := by
            intro x hx hmem
            apply hin
            rw [← hps]
            have hd : isDirArg = true := by
              rw [← hdir]
              rcases hmem with hm | hm
              · simp only [Bool.or_eq_true]; right
                exact (isDir_iff _ _).2 ⟨x, hm, hx ▸ hb⟩
              · simp only [Bool.or_eq_true]; left
                exact List.any_eq_true.2 ⟨x, hm, (under_iff _ _).2 (hx ▸ hb)⟩
            rw [if_pos hd]
            simp only [stagedDirPaths, List.mem_append, List.mem_map]
            rcases hmem with hm | hm
            · exact Or.inl ⟨x, (mem_byDir _ _ _).2 ⟨hm, hx ▸ hb⟩, hx⟩
            · exact Or.inr ⟨x, List.mem_filter.2 ⟨hm, (under_iff _ _).2 (hx ▸ hb)⟩, hx⟩
          exact ⟨fun he => (hnot e rfl (Or.inl he)).elim, fun he => (hnot e rfl (Or.inr he)).elim⟩
      have hself_not_in : cleanPath a ∉ ps := by
        intro hin
        have := hps_sub _ hin
        unfold Beneath at this
        obtain ⟨⟨t, ht⟩, hl⟩ := this
        have := congrArg List.length ht
        simp at this hl
      by_cases hf : isFileArg = true
      · rw [if_pos hf] at h
        cases hr : restoreIndexOne idx1 snap (cleanPath a) with
        | ok idx2 =>
          simp only [hr] at h
          obtain ⟨hc2, hat2, hfr2⟩ := restoreIndexOne_spec idx1 snap hc1 hs (cleanPath a) idx2 hr
          refine key idx2 hc2 ?_ ?_ h
          · rintro e (hp | hb)
            · exact hat2 e hp
            · have hne : e.path ≠ cleanPath a := by
                intro hp; rw [hp] at hb
                unfold Beneath at hb
                obtain ⟨⟨t, ht⟩, hl⟩ := hb
                have := congrArg List.length ht
                simp at this hl
              rw [hfr2 e hne]; exact hbeneath e hb
          · intro e hn
            simp only [not_or] at hn
            rw [hfr2 e hn.1]
            exact hfr1 e (fun hin => hn.2 (hps_sub _ hin))
        | err => simp [hr] at h
        | crash => simp [hr] at h
      · rw [if_neg hf] at h
        by_cases hd : isDirArg = true
        · simp only [hd, Bool.not_true, Bool.false_eq_true, if_false] at h
          refine key idx1 hc1 ?_ ?_ h
          · rintro e (hp | hb)
            · -- the path itself is neither staged nor in HEAD
              simp only [Bool.not_eq_true] at hf
              rw [← hfile, Bool.or_eq_false_iff] at hf
              have h1 : ¬ e ∈ idx := fun he => by
                have := (found_iff idx hi (cleanPath a)).2 ⟨e, he, hp⟩
                rw [hf.1] at this; cases this
              have h2 : ¬ e ∈ snap := fun he => by
                have hn : snapId snap (cleanPath a) = none := by
                  cases hx : snapId snap (cleanPath a) with
                  | none => rfl
                  | some _ => rw [hx] at hf; simp at hf
                exact snapId_none snap _ hn e he hp
              rw [hfr1 e (hp ▸ hself_not_in)]
              exact ⟨fun he => absurd he h1, fun he => absurd he h2⟩
            · exact hbeneath e hb
          · intro e hn
            simp only [not_or] at hn
            exact hfr1 e (fun hin => hn.2 (hps_sub _ hin))
        · simp only [Bool.not_eq_true] at hd
          simp [hd] at h

/-- **A path known to neither the staging area nor HEAD is refused**, and the staging area is left as it was -/
theorem restoreStaged_unknown_refused (snap idx : List Entry) (hi : Canonical idx) (a : Bytes) (rest : List Bytes)
    (h1 : ∀ e ∈ idx, e.path ≠ cleanPath a ∧ ¬ Beneath (cleanPath a) e.path)
    (h2 : ∀ e ∈ snap, e.path ≠ cleanPath a ∧ ¬ Beneath (cleanPath a) e.path) :
    restoreStagedArgs snap (a :: rest) idx = (false, idx) := by
  have hd1 : snap.any (fun t => under (cleanPath a) t.path) = false := by
    rw [List.any_eq_false]
    intro t ht hu
    exact (h2 t ht).2 ((under_iff _ _).1 hu)
  have hd2 : isDir idx (cleanPath a) = false := by
    cases hx : isDir idx (cleanPath a) with
    | false => rfl
    | true => obtain ⟨e, he, hb⟩ := (isDir_iff _ _).1 hx; exact absurd hb (h1 e he).2
  have hf1 : found idx (cleanPath a) = false := by
    cases hx : found idx (cleanPath a) with
    | false => rfl
    | true => obtain ⟨e, he, hp⟩ := (found_iff idx hi _).1 hx; exact absurd hp (h1 e he).1
  have hf2 : snapId snap (cleanPath a) = none := by
    unfold snapId
    simp only [Option.map_eq_none_iff, List.find?_eq_none, beq_iff_eq]
    intro e he; exact (h2 e he).1
  simp [restoreStagedArgs, hd1, hd2, hf1, hf2, rsFold]

/-! non-vacuity: HEAD holds a file and a directory `t`; `t/x` had been unstaged and `n` newly staged -/
section Examples
def exSnap : List Entry := [⟨[1], asc "t"⟩, ⟨[2], asc "t/x"⟩, ⟨[3], asc "u"⟩]
def exIdx : List Entry := [⟨[9], asc "n"⟩, ⟨[1], asc "t"⟩, ⟨[7], asc "u"⟩]
example : restoreStagedArgs exSnap [asc "n", asc "./t"] [⟨[9], asc "n"⟩, ⟨[1], asc "t"⟩, ⟨[2], asc "t/x"⟩] = (true, [⟨[1], asc "t"⟩, ⟨[2], asc "t/x"⟩]) := by
  decide +kernel
example : (restoreStagedArgs exSnap [asc "zz"] exIdx).1 = false := by decide +kernel
end Examples

end C09
