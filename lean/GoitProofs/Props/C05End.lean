import GoitProofs.Props.C20End
set_option linter.unusedSimpArgs false
set_option linter.unusedVariables false

/-! C05 end to end on the whole-repository model: what `reset` reads from the commit `commit` just made is the staging area the
    commit was made from. -/

namespace W

/-- the converse of `resetEntries_snap` -/
theorem resetEntries_of_snap (H : HashFn) (w : World) (id : Bytes) (c : Commit) (t : Bytes) (es : List Entry)
    (hc : commitAt H w id = some c) (ht : c.tree = some t) (hte : treeEntries H w t = some es) :
    Cmds.resetEntries H (store w) treeDepth id = .ok es := by
  obtain ⟨d, hg, hp⟩ := commitAt_some_get H w id c hc
  unfold Cmds.resetEntries
  simp only [hg, ne_eq, not_true_eq_false, if_false, hp, ht]
  unfold treeEntries at hte
  cases hg2 : Store.get H (store w) t with
  | crash => simp [hg2] at hte
  | err => simp [hg2] at hte
  | ok kd =>
    obtain ⟨k, d2⟩ := kd
    simp only [hg2] at hte ⊢
    cases hn : TreeCodec.newTree H (store w) treeDepth k d2 with
    | none => simp [hn] at hte
    | some ns => simp [hn] at hte ⊢; exact hte

end W

namespace C05

/-- **Snapshot read-back, end to end** (whole-repository model): after a successful `commit` — in a state every history reaches,
    under the step's input conditions — what `Index.Reset` reads for the new commit's id (the entries `reset --mixed` / `--hard`
    install, what `restore --staged` and `status` compare with) is exactly the staging area the commit was made from. -/
theorem world_commit_then_reset_reads_staged (H : HashFn) (w : W.World) (msg : Bytes) (tz : Int) (ts : List Int) (o : Option Bytes)
    (hf : W.Fsck H w) (hin : W.StepIn H w ⟨.commit msg, tz, ts⟩)
    (hout : (W.run H w ⟨.commit msg, tz, ts⟩).2 = .ok o) :
    ∃ l id, W.load H w = some l ∧
      W.aget (W.run H w ⟨.commit msg, tz, ts⟩).1.heads l.ref = some (hashStr id) ∧
      Cmds.resetEntries H (W.store (W.run H w ⟨.commit msg, tz, ts⟩).1) W.treeDepth id = .ok l.idx := by
  obtain ⟨l, id, parent, a, t, hl, _, hheads, _, hc, hte⟩ := C02.world_commit_end_to_end H w msg tz ts o hf hin hout
  exact ⟨l, id, hl, hheads, W.resetEntries_of_snap H _ id _ t l.idx hc rfl hte⟩

end C05
