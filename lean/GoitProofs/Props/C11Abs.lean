import GoitProofs.Props.C10Abs

/-! # C11 on the abstract repository machine: the HEAD reflog is an append-only journal

`Abs.step` is compared with the real repository (including the ids recorded in `logs/HEAD`) around every
command of the generated histories. -/

namespace C11

open Abs

/-- the entries one operation appends to the journal -/
def added (r : Repo) (op : Op) : List (Option Id) := (step r op).reflog.drop r.reflog.length

/-- **Append-only**: every operation leaves all earlier entries in place, in order, and appends at most two. -/
theorem step_appends (r : Repo) (op : Op) :
    (step r op).reflog = r.reflog ++ added r op ∧ (added r op).length ≤ 2 := by
  unfold added
  cases op <;> simp only [step] <;> (repeat' split) <;> simp

/-- the journal before any operation sequence is a prefix of the journal after it -/
theorem run_prefix (r : Repo) (ops : List Op) : r.reflog <+: (run r ops).reflog := by
  induction ops generalizing r with
  | nil => exact List.prefix_refl _
  | cons op ops ih =>
    simp only [run, List.foldl_cons]
    exact List.IsPrefix.trans ⟨_, (step_appends r op).1.symm⟩ (ih (step r op))

/-- **Earlier entries merely shift** by the number of entries added: position `k` before the operation is
    position `k + (number added)` after it. -/
theorem shift (r : Repo) (op : Op) (k : Nat) (hk : k < r.reflog.length) :
    reflogAt (step r op) (k + (added r op).length) = reflogAt r k := by
  have h := (step_appends r op).1
  unfold reflogAt
  rw [h]
  simp only [List.length_append]
  have h1 : k + (added r op).length < r.reflog.length + (added r op).length := by omega
  rw [if_pos h1, if_pos hk]
  have : r.reflog.length + (added r op).length - 1 - (k + (added r op).length) = r.reflog.length - 1 - k := by omega
  rw [this, List.getElem?_append_left (by omega)]

theorem reflogAt_zero_snoc (r : Repo) (x : Option Id) (l : List (Option Id)) (h : r.reflog = l ++ [x]) : reflogAt r 0 = some x := by
  unfold reflogAt
  simp [h]

/-- **After a successful commit, `HEAD@{0}` is the commit HEAD now resolves to.** -/
theorem head0_commit (r : Repo) (c : Id) :
    reflogAt (step r (.commit c)) 0 = some (tip (step r (.commit c)) (step r (.commit c)).head) := by
  rw [reflogAt_zero_snoc _ (some c) r.reflog rfl]
  simp only [step, C10.tip_eq, C10.find_setBranch_self]

/-- **After a successful switch, `HEAD@{0}` is the commit HEAD now resolves to.** -/
theorem head0_switch (r : Repo) (n : Name) (t : Id) (h : tip r n = some t) :
    reflogAt (step r (.switch n)) 0 = some (tip (step r (.switch n)) (step r (.switch n)).head) := by
  have hs : step r (.switch n) = { r with head := n, reflog := r.reflog ++ [some t] } := by simp [step, h]
  rw [reflogAt_zero_snoc _ (some t) r.reflog (by rw [hs])]
  rw [hs]
  simp only [tip] at h ⊢
  rw [h]

/-- **After a successful reset, `HEAD@{0}` is the commit HEAD now resolves to** — the entry the reset named. -/
theorem head0_reset (r : Repo) (pos : Nat) (id t : Id) (h1 : reflogAt r pos = some (some id)) (h2 : tip r r.head = some t) :
    reflogAt (step r (.reset pos)) 0 = some (some id) ∧ tip (step r (.reset pos)) (step r (.reset pos)).head = some id := by
  have hs : step r (.reset pos) = { r with branches := setBranch r.branches r.head id, reflog := r.reflog ++ [some id] } := by
    simp [step, h1, h2]
  refine ⟨reflogAt_zero_snoc _ (some id) r.reflog (by rw [hs]), ?_⟩
  rw [hs]
  simp only [C10.tip_eq, C10.find_setBranch_self]

/-- a refused reset (position out of range, or a rename's zero-id record) changes nothing -/
theorem reset_refused (r : Repo) (pos : Nat) (h : reflogAt r pos = none ∨ reflogAt r pos = some none) :
    step r (.reset pos) = r := by
  rcases h with h | h <;> simp [step, h]

/-- non-vacuity: a three-entry journal, reset to the oldest entry -/
example : let r : Repo := run {} [.commit [1], .commit [2], .commit [3]]
    reflogAt r 2 = some (some [1]) ∧ tip r r.head = some [3] ∧ (step r (.reset 2)).reflog.length = 4 := by decide

end C11
