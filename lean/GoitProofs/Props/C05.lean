import GoitProofs.Lemmas.Bytes

/-! # C05 — Snapshot read-back: what Goit reads from a tree is what was written

`walk_encode`: Goit's tree reader (`walkTree`, as repaired) applied to the byte layout its writer
produces returns exactly the entries written — for **every** name without NUL (spaces, non-ASCII,
names that extend a sibling's name) and **every** 20-byte id (including ids containing 0x00, 0x20,
0x0a), and for the empty tree. -/

namespace C05

open TreeCodec

/-- one entry of a tree as the writer sees it -/
structure Item where
  isDir : Bool
  name  : Bytes
  id    : Bytes
  kids  : List Node      -- children of the sub-tree (for a directory entry), `[]` for a file

def Item.mode (it : Item) : Bytes := if it.isDir then modeDir else modeFile

/-- the bytes `writeTreeObject` emits for a list of entries -/
def encodeItems : List Item → Bytes
  | [] => []
  | it :: rest => encodeEntry it.mode it.name it.id ++ encodeItems rest

def nodesOf (items : List Item) : List Node := items.map fun it => Node.mk it.name it.id it.kids

/-- what the writer guarantees about an entry; `sub` is how a sub-tree id is resolved (through the store) -/
def ItemOK (sub : Bytes → Option (List Node)) (it : Item) : Prop :=
  it.id.length = 20 ∧ (0 : UInt8) ∉ it.name ∧
    (if it.isDir then sub it.id = some it.kids else it.kids = [])

theorem mode_no_nul (it : Item) : (0 : UInt8) ∉ it.mode := by
  unfold Item.mode; split <;> decide
theorem mode_no_space (it : Item) : (32 : UInt8) ∉ it.mode := by
  unfold Item.mode; split <;> decide
theorem mode_isDir (it : Item) : (it.mode == modeDir) = it.isDir := by
  unfold Item.mode; cases it.isDir <;> decide

theorem readCStr_append (s r : Bytes) (h : (0 : UInt8) ∉ s) : readCStr (s ++ 0 :: r) = (s, r) := by
  induction s with
  | nil => simp [readCStr]
  | cons b bs ih =>
    have hb : b ≠ 0 := fun e => h (by simp [e])
    have hbs : (0 : UInt8) ∉ bs := fun m => h (List.mem_cons_of_mem _ m)
    simp [readCStr, hb, ih hbs]

theorem line_no_nul (it : Item) (hn : (0 : UInt8) ∉ it.name) : (0 : UInt8) ∉ it.mode ++ 32 :: it.name := by
  simp only [List.mem_append, List.mem_cons]
  rintro (h | h | h)
  · exact mode_no_nul it h
  · exact absurd h (by decide)
  · exact hn h

theorem encodeItems_cons (it : Item) (rest : List Item) :
    encodeItems (it :: rest) = (it.mode ++ 32 :: it.name) ++ 0 :: (it.id ++ encodeItems rest) := by
  simp [encodeItems, encodeEntry]

/-- one iteration of the reader's loop, on a buffer that starts with the 20 id bytes -/
theorem loop_step (sub : Bytes → Option (List Node)) (fuel : Nat) (isDir : Bool) (name id tail : Bytes)
    (hid : id.length = 20) :
    loop sub (fuel + 1) isDir name (id ++ tail) =
      (match (if isDir then sub id else some []) with
       | none => none
       | some kids =>
         if (readCStr tail).1 = [] then some [Node.mk name id kids]
         else
           match Bytes.cut1 32 (readCStr tail).1 with
           | (_, none) => none
           | (m, some n) =>
             match loop sub fuel (m == modeDir) n (readCStr tail).2 with
             | some nodes => some (Node.mk name id kids :: nodes)
             | none => none) := by
  have h1 : ¬ (id ++ tail).length < 20 := by simp [hid]
  have h2 : (id ++ tail).take 20 = id := List.take_left' hid
  have h3 : (id ++ tail).drop 20 = tail := List.drop_left' hid
  simp only [loop, h1, if_false, h2, h3]
  rfl

theorem loop_encode (sub : Bytes → Option (List Node)) (it : Item) (rest : List Item)
    (hit : ItemOK sub it) (hrest : ∀ x ∈ rest, ItemOK sub x) (fuel : Nat) (hf : rest.length < fuel) :
    loop sub fuel it.isDir it.name (it.id ++ encodeItems rest) = some (nodesOf (it :: rest)) := by
  induction rest generalizing it fuel with
  | nil =>
    cases fuel with
    | zero => omega
    | succ f =>
      obtain ⟨hid, -, hk⟩ := hit
      rw [loop_step _ _ _ _ _ _ hid]
      cases hd : it.isDir with
      | true => simp [hd] at hk; simp [hk, encodeItems, readCStr, nodesOf]
      | false => simp [hd] at hk; simp [hk, encodeItems, readCStr, nodesOf]
  | cons nx rest ih =>
    cases fuel with
    | zero => omega
    | succ f =>
      obtain ⟨hid, -, hk⟩ := hit
      have hnx := hrest nx (List.mem_cons_self)
      have hn0 := hnx.2.1
      have hne : nx.mode ++ 32 :: nx.name ≠ [] := by simp
      have hrec := ih nx hnx (fun x hx => hrest x (List.mem_cons_of_mem _ hx)) f (by simp at hf; omega)
      rw [loop_step _ _ _ _ _ _ hid, encodeItems_cons, readCStr_append _ _ (line_no_nul nx hn0)]
      simp only [hne, if_false, Bytes.cut1_append 32 _ _ (mode_no_space nx), mode_isDir, hrec]
      cases hd : it.isDir with
      | true => simp [hd] at hk; simp [hk, nodesOf]
      | false => simp [hd] at hk; simp [hk, nodesOf]

theorem encodeItems_length (l : List Item) : l.length ≤ (encodeItems l).length := by
  induction l with
  | nil => simp [encodeItems]
  | cons a t ih => simp [encodeItems, encodeEntry]; omega

/-- the resolution of sub-tree ids that `walk` uses at depth `d` -/
def subAt (H : HashFn) (st : Store) (d : Nat) : Bytes → Option (List Node) := fun id =>
  match Store.get H st id with
  | .ok (.tree, sdata) => walk H st d sdata
  | _ => none

/-- **Reader ∘ writer = identity on one tree level**, sub-trees being resolved through the store. -/
theorem walk_encode (H : HashFn) (st : Store) (d : Nat) (items : List Item)
    (h : ∀ x ∈ items, ItemOK (subAt H st d) x) :
    walk H st (d + 1) (encodeItems items) = some (nodesOf items) := by
  cases items with
  | nil => simp [walk, encodeItems, nodesOf]
  | cons it rest =>
    have hit := h it (List.mem_cons_self)
    have hn0 := hit.2.1
    have hnn : encodeItems (it :: rest) ≠ [] := by rw [encodeItems_cons]; simp
    have hlen : rest.length < (encodeItems (it :: rest)).length + 1 := by
      have := encodeItems_length rest
      rw [encodeItems_cons]; simp; omega
    unfold walk
    simp only [hnn, if_false]
    rw [encodeItems_cons] at hlen ⊢
    rw [readCStr_append _ _ (line_no_nul it hn0), Bytes.cut1_append 32 _ _ (mode_no_space it)]
    dsimp only
    rw [mode_isDir]
    exact loop_encode (subAt H st d) it rest hit (fun x hx => h x (List.mem_cons_of_mem _ hx)) _ hlen

/-- the empty snapshot reads back as empty (the pinned code crashed here) -/
theorem walk_empty (H : HashFn) (st : Store) (d : Nat) : walk H st (d + 1) [] = some [] := by
  simp [walk]

/-- `cat-file -p` of a tree lists exactly the direct children, with kind, id and complete name -/
theorem render_children (items : List Item) :
    render (nodesOf items) = Bytes.join [10] (items.map fun it =>
      (if it.kids.isEmpty then asc "100644 blob " else asc "040000 tree ") ++ hashStr it.id ++ [9] ++ it.name) := by
  simp [render, nodesOf, List.map_map, Function.comp_def, Node.kids, Node.id, Node.name]

/-- non-vacuity: a name with a space, an id made of NULs, an id made of spaces -/
example : walk sha1Fn Store.empty 1 (encodeItems [⟨false, asc "my file.txt", List.replicate 20 0, []⟩,
      ⟨false, asc "lib.go", List.replicate 20 32, []⟩]) =
    some (nodesOf [⟨false, asc "my file.txt", List.replicate 20 0, []⟩, ⟨false, asc "lib.go", List.replicate 20 32, []⟩]) :=
  walk_encode _ _ _ _ (by intro x hx; simp at hx; rcases hx with rfl | rfl <;> simp [ItemOK] <;> decide)

end C05
