import GoitProofs.Props.C10Spec
set_option linter.unusedSimpArgs false
set_option linter.unusedVariables false

/-! C02 and C08 on the whole-repository model: what a successful `commit` and a successful `reset` leave behind,
    at the level of the files; a `commit` that is refused before `commit()` is entered changes nothing. -/

namespace W

/-- a successful `commitWrite`: the commit object is stored, the current branch holds its hex id, HEAD names that
    branch, the same record line is appended to `logs/HEAD` and to the branch log -/
theorem commitWrite_spec (H : HashFn) (w : World) (l : Loaded) (id data msg : Bytes) (tz : Int) (ts : List Int) (o : Option Bytes)
    (h : (commitWrite H w l id data msg tz ts).2 = .ok o) :
    (aget (commitWrite H w l id data msg tz ts).1.objs id).isSome = true ∧
      aget (commitWrite H w l id data msg tz ts).1.heads l.ref = some (hashStr id) ∧
      (commitWrite H w l id data msg tz ts).1.head = some (Head.render l.ref) ∧
      ∃ line, (commitWrite H w l id data msg tz ts).1.logHead = some (w.logHead.getD [] ++ line) ∧
        aget (commitWrite H w l id data msg tz ts).1.logHeads l.ref = some ((aget w.logHeads l.ref).getD [] ++ line) := by
  unfold commitWrite at h ⊢
  dsimp only at h ⊢
  by_cases hx : (!Refs.exists_ l.refs l.ref && !Refs.validName l.ref) = true
  · simp only [hx, if_true] at h; cases h
  · simp only [hx, Bool.false_eq_true, if_false] at h ⊢
    by_cases hhn : w.head.isNone = true
    · simp only [hhn, if_true] at h; cases h
    · simp only [hhn, Bool.false_eq_true, if_false]
      refine ⟨?_, ?_, rfl, recLine l .commit (if Refs.exists_ l.refs l.ref = true then l.headCommit.map (·.1) else none) (some id) (clock ts 1) tz msg, ?_, ?_⟩
      · simp only [setHead_objs, appendLogBranch_objs, appendLogHead_objs]
        unfold putObj
        split
        · assumption
        · simp [aget_cons]
      · simp [setHead, appendLogBranch, appendLogHead, aget_aset_self]
      · simp [setHead, appendLogBranch, appendLogHead, putObj_logHead', putObjs_logHead']
      · simp [setHead, appendLogBranch, appendLogHead, aget_aset_self, putObj_logHeads', putObjs_logHeads']

/-- `reset` once the target is known and readable: the current branch holds the target's hex id, HEAD is untouched,
    `--soft` leaves the staging area and the working tree alone, the other modes install the target's snapshot -/
theorem resetTo_spec (H : HashFn) (w : World) (l : Loaded) (s h : Bool) (arg t prev : Bytes) (tz : Int) (ts : List Int) (o : Option Bytes)
    (hok : (resetTo H w l s h arg t prev tz ts).2 = .ok o) :
    aget (resetTo H w l s h arg t prev tz ts).1.heads l.ref = some (hashStr t) ∧ (resetTo H w l s h arg t prev tz ts).1.head = w.head ∧
      (resetTo H w l s h arg t prev tz ts).1.objs = w.objs ∧
      (s = true → (resetTo H w l s h arg t prev tz ts).1.index = w.index ∧ (resetTo H w l s h arg t prev tz ts).1.files = w.files ∧
        (resetTo H w l s h arg t prev tz ts).1.dirs = w.dirs) ∧
      (s = false → ∃ es, (resetTo H w l s h arg t prev tz ts).1.index = some es ∧
        (h = false → (resetTo H w l s h arg t prev tz ts).1.files = w.files ∧ (resetTo H w l s h arg t prev tz ts).1.dirs = w.dirs)) := by
  unfold resetTo at hok ⊢
  cases hc : commitAt H w t with
  | none => simp only [hc] at hok; cases hok
  | some c =>
    simp only [hc] at hok ⊢
    cases s with
    | true =>
      simp only [if_true]
      refine ⟨(by simp [appendLogBranch, appendLogHead, aget_aset_self]), rfl, rfl, fun _ => ⟨rfl, rfl, rfl⟩, fun hf => (by cases hf)⟩
    | false =>
      simp only [Bool.false_eq_true, if_false] at hok ⊢
      cases hre : Cmds.resetEntries H (store (appendLogBranch (appendLogHead { w with heads := aset w.heads l.ref (hashStr t) }
          (recLine l .reset (some prev) (some t) (clock ts 0) tz (asc "moving to " ++ arg))) l.ref
          (recLine l .reset (some prev) (some t) (clock ts 0) tz (asc "moving to " ++ arg)))) treeDepth t with
      | err => simp only [hre] at hok; cases hok
      | crash => simp only [hre] at hok; cases hok
      | ok es =>
        simp only [hre] at hok ⊢
        cases h with
        | false =>
          simp only [Bool.not_false, if_true]
          refine ⟨(by simp [appendLogBranch, appendLogHead, aget_aset_self]), rfl, rfl, fun hf => (by cases hf), fun _ => ⟨es, rfl, fun _ => ⟨rfl, rfl⟩⟩⟩
        | true =>
          simp only [Bool.not_true, Bool.false_eq_true, if_false]
          refine ⟨?_, ?_, ?_, fun hf => (by cases hf), fun _ => ⟨es, ?_, fun hf => (by cases hf)⟩⟩
          · rw [writeEntries_heads']; simp [appendLogBranch, appendLogHead, aget_aset_self]
          · rw [writeEntries_head']; rfl
          · rw [writeEntries_objs']; rfl
          · rw [writeEntries_index']

end W

namespace C02

/-- **What a successful `commit` leaves behind** (whole-repository model): the commit object `(id, data)` that the
    command model `Cmds.commitCmd` determines (`C02.commitCmd_ok`: root tree of the staged entries, the branch file's
    content as parent, the configured identity twice, the message) is stored; the current branch file holds its hex
    id; HEAD names that branch; one and the same record line is appended to `logs/HEAD` and to the branch's log.
    `C02.world_commit_frame` adds: staging area, working tree and configuration are untouched. -/
theorem world_commit_spec (H : HashFn) (w : W.World) (l : W.Loaded) (id data msg : Bytes) (tz : Int) (ts : List Int) (o : Option Bytes)
    (h : (W.commitWrite H w l id data msg tz ts).2 = .ok o) :
    (W.aget (W.commitWrite H w l id data msg tz ts).1.objs id).isSome = true ∧
      W.aget (W.commitWrite H w l id data msg tz ts).1.heads l.ref = some (hashStr id) ∧
      (W.commitWrite H w l id data msg tz ts).1.head = some (Head.render l.ref) ∧
      ∃ line, (W.commitWrite H w l id data msg tz ts).1.logHead = some (w.logHead.getD [] ++ line) ∧
        W.aget (W.commitWrite H w l id data msg tz ts).1.logHeads l.ref = some ((W.aget w.logHeads l.ref).getD [] ++ line) :=
  W.commitWrite_spec H w l id data msg tz ts o h

end C02

namespace C08

/-- **What a successful `reset` leaves behind** (whole-repository model), per mode -/
theorem world_reset_spec (H : HashFn) (w : W.World) (l : W.Loaded) (s h : Bool) (arg t prev : Bytes) (tz : Int) (ts : List Int)
    (o : Option Bytes) (hok : (W.resetTo H w l s h arg t prev tz ts).2 = .ok o) :
    W.aget (W.resetTo H w l s h arg t prev tz ts).1.heads l.ref = some (hashStr t) ∧
      (W.resetTo H w l s h arg t prev tz ts).1.head = w.head ∧ (W.resetTo H w l s h arg t prev tz ts).1.objs = w.objs ∧
      (s = true → (W.resetTo H w l s h arg t prev tz ts).1.index = w.index ∧ (W.resetTo H w l s h arg t prev tz ts).1.files = w.files ∧
        (W.resetTo H w l s h arg t prev tz ts).1.dirs = w.dirs) ∧
      (s = false → ∃ es, (W.resetTo H w l s h arg t prev tz ts).1.index = some es ∧
        (h = false → (W.resetTo H w l s h arg t prev tz ts).1.files = w.files ∧ (W.resetTo H w l s h arg t prev tz ts).1.dirs = w.dirs)) :=
  W.resetTo_spec H w l s h arg t prev tz ts o hok

end C08
