import GoitProofs.Lemmas.Bytes
import GoitProofs.Lemmas.TreeBuild

/-! # C12 — Commit metadata survives a write/read round trip in every time zone -/

namespace C12

open Sign

/-- executable check of one offset: the zone is printed as sign + four digits and reads back as the
    same offset -/
def zoneOK (o : Int) : Bool :=
  match zone o with
  | [sg, a, b, c, d] =>
    (sg == 43 || sg == 45) && [a, b, c, d].all Dec.isDigit &&
      (match Fmt.sscanfZone sg [sg, a, b, c, d] with
       | some (h, m) => (if sg = 45 then -(3600 * h + 60 * m) else 3600 * h + 60 * m) == o
       | none => false)
  | _ => false

/-- the k-th quarter hour of the property's domain: −12:00 + k·15 min, k = 0 … 104 (= +14:00) -/
def quarter (k : Fin 105) : Int := ((k.val : Int) - 48) * 900

/-- **Every UTC offset from −12:00 to +14:00 in quarter-hour steps** (the whole finite table, checked
    by the kernel): the stored zone has the Git form `+HHMM` / `-HHMM` and reads back as the same offset. -/
theorem zone_table : ∀ k : Fin 105, zoneOK (quarter k) = true := by decide +kernel

/-- the pinned code printed `--500` for −05:00 and `--3-30` for −03:30; the repaired zone -/
example : zone (-18000) = asc "-0500" ∧ zone (-12600) = asc "-0330" ∧ zone 20700 = asc "+0545" := by decide +kernel

def isEmailChar (c : UInt8) : Bool := isAlnum c || c = 95 || c = 46 || c = 43 || c = 45 || c = 64

theorem mem_split1 (b : UInt8) (s : Bytes) (c : UInt8) (hc : c ∈ s) : c = b ∨ ∃ p ∈ Bytes.split1 b s, c ∈ p := by
  induction s with
  | nil => cases hc
  | cons a as ih =>
    simp only [Bytes.split1]
    by_cases hab : a = b
    · simp only [hab, if_true]
      rcases List.mem_cons.mp hc with rfl | h
      · exact Or.inl hab
      · rcases ih h with h1 | ⟨p, hp, hcp⟩
        · exact Or.inl h1
        · exact Or.inr ⟨p, List.mem_cons_of_mem _ hp, hcp⟩
    · simp only [hab, if_false]
      cases hs : Bytes.split1 b as with
      | nil => exact absurd hs (TreeBuild.split1_ne_nil b as)
      | cons f fs =>
        rcases List.mem_cons.mp hc with rfl | h
        · exact Or.inr ⟨c :: f, by simp, by simp⟩
        · rcases ih h with h1 | ⟨p, hp, hcp⟩
          · exact Or.inl h1
          · rw [hs] at hp
            rcases List.mem_cons.mp hp with rfl | hp'
            · exact Or.inr ⟨a :: p, by simp, List.mem_cons_of_mem _ hcp⟩
            · exact Or.inr ⟨p, List.mem_cons_of_mem _ hp', hcp⟩

theorem label_chars (l : Bytes) (h : isLabel l = true) : ∀ c ∈ l, isEmailChar c = true := by
  cases l with
  | nil => simp [isLabel] at h
  | cons a as =>
    simp only [isLabel, Bool.and_eq_true, List.all_eq_true] at h
    intro c hc
    rcases List.mem_cons.mp hc with rfl | hc
    · simp [isEmailChar, h.1]
    · have := h.2 c hc
      simp only [Bool.or_eq_true, decide_eq_true_eq] at this
      rcases this with h1 | h1 <;> simp [isEmailChar, h1]

theorem tld_chars (l : Bytes) (h : isTld l = true) : ∀ c ∈ l, isEmailChar c = true := by
  simp only [isTld, Bool.and_eq_true, List.all_eq_true] at h
  intro c hc
  simp [isEmailChar, isAlnum, h.2 c hc]

/-- every character of an accepted e-mail address is an address character (in particular not `>`, `<`, blank) -/
theorem email_chars (e : Bytes) (h : matchesEmail e = true) : ∀ c ∈ e, isEmailChar c = true := by
  unfold matchesEmail at h
  cases hc : (Bytes.cut1 64 e).2 with
  | none =>
    have : Bytes.cut1 64 e = ((Bytes.cut1 64 e).1, none) := by rw [← hc]
    rw [this] at h; simp at h
  | some dom =>
    have hcut : Bytes.cut1 64 e = ((Bytes.cut1 64 e).1, some dom) := by rw [← hc]
    rw [hcut] at h
    simp only [Bool.and_eq_true, List.all_eq_true, decide_eq_true_eq] at h
    obtain ⟨⟨-, hloc⟩, ⟨-, hlab⟩, htld⟩ := h
    have heq := Bytes.cut1_some_eq 64 e dom hc
    intro c hcm
    rw [heq] at hcm
    rcases List.mem_append.mp hcm with h1 | h1
    · have := hloc c h1
      simp only [isLocalChar, Bool.or_eq_true, decide_eq_true_eq] at this
      rcases this with (((h2 | h2) | h2) | h2) | h2 <;> simp [isEmailChar, h2]
    · rcases List.mem_cons.mp h1 with rfl | h2
      · decide
      · rcases mem_split1 46 dom c h2 with rfl | ⟨p, hp, hcp⟩
        · decide
        · have hne := TreeBuild.split1_ne_nil 46 dom
          -- p is in dropLast (a label) or is the last part (the tld)
          have hdl : Bytes.split1 46 dom = (Bytes.split1 46 dom).dropLast ++ [(Bytes.split1 46 dom).getLast hne] :=
            (List.dropLast_concat_getLast hne).symm
          rw [hdl] at hp
          rcases List.mem_append.mp hp with hp1 | hp1
          · exact label_chars p (hlab p hp1) c hcp
          · simp only [List.mem_singleton] at hp1
            have hl : (Bytes.split1 46 dom).getLast? = some ((Bytes.split1 46 dom).getLast hne) :=
              List.getLast?_eq_some_getLast hne
            rw [hl] at htld
            simp only [Option.map_some, Option.getD_some] at htld
            rw [hp1] at hcp
            exact tld_chars _ htld c hcp

theorem ofNat_no (n : Nat) (b : UInt8) (hb : Dec.isDigit b = false) : b ∉ Dec.ofNat n :=
  Dec.not_mem_of_all_digits _ (Dec.ofNat_all_digits n) b hb

/-- the first digit of a positive number is not `0` -/
theorem ofNat_head_pos (n : Nat) (hn : 0 < n) :
    ∃ c cs, Dec.ofNat n = c :: cs ∧ 49 ≤ c ∧ c ≤ 57 := by
  induction n using Nat.strongRecOn with
  | _ n ih =>
    rw [Dec.ofNat]
    split
    · rename_i h
      refine ⟨48 + n.toUInt8, [], rfl, ?_⟩
      have : ∀ m : Fin 10, 0 < m.val → (49 : UInt8) ≤ 48 + (m.val).toUInt8 ∧ 48 + (m.val).toUInt8 ≤ 57 := by decide
      exact this ⟨n, h⟩ hn
    · rename_i h
      obtain ⟨c, cs, he, hc⟩ := ih (n / 10) (by omega) (by omega)
      exact ⟨c, cs ++ [48 + (n % 10).toUInt8], by simp [he], hc⟩

theorem parseInt_ofNat (n : Nat) (hn : 0 < n) (h : n ≤ Fmt.int64Max) : Fmt.parseInt (Dec.ofNat n) = some (n : Int) := by
  obtain ⟨c, cs, he, hc1, hc2⟩ := ofNat_head_pos n hn
  have hall := Dec.ofNat_all_digits n
  rw [he] at hall
  have h45 : c ≠ 45 := by intro e; subst e; revert hc1; decide
  have h43 : c ≠ 43 := by intro e; subst e; revert hc1; decide
  have hv : Dec.value (c :: cs) = n := by rw [← he]; exact Dec.value_ofNat n
  have hall' : (c :: cs).all Dec.isDigit = true := by
    simp only [List.all_eq_true]; exact hall
  rw [he]
  simp only [Fmt.parseInt, h45, h43, decide_false, Bool.or_self, Bool.false_eq_true, if_false]
  simp [hall', hv, h]

/-- a name Goit accepts: no `<` (the reader's `[^<]*`) -/
def NameOK (n : Bytes) : Prop := (60 : UInt8) ∉ n

/-- **Signature lines round trip**: for every name without `<`, every e-mail address the reader's
    grammar accepts, every positive instant, and every offset whose zone prints and reads back
    (`zoneOK`, established for the whole quarter-hour table by `zone_table`):
    `readSign (Sign.String s) = s`. -/
theorem parse_format (s : Sign) (hn : NameOK s.name) (he : matchesEmail s.email = true)
    (ht : 0 < s.unix) (ht2 : s.unix ≤ Fmt.int64Max) (hz : zoneOK s.offset = true) :
    Sign.parse (Sign.format s) = some s := by
  obtain ⟨name, email, unix, offset⟩ := s
  simp only at hn he ht ht2 hz
  -- the instant as a natural number
  obtain ⟨t, rfl⟩ : ∃ t : Nat, unix = (t : Int) := ⟨unix.toNat, by omega⟩
  have htpos : 0 < t := by omega
  have htmax : t ≤ Fmt.int64Max := by omega
  have hofInt : Dec.ofInt (t : Int) = Dec.ofNat t := by
    simp [Dec.ofInt]
  -- the zone
  unfold zoneOK at hz
  cases hzn : zone offset with
  | nil => rw [hzn] at hz; simp at hz
  | cons sg r1 =>
    match r1, hzn with
    | [], hzn => rw [hzn] at hz; simp at hz
    | [_], hzn => rw [hzn] at hz; simp at hz
    | [_, _], hzn => rw [hzn] at hz; simp at hz
    | [_, _, _], hzn => rw [hzn] at hz; simp at hz
    | _ :: _ :: _ :: _ :: _ :: _, hzn => rw [hzn] at hz; simp at hz
    | [a, b, c, d], hzn =>
      rw [hzn] at hz
      simp only [Bool.and_eq_true, Bool.or_eq_true, beq_iff_eq] at hz
      obtain ⟨⟨hsg, hdig⟩, hscan⟩ := hz
      cases hsz : Fmt.sscanfZone sg [sg, a, b, c, d] with
      | none => rw [hsz] at hscan; simp at hscan
      | some hm =>
        obtain ⟨hh, mm⟩ := hm
        rw [hsz] at hscan
        simp only [beq_iff_eq] at hscan
        have hemail := email_chars email he
        have h62 : (62 : UInt8) ∉ email := fun hm => by have := hemail 62 hm; revert this; decide
        have hname60 : (60 : UInt8) ∉ name ++ [32] := by
          simp only [List.mem_append, List.mem_singleton, not_or]; exact ⟨hn, by decide⟩
        have e1 : Sign.format ⟨name, email, (t : Int), offset⟩ =
            (name ++ [32]) ++ 60 :: (email ++ 62 :: (32 :: (Dec.ofNat t ++ 32 :: [sg, a, b, c, d]))) := by
          simp only [Sign.format, hofInt, hzn]
          have : asc " <" = [32, 60] := by decide
          have h2 : asc "> " = [62, 32] := by decide
          simp [this, h2, List.append_assoc]
        have hstamp : matchesStamp (Dec.ofNat t ++ 32 :: [sg, a, b, c, d]) = true := by
          obtain ⟨c0, cs, hofn, hc1, hc2⟩ := ofNat_head_pos t htpos
          have hall := Dec.ofNat_all_digits t
          unfold matchesStamp
          rw [Bytes.cut1_append 32 _ _ (ofNat_no t 32 (by decide))]
          simp only [hofn]
          rw [hofn] at hall
          have hcs : cs.all Dec.isDigit = true := by
            simp only [List.all_eq_true]; intro x hx; exact hall x (List.mem_cons_of_mem _ hx)
          simp only [List.all_cons, List.all_nil, Bool.and_true, Bool.and_eq_true] at hdig
          simp [hc1, hc2, hcs, hsg, hdig]
        unfold Sign.parse
        rw [e1, Bytes.cut1_append 60 _ _ hname60]
        simp only [List.reverse_append, List.reverse_cons, List.reverse_nil, List.nil_append, List.singleton_append,
          List.reverse_reverse]
        rw [Bytes.cut1_append 62 _ _ h62]
        simp only [he, hstamp, Bool.and_self, if_true]
        rw [Bytes.cut1_append 32 _ _ (ofNat_no t 32 (by decide))]
        simp only [parseInt_ofNat t htpos htmax, hsz, hscan]

/-- the quarter hours of the property's domain satisfy the zone hypothesis -/
theorem parse_format_quarter (name email : Bytes) (t : Int) (k : Fin 105) (hn : NameOK name)
    (he : matchesEmail email = true) (ht : 0 < t) (ht2 : t ≤ Fmt.int64Max) :
    Sign.parse (Sign.format ⟨name, email, t, quarter k⟩) = some ⟨name, email, t, quarter k⟩ :=
  parse_format _ hn he ht ht2 (zone_table k)

/-- the address grammar of the property, `local@label(.label)*.tld`, is accepted -/
example : matchesEmail (asc "b.c+d@mail.example.org") = true ∧ matchesEmail (asc "a@b.cc") = true := by decide
example : NameOK (asc "Unicode > x") := by unfold NameOK; decide

end C12
