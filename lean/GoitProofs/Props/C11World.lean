import GoitProofs.Props.C14World
import GoitProofs.Props.C11
set_option linter.unusedSimpArgs false
set_option linter.unusedVariables false

/-! C11 on the whole-repository model: what any invocation appends to `logs/HEAD` is **a sequence of records written by
    `Reflog.format` with the loaded identity and a real action kind** (never a partial line, never foreign bytes), and a log made
    of such records reads back, through Goit's own reader, as exactly the records appended, oldest first. -/

namespace W

open Reflog

/-- `lg'` is `lg` followed by the lines of records satisfying `P` -/
inductive LogRel (P : Rec → Prop) : Option Bytes → Option Bytes → Prop
  | refl (lg) : LogRel P lg lg
  | app (lg lg' : Option Bytes) (r : Rec) : P r → LogRel P lg lg' → LogRel P lg (some (lg'.getD [] ++ Reflog.format r))

/-- the records the commands write: the loaded identity, one of the real action kinds -/
def ByIdent (l : Loaded) (r : Rec) : Prop := r.name = userName l ∧ r.email = userEmail l ∧ r.kind ≠ .undefined

theorem byIdent_rec (l : Loaded) (k : RecKind) (hk : k ≠ .undefined) (f t : Option Bytes) (tm tz : Int) (m : Bytes) :
    ByIdent l ⟨k, f, t, userName l, userEmail l, tm, tz, m⟩ := ⟨rfl, rfl, hk⟩

theorem logRel_one (l : Loaded) (lg : Option Bytes) (k : RecKind) (hk : k ≠ .undefined) (f t : Option Bytes) (tm tz : Int) (m : Bytes) :
    LogRel (ByIdent l) lg (some (lg.getD [] ++ recLine l k f t tm tz m)) :=
  LogRel.app lg lg _ (byIdent_rec l k hk f t tm tz m) (LogRel.refl lg)

theorem logRel_two (l : Loaded) (lg : Option Bytes) (k1 k2 : RecKind) (hk1 : k1 ≠ .undefined) (hk2 : k2 ≠ .undefined)
    (f1 t1 f2 t2 : Option Bytes) (tm1 tz1 tm2 tz2 : Int) (m1 m2 : Bytes) :
    LogRel (ByIdent l) lg (some ((some (lg.getD [] ++ recLine l k1 f1 t1 tm1 tz1 m1) : Option Bytes).getD [] ++ recLine l k2 f2 t2 tm2 tz2 m2)) :=
  LogRel.app lg _ _ (byIdent_rec l k2 hk2 f2 t2 tm2 tz2 m2) (logRel_one l lg k1 hk1 f1 t1 tm1 tz1 m1)

macro "logrel_close" : tactic => `(tactic| (
  simp only [setHead_logHead, appendLogHead_logHead, appendLogBranch_logHead, writeFile_logHead,
    setIndexIfChanged_logHead, writeEntries_logHead, putObj_logHead, putObjs_logHead, putBlobs_logHead]
  first
    | exact LogRel.refl _
    | exact logRel_one _ _ _ (by decide) _ _ _ _ _
    | exact logRel_two _ _ _ _ (by decide) (by decide) _ _ _ _ _ _ _ _ _ _))

macro "logrel_by " f:ident : tactic => `(tactic| (
  unfold $f
  try unfold branchCreate
  try unfold branchRename
  try unfold branchDelete
  try unfold switchTo
  try unfold switchCreate
  try unfold updateRefTo
  try unfold resetTo
  try unfold commitWrite
  try dsimp only
  repeat' split
  all_goals first | exact LogRel.refl _ | logrel_close))

theorem addCmd_logrel (H) (w l args) : LogRel (ByIdent l) w.logHead (addCmd H w l args).1.logHead := by logrel_by addCmd
theorem rmCmd_logrel (w l args) : LogRel (ByIdent l) w.logHead (rmCmd w l args).1.logHead := by logrel_by rmCmd
theorem commitCmd_logrel (H) (w l msg tz ts) : LogRel (ByIdent l) w.logHead (commitCmd H w l msg tz ts).1.logHead := by logrel_by commitCmd
theorem branchCmd_logrel (w l args list ren del tz ts) : LogRel (ByIdent l) w.logHead (branchCmd w l args list ren del tz ts).1.logHead := by
  logrel_by branchCmd
theorem switchCmd_logrel (H) (w l args create tz ts) : LogRel (ByIdent l) w.logHead (switchCmd H w l args create tz ts).1.logHead := by
  logrel_by switchCmd
theorem updateRefCmd_logrel (H) (w l args) : LogRel (ByIdent l) w.logHead (updateRefCmd H w l args).1.logHead := by logrel_by updateRefCmd
theorem resetCmd_logrel (H) (w l s m h args tz ts) : LogRel (ByIdent l) w.logHead (resetCmd H w l s m h args tz ts).1.logHead := by
  logrel_by resetCmd
theorem configCmd_logrel (l : Loaded) (w g args) : LogRel (ByIdent l) w.logHead (configCmd w g args).1.logHead := by logrel_by configCmd

theorem restoreCmd_logrel (H) (w l st args) : LogRel (ByIdent l) w.logHead (restoreCmd H w l st args).1.logHead := by
  unfold restoreCmd
  dsimp only
  repeat' split
  all_goals first
    | exact LogRel.refl _
    | (rw [restoreWorkP_field H (fun w => w.logHead) writeFile_logHead]; exact LogRel.refl _)
    | logrel_close

theorem LogRel.mono {P Q : Rec → Prop} (h : ∀ r, P r → Q r) {a b : Option Bytes} (hr : LogRel P a b) : LogRel Q a b := by
  induction hr with
  | refl => exact LogRel.refl _
  | app lg' r hp _ ih => exact LogRel.app _ lg' r (h r hp) ih

/-- the records of the identity the invocation loaded -/
def ByLoaded (H : HashFn) (w : World) (r : Rec) : Prop := ∃ l, load H w = some l ∧ ByIdent l r

theorem run_logrel (H : HashFn) (w : World) (i : Inv) : LogRel (ByLoaded H w) w.logHead (run H w i).1.logHead := by
  unfold run
  dsimp only
  split
  · split
    · unfold initCmd; repeat' split
      all_goals exact LogRel.refl _
    · split <;> exact LogRel.refl _
  · split
    · exact LogRel.refl _
    · cases hl : load H w with
      | none => exact LogRel.refl _
      | some l =>
        have up : ∀ {b}, LogRel (ByIdent l) w.logHead b → LogRel (ByLoaded H w) w.logHead b :=
          fun hr => hr.mono (fun r hp => ⟨l, hl, hp⟩)
        dsimp only
        split
        all_goals first
          | exact LogRel.refl _
          | exact up (addCmd_logrel H w l _)
          | exact up (rmCmd_logrel w l _)
          | exact up (commitCmd_logrel H w l _ _ _)
          | exact up (branchCmd_logrel w l _ _ _ _ _ _)
          | exact up (switchCmd_logrel H w l _ _ _ _)
          | exact up (resetCmd_logrel H w l _ _ _ _ _ _)
          | exact up (restoreCmd_logrel H w l _ _)
          | exact up (updateRefCmd_logrel H w l _)
          | exact up (configCmd_logrel l w _ _)
          | (repeat' split) <;> first | exact LogRel.refl _ | logrel_close

/-- what a `LogRel` appends, as an explicit list of records (oldest first) -/
theorem LogRel.recs {P : Rec → Prop} {a b : Option Bytes} (hr : LogRel P a b) :
    ∃ recs : List Rec, (∀ r ∈ recs, P r) ∧ b.getD [] = a.getD [] ++ (recs.map Reflog.format).flatten := by
  induction hr with
  | refl => exact ⟨[], (fun r hr => by cases hr), by simp⟩
  | app lg' r hp _ ih =>
    obtain ⟨recs, hall, heq⟩ := ih
    refine ⟨recs ++ [r], ?_, ?_⟩
    · intro x hx
      rcases List.mem_append.mp hx with h1 | h1
      · exact hall x h1
      · simp at h1; rw [h1]; exact hp
    · simp only [Option.getD_some, heq, List.map_append, List.flatten_append, List.map_cons, List.map_nil,
        List.flatten_cons, List.flatten_nil, List.append_nil, List.append_assoc]

end W

namespace C11

open Reflog Bytes

theorem scanLinesE_unlines (ls : List Bytes) (h : ∀ l ∈ ls, LineOK l) : scanLinesE (unlines ls) = some ls := by
  unfold scanLinesE
  rw [rawLines_unlines ls (fun l hl => (h l hl).1), map_dropCR ls (fun l hl => (h l hl).2.2)]
  have : ls.all (fun l => decide (l.length < maxToken)) = true := by
    simp only [List.all_eq_true, decide_eq_true_eq]
    exact fun l hl => (h l hl).2.1
  rw [if_pos this]

/-- many records at once -/
theorem parse_append_many (ls : List Bytes) (rs : List Loaded) (recs : List Rec) (h : ∀ r ∈ recs, LineSafe r)
    (hls : parseLines ls = some rs) : parseLines (ls ++ recs.map lineOf) = some (rs ++ recs.map loaded) := by
  induction recs generalizing ls rs with
  | nil => simpa using hls
  | cons r recs ih =>
    have h1 := parse_append ls rs r (h r List.mem_cons_self) hls
    have := ih (ls ++ [lineOf r]) (rs ++ [loaded r]) (fun x hx => h x (List.mem_cons_of_mem _ hx)) h1
    simpa [List.append_assoc] using this

theorem unlines_append (a b : List Bytes) : unlines (a ++ b) = unlines a ++ unlines b := by
  simp [unlines]

theorem unlines_lineOf (recs : List Rec) : unlines (recs.map lineOf) = (recs.map Reflog.format).flatten := by
  induction recs with
  | nil => rfl
  | cons r recs ih =>
    have : unlines (lineOf r :: recs.map lineOf) = (lineOf r ++ [10]) ++ unlines (recs.map lineOf) := by simp [unlines]
    simp only [List.map_cons, List.flatten_cons, this, ih, format_eq]

/-- **Every invocation appends whole records of the loaded identity to `logs/HEAD`, nothing else** (whole-repository model;
    every state, every outcome): there is a list of records — written with the name and e-mail the invocation loaded, with a real
    action kind — such that the new log is the old log followed by exactly their lines -/
theorem world_appends_records (H : HashFn) (w : W.World) (i : W.Inv) :
    ∃ recs : List Rec, (∀ r ∈ recs, W.ByLoaded H w r) ∧
      (W.run H w i).1.logHead.getD [] = w.logHead.getD [] ++ (recs.map Reflog.format).flatten :=
  (W.run_logrel H w i).recs

/-- **… and a log extended by such records reads back as the old entries followed by the new ones, oldest first** — for records
    whose lines the scanner returns whole (`LineOK`: no line break inside, shorter than 64 KiB, no CR at the end) and that are
    `LineSafe` (no tab in the identity, 20-byte non-zero ids) -/
theorem log_reads_back (old : List Bytes) (rs : List Loaded) (recs : List Rec)
    (hold : ∀ l ∈ old, LineOK l) (hp : parseLines old = some rs)
    (hsafe : ∀ r ∈ recs, LineSafe r) (hok : ∀ r ∈ recs, LineOK (lineOf r)) :
    Reflog.parse (unlines old ++ (recs.map Reflog.format).flatten) = some (rs ++ recs.map loaded) := by
  rw [← unlines_lineOf, ← unlines_append]
  unfold Reflog.parse
  rw [scanLinesE_unlines _ (by
    intro l hl
    rcases List.mem_append.mp hl with h1 | h1
    · exact hold l h1
    · obtain ⟨r, hr, rfl⟩ := List.mem_map.mp h1; exact hok r hr)]
  exact parse_append_many old rs recs hsafe hp

/-- the journal invariant: `logs/HEAD` is a sequence of whole lines that reads back as `rs` -/
def LogInv (w : W.World) (ls : List Bytes) (rs : List Loaded) : Prop :=
  w.logHead.getD [] = unlines ls ∧ (∀ l ∈ ls, LineOK l) ∧ parseLines ls = some rs

/-- **One invocation keeps the journal readable and only adds at its end**: if the log read back as `rs` before, then for the
    records the invocation appended (`world_appends_records` says there are such records, written with the loaded identity),
    provided their lines are lines the scanner returns whole and they are `LineSafe`, the log reads back afterwards as `rs` followed
    by those records, oldest first — every earlier entry keeps its content and moves up by the number of new records
    (`get_append_zero`, `get_append_succ`). -/
theorem world_log_step (H : HashFn) (w : W.World) (i : W.Inv) (ls : List Bytes) (rs : List Loaded) (recs : List Rec)
    (hinv : LogInv w ls rs)
    (heq : (W.run H w i).1.logHead.getD [] = w.logHead.getD [] ++ (recs.map Reflog.format).flatten)
    (hsafe : ∀ r ∈ recs, LineSafe r) (hok : ∀ r ∈ recs, LineOK (lineOf r)) :
    LogInv (W.run H w i).1 (ls ++ recs.map lineOf) (rs ++ recs.map loaded) ∧
      Reflog.parse ((W.run H w i).1.logHead.getD []) = some (rs ++ recs.map loaded) := by
  obtain ⟨h1, h2, h3⟩ := hinv
  refine ⟨⟨?_, ?_, parse_append_many ls rs recs hsafe h3⟩, ?_⟩
  · rw [heq, h1, unlines_append, unlines_lineOf]
  · intro l hl
    rcases List.mem_append.mp hl with h | h
    · exact h2 l h
    · obtain ⟨r, hr, rfl⟩ := List.mem_map.mp h; exact hok r hr
  · rw [heq, h1]; exact log_reads_back ls rs recs h2 h3 hsafe hok

/-- the records an invocation appends are lines the scanner returns whole and are `LineSafe` — a condition on the identity, on the
    first line of the message and on the ids written, for whichever decomposition into records of the loaded identity -/
def StepLog (H : HashFn) (w : W.World) (i : W.Inv) : Prop :=
  ∀ recs : List Rec, (∀ r ∈ recs, W.ByLoaded H w r) →
    (W.run H w i).1.logHead.getD [] = w.logHead.getD [] ++ (recs.map Reflog.format).flatten →
    ∀ r ∈ recs, LineSafe r ∧ LineOK (lineOf r)

def StepLogAll (H : HashFn) : W.World → List W.Inv → Prop
  | _, [] => True
  | w, i :: is => StepLog H w i ∧ StepLogAll H (W.run H w i).1 is

/-- **The journal reads back after every history**: from the empty directory, after any sequence of invocations whose appended
    records meet `StepLog`, `logs/HEAD` is a sequence of whole lines and Goit's own reader returns a list of entries for it (never an
    error, never a partial record) -/
theorem world_log_history (H : HashFn) (w : W.World) (is : List W.Inv) (ls : List Bytes) (rs : List Loaded)
    (hinv : LogInv w ls rs) (hsl : StepLogAll H w is) :
    ∃ ls' rs', LogInv (W.runAll H w is) (ls ++ ls') (rs ++ rs') ∧
      Reflog.parse ((W.runAll H w is).logHead.getD []) = some (rs ++ rs') := by
  unfold W.runAll
  induction is generalizing w ls rs with
  | nil =>
    refine ⟨[], [], by simpa using hinv, ?_⟩
    obtain ⟨h1, h2, h3⟩ := hinv
    simp only [List.foldl_nil, List.append_nil]
    rw [h1]; unfold Reflog.parse; rw [scanLinesE_unlines ls h2]; exact h3
  | cons i is ih =>
    obtain ⟨recs, hby, heq⟩ := world_appends_records H w i
    have hs := hsl.1 recs hby heq
    obtain ⟨hinv', _⟩ := world_log_step H w i ls rs recs hinv heq (fun r hr => (hs r hr).1) (fun r hr => (hs r hr).2)
    obtain ⟨ls', rs', h1, h2⟩ := ih (W.run H w i).1 _ _ hinv' hsl.2
    simp only [List.foldl_cons]
    exact ⟨recs.map lineOf ++ ls', recs.map loaded ++ rs', by simpa [List.append_assoc] using h1, by simpa [List.append_assoc] using h2⟩

theorem logInv_empty : LogInv {} [] [] := ⟨rfl, (fun l hl => by cases hl), rfl⟩

end C11

namespace C11

/-- the conditions on appended records are met by an ordinary record (first commit by `X <x@example.com>`, message `first`) -/
example : LineSafe ⟨.commit, none, some (List.replicate 20 1), asc "X", asc "x@example.com", 1700000000, 0, asc "first"⟩ ∧
    Bytes.LineOK (lineOf ⟨.commit, none, some (List.replicate 20 1), asc "X", asc "x@example.com", 1700000000, 0, asc "first"⟩) := by
  refine ⟨⟨by decide, by decide, by decide, ?_⟩, ?_⟩
  · intro id hid
    injection hid with hid; subst hid
    exact ⟨by decide, by decide +kernel⟩
  · unfold Bytes.LineOK; decide +kernel

end C11
