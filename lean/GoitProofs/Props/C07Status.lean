import GoitProofs.Props.C07Tree
import GoitProofs.Props.C13

/-! # C07 at command level: the "Changes to be committed" section of `status` is exact -/

namespace C07

open Cmds IndexOps TreeBuild C06

/-- **`status` lists under "Changes to be committed" exactly the differences between the staging area and
    HEAD's snapshot**: a snapshot path that is not staged is `deleted`, one staged with another id is
    `modified`, a staged path the snapshot does not hold is `new file` — and nothing else; for every canonical,
    well-formed staging area and snapshot, whatever the names. -/
theorem status_staged_exact (H : HashFn) (w : WS) (st : Status) (h : status H w = .ok st)
    (hs : Canonical w.index) (hok : AllOK w.index) (hs0 : Canonical w.snap) (hok0 : AllOK w.snap) :
    st.staged = fromTree w.index w.snap ++
      (w.index.filter (fun e => decide (∀ t ∈ w.snap, t.path ≠ e.path))).map fun e => ⟨.new, e.id, e.path⟩ := by
  unfold status at h
  simp only at h
  rw [diff_exact H w.index w.snap hs hok hs0 hok0] at h
  simp only [Res.ok.injEq] at h
  rw [← h]

/-- immediately after a commit (staging area = snapshot) the section is empty -/
theorem status_clean_after_commit (H : HashFn) (w : WS) (st : Status) (h : status H w = .ok st)
    (hs : Canonical w.index) (hok : AllOK w.index) (heq : w.snap = w.index) : st.staged = [] := by
  unfold status at h
  simp only at h
  have := (diff_nil_iff H w.index w.snap hs hok (heq ▸ hs) (heq ▸ hok)).2 heq.symm
  rw [this] at h
  simp only [Res.ok.injEq] at h
  rw [← h]

end C07
