import GoitProofs.Props.C11
import GoitProofs.Props.C12

/-! # C08 — reset moves exactly what each mode promises (argument grammar, position lookup, mode table) -/

namespace C08

open Reflog

def pre : Bytes := asc "HEAD@{"

theorem hasPrefix_append (p r : Bytes) : Bytes.hasPrefix (p ++ r) p = true := C11.hasPrefix_append_self p r

theorem value_le (ds : Bytes) (h : ds.all Dec.isDigit = true) (hne : ds ≠ []) (hv : Dec.value ds ≤ Fmt.int64Max) :
    Fmt.parseInt ds = some (Dec.value ds : Int) := by
  cases ds with
  | nil => exact absurd rfl hne
  | cons c cs =>
    have hc : Dec.isDigit c = true := by simp only [List.all_cons, Bool.and_eq_true] at h; exact h.1
    have hc' := (Dec.isDigit_iff c).mp hc
    have h45 : c ≠ 45 := by intro e; subst e; revert hc'; decide
    have h43 : c ≠ 43 := by intro e; subst e; revert hc'; decide
    simp only [Fmt.parseInt, h45, h43, decide_false, Bool.or_self, Bool.false_eq_true, if_false]
    simp [h, hv]

/-- **Every well-formed position is accepted**: `HEAD@{<digits>}` with one or more digits (the pinned
    pattern allowed a single digit only) resolves to the number written. -/
theorem accepts (ds : Bytes) (hne : ds ≠ []) (hd : ds.all Dec.isDigit = true) (hv : Dec.value ds ≤ Fmt.int64Max) :
    parseResetArg (pre ++ ds ++ [125]) = some (Dec.value ds) := by
  unfold parseResetArg
  have h1 : Bytes.hasPrefix (asc "HEAD@{" ++ ds ++ [125]) (asc "HEAD@{") = true := by
    rw [List.append_assoc]; exact hasPrefix_append _ _
  have h2 : (asc "HEAD@{" ++ ds ++ [125]).drop (asc "HEAD@{").length = ds ++ [125] := by
    rw [List.append_assoc]; exact List.drop_left' rfl
  simp only [pre, h1, if_true, h2]
  have h3 : (ds ++ [125]).reverse = 125 :: ds.reverse := by simp
  rw [h3]
  simp only [List.reverse_reverse, hne, ne_eq, not_false_eq_true, hd, and_self, if_true, value_le ds hd hne hv]
  simp

theorem accepts_number (n : Nat) (hn : n ≤ Fmt.int64Max) : parseResetArg (pre ++ Dec.ofNat n ++ [125]) = some n := by
  have hall : (Dec.ofNat n).all Dec.isDigit = true := by
    simp only [List.all_eq_true]; exact Dec.ofNat_all_digits n
  have := accepts (Dec.ofNat n) (Dec.ofNat_ne_nil n) hall (by rw [Dec.value_ofNat]; exact hn)
  rwa [Dec.value_ofNat] at this

theorem hasPrefix_split (s p : Bytes) (h : Bytes.hasPrefix s p = true) : s = p ++ s.drop p.length := by
  induction p generalizing s with
  | nil => simp
  | cons b bs ih =>
    cases s with
    | nil => simp [Bytes.hasPrefix] at h
    | cons a as =>
      simp only [Bytes.hasPrefix, Bool.and_eq_true, beq_iff_eq] at h
      obtain ⟨rfl, h2⟩ := h
      simp only [List.length_cons, List.drop_succ_cons, List.cons_append, List.cons.injEq, true_and]
      exact ih as h2

/-- **Nothing else is accepted**: an accepted argument is exactly `HEAD@{` + digits + `}` — anchored on
    both sides (the pinned pattern accepted `xHEAD@{1}HEAD@{3}`) — and the position is the number written. -/
theorem accepted_shape (a : Bytes) (n : Nat) (h : parseResetArg a = some n) :
    ∃ ds, a = pre ++ ds ++ [125] ∧ ds ≠ [] ∧ ds.all Dec.isDigit = true ∧ n = Dec.value ds := by
  unfold parseResetArg at h
  by_cases hp : Bytes.hasPrefix a (asc "HEAD@{") = true
  · simp only [hp, if_true] at h
    have hsplit := hasPrefix_split a _ hp
    cases hr : (a.drop (asc "HEAD@{").length).reverse with
    | nil => rw [hr] at h; simp at h
    | cons c rd =>
      rw [hr] at h
      by_cases hc : c = 125
      · subst hc
        simp only at h
        by_cases hok : rd.reverse ≠ [] ∧ rd.reverse.all Dec.isDigit = true
        · rw [if_pos hok] at h
          have hbody : a.drop (asc "HEAD@{").length = rd.reverse ++ [125] := by
            have := congrArg List.reverse hr
            simpa using this
          refine ⟨rd.reverse, ?_, hok.1, hok.2, ?_⟩
          · rw [pre, List.append_assoc, ← hbody]; exact hsplit
          · by_cases hle : Dec.value rd.reverse ≤ Fmt.int64Max
            · rw [value_le rd.reverse hok.2 hok.1 hle] at h
              simp only [Option.some.injEq] at h
              rw [← h]; simp
            · -- out of range: parseInt fails, so the argument would not have been accepted
              cases hds : rd.reverse with
              | nil => exact absurd hds hok.1
              | cons d0 dr =>
                rw [hds] at h hok hle
                have hd0 : Dec.isDigit d0 = true := by
                  have := hok.2; simp only [List.all_cons, Bool.and_eq_true] at this; exact this.1
                have hd0' := (Dec.isDigit_iff d0).mp hd0
                have h45 : d0 ≠ 45 := by intro e; subst e; revert hd0'; decide
                have h43 : d0 ≠ 43 := by intro e; subst e; revert hd0'; decide
                simp only [Fmt.parseInt, h45, h43, decide_false, Bool.or_self, Bool.false_eq_true, if_false] at h
                simp [hok.2, hle] at h
        · rw [if_neg hok] at h; cases h
      · split at h
        · rename_i heq; cases heq; exact absurd rfl hc
        · cases h
  · simp [hp] at h

/-- **`reset HEAD@{n}` lands on the entry `reflog` displays at position n** (re-exported from C11) and a
    position out of range is refused. -/
theorem position_agrees (rs : List Loaded) (n : Nat) (hn : n < rs.length) :
    ∃ r, Reflog.get rs n = some r ∧ (listing rs)[n]? = some (n, show7 r.hash, r.kind, r.msg) :=
  C11.get_agrees_with_listing rs n hn

theorem out_of_range_refused (rs : List Loaded) (n : Nat) (hn : rs.length ≤ n) : Reflog.get rs n = none :=
  C11.get_out_of_range rs n hn

open Cmds in
/-- the whole decision table (8 flag combinations), by the kernel -/
theorem mode_table :
    modeOf false true false = some (false, true, false) ∧   -- default: mixed
    modeOf true true false = some (true, false, false) ∧    -- --soft
    modeOf false true true = some (false, false, true) ∧    -- --hard
    modeOf true true true = none ∧                          -- --soft --hard: refused
    modeOf false false false = none ∧                       -- --mixed=false alone: refused
    modeOf true false false = some (true, false, false) ∧
    modeOf false false true = some (false, false, true) ∧
    modeOf true false true = none := by decide

example : parseResetArg (asc "HEAD@{10}") = some 10 ∧ parseResetArg (asc "xHEAD@{1}HEAD@{3}") = none ∧
    parseResetArg (asc "HEAD@{}") = none ∧ parseResetArg (asc "HEAD@{1}x") = none := by decide +kernel

end C08
