import GoitProofs.Props.C11Head0
set_option linter.unusedSimpArgs false
set_option linter.unusedVariables false

/-! C07 on the whole-repository model: `commit` succeeds only if something is staged that differs from HEAD's snapshot. -/

namespace W

/-- `run_commit_ok` with the way the snapshot handed to the command model was obtained -/
theorem run_commit_snap (H : HashFn) (w : World) (msg : Bytes) (tz : Int) (ts : List Int) (o : Option Bytes)
    (h : (run H w ⟨.commit msg, tz, ts⟩).2 = .ok o) :
    ∃ l snap id data, load H w = some l ∧ Cmds.commitCmd H (commitIn w l snap msg tz (clock ts 0)) = .ok (id, data) ∧
      (if l.headCommit.isNone = true then (Res.ok none : Res (Option (List Entry))) else (headSnap H w l).map some) = .ok snap := by
  unfold run at h
  dsimp only at h
  by_cases h1 : (!w.inited) = true
  · rw [if_pos h1] at h; split at h <;> cases h
  · rw [if_neg h1] at h
    by_cases h2 : (!(pathArgs (Cmd.commit msg)).all pathArgOK) = true
    · rw [if_pos h2] at h; cases h
    · rw [if_neg h2] at h
      cases hl : load H w with
      | none => simp only [hl] at h; cases h
      | some l =>
        simp only [hl] at h
        unfold commitCmd at h
        dsimp only at h
        cases hs : (if l.headCommit.isNone = true then (Res.ok none : Res (Option (List Entry))) else (headSnap H w l).map some) with
        | crash => simp only [hs] at h; cases h
        | err => simp only [hs] at h; split at h <;> cases h
        | ok snap =>
          simp only [hs] at h
          cases hcc : Cmds.commitCmd H (commitIn w l snap msg tz (clock ts 0)) with
          | crash => simp only [hcc] at h; cases h
          | err => simp only [hcc] at h; split at h <;> cases h
          | ok p =>
            obtain ⟨id, data⟩ := p
            exact ⟨l, snap, id, data, rfl, hcc, hs⟩

end W

namespace C07

open TreeBuild IndexOps

/-- **A successful `commit` had a staged difference** (whole-repository model): when `commit` ends `ok` — if any branch exists —
    HEAD's snapshot was read and the comparison of the staging area with it listed at least one difference; on a repository without
    branches the staging area is not empty. Contrapositive: with nothing staged that differs, `commit` does not succeed, and then
    (`C07.world_commit_refused_unchanged`) it changes nothing. -/
theorem world_commit_needs_diff (H : HashFn) (w : W.World) (msg : Bytes) (tz : Int) (ts : List Int) (o : Option Bytes)
    (hout : (W.run H w ⟨.commit msg, tz, ts⟩).2 = .ok o) :
    ∃ l, W.load H w = some l ∧
      (w.heads.isEmpty = true → l.idx ≠ []) ∧
      (w.heads.isEmpty = false → ∃ sn d ds, W.headSnap H w l = .ok sn ∧
        diffWithTree l.idx (build H (fuelFor sn) sn) = .ok (d :: ds)) := by
  obtain ⟨l, snap, id, data, hl, hcc, hs⟩ := W.run_commit_snap H w msg tz ts o hout
  obtain ⟨_, _, _, _, _, _, _, _, h1, h2⟩ := C02.commitCmd_ok H _ id data hcc
  refine ⟨l, hl, ?_, ?_⟩
  · intro he
    exact h1 (by simp [W.commitIn, he])
  · intro he
    obtain ⟨sn, d, ds, hsn, hdiff⟩ := h2 (by simp [W.commitIn, he])
    refine ⟨sn, d, ds, ?_, hdiff⟩
    have hsnap : snap = some sn := hsn
    subst hsnap
    by_cases hn : l.headCommit.isNone = true
    · rw [if_pos hn] at hs; injection hs with hs; cases hs
    · rw [if_neg hn] at hs
      cases hh : W.headSnap H w l with
      | ok x => rw [hh] at hs; simp [Res.map] at hs; rw [hs]
      | err => rw [hh] at hs; simp [Res.map] at hs
      | crash => rw [hh] at hs; simp [Res.map] at hs

end C07

namespace C07

open TreeBuild IndexOps

/-- **Committing nothing is refused** (whole-repository model, in a state every history reaches): when the staging area equals
    HEAD's snapshot — as read back through the World's own store — `commit` does not end `ok`, whatever the message and the
    identity; and a `commit` that does not succeed before reaching the tree writer changes nothing
    (`C07.world_commit_refused_unchanged`). -/
theorem world_commit_nothing_staged_refused (H : HashFn) (w : W.World) (msg : Bytes) (tz : Int) (ts : List Int)
    (hj : W.J H w) (l : W.Loaded) (hl : W.load H w = some l) (sn : List Entry) (hsn : W.headSnap H w l = .ok sn)
    (heq : l.idx = sn) (hne : w.heads.isEmpty = false) (o : Option Bytes) :
    (W.run H w ⟨.commit msg, tz, ts⟩).2 ≠ .ok o := by
  intro hout
  obtain ⟨l', hl', _, h2⟩ := world_commit_needs_diff H w msg tz ts o hout
  rw [hl] at hl'; injection hl' with hl'; subst hl'
  obtain ⟨sn', d, ds, hsn', hdiff⟩ := h2 hne
  rw [hsn] at hsn'; injection hsn' with hsn'; subst hsn'
  have hgi := W.goodE_facts l.idx (W.loaded_idx_goodE H w l hl hj.1)
  have hgs := W.goodE_facts sn ((W.readsGoodE H w hj.2).2 l sn hl hsn)
  have := (diff_nil_iff H l.idx sn hgi.1 hgi.2.2.1 hgs.1 hgs.2.2.1).2 heq
  rw [this] at hdiff
  cases hdiff

end C07
