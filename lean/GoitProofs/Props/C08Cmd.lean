import GoitProofs.Props.C08

/-! # C08 at command level: `goit reset` on the command model `Cmds.resetCmd`

Compared with the real command on every `reset` of the generated histories: refusal, the commit the
branch is set to, the staging area afterwards and (for `--hard`) the work files. -/

namespace C08

open Cmds Reflog

/-- **What a successful `reset` does**: the argument is `HEAD@{n}` with `n` inside the journal, the current
    branch is set to the commit the `reflog` listing displays at position `n`, `--soft` leaves the staging
    area alone while `--mixed`/`--hard` install that commit's snapshot, and only `--hard` touches the
    working tree. -/
theorem resetCmd_ok (so mi ha : Bool) (arg lg : Bytes) (snaps : List (Bytes × List Entry)) (idx : List Entry)
    (out : ResetOut) (h : resetCmd so mi ha arg lg snaps idx = .ok out) :
    ∃ s m n rs r es, modeOf so mi ha = some (s, m, out.hard) ∧ parseResetArg arg = some n ∧
      Reflog.parse lg = some rs ∧ n < rs.length ∧ Reflog.get rs n = some r ∧ r.hash = some out.target ∧
      (listing rs)[n]? = some (n, show7 (some out.target), r.kind, r.msg) ∧
      snaps.find? (fun x => x.1 == out.target) = some (out.target, es) ∧
      out.index = (if s then idx else es) := by
  unfold resetCmd at h
  cases hm : modeOf so mi ha with
  | none => simp only [hm] at h; cases h
  | some md =>
  obtain ⟨s, m, hd⟩ := md
  simp only [hm] at h
  cases hn : parseResetArg arg with
  | none => simp only [hn] at h; cases h
  | some n =>
  simp only [hn] at h
  cases hp : Reflog.parse lg with
  | none => simp only [hp] at h; cases h
  | some rs =>
  simp only [hp] at h
  cases hg : Reflog.get rs n with
  | none => simp only [hg] at h; cases h
  | some r =>
  simp only [hg] at h
  cases hh : r.hash with
  | none => simp only [hh] at h; cases h
  | some t =>
  simp only [hh] at h
  cases hf : snaps.find? (fun x => x.1 == t) with
  | none => simp only [hf] at h; cases h
  | some ce =>
    obtain ⟨c, es⟩ := ce
    simp only [hf, Res.ok.injEq] at h
    subst h
    have hlt : n < rs.length := by
      by_cases hlt : n < rs.length
      · exact hlt
      · rw [out_of_range_refused rs n (by omega)] at hg; cases hg
    obtain ⟨r', hr', hl⟩ := position_agrees rs n hlt
    rw [hg] at hr'
    cases hr'
    have hc : c = t := by
      have := List.find?_some hf
      simpa using this
    subst hc
    refine ⟨s, m, n, rs, r, es, rfl, rfl, rfl, hlt, hg, hh, ?_, hf, rfl⟩
    rw [hl, hh]

/-- `--soft` keeps the staging area and the working tree -/
theorem reset_soft (mi : Bool) (arg lg : Bytes) (snaps : List (Bytes × List Entry)) (idx : List Entry) (out : ResetOut)
    (h : resetCmd true mi false arg lg snaps idx = .ok out) : out.index = idx ∧ out.hard = false := by
  obtain ⟨s, m, n, rs, r, es, hm, _, _, _, _, _, _, _, hi⟩ := resetCmd_ok _ _ _ _ _ _ _ _ h
  have : modeOf true mi false = some (true, false, false) := by cases mi <;> decide
  rw [this] at hm
  simp only [Option.some.injEq, Prod.mk.injEq] at hm
  obtain ⟨rfl, _, hh⟩ := hm
  exact ⟨by simpa using hi, hh.symm⟩

/-- a position outside the journal, a rename's zero-id record, two modes at once, or a malformed argument is refused -/
theorem reset_refused (so mi ha : Bool) (arg lg : Bytes) (snaps : List (Bytes × List Entry)) (idx : List Entry)
    (h : modeOf so mi ha = none ∨ parseResetArg arg = none ∨
      (∃ n rs, parseResetArg arg = some n ∧ Reflog.parse lg = some rs ∧
        (rs.length ≤ n ∨ ∃ r, Reflog.get rs n = some r ∧ r.hash = none))) :
    resetCmd so mi ha arg lg snaps idx = .err := by
  unfold resetCmd
  rcases h with h | h | ⟨n, rs, h1, h2, h3⟩
  · simp [h]
  · cases hm : modeOf so mi ha with
    | none => rfl
    | some md => simp [h]
  · cases hm : modeOf so mi ha with
    | none => rfl
    | some md =>
      obtain ⟨s, m, hd⟩ := md
      simp only [h1, h2]
      rcases h3 with h3 | ⟨r, h3, h4⟩
      · simp [out_of_range_refused rs n h3]
      · simp [h3, h4]

end C08
