import GoitProofs.Props.C02World
set_option linter.unusedSimpArgs false
set_option linter.unusedVariables false

/-! C08 (`hard`) and C09 (`restore` in the working tree) on the whole-repository model at **content level**: after a successful
    `reset --hard` every path of the target snapshot holds, in the working tree, the bytes of the blob the snapshot names;
    after a successful `restore <args>` every staged path named by an argument (itself, or beneath a directory argument)
    holds the bytes of its staged blob; files that are not named keep their bytes. -/

namespace W

open C04 C05 C06 C17 TreeBuild TreeCodec IndexOps

/-- two entries of the list with the same path name the same blob -/
def Unique (es : List Entry) : Prop := ∀ a ∈ es, ∀ b ∈ es, a.path = b.path → a.id = b.id

theorem unique_of_canonical (es : List Entry) (h : Canonical es) : Unique es :=
  fun a ha b hb hp => by rw [C07.canonical_inj es h a b ha hb hp]

theorem unique_sub {es es' : List Entry} (hs : ∀ e ∈ es', e ∈ es) (h : Unique es) : Unique es' :=
  fun a ha b hb hp => h a (hs a ha) b (hs b hb) hp

/-- the file at `e.path` holds the bytes of the object `e.id` -/
def FileIs (H : HashFn) (w : World) (e : Entry) : Prop :=
  ∃ k d, Store.get H (store w) e.id = .ok (k, d) ∧ aget w.files e.path = some d

/-- one pass of the blob writer that reports success -/
theorem writeEntries_spec (H : HashFn) (w : World) (es : List Entry) (b : Bool) (w' : World)
    (h : writeEntries H w es = (true, b, w')) (hu : Unique es) :
    w'.objs = w.objs ∧ (∀ e ∈ es, FileIs H w' e) ∧ (∀ p, (∀ e ∈ es, e.path ≠ p) → aget w'.files p = aget w.files p) := by
  induction es generalizing w with
  | nil =>
    simp only [writeEntries] at h
    injection h with _ h; injection h with _ h; subst h
    exact ⟨rfl, (fun e he => by cases he), fun p _ => rfl⟩
  | cons e rest ih =>
    unfold writeEntries at h
    cases hg : Store.get H (store w) e.id with
    | crash => simp only [hg] at h; injection h with h1 _; cases h1
    | err => simp only [hg] at h; injection h with h1 _; cases h1
    | ok kd =>
      obtain ⟨k, data⟩ := kd
      simp only [hg] at h
      split at h
      · obtain ⟨ho, hall, hfr⟩ := ih (writeFile w e.path data) h (unique_sub (fun x hx => List.mem_cons_of_mem _ hx) hu)
        have hstore : store w' = store w := by unfold store; rw [ho]; rfl
        refine ⟨by rw [ho]; rfl, ?_, ?_⟩
        · intro x hx
          rcases List.mem_cons.mp hx with rfl | hx
          · by_cases hex : ∃ e2 ∈ rest, e2.path = x.path
            · obtain ⟨e2, he2, hp2⟩ := hex
              obtain ⟨k2, d2, hg2, hf2⟩ := hall e2 he2
              have hid : e2.id = x.id := hu e2 (List.mem_cons_of_mem _ he2) x List.mem_cons_self hp2
              exact ⟨k2, d2, by rw [← hid]; exact hg2, by rw [← hp2]; exact hf2⟩
            · refine ⟨k, data, by rw [hstore]; exact hg, ?_⟩
              rw [hfr x.path (fun e2 he2 hp => hex ⟨e2, he2, hp⟩)]
              exact aget_aset_self _ _ _
          · exact hall x hx
        · intro p hp
          rw [hfr p (fun x hx => hp x (List.mem_cons_of_mem _ hx))]
          exact aget_aset_ne _ _ _ _ (fun hpe => hp e List.mem_cons_self hpe.symm)
      · injection h with h1 _; cases h1

theorem hard_tail (H : HashFn) (w3 : World) (es : List Entry) (o : Option Bytes)
    (hok : (if (writeEntries H w3 es).1 = true then Out.ok none else if (writeEntries H w3 es).2.1 = true then Out.err else Out.unsupported) = Out.ok o)
    (hu : Unique es) : ∀ e ∈ es, FileIs H (writeEntries H w3 es).2.2 e := by
  cases hwe : writeEntries H w3 es with
  | mk b1 rest =>
    obtain ⟨b2, w'⟩ := rest
    rw [hwe] at hok
    cases b1 with
    | false => simp only [Bool.false_eq_true, if_false] at hok; split at hok <;> cases hok
    | true => exact (writeEntries_spec H w3 es b2 w' hwe hu).2.1

/-- the staged entries an argument of `restore` names: the path itself, or everything beneath a tracked directory -/
def sel (idx : List Entry) (p : Bytes) : List Entry :=
  if IndexOps.isDir idx p then IndexOps.byDir idx p else idx.filter (fun e => e.path == p)

theorem sel_sub (idx : List Entry) (p : Bytes) : ∀ e ∈ sel idx p, e ∈ idx := by
  intro e he
  unfold sel at he
  split at he
  · exact (C06.byDir_sublist idx p).subset he
  · exact (List.mem_filter.mp he).1

theorem fileIs_congr (H : HashFn) (w w' : World) (e : Entry) (ho : w'.objs = w.objs) (hf : aget w'.files e.path = aget w.files e.path)
    (h : FileIs H w e) : FileIs H w' e := by
  obtain ⟨k, d, hg, ha⟩ := h
  have hstore : store w' = store w := by unfold store; rw [ho]
  exact ⟨k, d, by rw [hstore]; exact hg, by rw [hf]; exact ha⟩

theorem fileIs_same (H : HashFn) (w : World) (e e2 : Entry) (hid : e2.id = e.id) (hp : e2.path = e.path) (h : FileIs H w e2) : FileIs H w e := by
  obtain ⟨k, d, hg, ha⟩ := h
  exact ⟨k, d, by rw [← hid]; exact hg, by rw [← hp]; exact ha⟩

/-- the working-tree form of `restore`, when it reports success -/
theorem restoreWorkP_spec (H : HashFn) (idx : List Entry) (w : World) (args : List Bytes) (w' : World) (o : Option Bytes)
    (h : restoreWorkP H idx w args = (w', .ok o)) (hu : Unique idx) :
    w'.objs = w.objs ∧ (∀ a ∈ args, ∀ e ∈ sel idx (Cmds.cleanPath a), FileIs H w' e) ∧
      (∀ p, (∀ a ∈ args, ∀ e ∈ sel idx (Cmds.cleanPath a), e.path ≠ p) → aget w'.files p = aget w.files p) := by
  induction args generalizing w with
  | nil =>
    simp only [restoreWorkP] at h
    injection h with h _; subst h
    exact ⟨rfl, (fun a ha => by cases ha), fun p _ => rfl⟩
  | cons a rest ih =>
    unfold restoreWorkP at h
    dsimp only at h
    by_cases hreg : (!(IndexOps.found idx (Cmds.cleanPath a) || IndexOps.isDir idx (Cmds.cleanPath a))) = true
    · rw [if_pos hreg] at h; injection h with _ h2; cases h2
    · rw [if_neg hreg] at h
      have hsel : (if IndexOps.isDir idx (Cmds.cleanPath a) = true then IndexOps.byDir idx (Cmds.cleanPath a)
          else List.filter (fun e => e.path == Cmds.cleanPath a) idx) = sel idx (Cmds.cleanPath a) := rfl
      rw [hsel] at h
      cases hwe : writeEntries H w (sel idx (Cmds.cleanPath a)) with
      | mk b1 r =>
        obtain ⟨b2, w1⟩ := r
        rw [hwe] at h
        cases b1 with
        | false => cases b2 <;> (simp only at h; injection h with _ h2; cases h2)
        | true =>
          simp only at h
          obtain ⟨ho1, hall1, hfr1⟩ := writeEntries_spec H w _ b2 w1 hwe (unique_sub (sel_sub idx _) hu)
          obtain ⟨ho2, hall2, hfr2⟩ := ih w1 h
          refine ⟨by rw [ho2, ho1], ?_, ?_⟩
          · intro x hx e he
            rcases List.mem_cons.mp hx with rfl | hx
            · by_cases hex : ∃ a2 ∈ rest, ∃ e2 ∈ sel idx (Cmds.cleanPath a2), e2.path = e.path
              · obtain ⟨a2, ha2, e2, he2, hp2⟩ := hex
                have hid : e2.id = e.id := hu e2 (sel_sub idx _ e2 he2) e (sel_sub idx _ e he) hp2
                exact fileIs_same H w' e e2 hid hp2 (hall2 a2 ha2 e2 he2)
              · exact fileIs_congr H w1 w' e ho2
                  (hfr2 e.path (fun a2 ha2 e2 he2 hp => hex ⟨a2, ha2, e2, he2, hp⟩)) (hall1 e he)
            · exact hall2 x hx e he
          · intro p hp
            rw [hfr2 p (fun a2 ha2 => hp a2 (List.mem_cons_of_mem _ ha2))]
            exact hfr1 p (hp a List.mem_cons_self)

end W

namespace C08

/-- **`reset --hard`, content level** (whole-repository model): after a successful `reset --hard` to commit `t`, the staging area
    is the snapshot of `t` and every path of it holds, in the working tree, the bytes of the blob the snapshot names
    (hypothesis: the snapshot names one blob per path — what `C06.world_commits_read_back_canonical` proves for every stored commit) -/
theorem world_reset_hard_files (H : HashFn) (w : W.World) (l : W.Loaded) (arg t prev : Bytes) (tz : Int) (ts : List Int) (o : Option Bytes)
    (hok : (W.resetTo H w l false true arg t prev tz ts).2 = .ok o)
    (hsn : ∀ es, Cmds.resetEntries H (W.store w) W.treeDepth t = .ok es → W.Unique es) :
    ∃ es, Cmds.resetEntries H (W.store w) W.treeDepth t = .ok es ∧
      (W.resetTo H w l false true arg t prev tz ts).1.index = some es ∧
      ∀ e ∈ es, W.FileIs H (W.resetTo H w l false true arg t prev tz ts).1 e := by
  unfold W.resetTo at hok ⊢
  cases hc : W.commitAt H w t with
  | none => simp only [hc] at hok; cases hok
  | some c =>
    simp only [hc, Bool.false_eq_true, if_false, Bool.not_true] at hok ⊢
    cases hre : Cmds.resetEntries H (W.store (W.appendLogBranch (W.appendLogHead { w with heads := W.aset w.heads l.ref (hashStr t) }
        (W.recLine l .reset (some prev) (some t) (W.clock ts 0) tz (asc "moving to " ++ arg))) l.ref
        (W.recLine l .reset (some prev) (some t) (W.clock ts 0) tz (asc "moving to " ++ arg)))) W.treeDepth t with
    | err => simp only [hre] at hok; cases hok
    | crash => simp only [hre] at hok; cases hok
    | ok es =>
      simp only [hre] at hok ⊢
      have hre' : Cmds.resetEntries H (W.store w) W.treeDepth t = .ok es := hre
      refine ⟨es, hre', ?_, ?_⟩
      · rw [W.writeEntries_index']
      · exact W.hard_tail H _ es o hok (hsn es hre')

end C08

namespace C09

/-- **`restore <args>` in the working tree, content level** (whole-repository model): after a successful `restore`, every staged
    path an argument names — the path itself, or every staged path beneath a tracked directory — holds the bytes of its staged
    blob; every file no argument names keeps its bytes; nothing but the working tree changes (`C09.world_restore_frame`).
    Hypothesis: the staging area names one blob per path (`W.J`, every history). -/
theorem world_restore_files (H : HashFn) (w : W.World) (l : W.Loaded) (args : List Bytes) (o : Option Bytes)
    (hok : (W.restoreCmd H w l false args).2 = .ok o) (hu : W.Unique l.idx) :
    (∀ a ∈ args, ∀ e ∈ W.sel l.idx (Cmds.cleanPath a), W.FileIs H (W.restoreCmd H w l false args).1 e) ∧
    (∀ p, (∀ a ∈ args, ∀ e ∈ W.sel l.idx (Cmds.cleanPath a), e.path ≠ p) →
      W.aget (W.restoreCmd H w l false args).1.files p = W.aget w.files p) := by
  unfold W.restoreCmd at hok ⊢
  by_cases he : args.isEmpty = true
  · rw [if_pos he] at hok; cases hok
  · rw [if_neg he] at hok ⊢
    simp only [Bool.not_false, if_true] at hok ⊢
    have := W.restoreWorkP_spec H l.idx w args (W.restoreWorkP H l.idx w args).1 o (by rw [← hok]) hu
    exact ⟨this.2.1, this.2.2⟩

end C09
