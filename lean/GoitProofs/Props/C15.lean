import GoitModel

/-! # C15 — Crash consistency (order of modifications), and C16's propagation model

A crash between two file-system modifications leaves the state `crash s es k = run s (es.take k)`.
The theorems say, for the modification lists of the commands as the (repaired) code performs them:
a file that is only ever *replaced by rename* holds its old or its complete new content at every crash
point, and every object a ref is about to name has been completely written before the ref changes. -/

namespace C15

open Eff

/-- effects that do not touch role `r` -/
def Untouched (r : Role) : E → Prop
  | .create x => x ≠ r
  | .write x _ => x ≠ r
  | .append x _ => x ≠ r
  | .rename a b => a ≠ r ∧ b ≠ r
  | .remove x => x ≠ r

theorem apply_untouched (s : FS) (e : E) (r : Role) (h : Untouched r e) : apply s e r = s r := by
  cases e with
  | create x => simp only [Untouched] at h; simp [apply, Ne.symm h]
  | write x d => simp only [Untouched] at h; simp [apply, Ne.symm h]
  | append x d => simp only [Untouched] at h; simp [apply, Ne.symm h]
  | rename a b => simp only [Untouched] at h; simp [apply, Ne.symm h.1, Ne.symm h.2]
  | remove x => simp only [Untouched] at h; simp [apply, Ne.symm h]

theorem run_untouched (s : FS) (es : List E) (r : Role) (h : ∀ e ∈ es, Untouched r e) : run s es r = s r := by
  induction es generalizing s with
  | nil => rfl
  | cons e es ih =>
    simp only [run, List.foldl_cons]
    have := ih (apply s e) (fun x hx => h x (List.mem_cons_of_mem _ hx))
    simp only [run] at this
    rw [this, apply_untouched s e r (h e (List.mem_cons_self))]

theorem run_append (s : FS) (a b : List E) : run s (a ++ b) = run (run s a) b := by
  simp [run, List.foldl_append]

/-- after a complete atomic replacement the destination holds exactly the new data -/
theorem replace_done (s : FS) (tmp : String) (dst : Role) (data : Bytes) (hne : Role.tmp tmp ≠ dst) :
    run s (replace tmp dst data) dst = some data := by
  simp [run, replace, apply, hne, Ne.symm hne]

/-- **Atomic replacement**: at every crash point inside `WriteFileAtomic`, the destination file holds
    its old content or the complete new content — never an empty or half-written file. -/
theorem replace_old_or_new (s : FS) (tmp : String) (dst : Role) (data : Bytes) (hne : Role.tmp tmp ≠ dst) (k : Nat) :
    crash s (replace tmp dst data) k dst = s dst ∨ crash s (replace tmp dst data) k dst = some data := by
  have h0 : dst ≠ Role.tmp tmp := Ne.symm hne
  match k with
  | 0 => left; rfl
  | 1 => left; simp [crash, replace, run, apply, h0]
  | 2 => left; simp [crash, replace, run, apply, h0]
  | k + 3 =>
    right
    have : (replace tmp dst data).take (k + 3) = replace tmp dst data := by simp [replace]
    rw [crash, this]
    exact replace_done s tmp dst data hne

theorem mem_take_of_prefix {α} (a b : List α) (k : Nat) (x : α) (hx : x ∈ (a ++ b).take k) (hk : ¬ k ≤ a.length) :
    ∀ y ∈ a, y ∈ (a ++ b).take k := by
  intro y hy
  have : a.length ≤ k := by omega
  rw [List.take_append]
  exact List.mem_append_left _ (by rw [List.take_of_length_le this]; exact hy)

/-- **Objects before refs** (`commit`): at every crash point of a commit, if the branch file has been
    switched to the new commit (the rename happened), then every tree and the commit object have been
    created *and completely written* before. -/
theorem commit_objects_before_ref (objs : List (Bytes × Bytes)) (b cid line : Bytes) (k : Nat)
    (h : E.rename (.tmp "branch") (.branch b) ∈ (commit objs b cid line).take k) :
    ∀ o ∈ objs, E.write (.object o.1) o.2 ∈ (commit objs b cid line).take k := by
  intro o ho
  -- the object effects form a prefix that does not contain the rename
  have hsplit : commit objs b cid line =
      (objs.map fun o => putObject o.1 o.2).flatten ++ (setBranch b cid ++
        ([E.append .logHead line, E.append (.logBranch b) line] ++ setHead b)) := by
    simp [commit, List.append_assoc]
  have hnot : E.rename (.tmp "branch") (.branch b) ∉ (objs.map fun o => putObject o.1 o.2).flatten := by
    intro hm
    simp only [List.mem_flatten, List.mem_map] at hm
    obtain ⟨l, ⟨o', _, rfl⟩, hel⟩ := hm
    simp [putObject] at hel
  have hk : ¬ k ≤ ((objs.map fun o => putObject o.1 o.2).flatten).length := by
    intro hle
    rw [hsplit, List.take_append_of_le_length hle] at h
    exact hnot (List.mem_of_mem_take h)
  rw [hsplit] at h ⊢
  apply mem_take_of_prefix _ _ k _ h hk
  simp only [List.mem_flatten, List.mem_map]
  exact ⟨putObject o.1 o.2, ⟨o, ho, rfl⟩, by simp [putObject]⟩

/-- **Blob before index** (`add`): when the index is replaced, the blob it names is completely written -/
theorem add_blob_before_index (bid blob idx : Bytes) (k : Nat)
    (h : E.rename (.tmp "index") .index ∈ (addFile bid blob idx).take k) :
    E.write (.object bid) blob ∈ (addFile bid blob idx).take k := by
  have hk : ¬ k ≤ (putObject bid blob).length := by
    intro hle
    rw [addFile, List.take_append_of_le_length hle] at h
    have := List.mem_of_mem_take h
    simp [putObject] at this
  rw [addFile] at h ⊢
  exact mem_take_of_prefix _ _ k _ h hk _ (by simp [putObject])

/-- **Each branch holds its old or its new commit at every crash point of `commit`** — nothing else -/
theorem commit_branch_old_or_new (s : FS) (objs : List (Bytes × Bytes)) (b cid line : Bytes) (k : Nat) :
    crash s (commit objs b cid line) k (.branch b) = s (.branch b) ∨
    crash s (commit objs b cid line) k (.branch b) = some (hashStr cid) := by
  -- the branch file is untouched by the object writes, the logs and the HEAD replacement
  have hobj : ∀ e ∈ (objs.map fun o => putObject o.1 o.2).flatten, Untouched (.branch b) e := by
    intro e he
    simp only [List.mem_flatten, List.mem_map] at he
    obtain ⟨l, ⟨o, _, rfl⟩, hel⟩ := he
    simp [putObject] at hel
    rcases hel with rfl | rfl <;> simp [Untouched]
  have hrest : ∀ e ∈ [E.append .logHead line, E.append (.logBranch b) line] ++ setHead b, Untouched (.branch b) e := by
    intro e he
    simp [setHead, replace] at he
    rcases he with rfl | rfl | rfl | rfl | rfl <;> simp [Untouched]
  have hsplit : commit objs b cid line =
      (objs.map fun o => putObject o.1 o.2).flatten ++ (setBranch b cid ++
        ([E.append .logHead line, E.append (.logBranch b) line] ++ setHead b)) := by
    simp [commit, List.append_assoc]
  rw [crash, hsplit, List.take_append, run_append]
  -- first segment: untouched
  have h1 : run s (((objs.map fun o => putObject o.1 o.2).flatten).take k) (.branch b) = s (.branch b) :=
    run_untouched _ _ _ (fun e he => hobj e (List.mem_of_mem_take he))
  rw [List.take_append, run_append]
  have h3 : ∀ (t : FS) (j : Nat), run t (([E.append .logHead line, E.append (.logBranch b) line] ++ setHead b).take j) (.branch b) = t (.branch b) :=
    fun t j => run_untouched _ _ _ (fun e he => hrest e (List.mem_of_mem_take he))
  rw [h3]
  have := replace_old_or_new (run s (((objs.map fun o => putObject o.1 o.2).flatten).take k)) "branch" (.branch b) (hashStr cid)
    (by simp) (k - ((objs.map fun o => putObject o.1 o.2).flatten).length)
  simp only [crash, setBranch] at this ⊢
  rw [h1] at this
  exact this

/-! ### C16: a single I/O fault aborts the command at that operation -/

/-- **Same result or error**: a command reports success only if every operation was performed; with a
    fault at operation `k` it reports an error and has performed exactly the first `k` operations — the
    state is one of the crash states above (so the C15 theorems apply to it). -/
theorem fault_same_or_error (s : FS) (es : List E) (k : Option Nat) :
    ((fault s es k).1 = true → (fault s es k).2 = run s es) ∧
    ((fault s es k).1 = false → ∃ j, k = some j ∧ j < es.length ∧ (fault s es k).2 = crash s es j) := by
  cases k with
  | none => simp [fault]
  | some j =>
    by_cases h : j < es.length
    · simp [fault, h, crash]
    · simp [fault, h]

/-- no half commit under a fault: if the branch was advanced, the commit's objects are complete -/
theorem fault_no_half_commit (objs : List (Bytes × Bytes)) (b cid line : Bytes) (j : Nat)
    (h : E.rename (.tmp "branch") (.branch b) ∈ (commit objs b cid line).take j) :
    ∀ o ∈ objs, E.write (.object o.1) o.2 ∈ (commit objs b cid line).take j :=
  commit_objects_before_ref objs b cid line j h

/-- non-vacuity: a commit of two new objects; the crash point right after the branch rename -/
example : E.rename (.tmp "branch") (.branch [98]) ∈ (commit [([1], [7]), ([2], [8])] [98] [9] []).take 7 := by decide

end C15
