import GoitProofs.Props.C04Cmd

/-! # C04 at command level, `goit add`: the staging area after `add args` -/

namespace C04

open IndexOps C06 Cmds

theorem canonical_nodup (es : List Entry) (hs : Canonical es) : (paths es).Nodup := by
  unfold Canonical SortedKeys at hs
  exact hs.imp (fun h => by intro e; subst e; exact absurd h (List.lt_irrefl _))

theorem sort_canonical (es : List Entry) (hn : (paths es).Nodup) : Canonical (sortEntries es) := by
  have hp := sortEntries_perm es
  have hsorted := sortEntries_sorted es
  have hn' : (paths (sortEntries es)).Nodup := (hp.map _).nodup_iff.2 hn
  unfold Canonical SortedKeys paths at *
  unfold List.Nodup at hn'
  rw [List.pairwise_map] at hn' ⊢
  refine (hsorted.and hn').imp ?_
  rintro a b ⟨hle, hne⟩
  simp only [leEntry, decide_eq_true_eq] at hle
  exact Std.lt_of_le_of_ne hle hne

/-- `Index.Update` keeps the staging area canonical -/
theorem update_canonical (es : List Entry) (hs : Canonical es) (id p : Bytes) (ch : Bool) (es' : List Entry)
    (h : update es id p = .ok (ch, es')) : Canonical es' := by
  have hnd := canonical_nodup es hs
  by_cases hex : ∃ e ∈ es, e.path = p
  · obtain ⟨e, he, hp⟩ := hex
    obtain ⟨i, hi, hei⟩ := List.getElem_of_mem he
    have hpi : es[i].path = p := by rw [hei]; exact hp
    by_cases hid : es[i].id = id
    · rw [(update_perm es hs id p).2.1 i hi hpi hid] at h
      simp only [Res.ok.injEq, Prod.mk.injEq] at h
      exact h.2 ▸ hs
    · rw [(update_perm es hs id p).1 i hi hpi hid] at h
      simp only [Res.ok.injEq, Prod.mk.injEq] at h
      rw [← h.2]
      apply sort_canonical
      have hsplit : es = es.take i ++ es[i] :: es.drop (i + 1) := by
        simp
      have herase : es.eraseIdx i = es.take i ++ es.drop (i + 1) := List.eraseIdx_eq_take_drop_succ es i
      unfold paths at hnd
      rw [hsplit, List.map_append, List.map_cons, hpi] at hnd
      have hnd2 := List.nodup_append.1 hnd
      obtain ⟨hA, hB, hAB⟩ := hnd2
      have hB' := List.nodup_cons.1 hB
      simp only [paths, herase, List.map_append, List.map_cons, List.map_nil]
      rw [List.nodup_append]
      refine ⟨?_, by simp, ?_⟩
      · rw [List.nodup_append]
        exact ⟨hA, hB'.2, fun a ha b hb => hAB a ha b (List.mem_cons_of_mem _ hb)⟩
      · intro a ha b hb
        simp only [List.mem_singleton] at hb
        subst hb
        intro hab
        subst hab
        rcases List.mem_append.1 ha with h1 | h1
        · exact hAB a h1 a (List.mem_cons_self) rfl
        · exact hB'.1 h1
  · have hn : ∀ e ∈ es, e.path ≠ p := fun e he hp => hex ⟨e, he, hp⟩
    rw [(update_perm es hs id p).2.2 hn] at h
    simp only [Res.ok.injEq, Prod.mk.injEq] at h
    rw [← h.2]
    apply sort_canonical
    simp only [paths, List.map_append, List.map_cons, List.map_nil]
    rw [List.nodup_append]
    refine ⟨hnd, by simp, ?_⟩
    intro a ha b hb
    simp only [List.mem_singleton] at hb
    subst hb
    intro hab
    obtain ⟨e, he, hep⟩ := List.mem_map.1 ha
    exact hn e he (hep.trans hab)

end C04

namespace C04

open IndexOps C06 Cmds

/-- `getEntry` reports position `i` only if the entry there has the path asked for -/
theorem getEntry_found (es : List Entry) (hs : Canonical es) (p : Bytes) (i : Nat) (h : getEntry es p = .found i) :
    ∃ hi : i < es.length, es[i].path = p := by
  obtain ⟨h1, h2, _⟩ := getEntry_correct es hs p
  by_cases hex : ∃ e ∈ es, e.path = p
  · obtain ⟨e, he, hp⟩ := hex
    obtain ⟨j, hj, hej⟩ := List.getElem_of_mem he
    have := h1 j hj (by rw [hej]; exact hp)
    rw [h] at this
    cases this
    exact ⟨hj, by rw [hej]; exact hp⟩
  · have : ∀ e ∈ es, e.path ≠ p := fun e he hp => hex ⟨e, he, hp⟩
    rw [h2 this] at h; cases h

theorem mem_eraseIdx_of_ne (es : List Entry) (i : Nat) (hi : i < es.length) (e : Entry) (hne : e ≠ es[i]) :
    e ∈ es.eraseIdx i ↔ e ∈ es := by
  have hsplit : es = es.take i ++ es[i] :: es.drop (i + 1) := by simp
  rw [List.eraseIdx_eq_take_drop_succ]
  conv => rhs; rw [hsplit]
  simp only [List.mem_append, List.mem_cons]
  constructor
  · rintro (h | h); exact Or.inl h; exact Or.inr (Or.inr h)
  · rintro (h | h | h); exact Or.inl h; exact absurd h hne; exact Or.inr h

/-- `Index.DeleteEntry` removes the named path and nothing else -/
theorem delete_frame (es : List Entry) (hs : Canonical es) (p : Bytes) (es' : List Entry) (h : delete es p = .ok es') :
    Canonical es' ∧ ∀ e : Entry, e.path ≠ p → (e ∈ es' ↔ e ∈ es) := by
  unfold delete at h
  split at h
  · cases h
  · rename_i i hg
    simp only [Res.ok.injEq] at h
    subst h
    obtain ⟨hi, hp⟩ := getEntry_found es hs p i hg
    refine ⟨eraseIdx_canonical es hs i, fun e hne => mem_eraseIdx_of_ne es i hi e ?_⟩
    intro he; exact hne (he ▸ hp)
  · cases h

/-- one `add()`: the staging area stays canonical, the file's entry is staged, every other path is untouched -/
theorem addOne_spec (H : HashFn) (es : List Entry) (hs : Canonical es) (p data : Bytes) :
    ∃ es', addOne H es p data = .ok es' ∧ Canonical es' ∧ (⟨Obj.id H .blob data, p⟩ : Entry) ∈ es' ∧
      ∀ e : Entry, e.path ≠ p → (e ∈ es' ↔ e ∈ es) := by
  obtain ⟨ch, es', hu, hin, hfr⟩ := update_membership es hs (Obj.id H .blob data) p
  exact ⟨es', by simp [addOne, hu, Res.map], update_canonical es hs _ p ch es' hu, hin, hfr⟩

/-- the paths an argument of `add` may touch: the named path itself and everything beneath it (`.` = everything) -/
def Touches (a q : Bytes) : Prop := a = asc "." ∨ q = a ∨ Beneath a q

theorem addFold_spec (H : HashFn) (fs : List (Bytes × Bytes)) (es : List Entry) (hs : Canonical es) :
    ∃ es', fs.foldl (fun (acc : Res (List Entry)) f => acc.bind fun i => addOne H i f.1 f.2) (Res.ok es) = .ok es' ∧
      Canonical es' ∧ ∀ e : Entry, (∀ f ∈ fs, e.path ≠ f.1) → (e ∈ es' ↔ e ∈ es) := by
  induction fs generalizing es with
  | nil => exact ⟨es, rfl, hs, fun _ _ => Iff.rfl⟩
  | cons f fs ih =>
    obtain ⟨es1, h1, hc1, _, hfr1⟩ := addOne_spec H es hs f.1 f.2
    obtain ⟨es2, h2, hc2, hfr2⟩ := ih es1 hc1
    refine ⟨es2, ?_, hc2, ?_⟩
    · simp only [List.foldl_cons, Res.bind, h1]; exact h2
    · intro e he
      rw [hfr2 e (fun f' hf' => he f' (List.mem_cons_of_mem _ hf')), hfr1 e (he f List.mem_cons_self)]

/-- **`add` changes precisely the named paths**: for every canonical staging area, work tree, ignore file and
    argument list, if the per-argument loop succeeds the staging area is canonical again and every entry whose
    path is not named by (or beneath) an argument is present afterwards iff it was present before — with the
    same id, since entries are (id, path) pairs. -/
theorem addArgs_frame (H : HashFn) (w : WS) (args : List Bytes) (idx : List Entry) (hs : Canonical idx)
    (idx' : List Entry) (h : addArgs H w args idx = .ok idx') :
    Canonical idx' ∧ ∀ e : Entry, (∀ a ∈ args, ¬ Touches (cleanPath a) e.path) → (e ∈ idx' ↔ e ∈ idx) := by
  induction args generalizing idx with
  | nil =>
    simp only [addArgs, Res.ok.injEq] at h
    subst h; exact ⟨hs, fun _ _ => Iff.rfl⟩
  | cons a rest ih =>
    have key : ∀ idx1, Canonical idx1 → (∀ e : Entry, ¬ Touches (cleanPath a) e.path → (e ∈ idx1 ↔ e ∈ idx)) →
        addArgs H w rest idx1 = .ok idx' →
        Canonical idx' ∧ ∀ e : Entry, (∀ a' ∈ a :: rest, ¬ Touches (cleanPath a') e.path) → (e ∈ idx' ↔ e ∈ idx) := by
      intro idx1 hc1 hfr1 hrest
      obtain ⟨hc, hfr⟩ := ih idx1 hc1 hrest
      refine ⟨hc, fun e he => ?_⟩
      rw [hfr e (fun a' ha' => he a' (List.mem_cons_of_mem _ ha')), hfr1 e (he a List.mem_cons_self)]
    simp only [addArgs] at h
    by_cases hig : ignored { w with index := idx } (cleanPath a) = true
    · rw [if_pos hig] at h
      exact key idx hs (fun _ _ => Iff.rfl) h
    · rw [if_neg hig] at h
      by_cases hex : (!existsOnDisk w (cleanPath a)) = true
      · rw [if_pos hex] at h
        cases hd : IndexOps.delete idx (cleanPath a) with
        | crash => simp [hd] at h
        | err => simp [hd] at h
        | ok idx1 =>
          simp only [hd] at h
          obtain ⟨hc1, hfr1⟩ := delete_frame idx hs _ idx1 hd
          exact key idx1 hc1 (fun e he => hfr1 e (fun hp => he (Or.inr (Or.inl hp)))) h
      · rw [if_neg hex] at h
        by_cases hdir : isDirOnDisk w (cleanPath a) = true
        · rw [if_pos hdir] at h
          obtain ⟨idx1, hf, hc1, hfr1⟩ := addFold_spec H
            ((filesUnder w (cleanPath a)).filter fun f => !ignored { w with index := idx } f.1) idx hs
          simp only [hf] at h
          refine key idx1 hc1 (fun e he => hfr1 e ?_) h
          intro f hf' hp
          have hfu := (List.mem_filter.1 hf').1
          simp only [filesUnder, List.mem_filter, Bool.or_eq_true, beq_iff_eq] at hfu
          rcases hfu.2 with hdot | hund
          · exact he (Or.inl hdot)
          · exact he (Or.inr (Or.inr (hp ▸ (under_iff _ _).1 hund)))
        · rw [if_neg hdir] at h
          cases hfa : fileAt w (cleanPath a) with
          | none => simp [hfa] at h
          | some data =>
            simp only [hfa] at h
            obtain ⟨idx1, h1, hc1, _, hfr1⟩ := addOne_spec H idx hs (cleanPath a) data
            simp only [h1] at h
            exact key idx1 hc1 (fun e he => hfr1 e (fun hp => he (Or.inr (Or.inl hp)))) h

/-- **`add <file>` stages that file's bytes**: a single argument naming an existing, not ignored file puts
    exactly the blob id of its current bytes under that path. -/
theorem add_file_staged (H : HashFn) (w : WS) (a data : Bytes) (hs : Canonical w.index)
    (hig : ignored w (cleanPath a) = false) (hfile : fileAt w (cleanPath a) = some data)
    (hnd : isDirOnDisk w (cleanPath a) = false) :
    ∃ idx', add H w [a] = .ok idx' ∧ Canonical idx' ∧ (⟨Obj.id H .blob data, cleanPath a⟩ : Entry) ∈ idx' ∧
      ∀ e : Entry, e.path ≠ cleanPath a → (e ∈ idx' ↔ e ∈ w.index) := by
  obtain ⟨idx1, h1, hc1, hin, hfr1⟩ := addOne_spec H w.index hs (cleanPath a) data
  have hex : existsOnDisk w (cleanPath a) = true := by simp [existsOnDisk, isFile, hfile]
  refine ⟨idx1, ?_, hc1, hin, hfr1⟩
  have hw : ({ w with index := w.index } : WS) = w := rfl
  simp [add, addArgs, hex, hw, hig, hnd, hfile, h1]

end C04

/-! non-vacuity: the hypotheses are met by concrete states -/
section Examples
open Cmds
def exW : WS := ⟨[⟨[1], asc "a"⟩, ⟨[2], asc "d-old"⟩, ⟨[3], asc "d/x"⟩], [(asc "a", asc "A"), (asc "n", asc "N")], [], none, [], false⟩
example : rm exW [asc "d"] = .ok ([⟨[1], asc "a"⟩, ⟨[2], asc "d-old"⟩], [asc "d/x"]) := by decide +kernel
example : C06.Canonical exW.index := by unfold C06.Canonical SortedKeys; decide +kernel
example : fileAt exW (cleanPath (asc "./n")) = some (asc "N") ∧ isDirOnDisk exW (cleanPath (asc "./n")) = false := by decide +kernel
end Examples
