import GoitProofs.Lemmas.Lines

/-! # C20 — Configuration round trip and precedence -/

namespace C20

open Config

def keyLine (p : Bytes × Bytes) : Bytes := [9] ++ p.1 ++ asc " = " ++ p.2
def headLine (s : Bytes) : Bytes := [91] ++ s ++ [93]
def linesOf (c : Sections) : List Bytes := c.flatMap fun p => headLine p.1 :: p.2.map keyLine

theorem render_eq (c : Sections) : render c = Bytes.unlines (linesOf c) := by
  induction c with
  | nil => rfl
  | cons p c ih =>
    obtain ⟨s, kv⟩ := p
    have hk : (kv.map fun (q : Bytes × Bytes) => [9] ++ q.1 ++ asc " = " ++ q.2 ++ [10]).flatten
        = ((kv.map keyLine).map (· ++ [10])).flatten := by
      induction kv with
      | nil => rfl
      | cons q kv ihk =>
        simp only [List.map_cons, List.flatten_cons, ihk]
        simp [keyLine, List.append_assoc]
    simp only [render, List.map_cons, List.flatten_cons] at ih ⊢
    simp only [Bytes.unlines, linesOf, List.flatMap_cons, List.map_cons, List.map_append, List.flatten_cons,
      List.flatten_append] at ih ⊢
    rw [← ih, hk]
    simp [headLine, List.append_assoc]

/-- no leading or trailing ASCII white space (what `TrimSpace` keeps) -/
def Trimmed (b : Bytes) : Prop :=
  (∀ c, b.head? = some c → Bytes.isAsciiSpace c = false) ∧ (∀ c, b.getLast? = some c → Bytes.isAsciiSpace c = false)

/-- a key as `config <section>.<key>` produces it -/
def KeyOK (k : Bytes) : Prop := (9 : UInt8) ∉ k ∧ (61 : UInt8) ∉ k ∧ (10 : UInt8) ∉ k ∧ Trimmed k
/-- **every value of printable characters and inner blanks**: no tab, no line break, no leading or
    trailing blank — `=`, `[`, `]`, `#`, quotes and non-ASCII text are all allowed -/
def ValOK (v : Bytes) : Prop := (9 : UInt8) ∉ v ∧ (10 : UInt8) ∉ v ∧ Trimmed v
def SecOK (s : Bytes) : Prop := s ≠ [] ∧ (10 : UInt8) ∉ s

def keys (kv : KV) : List Bytes := kv.map (·.1)
def names (c : Sections) : List Bytes := c.map (·.1)

/-- what a configuration file written by Goit looks like, as data -/
def CfgOK (c : Sections) : Prop :=
  (names c).Nodup ∧ ∀ p ∈ c, SecOK p.1 ∧ (headLine p.1).length < Bytes.maxToken ∧ (keys p.2).Nodup ∧
    ∀ q ∈ p.2, KeyOK q.1 ∧ ValOK q.2 ∧ (keyLine q).length < Bytes.maxToken

/-! ### association-list lemmas -/

theorem kvSet_new (k v : Bytes) (kv : KV) (h : k ∉ keys kv) : kvSet k v kv = kv ++ [(k, v)] := by
  induction kv with
  | nil => rfl
  | cons p t ih =>
    obtain ⟨k', v'⟩ := p
    have hk : k' ≠ k := fun e => h (by simp [keys, e])
    have ht : k ∉ keys t := fun m => h (by simp only [keys, List.map_cons, List.mem_cons]; exact Or.inr m)
    simp [kvSet, hk, ih ht]

theorem secSet_new (s : Bytes) (kv : KV) (c : Sections) (h : s ∉ names c) : secSet s kv c = c ++ [(s, kv)] := by
  induction c with
  | nil => rfl
  | cons p t ih =>
    obtain ⟨s', kv'⟩ := p
    have hs : s' ≠ s := fun e => h (by simp [names, e])
    have ht : s ∉ names t := fun m => h (by simp only [names, List.map_cons, List.mem_cons]; exact Or.inr m)
    simp [secSet, hs, ih ht]

theorem secGet_snoc (s : Bytes) (kv : KV) (c : Sections) (h : s ∉ names c) : secGet s (c ++ [(s, kv)]) = some kv := by
  induction c with
  | nil => simp [secGet]
  | cons p t ih =>
    obtain ⟨s', kv'⟩ := p
    have hs : s' ≠ s := fun e => h (by simp [names, e])
    have ht : s ∉ names t := fun m => h (by simp only [names, List.map_cons, List.mem_cons]; exact Or.inr m)
    simp [secGet, hs, ih ht]

theorem secSet_snoc (s : Bytes) (kv kv' : KV) (c : Sections) (h : s ∉ names c) :
    secSet s kv' (c ++ [(s, kv)]) = c ++ [(s, kv')] := by
  induction c with
  | nil => simp [secSet]
  | cons p t ih =>
    obtain ⟨s', kv0⟩ := p
    have hs : s' ≠ s := fun e => h (by simp [names, e])
    have ht : s ∉ names t := fun m => h (by simp only [names, List.map_cons, List.mem_cons]; exact Or.inr m)
    simp [secSet, hs, ih ht]

/-! ### trimming -/

theorem trimLeft_of_head (b : Bytes) (h : ∀ c, b.head? = some c → Bytes.isAsciiSpace c = false) : Bytes.trimLeft b = b := by
  cases b with
  | nil => rfl
  | cons a as => simp [Bytes.trimLeft, h a rfl]

theorem trimSpace_trimmed (b : Bytes) (h : Trimmed b) : Bytes.trimSpace b = b := by
  unfold Bytes.trimSpace
  rw [trimLeft_of_head b h.1, trimLeft_of_head b.reverse (by
    intro c hc; apply h.2 c; rw [List.getLast?_eq_head?_reverse]; exact hc)]
  simp

theorem trimSpace_space_left (b : Bytes) (h : Trimmed b) : Bytes.trimSpace (32 :: b) = b := by
  have : Bytes.trimLeft (32 :: b) = Bytes.trimLeft b := by simp [Bytes.trimLeft, Bytes.isAsciiSpace]
  unfold Bytes.trimSpace
  rw [this]
  exact trimSpace_trimmed b h

theorem trimSpace_space_right (b : Bytes) (h : Trimmed b) : Bytes.trimSpace (b ++ [32]) = b := by
  cases b with
  | nil => simp [Bytes.trimSpace, Bytes.trimLeft, Bytes.isAsciiSpace]
  | cons a as =>
    have h1 : Bytes.trimLeft (a :: as ++ [32]) = a :: as ++ [32] := by
      simp [Bytes.trimLeft, h.1 a rfl]
    unfold Bytes.trimSpace
    rw [h1]
    have h2 : (a :: as ++ [32]).reverse = 32 :: (a :: as).reverse := by simp
    rw [h2]
    have h3 : Bytes.trimLeft (32 :: (a :: as).reverse) = Bytes.trimLeft (a :: as).reverse := by
      simp [Bytes.trimLeft, Bytes.isAsciiSpace]
    rw [h3, trimLeft_of_head (a :: as).reverse (by
      intro c hc; apply h.2 c; rw [List.getLast?_eq_head?_reverse]; exact hc)]
    simp

theorem removeByte_none (b : UInt8) (s : Bytes) (h : b ∉ s) : Bytes.removeByte b s = s := by
  unfold Bytes.removeByte
  apply List.filter_eq_self.mpr
  intro a ha
  simp only [bne_iff_ne, ne_eq]
  intro e; subst e; exact h ha

theorem trimLeft_mem (s : Bytes) (c : UInt8) (hc : c ∈ s) (hns : Bytes.isAsciiSpace c = false) : c ∈ Bytes.trimLeft s := by
  induction s with
  | nil => cases hc
  | cons a as ih =>
    simp only [Bytes.trimLeft]
    split
    · rename_i hsp
      rcases List.mem_cons.mp hc with rfl | h
      · rw [hns] at hsp; cases hsp
      · exact ih h
    · exact hc

theorem trimSpace_ne_nil (s : Bytes) (c : UInt8) (hc : c ∈ s) (hns : Bytes.isAsciiSpace c = false) :
    Bytes.trimSpace s ≠ [] := by
  intro h
  unfold Bytes.trimSpace at h
  have h1 := trimLeft_mem s c hc hns
  have h2 : c ∈ (Bytes.trimLeft s).reverse := List.mem_reverse.mpr h1
  have h3 := trimLeft_mem _ c h2 hns
  have h4 : c ∈ (Bytes.trimLeft (Bytes.trimLeft s).reverse).reverse := List.mem_reverse.mpr h3
  rw [h] at h4; cases h4

theorem getLast_snoc' (a : UInt8) (l : Bytes) (b : UInt8) : (a :: (l ++ [b])).getLast? = some b := by
  have : a :: (l ++ [b]) = (a :: l) ++ [b] := by simp
  rw [this, List.getLast?_concat]

/-! ### one line at a time -/

theorem keyLine_step (acc : Sections) (s : Bytes) (kvs : KV) (q : Bytes × Bytes) (rest : List Bytes)
    (hq : KeyOK q.1 ∧ ValOK q.2) (hget : secGet s acc = some kvs) :
    loadLines acc (some s) (keyLine q :: rest) = loadLines (secSet s (kvSet q.1 q.2 kvs) acc) (some s) rest := by
  obtain ⟨k, v⟩ := q
  obtain ⟨⟨hk9, hk61, -, hkt⟩, ⟨hv9, -, hvt⟩⟩ := hq
  have hnot : isIdentLine (keyLine (k, v)) = false := by simp [keyLine, isIdentLine]
  have hrm : Bytes.removeByte 9 (keyLine (k, v)) = k ++ 32 :: 61 :: 32 :: v := by
    have : keyLine (k, v) = 9 :: (k ++ 32 :: 61 :: 32 :: v) := by
      have : asc " = " = [32, 61, 32] := by decide
      simp [keyLine, this]
    rw [this]
    have h9 : (9 : UInt8) ∉ k ++ 32 :: 61 :: 32 :: v := by
      simp only [List.mem_append, List.mem_cons, not_or]
      exact ⟨hk9, by decide, by decide, by decide, hv9⟩
    simp only [Bytes.removeByte, List.filter_cons]
    simp only [bne_self_eq_false, Bool.false_eq_true, if_false]
    exact removeByte_none 9 _ h9
  have hblank : Bytes.trimSpace (k ++ 32 :: 61 :: 32 :: v) ≠ [] :=
    trimSpace_ne_nil _ 61 (by simp) (by decide)
  have hcut : Bytes.cut1 61 (k ++ 32 :: 61 :: 32 :: v) = (k ++ [32], some (32 :: v)) := by
    have h61 : (61 : UInt8) ∉ k ++ [32] := by
      simp only [List.mem_append, List.mem_singleton, not_or]; exact ⟨hk61, by decide⟩
    have := Bytes.cut1_append 61 (k ++ [32]) (32 :: v) h61
    simpa [List.append_assoc] using this
  rw [loadLines]
  simp only [hnot, Bool.false_eq_true, if_false, hrm, hblank, hcut, hget,
    trimSpace_space_right k hkt, trimSpace_space_left v hvt]

theorem headLine_step (acc : Sections) (ident : Option Bytes) (s : Bytes) (rest : List Bytes) (hs : SecOK s) :
    loadLines acc ident (headLine s :: rest) = loadLines (secSet s [] acc) (some s) rest := by
  have h1 : isIdentLine (headLine s) = true := by
    simp [headLine, isIdentLine, getLast_snoc']
  have h2 : ¬ (headLine s).length ≤ 2 := by
    have : 0 < s.length := List.length_pos_iff.mpr hs.1
    simp only [headLine, List.length_append, List.length_cons, List.length_nil]; omega
  have h3 : ((headLine s).drop 1).dropLast = s := by
    simp [headLine]
  rw [loadLines]
  simp only [h1, if_true, h2, if_false, h3]

theorem kv_lines (acc : Sections) (s : Bytes) (kvs kv : KV) (rest : List Bytes) (hs : s ∉ names acc)
    (hkv : ∀ q ∈ kv, KeyOK q.1 ∧ ValOK q.2) (hnd : (keys (kvs ++ kv)).Nodup) :
    loadLines (acc ++ [(s, kvs)]) (some s) (kv.map keyLine ++ rest) =
      loadLines (acc ++ [(s, kvs ++ kv)]) (some s) rest := by
  induction kv generalizing kvs with
  | nil => simp
  | cons q kv ih =>
    have hq := hkv q (List.mem_cons_self)
    have hnew : q.1 ∉ keys kvs := by
      intro hm
      simp only [keys, List.map_append, List.map_cons] at hnd
      have := (List.nodup_append.mp hnd).2.2 q.1 hm q.1 (by simp)
      exact this rfl
    simp only [List.map_cons, List.cons_append]
    rw [keyLine_step _ s kvs q _ hq (secGet_snoc s kvs acc hs), kvSet_new _ _ _ hnew, secSet_snoc s kvs _ acc hs]
    have := ih (kvs ++ [q]) (fun x hx => hkv x (List.mem_cons_of_mem _ hx)) (by simpa [List.append_assoc] using hnd)
    simpa [List.append_assoc] using this

theorem load_lines (acc : Sections) (ident : Option Bytes) (c : Sections)
    (hnd : (names (acc ++ c)).Nodup)
    (hc : ∀ p ∈ c, SecOK p.1 ∧ (keys p.2).Nodup ∧ ∀ q ∈ p.2, KeyOK q.1 ∧ ValOK q.2) :
    loadLines acc ident (linesOf c) = some (acc ++ c) := by
  induction c generalizing acc ident with
  | nil => simp [linesOf, loadLines]
  | cons p c ih =>
    obtain ⟨s, kv⟩ := p
    obtain ⟨hs, hk, hq⟩ := hc (s, kv) (List.mem_cons_self)
    have hsnew : s ∉ names acc := by
      intro hm
      simp only [names, List.map_append, List.map_cons] at hnd
      exact (List.nodup_append.mp hnd).2.2 s hm s (by simp) rfl
    have e : linesOf ((s, kv) :: c) = headLine s :: (kv.map keyLine ++ linesOf c) := by
      simp [linesOf]
    rw [e, headLine_step _ _ _ _ hs, secSet_new s [] acc hsnew,
      kv_lines acc s [] kv _ hsnew hq (by simpa using hk)]
    have := ih (acc ++ [(s, kv)]) (some s) (by simpa [List.append_assoc] using hnd)
      (fun p hp => hc p (List.mem_cons_of_mem _ hp))
    simpa [List.append_assoc] using this

/-- **Lossless round trip of a configuration file**: what `Config.Write` renders, `Config.load`
    reads back unchanged — every section, every key, every value (including values containing `=`). -/
theorem parse_render (c : Sections) (h : CfgOK c) : parse (render c) = some c := by
  obtain ⟨hnd, hp⟩ := h
  have hlines : ∀ l ∈ linesOf c, Bytes.LineOK l := by
    intro l hl
    simp only [linesOf, List.mem_flatMap, List.mem_cons, List.mem_map] at hl
    obtain ⟨p, hpc, hl⟩ := hl
    obtain ⟨hs, hhl, -, hq⟩ := hp p hpc
    rcases hl with rfl | ⟨q, hqm, rfl⟩
    · refine ⟨?_, hhl, ?_⟩
      · simp only [headLine, List.mem_append, List.mem_singleton, not_or]
        exact ⟨⟨by decide, hs.2⟩, by decide⟩
      · simp [headLine, getLast_snoc']
    · obtain ⟨⟨-, -, hk10, -⟩, ⟨-, hv10, hvt⟩, hlen⟩ := hq q hqm
      refine ⟨?_, hlen, ?_⟩
      · simp only [keyLine, List.mem_append, List.mem_singleton, not_or]
        exact ⟨⟨⟨by decide, hk10⟩, by decide⟩, hv10⟩
      · have e : asc " = " = [32, 61, 32] := by decide
        by_cases hv : q.2 = []
        · have : keyLine q = 9 :: ((q.1 ++ [32, 61]) ++ [32]) := by simp [keyLine, hv, e]
          rw [this, getLast_snoc']; decide
        · obtain ⟨v0, x, hx⟩ : ∃ v0 x, q.2 = v0 ++ [x] := ⟨q.2.dropLast, q.2.getLast hv, (List.dropLast_concat_getLast hv).symm⟩
          have hlast : q.2.getLast? = some x := by rw [hx, List.getLast?_concat]
          have : keyLine q = 9 :: ((q.1 ++ [32, 61, 32] ++ v0) ++ [x]) := by simp [keyLine, hx, e]
          rw [this, getLast_snoc']
          intro h13
          have hx13 : x = 13 := by simpa using h13
          have := hvt.2 x hlast
          rw [hx13] at this; revert this; decide
  unfold parse
  rw [render_eq, Bytes.scanLines_unlines _ hlines]
  have := load_lines [] none c (by simpa using hnd) (fun p hpc => ⟨(hp p hpc).1, (hp p hpc).2.2.1, fun q hq => ⟨((hp p hpc).2.2.2 q hq).1, ((hp p hpc).2.2.2 q hq).2.1⟩⟩)
  simpa using this

/-! ### setting one key, precedence, identity gate -/

theorem kvGet_kvSet (k v k' : Bytes) (kv : KV) :
    kvGet k' (kvSet k v kv) = if k' = k then some v else kvGet k' kv := by
  induction kv with
  | nil =>
    by_cases h : k' = k
    · simp [kvSet, kvGet, h]
    · have : ¬ k = k' := fun e => h e.symm
      simp [kvSet, kvGet, h, this]
  | cons p t ih =>
    obtain ⟨a, b⟩ := p
    by_cases h1 : a = k
    · by_cases h2 : k' = k
      · simp [kvSet, kvGet, h1, h2]
      · have : ¬ k = k' := fun e => h2 e.symm
        simp [kvSet, kvGet, h1, h2, this]
    · by_cases h2 : k' = k
      · subst h2
        simp [kvSet, kvGet, h1, ih]
      · by_cases h3 : a = k'
        · subst h3; simp [kvSet, kvGet, h1, h2]
        · simp [kvSet, kvGet, h1, h2, h3, ih]

theorem secGet_secSet (s s' : Bytes) (kv : KV) (c : Sections) :
    secGet s' (secSet s kv c) = if s' = s then some kv else secGet s' c := by
  induction c with
  | nil =>
    by_cases h : s' = s
    · simp [secSet, secGet, h]
    · have : ¬ s = s' := fun e => h e.symm
      simp [secSet, secGet, h, this]
  | cons p t ih =>
    obtain ⟨a, b⟩ := p
    by_cases h1 : a = s
    · by_cases h2 : s' = s
      · simp [secSet, secGet, h1, h2]
      · have : ¬ s = s' := fun e => h2 e.symm
        simp [secSet, secGet, h1, h2, this]
    · by_cases h2 : s' = s
      · subst h2
        simp [secSet, secGet, h1, ih]
      · by_cases h3 : a = s'
        · subst h3; simp [secSet, secGet, h1, h2]
        · simp [secSet, secGet, h1, h2, h3, ih]

/-- **Setting one key never loses or alters another key or section**: after `config s.k v` the value
    of `s.k` is `v` and every other (section, key) reads exactly as before. -/
theorem add_get (c : Sections) (s k v s' k' : Bytes) :
    get (add c s k v) s' k' = if s' = s ∧ k' = k then some v else get c s' k' := by
  unfold add Config.get
  cases hs : secGet s c with
  | none =>
    simp only [secGet_secSet]
    by_cases h1 : s' = s
    · subst h1
      by_cases h2 : k' = k
      · simp [h2, kvGet]
      · have : ¬ k = k' := fun e => h2 e.symm
        simp [h2, kvGet, hs, this]
    · simp [h1]
  | some kv =>
    simp only [secGet_secSet]
    by_cases h1 : s' = s
    · subst h1
      simp [kvGet_kvSet, hs]
    · simp [h1]

/-- **A local setting overrides the global one; the global one is used when no local one exists.** -/
theorem local_overrides_global (loc glob : Sections) (k v : Bytes) (h : get loc (asc "user") k = some v) :
    userField loc glob k = v := by simp [userField, h]

theorem global_fallback (loc glob : Sections) (k : Bytes) (h : get loc (asc "user") k = none) :
    userField loc glob k = (get glob (asc "user") k).getD [] := by simp [userField, h]

/-- **`commit` is gated on both a name and an e-mail being configured** (in either file). -/
theorem isUserSet_iff (loc glob : Sections) :
    isUserSet loc glob = true ↔
      ((get loc (asc "user") (asc "name")).isSome ∨ (get glob (asc "user") (asc "name")).isSome) ∧
      ((get loc (asc "user") (asc "email")).isSome ∨ (get glob (asc "user") (asc "email")).isSome) := by
  unfold isUserSet
  simp only [Bool.and_eq_true, Bool.or_eq_true]
  constructor
  · rintro ⟨⟨-, h2⟩, h3⟩; exact ⟨h2, h3⟩
  · rintro ⟨h2, h3⟩
    refine ⟨⟨?_, h2⟩, h3⟩
    rcases h2 with h | h
    · left
      unfold Config.get at h
      cases hs : secGet (asc "user") loc with
      | none => simp [hs] at h
      | some _ => rfl
    · right
      unfold Config.get at h
      cases hs : secGet (asc "user") glob with
      | none => simp [hs] at h
      | some _ => rfl

/-- non-vacuity: a value with `=`, brackets, a hash sign, quotes and non-ASCII bytes is a legal value -/
example : ValOK (asc "a=b [c] # \"q\"" ++ [195, 188]) := by
  refine ⟨by decide, by decide, ?_, ?_⟩ <;> (intro c hc; simp at hc; subst hc; decide)

end C20
