import GoitProofs.Lemmas.Bytes

/-! # C01 — Object store: content addressing and lossless round trip

Property theorems only; helper lemmas live in `GoitProofs/Lemmas`. -/

namespace C01

theorem kind_str_no_nul (k : Kind) : (0 : UInt8) ∉ k.str := by cases k <;> decide
theorem kind_str_no_space (k : Kind) : (32 : UInt8) ∉ k.str := by cases k <;> decide
theorem kind_parse_str (k : Kind) (h : k ≠ .undefined) : Kind.parse k.str = some k := by
  cases k <;> first | exact absurd rfl h | decide

theorem dec_no_nul (n : Nat) : (0 : UInt8) ∉ Dec.ofNat n :=
  Dec.not_mem_of_all_digits _ (Dec.ofNat_all_digits n) 0 (by decide)

/-- **Lossless round trip of the object codec**, for *every* byte string `d` (empty, binary,
    containing NULs, or looking like a header itself) and every real kind: reading the stored bytes
    back yields the same kind and exactly the same bytes. The size bound is Go's `int` range. -/
theorem decode_encode (k : Kind) (d : Bytes) (hk : k ≠ .undefined) (hd : d.length ≤ Fmt.int64Max) :
    Obj.decode (Obj.encode k d) = some (k, d) := by
  have h0 : (0 : UInt8) ∉ k.str ++ 32 :: Dec.ofNat d.length := by
    simp only [List.mem_append, List.mem_cons]
    rintro (h | h | h)
    · exact kind_str_no_nul k h
    · exact absurd h (by decide)
    · exact dec_no_nul _ h
  have e : Obj.encode k d = (k.str ++ 32 :: Dec.ofNat d.length) ++ 0 :: d := by
    simp [Obj.encode, Obj.header]
  unfold Obj.decode
  rw [e, Bytes.cut1_append 0 _ _ h0]
  simp only [Option.getD_some]
  rw [Bytes.cut1_append 32 _ _ (kind_str_no_space k)]
  simp only [kind_parse_str k hk, Fmt.sscanfD_ofNat _ hd, if_true]

/-- the stored bytes determine kind and content: distinct (kind, bytes) never share stored bytes -/
theorem encode_injective (k k' : Kind) (d d' : Bytes) (hk : k ≠ .undefined) (hk' : k' ≠ .undefined)
    (hd : d.length ≤ Fmt.int64Max) (hd' : d'.length ≤ Fmt.int64Max)
    (h : Obj.encode k d = Obj.encode k' d') : k = k' ∧ d = d' := by
  have h1 := decode_encode k d hk hd
  have h2 := decode_encode k' d' hk' hd'
  rw [h] at h1
  rw [h1] at h2
  cases h2
  exact ⟨rfl, rfl⟩

/-- **The id is the hash of `'<kind> <length>\0<bytes>'`** (so equal content always has the same id:
    `Obj.id` is a function of kind and bytes only). -/
theorem id_eq (H : HashFn) (k : Kind) (d : Bytes) :
    Obj.id H k d = H.sha (k.str ++ [32] ++ Dec.ofNat d.length ++ [0] ++ d) := rfl

/-- the layout of a concrete header, as Git assigns it -/
example : Obj.encode .blob (asc "hi\n") = asc "blob 3" ++ [0] ++ asc "hi\n" := by decide +kernel

theorem id_ne_nil (H : HashFn) (k : Kind) (d : Bytes) : Obj.id H k d ≠ [] := by
  intro h
  have := H.len20 (Obj.encode k d)
  unfold Obj.id at h
  rw [h] at this
  cases this

/-- **Read your write**: after storing, the object is retrieved by its id with the same kind and bytes. -/
theorem get_put (H : HashFn) (s : Store) (k : Kind) (d : Bytes) (hk : k ≠ .undefined)
    (hd : d.length ≤ Fmt.int64Max) :
    Store.get H (Store.put H s k d) (Obj.id H k d) = .ok (k, d) := by
  unfold Store.get Store.put
  simp only [id_ne_nil, if_false, if_true, decode_encode k d hk hd]
  simp [Obj.id]

/-- **Storing never damages what is already stored**: every id that was readable before reads the
    same kind and bytes afterwards, provided the new content does not collide with the content
    stored under that id (an explicit, finite collision-freedom hypothesis — global injectivity of a
    20-byte hash is false and is not assumed). -/
theorem put_frame (H : HashFn) (s : Store) (k : Kind) (d : Bytes) (i : Bytes) (x : Kind × Bytes)
    (hcf : CollisionFreeOn H (fun b => b = Obj.encode k d ∨ s i = some b))
    (hget : Store.get H s i = .ok x) :
    Store.get H (Store.put H s k d) i = .ok x := by
  unfold Store.get at hget ⊢
  by_cases hi : i = []
  · simp [hi] at hget
  · simp only [hi, if_false] at hget ⊢
    cases hs : s i with
    | none => simp [hs] at hget
    | some c =>
      simp only [hs] at hget
      cases hdec : Obj.decode c with
      | none => simp [hdec] at hget
      | some kd =>
        simp only [hdec] at hget
        by_cases hsha : H.sha c = i
        · simp only [hsha, if_true] at hget
          by_cases hid : i = Obj.id H k d
          · -- same id: by collision freedom the content is the same content
            have hc : c = Obj.encode k d := by
              apply hcf c (Obj.encode k d) (Or.inr hs) (Or.inl rfl)
              rw [hsha, hid]; rfl
            simp only [Store.put, hid, if_true]
            rw [← hc, hdec]
            have : H.sha c = Obj.id H k d := by rw [hsha, hid]
            simp [this, hget]
          · simp only [Store.put, hid, if_false, hs, hdec, hsha, if_true, hget]
        · simp [hsha] at hget

/-- **Storing again changes nothing.** -/
theorem put_idem (H : HashFn) (s : Store) (k : Kind) (d : Bytes) :
    Store.put H (Store.put H s k d) k d = Store.put H s k d := by
  funext i
  simp only [Store.put]
  split <;> rfl

/-- non-vacuity: a concrete store state and payload that looks like a header satisfy the hypotheses -/
example : Obj.decode (Obj.encode .blob (asc "blob 3" ++ [0] ++ asc "abc")) =
    some (.blob, asc "blob 3" ++ [0] ++ asc "abc") :=
  decode_encode _ _ (by decide) (by decide)

end C01
