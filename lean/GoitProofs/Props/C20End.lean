import GoitProofs.Props.C17World
import GoitProofs.Props.C20Cmd2
set_option linter.unusedSimpArgs false
set_option linter.unusedVariables false

/-! C20 end to end on the whole-repository model: a setting accepted by `config` is what every later invocation loads — in
    particular `config user.name v` makes `v` the author name of later commits and reflog records. -/

namespace C20

open Config Cmds

/-- **A local setting accepted by `config` is read back by the start-up load of every later invocation**, and every other key
    of the local file reads as before (whole-repository model; the local file before the command is one Goit wrote: `CfgOK`) -/
theorem world_config_readback (H : HashFn) (w : W.World) (key value sec k : Bytes) (o : Option Bytes) (c : Sections)
    (h : (W.configCmd w false [key, value]).2 = .ok o)
    (hc : cfgOf w.cfgLocal = some c) (hok : CfgOK c) (hsp : Bytes.split1 46 key = [sec, k]) (hk : KeyOK k) (hv : ValOK value)
    (hl1 : (headLine sec).length < Bytes.maxToken) (hl2 : (keyLine (k, value)).length < Bytes.maxToken)
    (l' : W.Loaded) (hl : W.load H (W.configCmd w false [key, value]).1 = some l') :
    get l'.loc sec k = some value ∧ ∀ s' k', ¬ (s' = sec ∧ k' = k) → get l'.loc s' k' = get c s' k' := by
  obtain ⟨c', hcmd, hfile, _, _⟩ := world_config_is_cmd w false key value o h
  simp only [Bool.false_eq_true, if_false] at hcmd hfile
  obtain ⟨hpr, hget, hothers⟩ := configCmd_roundtrip w.cfgLocal key value c' hcmd c hc hok sec k hsp hk hv hl1 hl2
  have hloc : l'.loc = c' := by
    unfold W.load at hl
    rw [hfile] at hl
    have : cfgOf (some (render c')) = some c' := hpr
    rw [this] at hl
    split at hl
    · rename_i loc glob b hcm refs h1 _ _ _
      injection hl with hl
      rw [← hl]
      injection h1 with h1
      exact h1.symm
    · cases hl
  rw [hloc]
  exact ⟨hget, hothers⟩

/-- … so after `config user.name v` every later invocation signs with the name `v` -/
theorem world_config_sets_identity (H : HashFn) (w : W.World) (value : Bytes) (o : Option Bytes) (c : Sections)
    (h : (W.configCmd w false [asc "user.name", value]).2 = .ok o)
    (hc : cfgOf w.cfgLocal = some c) (hok : CfgOK c) (hv : ValOK value)
    (hl2 : (keyLine (asc "name", value)).length < Bytes.maxToken)
    (l' : W.Loaded) (hl : W.load H (W.configCmd w false [asc "user.name", value]).1 = some l') :
    W.userName l' = value := by
  have := (world_config_readback H w (asc "user.name") value (asc "user") (asc "name") o c h hc hok (by decide)
    ⟨by decide, by decide, by decide, by unfold Trimmed; decide⟩ hv (by decide) hl2 l' hl).1
  unfold W.userName Config.userField
  rw [this]

end C20

namespace C20

open Config Cmds

/-- the `--global` form: the setting is what every later invocation loads from the global file, every other key of it as before -/
theorem world_config_global_readback (H : HashFn) (w : W.World) (key value sec k : Bytes) (o : Option Bytes) (c : Sections)
    (h : (W.configCmd w true [key, value]).2 = .ok o)
    (hc : cfgOf w.cfgGlobal = some c) (hok : CfgOK c) (hsp : Bytes.split1 46 key = [sec, k]) (hk : KeyOK k) (hv : ValOK value)
    (hl1 : (headLine sec).length < Bytes.maxToken) (hl2 : (keyLine (k, value)).length < Bytes.maxToken)
    (l' : W.Loaded) (hl : W.load H (W.configCmd w true [key, value]).1 = some l') :
    get l'.glob sec k = some value ∧ ∀ s' k', ¬ (s' = sec ∧ k' = k) → get l'.glob s' k' = get c s' k' := by
  obtain ⟨c', hcmd, hfile, _, _⟩ := world_config_is_cmd w true key value o h
  simp only [if_true] at hcmd hfile
  obtain ⟨hpr, hget, hothers⟩ := configCmd_roundtrip w.cfgGlobal key value c' hcmd c hc hok sec k hsp hk hv hl1 hl2
  have hglob : l'.glob = c' := by
    unfold W.load at hl
    rw [hfile] at hl
    have : cfgOf (some (render c')) = some c' := hpr
    rw [this] at hl
    split at hl
    · rename_i loc glob b hcm refs _ h2 _ _
      injection hl with hl
      rw [← hl]
      injection h2 with h2
      exact h2.symm
    · cases hl
  rw [hglob]
  exact ⟨hget, hothers⟩

/-- **precedence**: a key set only globally is the one the loaded identity uses; a local value for it overrides -/
theorem userField_precedence (loc glob : Sections) (k : Bytes) :
    (∀ v, get loc (asc "user") k = some v → userField loc glob k = v) ∧
    (get loc (asc "user") k = none → ∀ v, get glob (asc "user") k = some v → userField loc glob k = v) := by
  unfold userField
  constructor
  · intro v hv; rw [hv]
  · intro hn v hv; rw [hn, hv]; rfl

end C20
