import GoitProofs.Props.C01
import GoitProofs.Props.C19

/-! # C03 — Connectivity (object-store part): nothing stored disappears or changes, and what a
command is about to reference is present once it has been written -/

namespace C03

/-- an id is readable: the file exists, is well formed and is named after its content -/
def Present (H : HashFn) (s : Store) (id : Bytes) : Prop := ∃ kd, Store.get H s id = .ok kd

/-- **No command deletes a stored object or changes its content**: every object that could be read
    before a write (`Object.Write` is the only mutator of the store) reads back with the same kind and
    bytes afterwards. -/
theorem put_monotone (H : HashFn) (s : Store) (k : Kind) (d : Bytes) (id : Bytes) (x : Kind × Bytes)
    (hcf : CollisionFreeOn H (fun b => b = Obj.encode k d ∨ s id = some b))
    (h : Store.get H s id = .ok x) : Store.get H (Store.put H s k d) id = .ok x :=
  C01.put_frame H s k d id x hcf h

/-- once written, an object is present under its id (objects are written before the ref that names them) -/
theorem put_present (H : HashFn) (s : Store) (k : Kind) (d : Bytes) (hk : k ≠ .undefined) (hd : d.length ≤ Fmt.int64Max) :
    Present H (Store.put H s k d) (Obj.id H k d) := ⟨(k, d), C01.get_put H s k d hk hd⟩

/-- **Every stored object's name is the hash of its content**: an object that reads back at all does so
    under the hash of the bytes in its file -/
theorem name_is_hash (H : HashFn) (s : Store) (id : Bytes) (h : Present H s id) :
    ∃ content, s id = some content ∧ H.sha content = id := by
  obtain ⟨kd, hkd⟩ := h
  obtain ⟨c, h1, h2, _⟩ := C19.get_returns_requested H s id kd hkd
  exact ⟨c, h1, h2⟩

/-- the sequence of writes of `writeTreeObject` + the commit object: all earlier objects stay present -/
theorem puts_monotone (H : HashFn) (s : Store) (ws : List (Kind × Bytes)) (id : Bytes) (x : Kind × Bytes)
    (hcf : ∀ (k : Kind) (d : Bytes), (k, d) ∈ ws → ∀ s' : Store, CollisionFreeOn H (fun b => b = Obj.encode k d ∨ s' id = some b))
    (h : Store.get H s id = .ok x) :
    Store.get H (ws.foldl (fun st w => Store.put H st w.1 w.2) s) id = .ok x := by
  induction ws generalizing s with
  | nil => simpa using h
  | cons w ws ih =>
    simp only [List.foldl_cons]
    apply ih
    · intro k d hm s'; exact hcf k d (List.mem_cons_of_mem _ hm) s'
    · exact put_monotone H s w.1 w.2 id x (hcf w.1 w.2 (List.mem_cons_self) s) h

/-- `update-ref` (repaired) only accepts an id that reads back as a commit -/
def acceptsAsBranchTarget (H : HashFn) (s : Store) (id : Bytes) : Bool :=
  match Store.get H s id with
  | .ok (.commit, _) => true
  | _ => false

theorem branch_target_present (H : HashFn) (s : Store) (id : Bytes) (h : acceptsAsBranchTarget H s id = true) :
    ∃ d, Store.get H s id = .ok (.commit, d) := by
  unfold acceptsAsBranchTarget at h
  split at h
  · rename_i d heq; exact ⟨d, heq⟩
  · cases h

end C03
