import GoitProofs.Props.C07End
import GoitProofs.Props.C10Refine
set_option linter.unusedSimpArgs false
set_option linter.unusedVariables false

/-! C10, completeness of `switch`: in a state every history reaches, `switch <n>` to an existing branch **succeeds**. Needs one more
    invariant of histories — no two files in `refs/heads` under one name (`W.HN`), kept by every reference step — and the relation
    between the loaded branch list and the branch files (`load_lookup`). -/

namespace W

/-- branch names are unique in `refs/heads` -/
def HN (w : World) : Prop := (w.heads.map (·.1)).Nodup

theorem nodup_adel (l : List (Bytes × Bytes)) (k : Bytes) (h : (l.map (·.1)).Nodup) : ((adel l k).map (·.1)).Nodup := by
  unfold adel
  exact h.sublist (List.Sublist.map _ List.filter_sublist)

theorem not_mem_adel (l : List (Bytes × Bytes)) (k : Bytes) : k ∉ (adel l k).map (·.1) := by
  unfold adel
  intro hm
  obtain ⟨p, hp, hpk⟩ := List.mem_map.mp hm
  have := (List.mem_filter.mp hp).2
  simp [hpk] at this

theorem nodup_aset (l : List (Bytes × Bytes)) (k v : Bytes) (h : (l.map (·.1)).Nodup) : ((aset l k v).map (·.1)).Nodup := by
  unfold aset
  simp only [List.map_cons]
  exact List.nodup_cons.mpr ⟨not_mem_adel l k, nodup_adel l k h⟩

theorem RefStep.hn {H : HashFn} {w w' : World} (h : RefStep H w w') (hn : HN w) : HN w' := by
  induction h with
  | same _ hh _ => unfold HN; rw [hh]; exact hn
  | setBranch n id _ _ _ _ hh _ => unfold HN; rw [hh]; exact nodup_aset _ _ _ hn
  | delBranch n _ _ hh _ => unfold HN; rw [hh]; exact nodup_adel _ _ hn
  | setHead n _ _ hh _ => unfold HN; rw [hh]; exact hn
  | trans _ _ ih1 ih2 => exact ih2 (ih1 hn)

/-- one invocation keeps branch names unique (in an initialised, connected repository; outside one, no branch file is touched) -/
theorem run_hn (H : HashFn) (w : World) (i : Inv) (hc : Conn H w) (hnc : NoClash H w i) (hn : HN w) : HN (run H w i).1 := by
  cases hi : w.inited with
  | true => exact (run_refstep H w i hc hi hnc).hn hn
  | false =>
    have hh : (run H w i).1.heads = w.heads := by
      unfold run
      simp only [hi, Bool.not_false, if_true]
      split
      · unfold initCmd; repeat' split
        all_goals rfl
      · split <;> rfl
    unfold HN; rw [hh]; exact hn

theorem find_unique (files : List (Bytes × Bytes)) (hnd : (files.map (·.1)).Nodup) (f : Bytes × Bytes) (hfm : f ∈ files) (n : Bytes)
    (hfn : f.1 = n) : files.find? (fun q => q.1 == n) = some f := by
  induction files with
  | nil => cases hfm
  | cons g gs ih =>
    simp only [List.map_cons, List.nodup_cons] at hnd
    rcases List.mem_cons.mp hfm with rfl | hin
    · simp [List.find?_cons, hfn]
    · have hg : g.1 ≠ n := by
        intro hgn
        exact hnd.1 (List.mem_map.mpr ⟨f, hin, by rw [hfn, hgn]⟩)
      have hgb : (g.1 == n) = false := by simpa using hg
      simp only [List.find?_cons, hgb]
      exact ih hnd.2 hin

/-- what the loaded branch list gives for a name is what the branch file of that name reads as -/
theorem load_lookup (files : List (Bytes × Bytes)) (refs : Refs.Heads) (h : Refs.load files = some refs)
    (hnd : (files.map (·.1)).Nodup) (n id : Bytes) (hl : Refs.lookup refs n = some id) :
    ∃ raw, aget files n = some raw ∧ readHash raw = some id := by
  unfold Refs.load at h
  cases hm : files.mapM (fun (p : Bytes × Bytes) => (readHash p.2).map fun h => (p.1, h)) with
  | none => simp [hm] at h
  | some l =>
    simp only [hm, Option.map_some, Option.some.injEq] at h
    subst h
    -- (n, id) is in the sorted list, hence in `l`
    unfold Refs.lookup at hl
    cases hf : (Refs.sortHeads l).find? (fun p => p.1 == n) with
    | none => simp [hf] at hl
    | some p =>
      simp only [hf, Option.map_some, Option.some.injEq] at hl
      have hpm : p ∈ Refs.sortHeads l := List.mem_of_find?_eq_some hf
      have hpn : p.1 = n := by simpa using List.find?_some hf
      have hpl : p ∈ l := (List.mergeSort_perm l _).mem_iff.mp hpm
      -- every element of `l` comes from a file with the same name whose content reads as that id
      have key : ∀ (xs : List (Bytes × Bytes)) (ys : List (Bytes × Bytes)),
          xs.mapM (fun (p : Bytes × Bytes) => (readHash p.2).map fun h => (p.1, h)) = some ys →
          ∀ q ∈ ys, ∃ f ∈ xs, f.1 = q.1 ∧ readHash f.2 = some q.2 := by
        intro xs
        induction xs with
        | nil => intro ys hy q hq; simp at hy; subst hy; cases hq
        | cons x xs ih =>
          intro ys hy q hq
          simp only [List.mapM_cons] at hy
          cases hx : readHash x.2 with
          | none => simp [hx] at hy
          | some v =>
            simp only [hx, Option.map_some, Option.bind_some] at hy
            cases hr : xs.mapM (fun (p : Bytes × Bytes) => (readHash p.2).map fun h => (p.1, h)) with
            | none => simp [hr] at hy
            | some r =>
              simp [hr] at hy
              subst hy
              rcases List.mem_cons.mp hq with rfl | hq
              · exact ⟨x, List.mem_cons_self, rfl, hx⟩
              · obtain ⟨f, hf1, hf2, hf3⟩ := ih r hr q hq
                exact ⟨f, List.mem_cons_of_mem _ hf1, hf2, hf3⟩
      obtain ⟨f, hfm, hf1, hf2⟩ := key files l hm p hpl
      refine ⟨f.2, ?_, by rw [hf2, hl]⟩
      -- names are unique: the first file named `n` is `f`
      have hfn : f.1 = n := by rw [hf1, hpn]
      unfold aget
      have : files.find? (fun q => q.1 == n) = some f := find_unique files hnd f hfm n hfn
      rw [this]; rfl

theorem load_refs (H : HashFn) (w : World) (l : Loaded) (h : load H w = some l) : Refs.load w.heads = some l.refs := by
  unfold load at h
  split at h
  · rename_i hr
    injection h with h; subst h
    exact hr
  · contradiction

theorem lookup_of_exists (refs : Refs.Heads) (n : Bytes) (he : Refs.exists_ refs n = true) : ∃ id, Refs.lookup refs n = some id := by
  have hm := exists_sound refs n he
  unfold Refs.names at hm
  obtain ⟨p, hp, hpn⟩ := List.mem_map.mp hm
  unfold Refs.lookup
  cases hf : refs.find? (fun q => q.1 == n) with
  | none =>
    have := List.find?_eq_none.mp hf p hp
    simp [hpn] at this
  | some q => exact ⟨q.2, rfl⟩

theorem runSteps_fsck_hn (H : HashFn) (w : World) (ss : List Step) (h : Fsck H w) (hn : HN w) (hin : StepsIn H w ss) :
    Fsck H (runSteps H w ss) ∧ HN (runSteps H w ss) := by
  unfold runSteps
  induction ss generalizing w with
  | nil => exact ⟨h, hn⟩
  | cons s r ih =>
    simp only [List.foldl_cons]
    cases s with
    | cmd i =>
      obtain ⟨_, _, hnc⟩ := stepOK_of_inputs H w i h.1 hin.1
      exact ih _ (run_fsck H w i h hin.1) (run_hn H w i h.1 hnc hn) hin.2
    | edit f d =>
      exact ih _ ⟨edit_conn H w f d h.1, edit_J H w f d h.2.1, K_index_only H w _ h.2.1 h.2.2 rfl (fun es he => h.2.2.index es he)⟩
        (by unfold HN; exact hn) hin

end W

namespace C10

/-- branch names stay unique after every history from the empty directory (under the input conditions of `C03.world_fsck`) -/
theorem world_branch_names_unique (H : HashFn) (ss : List W.Step) (hin : W.StepsIn H {} ss) : W.HN (W.runSteps H {} ss) :=
  (W.runSteps_fsck_hn H {} ss ⟨W.conn_empty H, W.J_empty H, W.K_empty H⟩ (by unfold W.HN; simp) hin).2

/-- **`switch <n>` to an existing branch succeeds** (whole-repository model, a state every history reaches: `W.Conn`, unique branch
    names `W.HN`): HEAD names `<n>` afterwards, no branch file changes (`world_switch_spec`), and one `checkout` record naming the
    branch's commit is appended (`C11.world_head0_switch`) -/
theorem world_switch_succeeds (H : HashFn) (w : W.World) (n : Bytes) (tz : Int) (ts : List Int) (l : W.Loaded)
    (hc : W.Conn H w) (hn : W.HN w) (hinit : w.inited = true) (hl : W.load H w = some l) (hex : Refs.exists_ l.refs n = true) :
    (W.run H w ⟨.switch [n] [], tz, ts⟩).2 = .ok none ∧ (W.run H w ⟨.switch [n] [], tz, ts⟩).1.head = some (Head.render n) := by
  obtain ⟨b, hh1, _, _⟩ := hc.head hinit
  have hhd : w.head.isNone = false := by rw [hh1]; rfl
  obtain ⟨id, hlk⟩ := W.lookup_of_exists l.refs n hex
  obtain ⟨raw, hraw, hrh⟩ := W.load_lookup w.heads l.refs (W.load_refs H w l hl) hn n id hlk
  obtain ⟨_, id', hraw', hca⟩ := hc.branches n raw hraw
  have hlen := W.commitAt_len20 H w hc.named id' hca
  have hid : id = id' := by
    rw [hraw', readHash_hashStr id' hlen] at hrh
    injection hrh with hrh; exact hrh.symm
  subst hid
  cases hcc : W.commitAt H w id with
  | none => rw [hcc] at hca; cases hca
  | some c =>
    unfold W.run
    simp only [hinit, Bool.not_true, Bool.false_eq_true, if_false, W.pathArgs, List.all_nil, hl]
    unfold W.switchCmd
    simp only [List.length_cons, List.length_nil, ge_iff_le, List.isEmpty_nil, List.isEmpty_cons, Bool.true_and, Bool.false_and,
      Bool.not_true, Bool.and_false, Bool.false_eq_true, if_false]
    unfold W.switchTo
    simp [hex, hhd, hlk, hcc, W.setHead, W.appendLogHead]

end C10

namespace W

/-- the loaded branch list is strictly sorted by name when branch names are unique -/
theorem loaded_refs_sorted (H : HashFn) (w : World) (l : Loaded) (hl : load H w = some l) (hn : HN w) : C10.Sorted l.refs := by
  have h := load_refs H w l hl
  unfold Refs.load at h
  cases hm : w.heads.mapM (fun (p : Bytes × Bytes) => (readHash p.2).map fun h => (p.1, h)) with
  | none => simp [hm] at h
  | some m =>
    simp only [hm, Option.map_some, Option.some.injEq] at h
    rw [← h]
    apply C10.sortHeads_sorted
    have hk := mapM_keys _ (by
      intro p q hq
      cases hr : readHash p.2 with
      | none => simp [hr] at hq
      | some x => simp [hr] at hq; rw [← hq]) w.heads m hm
    unfold Refs.names
    rw [hk]; exact hn

end W

namespace C10

/-- **`branch <n>` succeeds** for a valid name no branch file carries, when HEAD's branch has a commit (whole-repository model,
    unique branch names): the new file holds HEAD's commit (`world_create_spec`) -/
theorem world_branch_create_succeeds (H : HashFn) (w : W.World) (n : Bytes) (tz : Int) (ts : List Int) (l : W.Loaded) (id : Bytes) (c : Commit)
    (hn : W.HN w) (hinit : w.inited = true) (hl : W.load H w = some l) (hh : l.headCommit = some (id, c))
    (hv : Refs.validName n = true) (hnew : W.aget w.heads n = none) :
    (W.run H w ⟨.branch [n] false [] [], tz, ts⟩).2 = .ok none := by
  have hs := W.loaded_refs_sorted H w l hl hn
  have hnot : n ∉ Refs.names l.refs := by
    intro hm
    have := W.load_names w.heads l.refs (W.load_refs H w l hl) n hm
    rw [hnew] at this; cases this
  obtain ⟨h', hadd, _⟩ := add_ok l.refs hs n id hv hnot
  unfold W.run
  simp only [hinit, Bool.not_true, Bool.false_eq_true, if_false, W.pathArgs, List.all_nil, hl]
  unfold W.branchCmd
  simp only [List.length_cons, List.length_nil, List.isEmpty_nil, List.isEmpty_cons, Bool.not_false, Bool.and_true, Bool.true_and,
    beq_self_eq_true, Bool.true_or, Bool.not_true, Bool.false_eq_true, if_false]
  unfold W.branchCreate
  simp [hh, hadd]

/-- **`branch -d <n>` succeeds** for an existing branch other than the current one whose log is there (whole-repository model,
    unique branch names): exactly that file disappears (`world_delete_spec`) -/
theorem world_branch_delete_succeeds (H : HashFn) (w : W.World) (del : Bytes) (tz : Int) (ts : List Int) (l : W.Loaded)
    (hn : W.HN w) (hinit : w.inited = true) (hl : W.load H w = some l) (hne : del ≠ l.ref) (hd : del ≠ [])
    (hex : del ∈ Refs.names l.refs) (hlog : (W.aget w.logHeads del).isNone = false) :
    (W.run H w ⟨.branch [] false [] del, tz, ts⟩).2 = .ok none := by
  have hs := W.loaded_refs_sorted H w l hl hn
  obtain ⟨i, hi, _, hdel⟩ := delete_ok l.refs hs l.ref del hne hex
  have hde : del.isEmpty = false := by cases del <;> simp_all
  unfold W.run
  simp only [hinit, Bool.not_true, Bool.false_eq_true, if_false, W.pathArgs, List.all_nil, hl]
  unfold W.branchCmd
  simp only [List.length_nil, List.isEmpty_nil, hde, Bool.not_false, Bool.and_true, Bool.true_and, Bool.and_false, Bool.false_and,
    Bool.or_false, Bool.false_or, Bool.not_true, Bool.false_eq_true, if_false, Bool.or_true]
  unfold W.branchDelete
  simp [hdel, hlog]

/-- **`switch -c <n>` succeeds** for a valid name no branch file carries, when HEAD's branch has a commit and HEAD's file is there -/
theorem world_switch_create_succeeds (H : HashFn) (w : W.World) (n : Bytes) (tz : Int) (ts : List Int) (l : W.Loaded) (id : Bytes) (c : Commit)
    (hn : W.HN w) (hinit : w.inited = true) (hl : W.load H w = some l) (hh : l.headCommit = some (id, c))
    (hv : Refs.validName n = true) (hnew : W.aget w.heads n = none) (hhead : w.head.isNone = false) :
    (W.run H w ⟨.switch [] n, tz, ts⟩).2 = .ok none := by
  have hs := W.loaded_refs_sorted H w l hl hn
  have hnot : n ∉ Refs.names l.refs := by
    intro hm
    have := W.load_names w.heads l.refs (W.load_refs H w l hl) n hm
    rw [hnew] at this; cases this
  obtain ⟨h', hadd, _⟩ := add_ok l.refs hs n id hv hnot
  have hne : n.isEmpty = false := by
    cases n with
    | nil => simp [Refs.validName] at hv
    | cons a b => rfl
  unfold W.run
  simp only [hinit, Bool.not_true, Bool.false_eq_true, if_false, W.pathArgs, List.all_nil, hl]
  unfold W.switchCmd
  simp [hne]
  unfold W.switchCreate
  simp [hh, hadd, hhead]

/-- **`branch -r <n>` succeeds** for a valid name no branch file carries, when HEAD's branch exists with a commit, its log is there
    and HEAD's file is there -/
theorem world_branch_rename_succeeds (H : HashFn) (w : W.World) (n : Bytes) (tz : Int) (ts : List Int) (l : W.Loaded) (id : Bytes) (c : Commit)
    (hn : W.HN w) (hinit : w.inited = true) (hl : W.load H w = some l) (hh : l.headCommit = some (id, c))
    (hv : Refs.validName n = true) (hnew : W.aget w.heads n = none) (hcur : l.ref ∈ Refs.names l.refs)
    (hhead : w.head.isNone = false) (hlog : (W.aget w.logHeads l.ref).isNone = false) :
    (W.run H w ⟨.branch [] false n [], tz, ts⟩).2 = .ok none := by
  have hs := W.loaded_refs_sorted H w l hl hn
  have hnot : n ∉ Refs.names l.refs := by
    intro hm
    have := W.load_names w.heads l.refs (W.load_refs H w l hl) n hm
    rw [hnew] at this; cases this
  obtain ⟨i, hi, _, h', hren, _⟩ := rename_ok l.refs hs l.ref n hv hnot hcur
  have hne : n.isEmpty = false := by
    cases n with
    | nil => simp [Refs.validName] at hv
    | cons a b => rfl
  unfold W.run
  simp only [hinit, Bool.not_true, Bool.false_eq_true, if_false, W.pathArgs, List.all_nil, hl]
  unfold W.branchCmd
  simp only [List.length_nil, List.isEmpty_nil, hne, Bool.not_false, Bool.and_true, Bool.true_and, Bool.and_false, Bool.false_and,
    Bool.or_false, Bool.false_or, Bool.not_true, Bool.false_eq_true, if_false, Bool.or_true]
  unfold W.branchRename
  simp [hren, hh, hhead, hlog]

end C10
