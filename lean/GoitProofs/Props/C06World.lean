import GoitProofs.Props.C05World
import GoitProofs.Props.C17Cmd
set_option linter.unusedSimpArgs false
set_option linter.unusedVariables false

/-! C06 (`canonical`) and C17 (`no-meta`) on the whole-repository model, as an invariant of every invocation:
    **the staging area stays strictly sorted and duplicate-free and never holds a path inside `.goit`** — through
    `add` in every argument form, `rm`, `restore --staged`, `reset`, successful or failing half-way.

    `world_index_good_partial` is *partial* in one respect, stated as the hypothesis `ReadsGood`: the entries that
    `reset` and `restore --staged` read back from a stored commit are themselves sorted and free of `.goit` paths.
    That is what `C05.world_readback` proves for the trees of one commit (they read back as the staging area they
    were written from); carrying it along a whole history additionally needs the tree line of the commit object
    through `bufio.Scanner` for every stored commit, which is not proved — the full statement is `IndexGoodAlways`
    below, kept visible. -/

namespace W

open C04 C06 C17

structure Good (es : List Entry) : Prop where
  canon : Canonical es
  nometa : NoMeta es

def IndexGood (w : World) : Prop := ∀ es, w.index = some es → Good es

/-- the full statement (not proved): from the empty directory, after any history, the staging area is `Good` -/
def IndexGoodAlways (H : HashFn) : Prop := ∀ is : List Inv, IndexGood (runAll H {} is)

theorem good_nil : Good [] := ⟨by simp [Canonical, SortedKeys, IndexOps.paths], fun e he => by cases he⟩

theorem good_update (es : List Entry) (hg : Good es) (id p : Bytes) (hp : ¬ IsMeta p) (ch : Bool) (es' : List Entry)
    (h : IndexOps.update es id p = .ok (ch, es')) : Good es' := by
  refine ⟨update_canonical es hg.canon id p ch es' h, ?_⟩
  obtain ⟨ch2, es2, h2, _, hmem⟩ := update_membership es hg.canon id p
  rw [h] at h2
  injection h2 with h2; injection h2 with _ h3; subst h3
  intro e he
  by_cases hpe : e.path = p
  · rw [hpe]; exact hp
  · exact hg.nometa e ((hmem e hpe).1 he)

theorem good_delete (es : List Entry) (hg : Good es) (p : Bytes) (es' : List Entry) (h : IndexOps.delete es p = .ok es') : Good es' := by
  unfold IndexOps.delete at h
  split at h
  · cases h
  · rename_i i _
    injection h with h; subst h
    exact ⟨eraseIdx_canonical es hg.canon i, fun e he => hg.nometa e (List.mem_of_mem_eraseIdx he)⟩
  · cases h

theorem good_filter (es : List Entry) (hg : Good es) (f : Entry → Bool) : Good (es.filter f) :=
  ⟨filter_canonical es hg.canon f, fun e he => hg.nometa e ((List.mem_filter.mp he).1)⟩

theorem good_addOne (H : HashFn) (es : List Entry) (hg : Good es) (p d : Bytes) (hp : ¬ IsMeta p) (es' : List Entry)
    (h : Cmds.addOne H es p d = .ok es') : Good es' := by
  unfold Cmds.addOne at h
  cases hu : IndexOps.update es (Obj.id H .blob d) p with
  | ok r => obtain ⟨ch, e2⟩ := r; simp [hu, Res.map] at h; subst h; exact good_update es hg _ p hp ch e2 hu
  | err => simp [hu, Res.map] at h
  | crash => simp [hu, Res.map] at h

theorem not_meta_of_not_ignored (w : Cmds.WS) (p : Bytes) (h : ¬ Cmds.ignored w p = true) : ¬ IsMeta p :=
  fun hm => h (ignored_meta w p hm)

theorem good_addFold (H : HashFn) (fs : List (Bytes × Bytes)) (hfs : ∀ f ∈ fs, ¬ IsMeta f.1) (es : List Entry) (hg : Good es)
    (es' : List Entry) (h : fs.foldl (fun (acc : Res (List Entry)) f => acc.bind fun i => Cmds.addOne H i f.1 f.2) (Res.ok es) = .ok es') :
    Good es' := by
  induction fs generalizing es with
  | nil => simp at h; subst h; exact hg
  | cons f fs ih =>
    simp only [List.foldl_cons] at h
    have hb : (Res.ok es : Res (List Entry)).bind (fun i => Cmds.addOne H i f.1 f.2) = Cmds.addOne H es f.1 f.2 := rfl
    rw [hb] at h
    cases ho : Cmds.addOne H es f.1 f.2 with
    | ok e1 =>
      rw [ho] at h
      exact ih (fun g hg' => hfs g (List.mem_cons_of_mem _ hg')) e1 (good_addOne H es hg f.1 f.2 (hfs f List.mem_cons_self) e1 ho) h
    | err =>
      rw [ho] at h
      have : ∀ (l : List (Bytes × Bytes)), l.foldl (fun (acc : Res (List Entry)) f => acc.bind fun i => Cmds.addOne H i f.1 f.2) Res.err = Res.err := by
        intro l; induction l with
        | nil => rfl
        | cons x xs ihx => simp only [List.foldl_cons]; exact ihx
      rw [this] at h; cases h
    | crash =>
      rw [ho] at h
      have : ∀ (l : List (Bytes × Bytes)), l.foldl (fun (acc : Res (List Entry)) f => acc.bind fun i => Cmds.addOne H i f.1 f.2) Res.crash = Res.crash := by
        intro l; induction l with
        | nil => rfl
        | cons x xs ihx => simp only [List.foldl_cons]; exact ihx
      rw [this] at h; cases h

/-- every (also partial) result of the `add` loop is `Good` -/
theorem good_addArgsP (H : HashFn) (w : Cmds.WS) (args : List Bytes) (idx : List Entry) (bs : List Bytes) (hg : Good idx) :
    Good (addArgsP H w args idx bs).idx := by
  induction args generalizing idx bs with
  | nil => exact hg
  | cons a rest ih =>
    unfold addArgsP
    dsimp only
    split
    · exact ih _ _ hg
    · rename_i hign
      split
      · cases hd : IndexOps.delete idx (Cmds.cleanPath a) with
        | ok i => exact ih _ _ (good_delete idx hg _ i hd)
        | err => exact hg
        | crash => exact hg
      · split
        · cases hf : (List.filter (fun f => !Cmds.ignored { w with index := idx } f.1) (Cmds.filesUnder w (Cmds.cleanPath a))).foldl
              (fun (acc : Res (List Entry)) f => acc.bind fun i => Cmds.addOne H i f.1 f.2) (Res.ok idx) with
          | ok i =>
            refine ih _ _ (good_addFold H _ ?_ idx hg i hf)
            intro f hfm
            have := (List.mem_filter.mp hfm).2
            exact not_meta_of_not_ignored { w with index := idx } f.1 (by simpa using this)
          | err => exact hg
          | crash => exact hg
        · cases hfa : Cmds.fileAt w (Cmds.cleanPath a) with
          | none => exact hg
          | some data =>
            dsimp only
            cases ho : Cmds.addOne H idx (Cmds.cleanPath a) data with
            | ok i => exact ih _ _ (good_addOne H idx hg _ data (not_meta_of_not_ignored _ _ hign) i ho)
            | err => exact hg
            | crash => exact hg

theorem good_rmArgsP (args : List Bytes) (idx : List Entry) (removed : List Bytes) (hg : Good idx) :
    Good (rmArgsP args idx removed).2.1 := by
  induction args generalizing idx removed with
  | nil => exact hg
  | cons a rest ih =>
    unfold rmArgsP
    dsimp only
    cases hwd : IndexOps.isDir idx (Cmds.cleanPath a) <;>
      simp only [Bool.false_eq_true, if_false, if_true, Bool.not_false, Bool.not_true, Bool.and_true, Bool.and_false] <;>
      (split <;> first
        | exact good_filter idx hg _
        | (apply ih; split <;> first | exact good_filter _ (good_filter idx hg _) _ | exact good_filter idx hg _)
        | (apply ih; first | exact good_filter _ (good_filter idx hg _) _ | exact good_filter idx hg _))

/-! ### `restore --staged`: entries come from the staging area or from HEAD's snapshot -/

theorem snapId_mem (snap : List Entry) (p id : Bytes) (h : Cmds.snapId snap p = some id) : ∃ e ∈ snap, e.path = p := by
  unfold Cmds.snapId at h
  cases hf : snap.find? (fun e => e.path == p) with
  | none => simp [hf] at h
  | some e => exact ⟨e, List.mem_of_find?_eq_some hf, by simpa using List.find?_some hf⟩

theorem good_restoreIndexOne (idx snap : List Entry) (hg : Good idx) (hs : NoMeta snap) (p : Bytes) (idx' : List Entry)
    (h : Cmds.restoreIndexOne idx snap p = .ok idx') : Good idx' := by
  unfold Cmds.restoreIndexOne at h
  cases hsi : Cmds.snapId snap p with
  | some id =>
    simp only [hsi] at h
    obtain ⟨e, he, hep⟩ := snapId_mem snap p id hsi
    cases hu : IndexOps.update idx id p with
    | ok r => obtain ⟨ch, e2⟩ := r; simp [hu, Res.map] at h; subst h; exact good_update idx hg id p (hep ▸ hs e he) ch e2 hu
    | err => simp [hu, Res.map] at h
    | crash => simp [hu, Res.map] at h
  | none =>
    simp only [hsi] at h
    split at h
    · exact good_delete idx hg p idx' h
    · cases h

theorem good_rsFold (snap : List Entry) (hs : NoMeta snap) (ps : List Bytes) (idx : List Entry) (hg : Good idx) :
    Good (Cmds.rsFold snap ps idx).2 := by
  induction ps generalizing idx with
  | nil => exact hg
  | cons p ps ih =>
    unfold Cmds.rsFold
    cases hr : Cmds.restoreIndexOne idx snap p with
    | ok i => exact ih i (good_restoreIndexOne idx snap hg hs p i hr)
    | err => exact hg
    | crash => exact hg

theorem good_restoreStagedArgs (snap : List Entry) (hs : NoMeta snap) (args : List Bytes) (idx : List Entry) (hg : Good idx) :
    Good (Cmds.restoreStagedArgs snap args idx).2 := by
  induction args generalizing idx with
  | nil => exact hg
  | cons a rest ih =>
    unfold Cmds.restoreStagedArgs
    dsimp only
    have hfold := good_rsFold snap hs
      (if (snap.any (fun t => IndexOps.under (Cmds.cleanPath a) t.path) || IndexOps.isDir idx (Cmds.cleanPath a)) = true
        then Cmds.stagedDirPaths idx snap (Cmds.cleanPath a) else []) idx hg
    cases hr : Cmds.rsFold snap
      (if (snap.any (fun t => IndexOps.under (Cmds.cleanPath a) t.path) || IndexOps.isDir idx (Cmds.cleanPath a)) = true
        then Cmds.stagedDirPaths idx snap (Cmds.cleanPath a) else []) idx with
    | mk okf idx1 =>
      rw [hr] at hfold
      cases okf with
      | false => exact hfold
      | true =>
        dsimp only
        split
        · cases hone : Cmds.restoreIndexOne idx1 snap (Cmds.cleanPath a) with
          | ok i => exact ih i (good_restoreIndexOne idx1 snap hfold hs _ i hone)
          | err => exact hfold
          | crash => exact hfold
        · split
          · exact hfold
          · exact ih idx1 hfold

/-! ### the invariant through every invocation -/

/-- what `reset` and `restore --staged` read back from the stored commits is sorted and free of `.goit` paths -/
def ReadsGood (H : HashFn) (w : World) : Prop :=
  (∀ t es, Cmds.resetEntries H (store w) treeDepth t = .ok es → Good es) ∧
  (∀ l es, load H w = some l → headSnap H w l = .ok es → NoMeta es)

theorem loaded_idx_good (H : HashFn) (w : World) (l : Loaded) (hl : load H w = some l) (hg : IndexGood w) : Good l.idx := by
  have : l.idx = w.index.getD [] := by
    unfold load at hl
    split at hl
    · injection hl with hl; subst hl; rfl
    · contradiction
  rw [this]
  cases hi : w.index with
  | none => exact good_nil
  | some es => exact hg es hi

theorem indexGood_set (w : World) (hg : IndexGood w) (old new : List Entry) (hn : Good new) : IndexGood (setIndexIfChanged w old new) := by
  intro es he
  unfold setIndexIfChanged at he
  split at he
  · exact hg es he
  · simp at he; subst he; exact hn

theorem indexGood_of_eq (w w' : World) (h : w'.index = w.index) (hg : IndexGood w) : IndexGood w' := by
  intro es he; rw [h] at he; exact hg es he

theorem addCmd_index_good (H) (w l args) (hl : load H w = some l) (hg : IndexGood w) : IndexGood (addCmd H w l args).1 := by
  unfold addCmd
  dsimp only
  repeat' split
  all_goals first
    | exact hg
    | (apply indexGood_set
       · exact indexGood_of_eq w _ (putBlobs_index' H w _) hg
       · exact good_addArgsP H _ args l.idx [] (loaded_idx_good H w l hl hg))

theorem rmCmd_index_good (H) (w l args) (hl : load H w = some l) (hg : IndexGood w) : IndexGood (rmCmd w l args).1 := by
  unfold rmCmd
  split
  · exact hg
  · have hgood := good_rmArgsP args l.idx [] (loaded_idx_good H w l hl hg)
    cases hr : rmArgsP args l.idx [] with
    | mk ok rest =>
      obtain ⟨idx', removed⟩ := rest
      rw [hr] at hgood
      dsimp only
      split
      · exact hg
      · apply indexGood_set
        · exact indexGood_of_eq w _ rfl hg
        · exact hgood

theorem restoreCmd_index_good (H) (w l st args) (hl : load H w = some l) (hg : IndexGood w) (hr : ReadsGood H w) :
    IndexGood (restoreCmd H w l st args).1 := by
  unfold restoreCmd
  dsimp only
  repeat' split
  all_goals first
    | exact hg
    | exact indexGood_of_eq w _ (restoreWorkP_index' H _ w _) hg
    | exact indexGood_set w hg _ _ (good_restoreStagedArgs _ (hr.2 l _ hl (by assumption)) args l.idx (loaded_idx_good H w l hl hg))

theorem resetTo_index_good (H) (w l s h arg t prev tz ts) (hg : IndexGood w) (hr : ReadsGood H w) :
    IndexGood (resetTo H w l s h arg t prev tz ts).1 := by
  unfold resetTo
  cases hc : commitAt H w t with
  | none => exact hg
  | some c =>
    dsimp only
    cases s with
    | true => simp only [if_true]; exact indexGood_of_eq w _ rfl hg
    | false =>
      simp only [Bool.false_eq_true, if_false]
      cases hre : Cmds.resetEntries H (store (appendLogBranch (appendLogHead { w with heads := aset w.heads l.ref (hashStr t) }
          (recLine l .reset (some prev) (some t) (clock ts 0) tz (asc "moving to " ++ arg))) l.ref
          (recLine l .reset (some prev) (some t) (clock ts 0) tz (asc "moving to " ++ arg)))) treeDepth t with
      | err => exact indexGood_of_eq w _ rfl hg
      | crash => exact indexGood_of_eq w _ rfl hg
      | ok es =>
        have hes : Good es := hr.1 t es hre
        dsimp only
        cases h with
        | false => simp only [Bool.not_false, if_true]; intro e he; simp at he; subst he; exact hes
        | true =>
          simp only [Bool.not_true, Bool.false_eq_true, if_false]
          intro e he
          rw [writeEntries_index'] at he
          simp at he; subst he; exact hes

theorem resetCmd_index_good (H) (w l s m h args tz ts) (hg : IndexGood w) (hr : ReadsGood H w) :
    IndexGood (resetCmd H w l s m h args tz ts).1 := by
  unfold resetCmd
  repeat' split
  all_goals first | exact hg | exact resetTo_index_good H w l _ _ _ _ _ tz ts hg hr

/-- **One invocation keeps the staging area sorted, duplicate-free and free of `.goit` paths** (partial: `ReadsGood`) -/
theorem run_index_good_partial (H : HashFn) (w : World) (i : Inv) (hg : IndexGood w) (hr : ReadsGood H w) : IndexGood (run H w i).1 := by
  obtain ⟨cmd, tz, ts⟩ := i
  have other : Field.index ∉ mayTouch cmd → IndexGood (run H w ⟨cmd, tz, ts⟩).1 := fun h =>
    indexGood_of_eq w _ (frame H w ⟨cmd, tz, ts⟩ .index h) hg
  cases cmd with
  | add args =>
    (unfold run; dsimp only; repeat' split) <;> first | exact hg | exact addCmd_index_good H w _ _ (by assumption) hg
  | rm args =>
    (unfold run; dsimp only; repeat' split) <;> first | exact hg | exact rmCmd_index_good H w _ _ (by assumption) hg
  | restore st args =>
    (unfold run; dsimp only; repeat' split) <;> first | exact hg | exact restoreCmd_index_good H w _ _ _ (by assumption) hg hr
  | reset s m h args =>
    (unfold run; dsimp only; repeat' split) <;> first | exact hg | exact resetCmd_index_good H w _ _ _ _ _ tz ts hg hr
  | config g a => exact other (by cases g <;> simp [mayTouch])
  | _ => exact other (by simp [mayTouch])

end W

namespace C06

/-- **C06 `canonical` through every invocation of the whole-repository model** (partial, see the file header): whatever
    the command, its arguments and its outcome, a staging area that was strictly sorted and duplicate-free stays so -/
theorem world_index_canonical_partial (H : HashFn) (w : W.World) (i : W.Inv) (hg : W.IndexGood w) (hr : W.ReadsGood H w)
    (es : List Entry) (he : (W.run H w i).1.index = some es) : Canonical es :=
  (W.run_index_good_partial H w i hg hr es he).canon

end C06

namespace C17

/-- **C17 `no-meta` through every invocation** (partial, same hypothesis): no form of `add`, `rm`, `restore`, `reset`
    ever puts a path inside `.goit` into the staging area -/
theorem world_no_meta_partial (H : HashFn) (w : W.World) (i : W.Inv) (hg : W.IndexGood w) (hr : W.ReadsGood H w)
    (es : List Entry) (he : (W.run H w i).1.index = some es) : NoMeta es :=
  (W.run_index_good_partial H w i hg hr es he).nometa

/-- without `reset` and `restore --staged` there is nothing to assume: `add` and `rm` alone keep the invariant -/
theorem world_add_rm_no_meta (H : HashFn) (w : W.World) (i : W.Inv) (hg : W.IndexGood w)
    (hc : (∃ a, i.cmd = .add a) ∨ (∃ a, i.cmd = .rm a)) : W.IndexGood (W.run H w i).1 := by
  obtain ⟨cmd, tz, ts⟩ := i
  rcases hc with ⟨a, rfl⟩ | ⟨a, rfl⟩
  · (unfold W.run; dsimp only; repeat' split) <;> first | exact hg | exact W.addCmd_index_good H w _ _ (by assumption) hg
  · (unfold W.run; dsimp only; repeat' split) <;> first | exact hg | exact W.rmCmd_index_good H w _ _ (by assumption) hg

end C17
