import GoitProofs.Props.C10
import GoitProofs.Props.C10Abs

/-! # C10: the sorted branch list of `internal/store/refs.go` refines the abstract branch map

`Refs.add / delete / update / rename` (binary search + re-sort on the name-sorted list, compared with the
real `AddBranch`, `DeleteBranch`, `UpdateBranchHash`, `RenameBranch` in-process) behave, under `lookup`, like
the corresponding operations on the abstract branch map — so the invariants proved on the abstract machine
(`C03.inv_run`, `C10.others_keep`) are about what the list operations compute. -/

namespace C10

open Refs

theorem sorted_nodup (h : Heads) (hs : Sorted h) : (names h).Nodup := by
  unfold Sorted SortedKeys at hs
  exact hs.imp (fun hlt => by intro e; subst e; exact absurd hlt (List.lt_irrefl _))

theorem lookup_eq_some_iff (h : Heads) (hnd : (names h).Nodup) (m id : Bytes) :
    lookup h m = some id ↔ (m, id) ∈ h := by
  induction h with
  | nil => simp [lookup]
  | cons p ps ih =>
    simp only [names, List.map_cons, List.nodup_cons] at hnd
    simp only [lookup, List.find?_cons]
    by_cases hp : p.1 = m
    · have : (p.1 == m) = true := by simp [hp]
      simp only [this, Option.map_some, Option.some.injEq, List.mem_cons]
      constructor
      · intro h'; left; cases p; simp_all
      · rintro (h' | h')
        · cases p; simp_all
        · exfalso; apply hnd.1; rw [hp]; exact List.mem_map.2 ⟨(m, id), h', rfl⟩
    · have : (p.1 == m) = false := by simp [hp]
      simp only [this, List.mem_cons]
      have ih' := ih hnd.2
      simp only [lookup] at ih'
      rw [ih']
      constructor
      · intro h'; exact Or.inr h'
      · rintro (h' | h')
        · exfalso; apply hp; rw [← h']
        · exact h'

theorem option_ext {α} (a b : Option α) (h : ∀ x, a = some x ↔ b = some x) : a = b := by
  cases a with
  | none =>
    cases b with
    | none => rfl
    | some y => exact ((h y).2 rfl)
  | some x => exact ((h x).1 rfl).symm

theorem sortHeads_sorted (h : Heads) (hnd : (names h).Nodup) : Sorted (sortHeads h) := by
  have hp : (sortHeads h).Perm h := List.mergeSort_perm _ _
  have hsorted : (sortHeads h).Pairwise (fun a b => leHead a b = true) := by
    apply List.pairwise_mergeSort
    · intro a b c hab hbc
      simp only [leHead, decide_eq_true_eq] at *
      exact List.le_trans hab hbc
    · intro a b
      simp only [leHead, Bool.or_eq_true, decide_eq_true_eq]
      exact List.le_total a.1 b.1
  have hn' : (names (sortHeads h)).Nodup := (hp.map _).nodup_iff.2 hnd
  unfold Sorted SortedKeys names at *
  unfold List.Nodup at hn'
  rw [List.pairwise_map] at hn' ⊢
  refine (hsorted.and hn').imp ?_
  rintro a b ⟨hle, hne⟩
  simp only [leHead, decide_eq_true_eq] at hle
  exact Std.lt_of_le_of_ne hle hne

/-- **create**: afterwards the new name resolves to the given commit and every other name resolves as before -/
theorem add_lookup (h : Heads) (hs : Sorted h) (n id : Bytes) (h' : Heads) (ha : add h n id = .ok h') :
    Sorted h' ∧ ∀ m, lookup h' m = if m = n then some id else lookup h m := by
  have hv : validName n = true := by
    cases hx : validName n with
    | true => rfl
    | false => simp [add, hx] at ha
  have hnew : n ∉ names h := by
    intro hm
    rw [add_dup h hs n id hm] at ha; cases ha
  obtain ⟨h2, h2eq, hperm⟩ := add_ok h hs n id hv hnew
  rw [ha] at h2eq; cases h2eq
  have hnd : (names (h ++ [(n, id)])).Nodup := by
    simp only [names, List.map_append, List.map_cons, List.map_nil]
    rw [List.nodup_append]
    refine ⟨sorted_nodup h hs, by simp, ?_⟩
    intro a ha' b hb hab
    simp only [List.mem_singleton] at hb
    subst hb; subst hab
    exact hnew ha'
  have hnd' : (names h').Nodup := (hperm.map _).nodup_iff.2 hnd
  have hs' : Sorted h' := by
    have : h' = sortHeads (h ++ [(n, id)]) := by
      have := (getBranchPos_correct h hs n).2.1 hnew
      simp [add, hv, this] at ha; exact ha.symm
    rw [this]; exact sortHeads_sorted _ hnd
  refine ⟨hs', fun m => option_ext _ _ (fun x => ?_)⟩
  rw [lookup_eq_some_iff h' hnd' m x, hperm.mem_iff]
  simp only [List.mem_append, List.mem_singleton, Prod.mk.injEq]
  by_cases hm : m = n
  · subst hm
    simp only [if_true, Option.some.injEq]
    constructor
    · rintro (hin | ⟨_, rfl⟩)
      · exact absurd (List.mem_map.2 ⟨(m, x), hin, rfl⟩) hnew
      · rfl
    · intro hx; exact Or.inr (by simpa using hx.symm)
  · simp only [hm, if_false, false_and, or_false]
    exact (lookup_eq_some_iff h (sorted_nodup h hs) m x).symm

theorem mem_eraseIdx_iff (h : Heads) (hnd : (names h).Nodup) (i : Nat) (hi : i < h.length) (p : Bytes × Bytes) :
    p ∈ h.eraseIdx i ↔ p ∈ h ∧ p.1 ≠ h[i].1 := by
  have hsplit : h = h.take i ++ h[i] :: h.drop (i + 1) := by simp
  rw [List.eraseIdx_eq_take_drop_succ]
  unfold names at hnd
  rw [hsplit, List.map_append, List.map_cons] at hnd
  obtain ⟨_, hB, hAB⟩ := List.nodup_append.1 hnd
  have hB' := List.nodup_cons.1 hB
  generalize hx : h[i] = x at hB hB' hAB ⊢
  have hmem : p ∈ h ↔ p ∈ h.take i ∨ p = x ∨ p ∈ h.drop (i + 1) := by
    conv => lhs; rw [hsplit]
    simp only [List.mem_append, List.mem_cons, hx]
  rw [hmem]
  simp only [List.mem_append]
  constructor
  · rintro (hp | hp)
    · refine ⟨Or.inl hp, fun he => ?_⟩
      exact hAB p.1 (List.mem_map.2 ⟨p, hp, rfl⟩) x.1 List.mem_cons_self he
    · refine ⟨Or.inr (Or.inr hp), fun he => ?_⟩
      exact hB'.1 (he ▸ List.mem_map.2 ⟨p, hp, rfl⟩)
  · rintro ⟨hp | hp | hp, hne⟩
    · exact Or.inl hp
    · exact absurd (by rw [hp]) hne
    · exact Or.inr hp

/-- **delete**: afterwards the name no longer resolves and every other name resolves as before -/
theorem delete_lookup (h : Heads) (hs : Sorted h) (head del : Bytes) (h' : Heads) (hd : delete h head del = .ok h') :
    Sorted h' ∧ del ≠ head ∧ ∀ m, lookup h' m = if m = del then none else lookup h m := by
  have hne : del ≠ head := by
    intro he; subst he; rw [delete_current_refused] at hd; cases hd
  have hm : del ∈ names h := by
    apply Classical.byContradiction; intro hm
    rw [delete_unknown_refused h hs head del hm] at hd; cases hd
  obtain ⟨i, hi, hn, heq⟩ := delete_ok h hs head del hne hm
  rw [hd] at heq; cases heq
  have hnd := sorted_nodup h hs
  have hs' : Sorted (h.eraseIdx i) := by
    unfold Sorted SortedKeys names at *
    exact List.Pairwise.sublist ((List.eraseIdx_sublist h i).map _) hs
  refine ⟨hs', hne, fun m => option_ext _ _ (fun x => ?_)⟩
  rw [lookup_eq_some_iff _ (sorted_nodup _ hs') m x, mem_eraseIdx_iff h hnd i hi, hn]
  by_cases hmd : m = del
  · subst hmd; simp
  · simp only [hmd, if_false, ne_eq, not_false_eq_true, and_true]
    exact (lookup_eq_some_iff h hnd m x).symm

theorem mem_modify_iff (h : Heads) (hnd : (names h).Nodup) (i : Nat) (hi : i < h.length) (f : Bytes × Bytes → Bytes × Bytes)
    (p : Bytes × Bytes) : p ∈ h.modify i f ↔ (p ∈ h ∧ p.1 ≠ h[i].1) ∨ p = f h[i] := by
  rw [List.modify_eq_take_cons_drop hi]
  have := mem_eraseIdx_iff h hnd i hi p
  rw [List.eraseIdx_eq_take_drop_succ] at this
  simp only [List.mem_append, List.mem_cons] at this ⊢
  constructor
  · rintro (hp | hp | hp)
    · exact Or.inl (this.1 (Or.inl hp))
    · exact Or.inr hp
    · exact Or.inl (this.1 (Or.inr hp))
  · rintro (hp | hp)
    · rcases this.2 hp with h1 | h1
      · exact Or.inl h1
      · exact Or.inr (Or.inr h1)
    · exact Or.inr (Or.inl hp)

theorem names_modify_snd (h : Heads) (i : Nat) (g : Bytes × Bytes → Bytes) :
    names (h.modify i (fun p => (p.1, g p))) = names h := by
  induction h generalizing i with
  | nil => cases i <;> simp [names, List.modify]
  | cons a as ih =>
    cases i with
    | zero => simp [names, List.modify]
    | succ i =>
      simp only [names, List.modify_succ_cons, List.map_cons] at ih ⊢
      rw [ih i]

/-- **update-ref**: afterwards the name resolves to the given commit, every other name as before -/
theorem update_lookup (h : Heads) (hs : Sorted h) (n id : Bytes) (h' : Heads) (hu : update h n id = .ok h') :
    Sorted h' ∧ n ∈ names h ∧ ∀ m, lookup h' m = if m = n then some id else lookup h m := by
  have hm : n ∈ names h := by
    apply Classical.byContradiction; intro hm
    rw [update_unknown_refused h hs n id hm] at hu; cases hu
  obtain ⟨i, hi, hn, heq⟩ := update_ok h hs n id hm
  rw [hu] at heq; cases heq
  have hnd := sorted_nodup h hs
  have hnames : names (h.modify i (fun p => (p.1, id))) = names h := names_modify_snd h i (fun _ => id)
  have hs' : Sorted (h.modify i (fun p => (p.1, id))) := by unfold Sorted; rw [hnames]; exact hs
  refine ⟨hs', hm, fun m => option_ext _ _ (fun x => ?_)⟩
  rw [lookup_eq_some_iff _ (sorted_nodup _ hs') m x, mem_modify_iff h hnd i hi, hn]
  by_cases hmn : m = n
  · subst hmn
    simp only [if_true, Option.some.injEq]
    constructor
    · rintro (⟨_, hne⟩ | hp)
      · exact absurd rfl hne
      · exact ((Prod.mk.inj hp).2).symm
    · intro hx; right; rw [hx, ← hn]
  · simp only [hmn, if_false]
    rw [lookup_eq_some_iff h hnd m x]
    constructor
    · rintro (⟨hp, _⟩ | hp)
      · exact hp
      · exact absurd (Prod.mk.inj hp).1 hmn
    · intro hp; exact Or.inl ⟨hp, hmn⟩

/-- **rename**: the new name resolves to the commit the old name had, the old name no longer resolves,
    every other name resolves as before -/
theorem rename_lookup (h : Heads) (hs : Sorted h) (cur new : Bytes) (h' : Heads) (hr : rename h cur new = .ok h') :
    Sorted h' ∧ new ∉ names h ∧
      ∀ m, lookup h' m = if m = new then lookup h cur else if m = cur then none else lookup h m := by
  have hv : validName new = true := by
    cases hx : validName new with
    | true => rfl
    | false => simp [rename, hx] at hr
  have hnew : new ∉ names h := by
    intro hm; rw [rename_dup_refused h hs cur new hm] at hr; cases hr
  have hcur : cur ∈ names h := by
    apply Classical.byContradiction; intro hm
    have h1 := (getBranchPos_correct h hs new).2.1 hnew
    have h2 := (getBranchPos_correct h hs cur).2.1 hm
    simp [rename, hv, h1, h2] at hr
  obtain ⟨i, hi, hn, h2, heq, hperm⟩ := rename_ok h hs cur new hv hnew hcur
  rw [hr] at heq; cases heq
  have hnd := sorted_nodup h hs
  -- names after the modification are still distinct
  have hmem : ∀ p, p ∈ h.modify i (fun p => (new, p.2)) ↔ (p ∈ h ∧ p.1 ≠ cur) ∨ p = (new, h[i].2) := by
    intro p; rw [mem_modify_iff h hnd i hi, hn]
  have hcurne : cur ≠ new := fun e => hnew (e ▸ hcur)
  have hnd2 : (names (h.modify i (fun p => (new, p.2)))).Nodup := by
    rw [List.modify_eq_take_cons_drop hi]
    have hsplit : h = h.take i ++ h[i] :: h.drop (i + 1) := by simp
    have hnd0 := hnd
    unfold names at hnd0 ⊢
    rw [hsplit, List.map_append, List.map_cons] at hnd0
    obtain ⟨hA, hB, hAB⟩ := List.nodup_append.1 hnd0
    have hB' := List.nodup_cons.1 hB
    rw [List.map_append, List.map_cons, List.nodup_append]
    have hnotin : ∀ q ∈ h, q.1 ≠ new := fun q hq e => hnew (List.mem_map.2 ⟨q, hq, e⟩)
    refine ⟨hA, List.nodup_cons.2 ⟨?_, hB'.2⟩, ?_⟩
    · intro hin
      obtain ⟨q, hq, hqe⟩ := List.mem_map.1 hin
      exact hnotin q (List.mem_of_mem_drop hq) hqe
    · intro a ha b hb hab
      rcases List.mem_cons.1 hb with rfl | hb
      · obtain ⟨q, hq, hqe⟩ := List.mem_map.1 ha
        exact hnotin q (List.mem_of_mem_take hq) (hqe.trans hab)
      · exact hAB a ha b (List.mem_cons_of_mem _ hb) hab
  have hnd' : (names h').Nodup := (hperm.map _).nodup_iff.2 hnd2
  have hs' : Sorted h' := by
    have : h' = sortHeads (h.modify i (fun p => (new, p.2))) := by
      have h1 := (getBranchPos_correct h hs new).2.1 hnew
      have h3 := (getBranchPos_correct h hs cur).1 i hi hn
      simp [rename, hv, h1, h3] at hr; exact hr.symm
    rw [this]; exact sortHeads_sorted _ hnd2
  refine ⟨hs', hnew, fun m => option_ext _ _ (fun x => ?_)⟩
  rw [lookup_eq_some_iff h' hnd' m x, hperm.mem_iff, hmem]
  have hcurlook : lookup h cur = some h[i].2 := by
    rw [lookup_eq_some_iff h hnd]
    have : (cur, h[i].2) = h[i] := by rw [← hn]
    rw [this]; exact List.getElem_mem hi
  by_cases hmn : m = new
  · subst hmn
    simp only [if_true, hcurlook, Option.some.injEq, Prod.mk.injEq, true_and]
    constructor
    · rintro (⟨hp, _⟩ | hp)
      · exact absurd (List.mem_map.2 ⟨(m, x), hp, rfl⟩) hnew
      · exact hp.symm
    · intro hx; exact Or.inr hx.symm
  · simp only [hmn, if_false, Prod.mk.injEq, false_and, or_false]
    by_cases hmc : m = cur
    · subst hmc; simp
    · simp only [hmc, ne_eq, not_false_eq_true, and_true, if_false]
      exact (lookup_eq_some_iff h hnd m x).symm

/-- the abstract map of a sorted branch list -/
def absOf (h : Heads) : List (Abs.Name × Abs.Id) := h

/-- `lookup` on the sorted list is `find` on the abstract map: the two machines speak about the same function -/
theorem lookup_eq_find (h : Heads) (m : Bytes) : lookup h m = find (absOf h) m := rfl

/-- **Refinement, create**: the list operation and the abstract `branches ++ [(n, t)]` resolve every name alike -/
theorem add_refines (h : Heads) (hs : Sorted h) (n id : Bytes) (h' : Heads) (ha : add h n id = .ok h') (m : Bytes) :
    lookup h' m = find (absOf h ++ [(n, id)]) m := by
  obtain ⟨_, hl⟩ := add_lookup h hs n id h' ha
  rw [hl m]
  have hnew : n ∉ names h := by
    intro hm; rw [add_dup h hs n id hm] at ha; cases ha
  by_cases hmn : m = n
  · subst hmn
    simp only [if_true, find, List.find?_append]
    have : (absOf h).find? (fun b => b.1 == m) = none := by
      simp only [List.find?_eq_none, beq_iff_eq]
      intro p hp he; exact hnew (List.mem_map.2 ⟨p, hp, he⟩)
    simp [this]
  · simp only [hmn, if_false]
    rw [find_append_other _ _ _ _ hmn]; rfl

/-- **Refinement, delete**: the list operation and the abstract `filter (name ≠ del)` resolve every name alike -/
theorem delete_refines (h : Heads) (hs : Sorted h) (head del : Bytes) (h' : Heads) (hd : delete h head del = .ok h') (m : Bytes) :
    lookup h' m = find ((absOf h).filter (fun b => b.1 != del)) m := by
  obtain ⟨_, _, hl⟩ := delete_lookup h hs head del h' hd
  rw [hl m]
  by_cases hmd : m = del
  · subst hmd
    simp only [if_true, find]
    symm
    simp only [Option.map_eq_none_iff, List.find?_eq_none, List.mem_filter, bne_iff_ne, ne_eq, beq_iff_eq, and_imp]
    intro p _ hne; exact hne
  · simp only [hmd, if_false]
    rw [find_filter_other _ _ _ hmd]; rfl

/-- **Refinement, update-ref / commit / reset**: the list operation and the abstract `setBranch` resolve every name alike -/
theorem update_refines (h : Heads) (hs : Sorted h) (n id : Bytes) (h' : Heads) (hu : update h n id = .ok h') (m : Bytes) :
    lookup h' m = find (Abs.setBranch (absOf h) n id) m := by
  obtain ⟨_, _, hl⟩ := update_lookup h hs n id h' hu
  rw [hl m]
  by_cases hmn : m = n
  · subst hmn; simp only [if_true]; exact (find_setBranch_self _ _ _).symm
  · simp only [hmn, if_false]
    rw [find_setBranch_other _ _ _ _ hmn]; rfl

end C10
