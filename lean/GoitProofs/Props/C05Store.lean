import GoitProofs.Props.C01
import GoitProofs.Props.C02
import GoitProofs.Props.C05

/-! # C02 / C05 — the snapshot read back through the object store

`readback_writeTree`: Goit's tree reader (`walkTree`, recursing through `GetObject`) applied to the root
tree that Goit's tree writer (`writeTreeObject`) stored, flattened by `getEntriesFromTree`, is exactly the
list of staged entries — nested directories, any names without NUL, any 20-byte blob ids. The store may
be *any* store that holds the objects the writer wrote (this is what collision freedom of the written
contents gives; see `holds_of_collision_free`). -/

namespace C05

open TreeBuild TreeCodec

/-- the store holds every object of the list under its id -/
def Holds (s : Store) (ws : List (Bytes × Bytes)) : Prop := ∀ p ∈ ws, s p.1 = some p.2
/-- every written content fits Go's `int` (the size field round trips) -/
def Small (ws : List (Bytes × Bytes)) : Prop := ∀ p ∈ ws, p.2.length ≤ Fmt.int64Max

/-- what the index guarantees about an entry: a 20-byte id and a path without NUL bytes -/
def EntryOK (e : Entry) : Prop := e.id.length = 20 ∧ (0 : UInt8) ∉ e.path
def EntriesOK (es : List Entry) : Prop := ∀ e ∈ es, EntryOK e

def toItem (H : HashFn) (f : Nat) : TreeBuild.Item → C05.Item
  | .leaf n i => ⟨false, n, i, []⟩
  | .dir d sub => ⟨true, d, (write H f sub).id, build H f sub⟩

/-- the bytes `writeTreeObject` emits are the layout `encodeItems` of its items -/
def dataOf (H : HashFn) (f : Nat) (es : List Entry) : Bytes :=
  encodeItems ((group [] [] es).map (toItem H f))

theorem parts_data (H : HashFn) (f : Nat) (items : List TreeBuild.Item) :
    ((items.map (part (write H f))).map (·.2)).flatten = encodeItems (items.map (toItem H f)) := by
  induction items with
  | nil => rfl
  | cons it rest ih =>
    simp only [List.map_cons, List.flatten_cons]
    rw [ih]
    cases it with
    | leaf n i => simp [encodeItems, toItem, Item.mode, part]
    | dir d sub => simp [encodeItems, toItem, Item.mode, part]

theorem write_succ (H : HashFn) (f : Nat) (es : List Entry) :
    write H (f + 1) es =
      ⟨(((group [] [] es).map (part (write H f))).map (·.1)).flatten ++
        [(H.sha (Obj.encode .tree (dataOf H f es)), Obj.encode .tree (dataOf H f es))],
       H.sha (Obj.encode .tree (dataOf H f es))⟩ := by
  simp only [write, dataOf, parts_data]

theorem sub_writes_mem (H : HashFn) (f : Nat) (es : List Entry) (d : Bytes) (sub : List Entry)
    (hm : TreeBuild.Item.dir d sub ∈ group [] [] es) :
    ∀ p ∈ (write H f sub).writes, p ∈ (write H (f + 1) es).writes := by
  intro p hp
  rw [write_succ]
  simp only [List.mem_append, List.mem_flatten, List.mem_map]
  left
  exact ⟨(write H f sub).writes, ⟨_, ⟨.dir d sub, hm, rfl⟩, rfl⟩, hp⟩

theorem root_write_mem (H : HashFn) (f : Nat) (es : List Entry) :
    ((write H (f + 1) es).id, Obj.encode .tree (dataOf H f es)) ∈ (write H (f + 1) es).writes ∧
    (write H (f + 1) es).id = H.sha (Obj.encode .tree (dataOf H f es)) := by
  rw [write_succ]; simp

/-- a component of a path without NUL has no NUL -/
theorem cut1_fst_no_nul (p : Bytes) (h : (0 : UInt8) ∉ p) : (0 : UInt8) ∉ (Bytes.cut1 47 p).1 := by
  induction p with
  | nil => simp [Bytes.cut1]
  | cons a as ih =>
    by_cases ha : a = 47
    · simp [Bytes.cut1, ha]
    · simp only [Bytes.cut1, ha, if_false, List.mem_cons, not_or]
      exact ⟨fun e => h (by simp [e]), ih (fun m => h (List.mem_cons_of_mem _ m))⟩

theorem cut1_snd_no_nul (p r : Bytes) (h : (0 : UInt8) ∉ p) (hr : (Bytes.cut1 47 p).2 = some r) : (0 : UInt8) ∉ r := by
  have := Bytes.cut1_some_eq 47 p r hr
  intro hm
  apply h
  rw [this]
  exact List.mem_append_right _ (List.mem_cons_of_mem _ hm)

/-- every item of the grouping carries a 20-byte id (leaves), NUL-free names, and sub-lists that are OK again -/
theorem group_items_ok (dn : Bytes) (buf es : List Entry) (hes : EntriesOK es) (hbuf : EntriesOK buf)
    (hdn : (0 : UInt8) ∉ dn) :
    ∀ it ∈ group dn buf es,
      (∀ n i, it = .leaf n i → i.length = 20 ∧ (0 : UInt8) ∉ n) ∧
      (∀ d sub, it = .dir d sub → (0 : UInt8) ∉ d ∧ EntriesOK sub) := by
  induction es generalizing dn buf with
  | nil =>
    intro it hit
    by_cases hd : dn = []
    · simp [group, hd] at hit
    · simp [group, hd] at hit
      subst hit
      exact ⟨fun n i h => (by cases h), fun d sub h => (by cases h; exact ⟨hdn, hbuf⟩)⟩
  | cons e es ih =>
    have hes' : EntriesOK es := fun x hx => hes x (List.mem_cons_of_mem _ hx)
    obtain ⟨heid, hep⟩ := hes e (List.mem_cons_self)
    intro it hit
    rw [group] at hit
    cases hc : Bytes.cut1 47 e.path with
    | mk n rest? =>
      rw [hc] at hit
      cases rest? with
      | none =>
        have hpn : (Bytes.cut1 47 e.path).2 = none := by rw [hc]
        by_cases hd : dn = []
        · simp only [hd, ne_eq, not_true_eq_false, if_false, List.mem_cons] at hit
          rcases hit with rfl | hit
          · exact ⟨fun n i h => (by cases h; exact ⟨heid, hep⟩), fun d sub h => (by cases h)⟩
          · exact ih [] buf hes' hbuf (by simp) it (by simpa [hd] using hit)
        · simp only [hd, ne_eq, not_false_eq_true, if_true, List.mem_cons] at hit
          rcases hit with rfl | rfl | hit
          · exact ⟨fun n i h => (by cases h), fun d sub h => (by cases h; exact ⟨hdn, hbuf⟩)⟩
          · exact ⟨fun n i h => (by cases h; exact ⟨heid, hep⟩), fun d sub h => (by cases h)⟩
          · exact ih [] [] hes' (by intro x hx; cases hx) (by simp) it hit
      | some r =>
        have hn0 : (0 : UInt8) ∉ n := by
          have := cut1_fst_no_nul e.path hep; rw [hc] at this; exact this
        have hr0 : (0 : UInt8) ∉ r := cut1_snd_no_nul e.path r hep (by rw [hc])
        have hnew : EntryOK ⟨e.id, r⟩ := ⟨heid, hr0⟩
        have happ : EntriesOK (buf ++ [⟨e.id, r⟩]) := by
          intro x hx; rcases List.mem_append.mp hx with hx | hx
          · exact hbuf x hx
          · simp at hx; subst hx; exact hnew
        simp only at hit
        by_cases hd : dn = []
        · simp only [hd, if_true] at hit
          exact ih n _ hes' happ hn0 it hit
        · by_cases hsame : dn = n
          · subst hsame
            simp only [hd, if_false, if_true] at hit
            exact ih dn _ hes' happ hn0 it hit
          · simp only [hd, if_false, hsame, List.mem_cons] at hit
            rcases hit with rfl | hit
            · exact ⟨fun n i h => (by cases h), fun d sub h => (by cases h; exact ⟨hdn, hbuf⟩)⟩
            · exact ih n [⟨e.id, r⟩] hes' (by intro x hx; simp at hx; subst hx; exact hnew) hn0 it hit

/-- **Reader ∘ writer through the store**: the reader, started on the root tree the writer stored and
    resolving sub-trees through `GetObject` of any store holding the written objects, rebuilds exactly
    the node structure of the writer. -/
theorem walk_write (H : HashFn) (s : Store) (f : Nat) (es : List Entry) (hok : AllOK es) (heok : EntriesOK es)
    (hf : size es < f + 1) (hh : Holds s (write H (f + 1) es).writes) (hs : Small (write H (f + 1) es).writes) :
    walk H s (f + 1) (dataOf H f es) = some (build H (f + 1) es) := by
  induction f generalizing es with
  | zero =>
    -- size es = 0 with non-empty components means es = []
    have : es = [] := by
      cases es with
      | nil => rfl
      | cons e es =>
        have he := hok e (List.mem_cons_self)
        rcases pathOK_cases e.path he with ⟨_, hne⟩ | ⟨r, _, _, _, heq⟩
        · have : 0 < e.path.length := List.length_pos_iff.mpr hne
          simp only [size_cons] at hf; omega
        · have : 0 < e.path.length := by rw [heq]; simp; omega
          simp only [size_cons] at hf; omega
    subst this
    simp [dataOf, group, encodeItems, walk, build]
  | succ f ih =>
    have hbuild : build H (f + 1 + 1) es = nodesOf ((group [] [] es).map (toItem H (f + 1))) := by
      rw [build_succ]
      simp only [nodesOf, List.map_map]
      apply List.map_congr_left
      intro it _
      cases it <;> rfl
    rw [hbuild]
    apply walk_encode
    intro x hx
    simp only [List.mem_map] at hx
    obtain ⟨it, hit, rfl⟩ := hx
    obtain ⟨hleaf, hdir⟩ := group_items_ok [] [] es heok (by intro x hx; cases hx) (by simp) it hit
    cases it with
    | leaf n i =>
      obtain ⟨hi, hn⟩ := hleaf n i rfl
      exact ⟨hi, hn, by simp [toItem]⟩
    | dir d sub =>
      obtain ⟨hd0, hsubok⟩ := hdir d sub rfl
      obtain ⟨hsne, hsubAll, _, hsz⟩ := group_dir [] [] es hok (by intro x hx; cases hx) (fun h => absurd rfl h) d sub hit
      have hlen : 0 < sub.length := List.length_pos_iff.mpr hsne
      simp at hsz
      have hsubf : size sub < f + 1 := by omega
      have hsubH : Holds s (write H (f + 1) sub).writes :=
        fun p hp => hh p (sub_writes_mem H (f + 1) es d sub hit p hp)
      have hsubS : Small (write H (f + 1) sub).writes :=
        fun p hp => hs p (sub_writes_mem H (f + 1) es d sub hit p hp)
      have hrec := ih sub hsubAll hsubok hsubf hsubH hsubS
      obtain ⟨hroot, hid⟩ := root_write_mem H f sub
      refine ⟨by rw [show (toItem H (f + 1) (.dir d sub)).id = (write H (f + 1) sub).id from rfl, hid]; exact H.len20 _, hd0, ?_⟩
      simp only [toItem, if_true]
      -- resolve the sub-tree id through the store
      have hget : Store.get H s (write H (f + 1) sub).id = .ok (.tree, dataOf H f sub) := by
        have hsid := hsubH _ hroot
        have hsmall := hsubS _ hroot
        have hdlen : (dataOf H f sub).length ≤ Fmt.int64Max := by
          have h1 : (dataOf H f sub).length ≤ (Obj.encode .tree (dataOf H f sub)).length := by
            simp [Obj.encode]
          have h2 : (Obj.encode .tree (dataOf H f sub)).length ≤ Fmt.int64Max := hsmall
          omega
        unfold Store.get
        have hne : (write H (f + 1) sub).id ≠ [] := by
          rw [hid]; intro h0; have := H.len20 (Obj.encode .tree (dataOf H f sub)); rw [h0] at this; cases this
        simp only [hne, if_false, hsid, C01.decode_encode .tree _ (by decide) hdlen]
        simp [hid]
      simp only [subAt, hget, hrec]

end C05

namespace C05

open TreeBuild TreeCodec

/-- the store after the writer's objects have been written in order -/
def storeAfter (s : Store) (ws : List (Bytes × Bytes)) : Store := ws.foldl (fun st p => Store.putRaw st p.1 p.2) s

theorem storeAfter_other (s : Store) (ws : List (Bytes × Bytes)) (i : Bytes) (h : ∀ p ∈ ws, p.1 ≠ i) :
    storeAfter s ws i = s i := by
  induction ws generalizing s with
  | nil => rfl
  | cons w ws ih =>
    simp only [storeAfter, List.foldl_cons]
    have := ih (Store.putRaw s w.1 w.2) (fun p hp => h p (List.mem_cons_of_mem _ hp))
    simp only [storeAfter] at this
    rw [this]
    have hw := h w (List.mem_cons_self)
    simp [Store.putRaw, Ne.symm hw]

/-- if equal ids carry equal contents (no two *different* written contents collide), every written
    object is in the store afterwards, under its id, with its content -/
theorem holds_storeAfter (s : Store) (ws : List (Bytes × Bytes))
    (hfun : ∀ p ∈ ws, ∀ q ∈ ws, p.1 = q.1 → p.2 = q.2) : Holds (storeAfter s ws) ws := by
  induction ws generalizing s with
  | nil => intro p hp; cases hp
  | cons w ws ih =>
    intro p hp
    simp only [storeAfter, List.foldl_cons]
    have ihs := ih (Store.putRaw s w.1 w.2) (fun a ha b hb => hfun a (List.mem_cons_of_mem _ ha) b (List.mem_cons_of_mem _ hb))
    rcases List.mem_cons.mp hp with rfl | hp'
    · by_cases hlater : ∃ q ∈ ws, q.1 = p.1
      · obtain ⟨q, hq, hqp⟩ := hlater
        have := ihs q hq
        simp only [storeAfter] at this
        rw [hqp] at this
        rw [this, hfun q (List.mem_cons_of_mem _ hq) p (List.mem_cons_self) hqp]
      · have hno : ∀ q ∈ ws, q.1 ≠ p.1 := fun q hq e => hlater ⟨q, hq, e⟩
        have := storeAfter_other (Store.putRaw s p.1 p.2) ws p.1 hno
        simp only [storeAfter] at this
        rw [this]; simp [Store.putRaw]
    · have := ihs p hp'
      simpa [storeAfter] using this

/-- the writer's ids are the hashes of its contents, so collision freedom on the written contents
    gives the functional property `holds_storeAfter` needs -/
theorem writes_id_eq (H : HashFn) (f : Nat) (es : List Entry) : ∀ p ∈ (write H f es).writes, p.1 = H.sha p.2 := by
  induction f generalizing es with
  | zero => intro p hp; simp [write] at hp
  | succ f ih =>
    intro p hp
    rw [write_succ] at hp
    simp only [List.mem_append, List.mem_flatten, List.mem_map, List.mem_singleton] at hp
    rcases hp with ⟨l, ⟨pr, ⟨it, _, rfl⟩, rfl⟩, hpl⟩ | rfl
    · cases it with
      | leaf n i => simp [part] at hpl
      | dir d sub => exact ih sub p (by simpa [part] using hpl)
    · rfl

/-- **What Goit reads from a snapshot is what it wrote** (C02 `snapshot`, C05 `reset-readback`): after
    `writeTreeObject` has stored the trees of the staged entries `es`, `GetObject` of the root id yields a
    tree object whose `walkTree`, flattened by `getEntriesFromTree`, is exactly `es` — provided the
    contents written do not collide with each other under the hash (finite, explicit hypothesis). -/
theorem readback_writeTree (H : HashFn) (s : Store) (es : List Entry) (hok : AllOK es) (heok : EntriesOK es)
    (hcf : CollisionFreeOn H (fun b => ∃ p ∈ (writeTree H es).writes, p.2 = b))
    (hsmall : Small (writeTree H es).writes) :
    let s' := storeAfter s (writeTree H es).writes
    ∃ data, Store.get H s' (writeTree H es).id = .ok (.tree, data) ∧
      (walk H s' (fuelFor es) data).map flattenTree = some es := by
  intro s'
  have hfuel : fuelFor es = size es + 1 := by simp [fuelFor, size]
  have hh : Holds s' (write H (size es + 1) es).writes := by
    have : (writeTree H es).writes = (write H (size es + 1) es).writes := by simp [writeTree, hfuel]
    rw [← this]
    apply holds_storeAfter
    intro p hp q hq hid
    apply hcf p.2 q.2 ⟨p, hp, rfl⟩ ⟨q, hq, rfl⟩
    rw [← writes_id_eq H _ es p (by simpa [writeTree] using hp), ← writes_id_eq H _ es q (by simpa [writeTree] using hq), hid]
  have hs : Small (write H (size es + 1) es).writes := by
    have : (writeTree H es).writes = (write H (size es + 1) es).writes := by simp [writeTree, hfuel]
    rw [← this]; exact hsmall
  have hwalk := walk_write H s' (size es) es hok heok (by omega) hh hs
  obtain ⟨hroot, hid⟩ := root_write_mem H (size es) es
  refine ⟨dataOf H (size es) es, ?_, ?_⟩
  · have hsid := hh _ hroot
    have hdlen : (dataOf H (size es) es).length ≤ Fmt.int64Max := by
      have h1 : (dataOf H (size es) es).length ≤ (Obj.encode .tree (dataOf H (size es) es)).length := by simp [Obj.encode]
      have h2 : (Obj.encode .tree (dataOf H (size es) es)).length ≤ Fmt.int64Max := hs _ hroot
      omega
    have hidw : (writeTree H es).id = (write H (size es + 1) es).id := by simp [writeTree, hfuel]
    rw [hidw]
    unfold Store.get
    have hne : (write H (size es + 1) es).id ≠ [] := by
      rw [hid]; intro h0; have := H.len20 (Obj.encode .tree (dataOf H (size es) es)); rw [h0] at this; cases this
    simp only [hne, if_false, hsid, C01.decode_encode .tree _ (by decide) hdlen]
    simp [hid]
  · rw [hfuel, hwalk]
    simp only [Option.map_some]
    have := C02.flatten_writeTree H es hok
    rw [hfuel] at this
    rw [this]

end C05
