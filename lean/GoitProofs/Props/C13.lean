import GoitProofs.Props.C06
import GoitProofs.Props.C07

/-! # C13 — Working-tree report is exact and content-based

Theorems about `Cmds.status`, the Lean model of `cmd/status.go`; the model is compared with the real
`goit status` on every observed transition of the generated histories (command-level correspondence). -/

namespace C13

open Cmds

variable (H : HashFn)

/-- on a canonical staging area `status` always produces a report (it cannot fail or crash in the lookups) -/
theorem status_ok (w : WS) (hs : C06.Canonical w.index) : ∃ st, status H w = .ok st := by
  unfold status
  simp only [C07.diff_fromTree w.index hs]
  exact ⟨_, rfl⟩

/-- **`modified` = exactly the tracked files on disk whose bytes hash to a different blob id.** -/
theorem modified_iff (w : WS) (st : Status) (h : status H w = .ok st) (p : Bytes) :
    p ∈ st.modified ↔ ∃ e ∈ w.index, e.path = p ∧ ∃ data, fileAt w p = some data ∧ Obj.id H .blob data ≠ e.id := by
  unfold status at h
  simp only at h
  split at h
  · cases h
  · cases h
  · cases h
    simp only [List.mem_map, List.mem_filter]
    constructor
    · rintro ⟨e, ⟨he, hc⟩, rfl⟩
      cases hf : fileAt w e.path with
      | none => simp [hf] at hc
      | some data =>
        simp only [hf, bne_iff_ne, ne_eq] at hc
        exact ⟨e, he, rfl, data, rfl, hc⟩
    · rintro ⟨e, he, rfl, data, hf, hne⟩
      exact ⟨e, ⟨he, by simp [hf, hne]⟩, rfl⟩

/-- **A file whose bytes equal its staged blob is never reported** — rewriting it with identical bytes
    or touching it changes neither bytes nor id (time stamps are not even an input of the model). -/
theorem same_bytes_not_modified (w : WS) (st : Status) (h : status H w = .ok st) (hs : C06.Canonical w.index)
    (e : Entry) (he : e ∈ w.index) (data : Bytes) (hf : fileAt w e.path = some data) (hid : e.id = Obj.id H .blob data) :
    e.path ∉ st.modified := by
  intro hm
  obtain ⟨e', he', hp, data', hf', hne⟩ := (modified_iff H w st h e.path).mp hm
  -- paths are unique in a canonical index
  have : e' = e := by
    obtain ⟨i, hi, hei⟩ := List.getElem_of_mem he
    obtain ⟨j, hj, hej⟩ := List.getElem_of_mem he'
    have hij : i = j := by
      rcases Nat.lt_trichotomy i j with hlt | heq | hgt
      · have := sorted_get_lt hs hlt (by simpa [IndexOps.paths] using hj)
        simp only [IndexOps.paths, List.getElem_map] at this
        rw [hei, hej, hp] at this; exact absurd this (List.lt_irrefl _)
      · exact heq
      · have := sorted_get_lt hs hgt (by simpa [IndexOps.paths] using hi)
        simp only [IndexOps.paths, List.getElem_map] at this
        rw [hei, hej, hp] at this; exact absurd this (List.lt_irrefl _)
    subst hij
    rw [← hei, ← hej]
  subst this
  rw [hf] at hf'
  cases hf'
  exact hne hid.symm

/-- **`deleted` = exactly the tracked paths with nothing at that path** (neither a file nor a directory;
    a path below a regular file counts as missing). -/
theorem deleted_iff (w : WS) (st : Status) (h : status H w = .ok st) (p : Bytes) :
    p ∈ st.deleted ↔ ∃ e ∈ w.index, e.path = p ∧ existsOnDisk w p = false := by
  unfold status at h
  simp only at h
  split at h
  · cases h
  · cases h
  · cases h
    simp only [List.mem_map, List.mem_filter, Bool.not_eq_eq_eq_not, Bool.not_true]
    constructor
    · rintro ⟨e, ⟨he, hc⟩, rfl⟩; exact ⟨e, he, rfl, hc⟩
    · rintro ⟨e, he, rfl, hc⟩; exact ⟨e, ⟨he, hc⟩, rfl⟩

/-- **`untracked` = exactly the files on disk that are not tracked and that the ignore-filtered walk
    reaches** (no parent directory and not the file itself is ignored; Goit's own directory is not
    among `files` at all). -/
theorem untracked_iff (w : WS) (st : Status) (h : status H w = .ok st) (p : Bytes) :
    p ∈ st.untracked ↔ (∃ f ∈ w.files, f.1 = p) ∧ IndexOps.found w.index p = false ∧
      ignored w p = false ∧ ∀ d ∈ dirPrefixes p, ignored w d = false := by
  unfold status at h
  simp only at h
  split at h
  · cases h
  · cases h
  · cases h
    simp only [walkIgn, List.mem_filter, List.mem_map, Bool.and_eq_true, List.all_eq_true, Bool.not_eq_eq_eq_not, Bool.not_true]
    constructor
    · rintro ⟨⟨f, ⟨hf, hd, hi⟩, rfl⟩, hnf⟩
      exact ⟨⟨f, hf, rfl⟩, hnf, hi, hd⟩
    · rintro ⟨⟨f, hf, rfl⟩, hnf, hi, hd⟩
      exact ⟨⟨f, ⟨hf, hd, hi⟩, rfl⟩, hnf⟩

end C13
