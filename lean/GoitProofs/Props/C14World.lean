import GoitProofs.Props.C08World
set_option linter.unusedSimpArgs false
set_option linter.unusedVariables false

/-! C14 on the whole-repository model: in every state a history reaches (`W.Fsck`) the history walk of `log` **never fails** —
    every id it dequeues is a stored commit that reads back, because every parent of a stored commit is one (`W.K.parents`) — it
    lists stored commits only, starts with HEAD's commit, and lists at most `n` of them. -/

namespace W

theorem commitAt_get (H : HashFn) (w : World) (id : Bytes) (h : (commitAt H w id).isSome = true) :
    ∃ d c, Store.get H (store w) id = .ok (.commit, d) ∧ Commit.parse d = some c ∧ commitAt H w id = some c := by
  cases hc : commitAt H w id with
  | none => rw [hc] at h; cases h
  | some c =>
    obtain ⟨d, hg, hp⟩ := commitAt_some_get H w id c hc
    exact ⟨d, c, hg, hp, rfl⟩

/-- the walk over a store in which parents of stored commits are stored commits -/
theorem walk_total (H : HashFn) (w : World)
    (hpar : ∀ id c, commitAt H w id = some c → ∀ p ∈ c.parents, (commitAt H w p).isSome = true)
    (k : Nat) (queue visited : List Bytes) (hq : ∀ id ∈ queue, (commitAt H w id).isSome = true) :
    ∃ r, History.walk H (store w) k queue visited = .ok r ∧ r.length ≤ k ∧
      ∀ x ∈ r, commitAt H w x.1 = some x.2 := by
  induction k generalizing queue visited with
  | zero => exact ⟨[], by simp [History.walk], by simp, fun x hx => by cases hx⟩
  | succ k ih =>
    cases queue with
    | nil => exact ⟨[], by simp [History.walk], by simp, fun x hx => by cases hx⟩
    | cons cur queue =>
      unfold History.walk
      by_cases hv : visited.contains cur = true
      · rw [if_pos hv]
        obtain ⟨r, hr, hl, hall⟩ := ih queue visited (fun id hid => hq id (List.mem_cons_of_mem _ hid))
        exact ⟨r, hr, by omega, hall⟩
      · rw [if_neg hv]
        obtain ⟨d, c, hg, hp, hc⟩ := commitAt_get H w cur (hq cur List.mem_cons_self)
        simp only [hg, ne_eq, not_true_eq_false, if_false, hp]
        obtain ⟨r, hr, hl, hall⟩ := ih (queue ++ c.parents) (cur :: visited) (by
          intro id hid
          rcases List.mem_append.mp hid with h1 | h1
          · exact hq id (List.mem_cons_of_mem _ h1)
          · exact hpar cur c hc id h1)
        rw [hr]
        refine ⟨(cur, c) :: r, rfl, by simp; omega, ?_⟩
        intro x hx
        rcases List.mem_cons.mp hx with rfl | hx
        · exact hc
        · exact hall x hx

end W

namespace C14

/-- **`log` never fails in a state a history reaches, lists stored commits only, at most `n` of them, HEAD's commit first**
    (whole-repository model): `W.K.parents` is exactly what the walk needs. With `C03.world_fsck`, this holds after every history
    from the empty directory. -/
theorem world_log_total (H : HashFn) (w : W.World) (hk : W.K H w) (head : Bytes) (hh : (W.commitAt H w head).isSome = true) (n : Int) :
    ∃ r, History.log H (W.store w) head n = .ok r ∧ r.length ≤ n.toNat ∧
      (∀ x ∈ r, W.commitAt H w x.1 = some x.2) ∧ (0 < n → ∃ c rest, r = (head, c) :: rest) := by
  unfold History.log
  obtain ⟨r, hr, hl, hall⟩ := W.walk_total H w hk.parents n.toNat [head] [] (fun id hid => by simp at hid; rw [hid]; exact hh)
  refine ⟨r, hr, hl, hall, ?_⟩
  intro hn
  obtain ⟨m, hm⟩ : ∃ m, n.toNat = m + 1 := ⟨n.toNat - 1, by omega⟩
  rw [hm] at hr
  unfold History.walk at hr
  obtain ⟨d, c, hg, hp, hc⟩ := W.commitAt_get H w head hh
  simp only [List.contains_nil, Bool.false_eq_true, if_false, hg, ne_eq, not_true_eq_false, hp] at hr
  split at hr
  · rename_i rest _
    injection hr with hr
    exact ⟨c, rest, hr.symm⟩
  · rename_i r' hne
    obtain ⟨r2, hr2, _, _⟩ := W.walk_total H w hk.parents m ([] ++ c.parents) [head] (by
      intro id hid; exact hk.parents head c hc id (by simpa using hid))
    exact absurd hr2 (by intro h; exact hne r2 h)

end C14

namespace C14

/-- **`log -n k` succeeds and changes nothing in every state a history reaches** in which HEAD's branch has a commit
    (whole-repository model) -/
theorem world_log_ok (H : HashFn) (w : W.World) (n : Int) (tz : Int) (ts : List Int) (l : W.Loaded) (id : Bytes) (c : Commit)
    (hinit : w.inited = true) (hl : W.load H w = some l) (hk : W.K H w) (hh : l.headCommit = some (id, c)) :
    (W.run H w ⟨.log n, tz, ts⟩).1 = w ∧ (W.run H w ⟨.log n, tz, ts⟩).2 = .ok none := by
  obtain ⟨hca, raw, hraw, _⟩ := W.load_headCommit H w l hl id c hh
  have hne : w.heads.isEmpty = false := by
    cases hw : w.heads with
    | nil => rw [hw] at hraw; simp [W.aget] at hraw
    | cons x xs => rfl
  obtain ⟨r, hr, _⟩ := world_log_total H w hk id (by rw [hca]; rfl) n
  unfold W.run
  simp only [hinit, Bool.not_true, Bool.false_eq_true, if_false, W.pathArgs, List.all_nil, hl, hh, Option.map_some, Option.getD_some,
    Cmds.logCmd, hne, hr, Res.map, Option.isNone_some]
  exact ⟨trivial, by simp⟩

end C14
