import GoitProofs.Props.C10Faith
set_option linter.unusedSimpArgs false
set_option linter.unusedVariables false

/-! C17 (`never-overwrites-own-files`) on the whole-repository model: the blob writer behind `reset --hard` and `restore` never
    writes a path inside Goit's own directory — whatever the outcome of the command — because the lists it is given (a stored
    commit's snapshot, the staging area) hold no such path (`W.J`). -/

namespace W

open C04 C05 C06 C17 TreeBuild TreeCodec

/-- whatever its outcome, the blob writer touches only the paths of the entries it was given -/
theorem writeEntries_frame (H : HashFn) (w : World) (es : List Entry) (p : Bytes) (hp : ∀ e ∈ es, e.path ≠ p) :
    aget (writeEntries H w es).2.2.files p = aget w.files p := by
  induction es generalizing w with
  | nil => rfl
  | cons e rest ih =>
    unfold writeEntries
    split
    · split
      · rw [ih _ (fun x hx => hp x (List.mem_cons_of_mem _ hx))]
        exact aget_aset_ne _ _ _ _ (fun h => hp e List.mem_cons_self h.symm)
      · rfl
    · rfl

theorem restoreWorkP_frame (H : HashFn) (idx : List Entry) (w : World) (args : List Bytes) (p : Bytes) (hp : ∀ e ∈ idx, e.path ≠ p) :
    aget (restoreWorkP H idx w args).1.files p = aget w.files p := by
  induction args generalizing w with
  | nil => rfl
  | cons a rest ih =>
    unfold restoreWorkP
    dsimp only
    split
    · rfl
    · have hsel : ∀ e ∈ sel idx (Cmds.cleanPath a), e.path ≠ p := fun e he => hp e (sel_sub idx _ e he)
      have hfr := writeEntries_frame H w (sel idx (Cmds.cleanPath a)) p hsel
      have hsel' : (if IndexOps.isDir idx (Cmds.cleanPath a) = true then IndexOps.byDir idx (Cmds.cleanPath a)
          else List.filter (fun e => e.path == Cmds.cleanPath a) idx) = sel idx (Cmds.cleanPath a) := rfl
      rw [hsel']
      cases hwe : writeEntries H w (sel idx (Cmds.cleanPath a)) with
      | mk b1 r =>
        obtain ⟨b2, w1⟩ := r
        rw [hwe] at hfr
        cases b1 with
        | true => simp only; rw [ih w1]; exact hfr
        | false => cases b2 <;> (simp only; exact hfr)

end W

namespace C17

/-- **`restore` never writes inside Goit's own directory**, whatever its outcome (whole-repository model): a file at a path in
    `.goit` keeps its bytes, because the staging area names no such path (`W.J`, every history) -/
theorem world_restore_never_writes_meta (H : HashFn) (w : W.World) (l : W.Loaded) (args : List Bytes) (p : Bytes)
    (hl : W.load H w = some l) (hj : W.J H w) (hm : IsMeta p) :
    W.aget (W.restoreCmd H w l false args).1.files p = W.aget w.files p := by
  have hno : ∀ e ∈ l.idx, e.path ≠ p := fun e he hep =>
    ((W.goodE_facts l.idx (W.loaded_idx_goodE H w l hl hj.1)).2.1 e he) (hep ▸ hm)
  unfold W.restoreCmd
  by_cases he : args.isEmpty = true
  · rw [if_pos he]
  · rw [if_neg he]
    simp only [Bool.not_false, if_true]
    exact W.restoreWorkP_frame H l.idx w args p hno

/-- **`reset` (any mode, any outcome) never writes inside Goit's own directory**: the snapshot of every stored commit is free of
    such paths (`W.J`) -/
theorem world_reset_never_writes_meta (H : HashFn) (w : W.World) (l : W.Loaded) (s h : Bool) (arg t prev : Bytes) (tz : Int) (ts : List Int)
    (p : Bytes) (hj : W.J H w) (hm : IsMeta p) :
    W.aget (W.resetTo H w l s h arg t prev tz ts).1.files p = W.aget w.files p := by
  have hr := (W.readsGoodE H w hj.2).1
  unfold W.resetTo
  cases hc : W.commitAt H w t with
  | none => rfl
  | some c =>
    dsimp only
    cases s with
    | true => simp only [if_true]; rfl
    | false =>
      simp only [Bool.false_eq_true, if_false]
      cases hre : Cmds.resetEntries H (W.store (W.appendLogBranch (W.appendLogHead { w with heads := W.aset w.heads l.ref (hashStr t) }
          (W.recLine l .reset (some prev) (some t) (W.clock ts 0) tz (asc "moving to " ++ arg))) l.ref
          (W.recLine l .reset (some prev) (some t) (W.clock ts 0) tz (asc "moving to " ++ arg)))) W.treeDepth t with
      | err => rfl
      | crash => rfl
      | ok es =>
        have hes : W.GoodE es := hr t es hre
        have hno : ∀ e ∈ es, e.path ≠ p := fun e he hep => ((W.goodE_facts es hes).2.1 e he) (hep ▸ hm)
        dsimp only
        cases h with
        | false => simp only [Bool.not_false, if_true]; rfl
        | true =>
          simp only [Bool.not_true, Bool.false_eq_true, if_false]
          rw [W.writeEntries_frame H _ es p hno]; rfl

end C17
