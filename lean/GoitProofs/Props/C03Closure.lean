import GoitProofs.Props.C06Full
set_option linter.unusedSimpArgs false
set_option linter.unusedVariables false

/-! C03, the content side (`closure`), as an invariant of every history of the whole-repository model:
    every staged path refers to a stored blob; every stored commit's snapshot reads back whole and every entry of it
    refers to a stored blob (the sub-trees on the way are stored trees, or the read would not succeed); every parent of
    a stored commit is a stored commit.  Together with `C03.world_connected` (HEAD, branches, names) and
    `C03.world_objects_monotone` this is the whole statement of C03 on the model.

    As in `C06Full`, the hypotheses are about the inputs of the individual steps only (`StepOK`, `StepOK3`): in
    addition to sizes, the blobs `add` stores do not collide with stored objects of other content or with each other, and
    the new commit object's `parent` lines read back as HEAD's commit. -/

namespace W

open C04 C05 C06 C17 TreeBuild TreeCodec

/-- `id` names a stored blob (content = the encoding of a blob whose hash is `id`) -/
def BlobAt (H : HashFn) (w : World) (id : Bytes) : Prop :=
  ∃ d, aget w.objs id = some (Obj.encode .blob d) ∧ d.length ≤ Fmt.int64Max ∧ id = Obj.id H .blob d

theorem blobAt_mono {H : HashFn} {w w' : World} (ho : OL w.objs w'.objs) {id : Bytes} (h : BlobAt H w id) : BlobAt H w' id :=
  let ⟨d, h1, h2, h3⟩ := h
  ⟨d, ho id _ h1, h2, h3⟩

/-- … of the matching kind: Goit's own object reader returns a blob for it -/
theorem blobAt_get (H : HashFn) (w : World) (id : Bytes) (h : BlobAt H w id) : ∃ d, Store.get H (store w) id = .ok (.blob, d) := by
  obtain ⟨d, h1, h2, h3⟩ := h
  refine ⟨d, ?_⟩
  have hne : id ≠ [] := by
    intro h0
    have := H.len20 (Obj.encode .blob d)
    rw [h3] at h0; unfold Obj.id at h0; rw [h0] at this; simp at this
  unfold Store.get store
  simp only [hne, if_false, h1, C01.decode_encode .blob d (by decide) h2]
  have : H.sha (Obj.encode .blob d) = id := by rw [h3]; rfl
  simp [this]

def AllBlobs (H : HashFn) (w : World) (es : List Entry) : Prop := ∀ e ∈ es, BlobAt H w e.id

theorem allBlobs_mono {H : HashFn} {w w' : World} (ho : OL w.objs w'.objs) {es : List Entry} (h : AllBlobs H w es) : AllBlobs H w' es :=
  fun e he => blobAt_mono ho (h e he)

/-- the content side of connectivity -/
structure K (H : HashFn) (w : World) : Prop where
  index : ∀ es, w.index = some es → AllBlobs H w es
  snaps : ∀ id c t es, commitAt H w id = some c → c.tree = some t → treeEntries H w t = some es → AllBlobs H w es
  parents : ∀ id c, commitAt H w id = some c → ∀ p ∈ c.parents, (commitAt H w p).isSome = true
  hasTree : ∀ id c, commitAt H w id = some c → c.tree.isSome = true

/-- the object store grows, no commit is new: the commit side of `K` carries over -/
theorem K_grow (H : HashFn) (w w' : World) (hs : SnapsGood H w) (ho : OL w.objs w'.objs)
    (hnc : ∀ id c, commitAt H w' id = some c → commitAt H w id = some c)
    (hidx : ∀ es, w'.index = some es → AllBlobs H w' es) (hk : K H w) : K H w' := by
  refine ⟨hidx, ?_, ?_, fun id c hc => hk.hasTree id c (hnc id c hc)⟩
  · intro id c t es hc ht hte
    have hc0 := hnc id c hc
    obtain ⟨es0, he0, _⟩ := hs id c t hc0 ht
    have := treeEntries_mono H w w' ho t es0 he0
    rw [hte] at this; injection this with this; subst this
    exact allBlobs_mono ho (hk.snaps id c t _ hc0 ht he0)
  · intro id c hc p hp
    exact commitAt_mono H w w' ho p (hk.parents id c (hnc id c hc) p hp)

theorem K_objs_eq (H : HashFn) (w w' : World) (hs : SnapsGood H w) (h : w'.objs = w.objs)
    (hidx : ∀ es, w'.index = some es → AllBlobs H w' es) (hk : K H w) : K H w' :=
  K_grow H w w' hs (by rw [h]; exact OL.refl _) (fun id c hc => by rw [commitAt_congr H w w' id (by rw [h])] at hc; exact hc) hidx hk

theorem allBlobs_objs_eq (H : HashFn) (w w' : World) (h : w'.objs = w.objs) {es : List Entry} (ha : AllBlobs H w es) : AllBlobs H w' es :=
  allBlobs_mono (by rw [h]; exact OL.refl _) ha

/-- storing an object that is not a commit makes no commit readable that was not -/
theorem commitAt_putObj_noncommit (H : HashFn) (w : World) (k : Kind) (d : Bytes) (hk : k ≠ .commit) (hk' : k ≠ .undefined)
    (hd : d.length ≤ Fmt.int64Max) (id : Bytes) (c : Commit)
    (hc : commitAt H (putObj w (Obj.id H k d) (Obj.encode k d)) id = some c) : commitAt H w id = some c := by
  cases hex : aget w.objs id with
  | some x =>
    have hsame : aget (putObj w (Obj.id H k d) (Obj.encode k d)).objs id = aget w.objs id := by
      rw [hex]; exact putObj_le w _ _ id x hex
    rw [commitAt_congr H w _ id hsame] at hc
    exact hc
  | none =>
    exfalso
    obtain ⟨d', hget, _⟩ := commitAt_some_get H _ id c hc
    by_cases hid : id = Obj.id H k d
    · subst hid
      have hget' : aget (putObj w (Obj.id H k d) (Obj.encode k d)).objs (Obj.id H k d) = some (Obj.encode k d) :=
        aget_putObj_self w _ _ (fun c0 hc0 => by rw [hex] at hc0; cases hc0)
      have := get_of_aget H _ _ _ _ hget' hget
      rw [C01.decode_encode k d hk' hd] at this
      injection this with this
      injection this with h1 _
      exact hk h1
    · have : aget (putObj w (Obj.id H k d) (Obj.encode k d)).objs id = none := by
        rw [aget_putObj_other w _ _ id hid]; exact hex
      exact get_none H _ id _ this hget

theorem commitAt_putObjs_trees (H : HashFn) (w : World) (os : List (Bytes × Bytes))
    (ht : ∀ p ∈ os, ∃ d, p = (Obj.id H .tree d, Obj.encode .tree d)) (hsm : Small os) (id : Bytes) (c : Commit)
    (hc : commitAt H (putObjs w os) id = some c) : commitAt H w id = some c := by
  unfold putObjs at hc
  induction os generalizing w with
  | nil => exact hc
  | cons o os ih =>
    simp only [List.foldl_cons] at hc
    have h1 := ih _ (fun p hp => ht p (List.mem_cons_of_mem _ hp)) (fun p hp => hsm p (List.mem_cons_of_mem _ hp)) hc
    obtain ⟨d, rfl⟩ := ht o List.mem_cons_self
    have hd : d.length ≤ Fmt.int64Max := by
      have := hsm _ List.mem_cons_self
      have h1 : d.length ≤ (Obj.encode .tree d).length := by simp [Obj.encode]
      simp only at this; omega
    exact commitAt_putObj_noncommit H w .tree d (by decide) (by decide) hd id c h1

theorem commitAt_putBlobs (H : HashFn) (w : World) (ds : List Bytes) (hsm : ∀ d ∈ ds, d.length ≤ Fmt.int64Max) (id : Bytes) (c : Commit)
    (hc : commitAt H (ds.foldl (putBlob H) w) id = some c) : commitAt H w id = some c := by
  induction ds generalizing w with
  | nil => exact hc
  | cons d ds ih =>
    simp only [List.foldl_cons] at hc
    exact commitAt_putObj_noncommit H w .blob d (by decide) (by decide) (hsm d List.mem_cons_self) id c
      (ih _ (fun x hx => hsm x (List.mem_cons_of_mem _ hx)) hc)

/-! ### `add`: every entry it stages names a blob it stored -/

/-- the blobs do not collide with stored objects of other content, nor with each other -/
def BlobsFit (H : HashFn) (w : World) (ds : List Bytes) : Prop :=
  (∀ d ∈ ds, ∀ c, aget w.objs (Obj.id H .blob d) = some c → c = Obj.encode .blob d) ∧
  (∀ d ∈ ds, ∀ d' ∈ ds, Obj.id H .blob d = Obj.id H .blob d' → d = d')

theorem putBlobs_blobAt (H : HashFn) (w : World) (ds : List Bytes) (hfit : BlobsFit H w ds) (hsz : ∀ d ∈ ds, d.length ≤ Fmt.int64Max) :
    ∀ d ∈ ds, BlobAt H (ds.foldl (putBlob H) w) (Obj.id H .blob d) := by
  induction ds generalizing w with
  | nil => intro d hd; cases hd
  | cons d0 ds ih =>
    have hself : aget (putBlob H w d0).objs (Obj.id H .blob d0) = some (Obj.encode .blob d0) :=
      aget_putObj_self w _ _ (fun c0 hc0 => hfit.1 d0 List.mem_cons_self c0 hc0)
    have hfit1 : BlobsFit H (putBlob H w d0) ds := by
      refine ⟨?_, fun d hd d' hd' => hfit.2 d (List.mem_cons_of_mem _ hd) d' (List.mem_cons_of_mem _ hd')⟩
      intro d hd c hc
      by_cases hid : Obj.id H .blob d = Obj.id H .blob d0
      · have : d = d0 := hfit.2 d (List.mem_cons_of_mem _ hd) d0 List.mem_cons_self hid
        subst this
        rw [hself] at hc; injection hc with hc; exact hc.symm
      · have : aget (putBlob H w d0).objs (Obj.id H .blob d) = aget w.objs (Obj.id H .blob d) := aget_putObj_other w _ _ _ hid
        rw [this] at hc
        exact hfit.1 d (List.mem_cons_of_mem _ hd) c hc
    intro d hd
    simp only [List.foldl_cons]
    rcases List.mem_cons.mp hd with rfl | hd
    · exact blobAt_mono (putBlobs_le H _ ds) ⟨d, hself, hsz d List.mem_cons_self, rfl⟩
    · exact ih _ hfit1 (fun x hx => hsz x (List.mem_cons_of_mem _ hx)) d hd

/-- an entry is an old one (`Q`) or names one of the blobs handed over so far -/
def Tr (H : HashFn) (Q : Entry → Prop) (bs : List Bytes) (e : Entry) : Prop := Q e ∨ ∃ d ∈ bs, e.id = Obj.id H .blob d

theorem goodp_weaken {P P' : Entry → Prop} (h : ∀ e, P e → P' e) {es : List Entry} (hg : GoodP P es) : GoodP P' es :=
  ⟨hg.canon, fun e he => h e (hg.all e he)⟩

theorem tr_mono {H : HashFn} {Q : Entry → Prop} {bs bs' : List Bytes} (h : ∀ d ∈ bs, d ∈ bs') (e : Entry) (ht : Tr H Q bs e) : Tr H Q bs' e := by
  rcases ht with h1 | ⟨d, hd, he⟩
  · exact Or.inl h1
  · exact Or.inr ⟨d, h d hd, he⟩

theorem addArgsP_track (H : HashFn) (Q : Entry → Prop) (w : Cmds.WS) (args : List Bytes) (idx : List Entry) (bs : List Bytes)
    (hg : GoodP (Tr H Q bs) idx) : GoodP (Tr H Q (addArgsP H w args idx bs).blobs) (addArgsP H w args idx bs).idx := by
  induction args generalizing idx bs with
  | nil => exact hg
  | cons a rest ih =>
    unfold addArgsP
    dsimp only
    split
    · exact ih _ _ hg
    · split
      · cases hd : IndexOps.delete idx (Cmds.cleanPath a) with
        | ok i => exact ih _ _ (goodp_delete idx hg _ i hd)
        | err => exact hg
        | crash => exact hg
      · split
        · cases hf : (List.filter (fun f => !Cmds.ignored { w with index := idx } f.1) (Cmds.filesUnder w (Cmds.cleanPath a))).foldl
              (fun (acc : Res (List Entry)) f => acc.bind fun i => Cmds.addOne H i f.1 f.2) (Res.ok idx) with
          | ok i =>
            refine ih _ _ (goodp_addFold H _ ?_ idx (goodp_weaken (tr_mono (fun d hd => List.mem_append_left _ hd)) hg) i hf)
            intro f hfm
            exact Or.inr ⟨f.2, List.mem_append_right _ (List.mem_map.mpr ⟨f, hfm, rfl⟩), rfl⟩
          | err => exact hg
          | crash => exact hg
        · cases hfa : Cmds.fileAt w (Cmds.cleanPath a) with
          | none => exact hg
          | some data =>
            dsimp only
            cases ho : Cmds.addOne H idx (Cmds.cleanPath a) data with
            | ok i =>
              exact ih _ _ (goodp_addOne H idx (goodp_weaken (tr_mono (fun d hd => List.mem_append_left _ hd)) hg) _ data
                (Or.inr ⟨data, List.mem_append_right _ (List.mem_singleton.mpr rfl), rfl⟩) i ho)
            | err => exact hg
            | crash => exact hg

/-! ### what `reset` and `restore --staged` read -/

theorem readsK (H : HashFn) (w : World) (hk : K H w) :
    (∀ t es, Cmds.resetEntries H (store w) treeDepth t = .ok es → AllBlobs H w es) ∧
    (∀ l es, load H w = some l → headSnap H w l = .ok es → AllBlobs H w es) := by
  constructor
  · intro t es h
    obtain ⟨c, tr, hc, hct, hte⟩ := resetEntries_snap H w t es h
    exact hk.snaps t c tr es hc hct hte
  · intro l es hl h
    unfold headSnap at h
    cases hhc : l.headCommit with
    | none => simp [hhc] at h
    | some ic =>
      obtain ⟨id, c⟩ := ic
      simp only [hhc] at h
      cases hct : c.tree with
      | none => simp [hct] at h
      | some t =>
        simp only [hct] at h
        cases hte : treeEntries H w t with
        | none => simp [hte, Res.ofOption] at h
        | some es' =>
          simp [hte, Res.ofOption] at h
          subst h
          exact hk.snaps id c t _ (load_headCommit H w l hl id c hhc).1 hct hte

theorem loaded_idx_eq (H : HashFn) (w : World) (l : Loaded) (hl : load H w = some l) : l.idx = w.index.getD [] := by
  unfold load at hl
  split at hl
  · injection hl with hl; subst hl; rfl
  · contradiction

theorem loaded_idx_blobs (H : HashFn) (w : World) (l : Loaded) (hl : load H w = some l) (hk : K H w) : AllBlobs H w l.idx := by
  rw [loaded_idx_eq H w l hl]
  cases hi : w.index with
  | none => intro e he; cases he
  | some es => exact hk.index es hi

/-! ### `commit` -/

theorem K_commit (H : HashFn) (w : World) (idx : List Entry) (id data : Bytes) (hid : id = Obj.id H .commit data)
    (hg : GoodE idx) (hsm : Small (writeTree H idx).writes) (hok : CommitOK H w idx id data) (hs : SnapsGood H w) (hk : K H w)
    (hib : AllBlobs H w idx)
    (hpar : ∀ c, Commit.parse data = some c → ∀ p ∈ c.parents, (commitAt H w p).isSome = true) :
    K H (putObj (putObjs w (writeTree H idx).writes.reverse) id (Obj.encode .commit data)) := by
  obtain ⟨_, _, hall, heok⟩ := goodE_facts idx hg
  have htrees : ∀ p ∈ (writeTree H idx).writes.reverse, ∃ d, p = (Obj.id H .tree d, Obj.encode .tree d) :=
    fun p hp => writes_are_trees H _ idx p (by simpa [writeTree] using List.mem_reverse.mp hp)
  have hsmr : Small (writeTree H idx).writes.reverse := fun p hp => hsm p (List.mem_reverse.mp hp)
  have hs0 : SnapsGood H (putObjs w (writeTree H idx).writes.reverse) := snapsGood_putObjs_trees H w _ htrees hsmr hs
  have hk0 : K H (putObjs w (writeTree H idx).writes.reverse) :=
    K_grow H w _ hs (putObjs_le w _) (fun i c hc => commitAt_putObjs_trees H w _ htrees hsmr i c hc)
      (fun es he => by rw [putObjs_index'] at he; exact allBlobs_mono (putObjs_le w _) (hk.index es he)) hk
  have hrb := treeEntries_after_write H w idx hall heok hok.fit hsm hok.fuel
  have hle1 : OL (putObjs w (writeTree H idx).writes.reverse).objs
      (putObj (putObjs w (writeTree H idx).writes.reverse) id (Obj.encode .commit data)).objs := putObj_le _ _ _
  have hle : OL w.objs (putObj (putObjs w (writeTree H idx).writes.reverse) id (Obj.encode .commit data)).objs :=
    OL.trans (putObjs_le w _) hle1
  refine ⟨?_, ?_, ?_, ?_⟩
  · intro es he
    rw [putObj_index', putObjs_index'] at he
    exact allBlobs_mono hle (hk.index es he)
  · intro i c t es hc ht hte
    cases hex : aget (putObjs w (writeTree H idx).writes.reverse).objs i with
    | some x =>
      have hsame : aget (putObj (putObjs w (writeTree H idx).writes.reverse) id (Obj.encode .commit data)).objs i =
          aget (putObjs w (writeTree H idx).writes.reverse).objs i := by
        rw [hex]; exact putObj_le _ _ _ i x hex
      rw [commitAt_congr H _ _ i hsame] at hc
      obtain ⟨es0, he0, _⟩ := hs0 i c t hc ht
      have := treeEntries_mono H _ _ hle1 t es0 he0
      rw [hte] at this; injection this with this; subst this
      exact allBlobs_mono hle1 (hk0.snaps i c t _ hc ht he0)
    | none =>
      obtain ⟨d', hget, hparse⟩ := commitAt_some_get H _ i c hc
      by_cases hi : i = id
      · subst hi
        have hget' : aget (putObj (putObjs w (writeTree H idx).writes.reverse) i (Obj.encode .commit data)).objs i = some (Obj.encode .commit data) :=
          aget_putObj_self _ _ _ (fun c0 hc0 => by rw [hex] at hc0; cases hc0)
        have hdec := get_of_aget H _ _ _ _ hget' hget
        rw [C01.decode_encode .commit data (by decide) hok.size] at hdec
        injection hdec with hdec
        injection hdec with _ h2
        subst h2
        have := hok.treeLine c hparse
        rw [ht] at this
        injection this with this
        subst this
        have := treeEntries_mono H _ _ hle1 _ idx hrb
        rw [hte] at this; injection this with this; subst this
        exact allBlobs_mono hle hib
      · exfalso
        have : aget (putObj (putObjs w (writeTree H idx).writes.reverse) id (Obj.encode .commit data)).objs i = none := by
          rw [aget_putObj_other _ _ _ i hi]; exact hex
        exact get_none H _ i _ this hget
  · intro i c hc p hp
    cases hex : aget (putObjs w (writeTree H idx).writes.reverse).objs i with
    | some x =>
      have hsame : aget (putObj (putObjs w (writeTree H idx).writes.reverse) id (Obj.encode .commit data)).objs i =
          aget (putObjs w (writeTree H idx).writes.reverse).objs i := by
        rw [hex]; exact putObj_le _ _ _ i x hex
      rw [commitAt_congr H _ _ i hsame] at hc
      exact commitAt_mono H _ _ hle1 p (hk0.parents i c hc p hp)
    | none =>
      obtain ⟨d', hget, hparse⟩ := commitAt_some_get H _ i c hc
      by_cases hi : i = id
      · subst hi
        have hget' : aget (putObj (putObjs w (writeTree H idx).writes.reverse) i (Obj.encode .commit data)).objs i = some (Obj.encode .commit data) :=
          aget_putObj_self _ _ _ (fun c0 hc0 => by rw [hex] at hc0; cases hc0)
        have hdec := get_of_aget H _ _ _ _ hget' hget
        rw [C01.decode_encode .commit data (by decide) hok.size] at hdec
        injection hdec with hdec
        injection hdec with _ h2
        subst h2
        exact commitAt_mono H _ _ hle p (hpar c hparse p hp)
      · exfalso
        have : aget (putObj (putObjs w (writeTree H idx).writes.reverse) id (Obj.encode .commit data)).objs i = none := by
          rw [aget_putObj_other _ _ _ i hi]; exact hex
        exact get_none H _ i _ this hget
  · intro i c hc
    cases hex : aget (putObjs w (writeTree H idx).writes.reverse).objs i with
    | some x =>
      have hsame : aget (putObj (putObjs w (writeTree H idx).writes.reverse) id (Obj.encode .commit data)).objs i =
          aget (putObjs w (writeTree H idx).writes.reverse).objs i := by
        rw [hex]; exact putObj_le _ _ _ i x hex
      rw [commitAt_congr H _ _ i hsame] at hc
      exact hk0.hasTree i c hc
    | none =>
      obtain ⟨d', hget, hparse⟩ := commitAt_some_get H _ i c hc
      by_cases hi : i = id
      · subst hi
        have hget' : aget (putObj (putObjs w (writeTree H idx).writes.reverse) i (Obj.encode .commit data)).objs i = some (Obj.encode .commit data) :=
          aget_putObj_self _ _ _ (fun c0 hc0 => by rw [hex] at hc0; cases hc0)
        have hdec := get_of_aget H _ _ _ _ hget' hget
        rw [C01.decode_encode .commit data (by decide) hok.size] at hdec
        injection hdec with hdec
        injection hdec with _ h2
        subst h2
        rw [hok.treeLine c hparse]; rfl
      · exfalso
        have : aget (putObj (putObjs w (writeTree H idx).writes.reverse) id (Obj.encode .commit data)).objs i = none := by
          rw [aget_putObj_other _ _ _ i hi]; exact hex
        exact get_none H _ i _ this hget

/-! ### per command -/

/-- further input conditions of one step: no collision for the blobs `add` may store; the new commit's `parent` lines
    read back as stored commits (HEAD's commit) -/
def StepOK3 (H : HashFn) (w : World) (i : Inv) : Prop :=
  match i.cmd with
  | .add _ => BlobsFit H w (w.files.map (·.2))
  | .commit _ => ∀ l id data, load H w = some l → commitObject H w i = some (id, data) →
      ∀ c, Commit.parse data = some c → ∀ p ∈ c.parents, (commitAt H w p).isSome = true
  | _ => True

theorem blobsFit_sub (H : HashFn) (w : World) (ds ds' : List Bytes) (hsub : ∀ d ∈ ds', d ∈ ds) (h : BlobsFit H w ds) : BlobsFit H w ds' :=
  ⟨fun d hd => h.1 d (hsub d hd), fun d hd d' hd' => h.2 d (hsub d hd) d' (hsub d' hd')⟩

theorem addCmd_K (H) (w l args) (hl : load H w = some l) (hj : J H w) (hk : K H w)
    (hw : ∀ f ∈ w.files, PathOK f.1 ∧ (0 : UInt8) ∉ f.1 ∧ f.2.length ≤ Fmt.int64Max)
    (hfit : BlobsFit H w (w.files.map (·.2))) : K H (addCmd H w l args).1 := by
  have hblobs : ∀ d ∈ (addArgsP H (ws w l []) args l.idx []).blobs, ∃ p, (p, d) ∈ w.files := by
    intro d hd
    rcases addArgsP_blobs H (ws w l []) args l.idx [] d hd with h1 | h1
    · cases h1
    · exact h1
  have hsz : ∀ d ∈ (addArgsP H (ws w l []) args l.idx []).blobs, d.length ≤ Fmt.int64Max := by
    intro d hd; obtain ⟨p, hp⟩ := hblobs d hd; exact (hw (p, d) hp).2.2
  have hfit' : BlobsFit H w (addArgsP H (ws w l []) args l.idx []).blobs :=
    blobsFit_sub H w _ _ (fun d hd => by obtain ⟨p, hp⟩ := hblobs d hd; exact List.mem_map.mpr ⟨(p, d), hp, rfl⟩) hfit
  have htr := addArgsP_track H (fun e => BlobAt H w e.id) (ws w l []) args l.idx []
    ⟨(loaded_idx_goodE H w l hl hj.1).canon, fun e he => Or.inl (loaded_idx_blobs H w l hl hk e he)⟩
  have hnew : AllBlobs H (List.foldl (putBlob H) w (addArgsP H (ws w l []) args l.idx []).blobs) (addArgsP H (ws w l []) args l.idx []).idx := by
    intro e he
    rcases htr.all e he with h1 | ⟨d, hd, hid⟩
    · exact blobAt_mono (putBlobs_le H w _) h1
    · rw [hid]; exact putBlobs_blobAt H w _ hfit' hsz d hd
  unfold addCmd
  dsimp only
  repeat' split
  all_goals first
    | exact hk
    | (apply K_grow H w _ hj.2 ?_ ?_ ?_ hk
       · rw [setIndexIfChanged_objs']; exact putBlobs_le H w _
       · intro id c hc
         rw [commitAt_congr H (List.foldl (putBlob H) w (addArgsP H (ws w l []) args l.idx []).blobs) _ id
           (by rw [setIndexIfChanged_objs'])] at hc
         exact commitAt_putBlobs H w _ hsz id c hc
       · intro es he
         apply allBlobs_objs_eq H _ _ (setIndexIfChanged_objs' _ _ _)
         unfold setIndexIfChanged at he
         split at he
         · rw [putBlobs_index'] at he
           exact allBlobs_mono (putBlobs_le H w _) (hk.index es he)
         · simp at he; subst he; exact hnew)

theorem K_index_only (H : HashFn) (w w' : World) (hj : J H w) (hk : K H w) (ho : w'.objs = w.objs)
    (hidx : ∀ es, w'.index = some es → AllBlobs H w es) : K H w' :=
  K_objs_eq H w w' hj.2 ho (fun es he => allBlobs_objs_eq H w w' ho (hidx es he)) hk

theorem rmCmd_K (H) (w l args) (hl : load H w = some l) (hj : J H w) (hk : K H w) : K H (rmCmd w l args).1 := by
  apply K_index_only H w _ hj hk (rmCmd_objs w l args)
  have h0 : GoodP (fun e => BlobAt H w e.id) l.idx := ⟨(loaded_idx_goodE H w l hl hj.1).canon, loaded_idx_blobs H w l hl hk⟩
  unfold rmCmd
  split
  · exact hk.index
  · have hgood := goodp_rmArgsP (P := fun e => BlobAt H w e.id) args l.idx [] h0
    cases hr : rmArgsP args l.idx [] with
    | mk ok rest =>
      obtain ⟨idx', removed⟩ := rest
      rw [hr] at hgood
      dsimp only
      split
      · exact hk.index
      · intro es he
        change (setIndexIfChanged _ l.idx idx').index = some es at he
        unfold setIndexIfChanged at he
        split at he
        · exact hk.index es he
        · simp at he; subst he; exact hgood.all

theorem restoreCmd_K (H) (w l st args) (hl : load H w = some l) (hj : J H w) (hk : K H w) : K H (restoreCmd H w l st args).1 := by
  have hobjs : (restoreCmd H w l st args).1.objs = w.objs := by
    cases st
    · exact restoreCmd_work_objs H w l args
    · exact restoreCmd_staged_objs H w l args
  apply K_index_only H w _ hj hk hobjs
  have hr := readsK H w hk
  have h0 : GoodP (fun e => BlobAt H w e.id) l.idx := ⟨(loaded_idx_goodE H w l hl hj.1).canon, loaded_idx_blobs H w l hl hk⟩
  unfold restoreCmd
  dsimp only
  repeat' split
  all_goals first
    | exact hk.index
    | (intro es he; rw [restoreWorkP_index'] at he; exact hk.index es he)
    | (intro es he
       unfold setIndexIfChanged at he
       split at he
       · exact hk.index es he
       · simp at he; subst he
         exact (goodp_restoreStagedArgs (P := fun e => BlobAt H w e.id) _ (hr.2 l _ hl (by assumption)) args l.idx h0).all)

theorem resetTo_K (H) (w l s h arg t prev tz ts) (hj : J H w) (hk : K H w) : K H (resetTo H w l s h arg t prev tz ts).1 := by
  have hr := readsK H w hk
  have hobjs : (resetTo H w l s h arg t prev tz ts).1.objs = w.objs := by
    unfold resetTo
    dsimp only
    repeat' split
    all_goals simp [appendLogHead, appendLogBranch, writeEntries_objs']
  apply K_index_only H w _ hj hk hobjs
  unfold resetTo
  cases hc : commitAt H w t with
  | none => exact hk.index
  | some c =>
    dsimp only
    cases s with
    | true => simp only [if_true]; exact hk.index
    | false =>
      simp only [Bool.false_eq_true, if_false]
      cases hre : Cmds.resetEntries H (store (appendLogBranch (appendLogHead { w with heads := aset w.heads l.ref (hashStr t) }
          (recLine l .reset (some prev) (some t) (clock ts 0) tz (asc "moving to " ++ arg))) l.ref
          (recLine l .reset (some prev) (some t) (clock ts 0) tz (asc "moving to " ++ arg)))) treeDepth t with
      | err => exact hk.index
      | crash => exact hk.index
      | ok es =>
        have hes : AllBlobs H w es := hr.1 t es hre
        dsimp only
        cases h with
        | false => simp only [Bool.not_false, if_true]; intro e he; simp at he; subst he; exact hes
        | true =>
          simp only [Bool.not_true, Bool.false_eq_true, if_false]
          intro e he
          rw [writeEntries_index'] at he
          simp at he; subst he; exact hes

theorem resetCmd_K (H) (w l s m h args tz ts) (hj : J H w) (hk : K H w) : K H (resetCmd H w l s m h args tz ts).1 := by
  unfold resetCmd
  repeat' split
  all_goals first | exact hk | exact resetTo_K H w l _ _ _ _ _ tz ts hj hk

theorem K_trees (H : HashFn) (w : World) (idx : List Entry) (hj : J H w) (hk : K H w) (hsm : Small (writeTree H idx).writes) :
    K H (putObjs w (writeTree H idx).writes.reverse) :=
  K_grow H w _ hj.2 (putObjs_le w _)
    (fun i c hc => commitAt_putObjs_trees H w _
      (fun p hp => writes_are_trees H _ idx p (by simpa [writeTree] using List.mem_reverse.mp hp))
      (fun p hp => hsm p (List.mem_reverse.mp hp)) i c hc)
    (fun es he => by rw [putObjs_index'] at he; exact allBlobs_mono (putObjs_le w _) (hk.index es he)) hk

theorem commitWrite_K (H) (w l id data msg tz ts) (hl : load H w = some l) (hj : J H w) (hk : K H w) (hid : id = Obj.id H .commit data)
    (hsm : Small (writeTree H l.idx).writes) (hok : CommitOK H w l.idx id data)
    (hpar : ∀ c, Commit.parse data = some c → ∀ p ∈ c.parents, (commitAt H w p).isSome = true) :
    K H (commitWrite H w l id data msg tz ts).1 := by
  have hj1 := snapsGood_commit H w l.idx id data hid (loaded_idx_goodE H w l hl hj.1) hsm hok hj.2
  have hk1 := K_commit H w l.idx id data hid (loaded_idx_goodE H w l hl hj.1) hsm hok hj.2 hk (loaded_idx_blobs H w l hl hk)
    hpar
  have hrest : ∀ w' : World, w'.objs = (putObj (putObjs w (writeTree H l.idx).writes.reverse) id (Obj.encode .commit data)).objs →
      w'.index = (putObj (putObjs w (writeTree H l.idx).writes.reverse) id (Obj.encode .commit data)).index → K H w' :=
    fun w' ho hi => K_objs_eq H _ w' hj1 ho (fun es he => by rw [hi] at he; exact allBlobs_objs_eq H _ w' ho (hk1.index es he)) hk1
  unfold commitWrite
  dsimp only
  by_cases hc1 : (!Refs.exists_ l.refs l.ref && !Refs.validName l.ref) = true
  · rw [if_pos hc1]; exact hk1
  · rw [if_neg hc1]
    by_cases hc2 : w.head.isNone = true
    · rw [if_pos hc2]; exact hrest _ rfl rfl
    · rw [if_neg hc2]; exact hrest _ rfl rfl

theorem commitCmd_K (H) (w l msg tz ts) (hl : load H w = some l) (hj : J H w) (hk : K H w) (hok : StepOK H w ⟨.commit msg, tz, ts⟩)
    (hok3 : StepOK3 H w ⟨.commit msg, tz, ts⟩) : K H (commitCmd H w l msg tz ts).1 := by
  obtain ⟨hsm, hco⟩ := hok l hl
  unfold commitCmd
  dsimp only
  cases hs : (if l.headCommit.isNone = true then (Res.ok none : Res (Option (List Entry))) else (headSnap H w l).map some) with
  | crash => exact hk
  | err => dsimp only; split <;> exact hk
  | ok snap =>
    dsimp only
    cases hcc : Cmds.commitCmd H (commitIn w l snap msg tz (clock ts 0)) with
    | crash => exact hk
    | err =>
      dsimp only
      split
      · exact K_trees H w l.idx hj hk hsm
      · exact hk
    | ok p =>
      obtain ⟨id, data⟩ := p
      dsimp only
      obtain ⟨_, _, _, _, _, _, hid, _, _, _⟩ := C02.commitCmd_ok H _ id data hcc
      have hcobj : commitObject H w ⟨.commit msg, tz, ts⟩ = some (id, data) := by
        unfold commitObject
        simp only [hl, hs, hcc]
      exact commitWrite_K H w l id data msg tz ts hl hj hk hid hsm (hco id data hcobj) (hok3 l id data hl hcobj)

/-- **One invocation keeps the content side of connectivity** -/
theorem run_K (H : HashFn) (w : World) (i : Inv) (hj : J H w) (hk : K H w) (hok : StepOK H w i) (hok3 : StepOK3 H w i) :
    K H (run H w i).1 := by
  obtain ⟨cmd, tz, ts⟩ := i
  have other : Field.index ∉ mayTouch cmd → Field.objs ∉ mayTouch cmd → K H (run H w ⟨cmd, tz, ts⟩).1 := fun h1 h2 =>
    K_index_only H w _ hj hk (frame H w ⟨cmd, tz, ts⟩ .objs h2)
      (fun es he => by rw [frame H w ⟨cmd, tz, ts⟩ .index h1] at he; exact hk.index es he)
  cases cmd with
  | add args =>
    (unfold run; dsimp only; repeat' split) <;> first | exact hk | exact addCmd_K H w _ _ (by assumption) hj hk hok hok3
  | rm args =>
    (unfold run; dsimp only; repeat' split) <;> first | exact hk | exact rmCmd_K H w _ _ (by assumption) hj hk
  | restore st args =>
    (unfold run; dsimp only; repeat' split) <;> first | exact hk | exact restoreCmd_K H w _ _ _ (by assumption) hj hk
  | reset s m h args =>
    (unfold run; dsimp only; repeat' split) <;> first | exact hk | exact resetCmd_K H w _ _ _ _ _ tz ts hj hk
  | commit msg =>
    (unfold run; dsimp only; repeat' split) <;> first | exact hk | exact commitCmd_K H w _ msg tz ts (by assumption) hj hk hok hok3
  | writeTree =>
    (unfold run; dsimp only; repeat' split) <;> first
      | exact hk
      | (rename_i l hl; exact K_trees H w l.idx hj hk (hok l hl))
  | config g a => exact other (by cases g <;> simp [mayTouch]) (by cases g <;> simp [mayTouch])
  | _ => exact other (by simp [mayTouch]) (by simp [mayTouch])

/-! ### histories -/

def StepsOK3 (H : HashFn) : World → List Step → Prop
  | _, [] => True
  | w, .cmd i :: r => StepOK3 H w i ∧ StepsOK3 H (run H w i).1 r
  | w, .edit f d :: r => StepsOK3 H { w with files := f, dirs := d } r

theorem runSteps_JK (H : HashFn) (w : World) (ss : List Step) (hj : J H w) (hk : K H w) (hok : StepsOK H w ss) (hok3 : StepsOK3 H w ss) :
    J H (runSteps H w ss) ∧ K H (runSteps H w ss) := by
  unfold runSteps
  induction ss generalizing w with
  | nil => exact ⟨hj, hk⟩
  | cons s r ih =>
    simp only [List.foldl_cons]
    cases s with
    | cmd i => exact ih _ (run_J H w i hj hok.1) (run_K H w i hj hk hok.1 hok3.1) hok.2 hok3.2
    | edit f d => exact ih _ (edit_J H w f d hj) (K_index_only H w _ hj hk rfl (fun es he => hk.index es he)) hok hok3

theorem K_empty (H : HashFn) : K H {} := by
  have hnone : ∀ id c, commitAt H ({} : World) id = some c → False := by
    intro id c h
    unfold commitAt at h
    split at h
    · rename_i d hg; exact get_none H {} id _ (by simp [aget]) hg
    · cases h
  exact ⟨fun es h => by simp at h, fun id c t es h => (hnone id c h).elim, fun id c h => (hnone id c h).elim, fun id c h => (hnone id c h).elim⟩

end W

namespace C03

/-- **Closure, for every history of the whole-repository model** (clause `closure`): starting from an empty directory, after
    any sequence of invocations — successful, refused, failing half-way — interleaved with arbitrary edits of the working tree:
    every staged path refers to a stored blob; every stored commit's snapshot, when it reads back, refers to stored blobs only
    (and it does read back whole: `C06.world_commits_read_back_canonical`); every parent of a stored commit is a stored commit.
    Input conditions: those of `C06.world_index_canonical` (`StepsOK`) and `StepsOK3` — the blobs `add` may store do not
    collide with stored objects of other content or with each other, and the `parent` lines of a new commit object read back
    as HEAD's commit (what `C12.commit_parse_format` proves in C12's domain). -/
theorem world_closed (H : HashFn) (ss : List W.Step) (hok : W.StepsOK H {} ss) (hok3 : W.StepsOK3 H {} ss) :
    W.K H (W.runSteps H {} ss) :=
  (W.runSteps_JK H {} ss (W.J_empty H) (W.K_empty H) hok hok3).2

/-- a staged id is a blob Goit's own object reader returns -/
theorem world_staged_blobs_readable (H : HashFn) (ss : List W.Step) (hok : W.StepsOK H {} ss) (hok3 : W.StepsOK3 H {} ss)
    (es : List Entry) (h : (W.runSteps H {} ss).index = some es) (e : Entry) (he : e ∈ es) :
    ∃ d, Store.get H (W.store (W.runSteps H {} ss)) e.id = .ok (.blob, d) :=
  W.blobAt_get H _ e.id ((world_closed H ss hok hok3).index es h e he)

/-- one step, from any state that meets the invariants -/
theorem world_step_closed (H : HashFn) (w : W.World) (i : W.Inv) (hj : W.J H w) (hk : W.K H w) (hok : W.StepOK H w i)
    (hok3 : W.StepOK3 H w i) : W.K H (W.run H w i).1 := W.run_K H w i hj hk hok hok3

end C03

/-- the further input conditions are satisfiable by a real history (init, create a file, stage it, look) -/
example (H : HashFn) : W.StepsOK3 H {}
    [.cmd ⟨.init, 0, []⟩, .edit [([97], [120])] [], .cmd ⟨.add [[97]], 0, []⟩, .cmd ⟨.status, 0, []⟩] := by
  refine ⟨trivial, ⟨?_, ?_⟩, trivial, trivial⟩
  · intro d hd c hc
    exfalso
    have hobjs : (W.run H {} ⟨.init, 0, []⟩).1.objs = [] := by
      simp only [W.run, W.initCmd]
      repeat' split
      all_goals rfl
    simp [hobjs, W.aget] at hc
  · intro d hd d' hd' _
    simp at hd hd'
    rw [hd, hd']
