import GoitProofs.Props.C06Gen
set_option linter.unusedSimpArgs false
set_option linter.unusedVariables false

/-! C06 (`canonical`), C17 (`no-meta`) and the snapshot half of C05 as **invariants of every history** of the
    whole-repository model, without the `ReadsGood` assumption of `C06World`: it is *proved* here that every stored
    commit's tree reads back — through the World's own store and reader — as a staging area that is strictly sorted,
    duplicate-free, free of `.goit` paths and well formed; hence what `reset` and `restore --staged` install is so too.

    Hypotheses are about the **inputs** of the individual steps only (`StepOK`): work-tree paths staged by `add` are
    well formed (non-empty components, no NUL); file and object sizes are below 2^63; the tree objects a `commit` writes
    do not collide with stored objects of other content; the commit object reads back with the tree line it was given
    (what `C12.commit_parse_format` proves for every identity and message of C12's domain). -/

namespace W

open C04 C05 C06 C17 TreeBuild TreeCodec

/-- what every staged entry satisfies -/
def EntryGood (e : Entry) : Prop := ¬ IsMeta e.path ∧ PathOK e.path ∧ (0 : UInt8) ∉ e.path ∧ e.id.length = 20

abbrev GoodE := GoodP EntryGood

theorem goodE_facts (es : List Entry) (h : GoodE es) : Canonical es ∧ NoMeta es ∧ AllOK es ∧ EntriesOK es :=
  ⟨h.canon, fun e he => (h.all e he).1, fun e he => (h.all e he).2.1, fun e he => ⟨(h.all e he).2.2.2, (h.all e he).2.2.1⟩⟩

def IndexGoodE (w : World) : Prop := ∀ es, w.index = some es → GoodE es

/-- every stored commit's tree reads back as a good staging area -/
def SnapsGood (H : HashFn) (w : World) : Prop :=
  ∀ id c t, commitAt H w id = some c → c.tree = some t → ∃ es, treeEntries H w t = some es ∧ GoodE es

/-! ### reading depends on the object store only, and is monotone in it -/

theorem commitAt_congr (H : HashFn) (w w' : World) (id : Bytes) (h : aget w'.objs id = aget w.objs id) :
    commitAt H w' id = commitAt H w id := by
  unfold commitAt Store.get store
  rw [h]

theorem treeEntries_objs (H : HashFn) (w w' : World) (h : w'.objs = w.objs) (t : Bytes) : treeEntries H w' t = treeEntries H w t := by
  unfold treeEntries store; rw [h]

theorem snapsGood_objs (H : HashFn) (w w' : World) (h : w'.objs = w.objs) (hs : SnapsGood H w) : SnapsGood H w' := by
  intro id c t hc ht
  rw [commitAt_congr H w w' id (by rw [h])] at hc
  obtain ⟨es, he, hg⟩ := hs id c t hc ht
  exact ⟨es, by rw [treeEntries_objs H w w' h]; exact he, hg⟩

theorem treeEntries_mono (H : HashFn) (w w' : World) (ho : OL w.objs w'.objs) (t : Bytes) (es : List Entry)
    (h : treeEntries H w t = some es) : treeEntries H w' t = some es := by
  unfold treeEntries at h ⊢
  cases hg : Store.get H (store w) t with
  | crash => simp [hg] at h
  | err => simp [hg] at h
  | ok kd =>
    obtain ⟨k, d⟩ := kd
    simp only [hg] at h
    rw [get_mono H w w' ho t _ hg]
    simp only
    unfold newTree at h ⊢
    split at h
    · rename_i hk
      simp only [hk, if_true]
      cases hw : walk H (store w) treeDepth d with
      | none => simp [hw] at h
      | some ns =>
        rw [hw] at h
        rw [walk_mono H (store w) (store w') (fun i kd hgi => get_mono H w w' ho i kd hgi) treeDepth treeDepth d ns (Nat.le_refl _) hw]
        exact h
    · simp at h

theorem commitAt_some_get (H : HashFn) (w : World) (id : Bytes) (c : Commit) (h : commitAt H w id = some c) :
    ∃ d, Store.get H (store w) id = .ok (.commit, d) ∧ Commit.parse d = some c := by
  unfold commitAt at h
  cases hg : Store.get H (store w) id with
  | crash => rw [hg] at h; cases h
  | err => rw [hg] at h; cases h
  | ok kd =>
    obtain ⟨k, d⟩ := kd
    rw [hg] at h
    cases k with
    | commit => exact ⟨d, rfl, h⟩
    | undefined => cases h
    | blob => cases h
    | tree => cases h
    | tag => cases h

theorem get_of_aget (H : HashFn) (w : World) (id content : Bytes) (kd : Kind × Bytes) (ha : aget w.objs id = some content)
    (hg : Store.get H (store w) id = .ok kd) : Obj.decode content = some kd := by
  unfold Store.get store at hg
  split at hg
  · cases hg
  · simp only [ha] at hg
    cases hd : Obj.decode content with
    | none => simp [hd] at hg
    | some x =>
      simp only [hd] at hg
      split at hg
      · injection hg with hg; rw [hg]
      · cases hg

theorem get_none (H : HashFn) (w : World) (id : Bytes) (kd : Kind × Bytes) (ha : aget w.objs id = none) :
    Store.get H (store w) id ≠ .ok kd := by
  unfold Store.get store
  split
  · intro h; cases h
  · simp [ha]

/-- storing an object that is not a commit keeps `SnapsGood` -/
theorem snapsGood_putObj_noncommit (H : HashFn) (w : World) (k : Kind) (d : Bytes) (hk : k ≠ .commit) (hk' : k ≠ .undefined)
    (hd : d.length ≤ Fmt.int64Max) (hs : SnapsGood H w) : SnapsGood H (putObj w (Obj.id H k d) (Obj.encode k d)) := by
  intro id c t hc ht
  cases hex : aget w.objs id with
  | some x =>
    have hsame : aget (putObj w (Obj.id H k d) (Obj.encode k d)).objs id = aget w.objs id := by
      rw [hex]; exact putObj_le w _ _ id x hex
    rw [commitAt_congr H w _ id hsame] at hc
    obtain ⟨es, he, hg⟩ := hs id c t hc ht
    exact ⟨es, treeEntries_mono H w _ (putObj_le w _ _) t es he, hg⟩
  | none =>
    exfalso
    obtain ⟨d', hget, _⟩ := commitAt_some_get H _ id c hc
    by_cases hid : id = Obj.id H k d
    · subst hid
      have hget' : aget (putObj w (Obj.id H k d) (Obj.encode k d)).objs (Obj.id H k d) = some (Obj.encode k d) :=
        aget_putObj_self w _ _ (fun c0 hc0 => by rw [hex] at hc0; cases hc0)
      have := get_of_aget H _ _ _ _ hget' hget
      rw [C01.decode_encode k d hk' hd] at this
      injection this with this
      injection this with h1 _
      exact hk h1
    · have : aget (putObj w (Obj.id H k d) (Obj.encode k d)).objs id = none := by
        rw [aget_putObj_other w _ _ id hid]; exact hex
      exact get_none H _ id _ this hget

/-- every object `writeTreeObject` stores is the encoding of a tree -/
theorem writes_are_trees (H : HashFn) (f : Nat) (es : List Entry) :
    ∀ p ∈ (write H f es).writes, ∃ d, p = (Obj.id H .tree d, Obj.encode .tree d) := by
  induction f generalizing es with
  | zero => intro p hp; simp [write] at hp
  | succ f ih =>
    intro p hp
    rw [write_succ] at hp
    simp only [List.mem_append, List.mem_flatten, List.mem_map, List.mem_singleton] at hp
    rcases hp with ⟨l, ⟨pr, ⟨it, _, rfl⟩, rfl⟩, hpl⟩ | rfl
    · cases it with
      | leaf n i => simp [part] at hpl
      | dir d sub => exact ih sub p (by simpa [part] using hpl)
    · exact ⟨_, rfl⟩

theorem snapsGood_putObjs_trees (H : HashFn) (w : World) (os : List (Bytes × Bytes))
    (ht : ∀ p ∈ os, ∃ d, p = (Obj.id H .tree d, Obj.encode .tree d)) (hsm : Small os) (hs : SnapsGood H w) :
    SnapsGood H (putObjs w os) := by
  unfold putObjs
  induction os generalizing w with
  | nil => exact hs
  | cons o os ih =>
    simp only [List.foldl_cons]
    apply ih _ (fun p hp => ht p (List.mem_cons_of_mem _ hp)) (fun p hp => hsm p (List.mem_cons_of_mem _ hp))
    obtain ⟨d, rfl⟩ := ht o List.mem_cons_self
    have hd : d.length ≤ Fmt.int64Max := by
      have := hsm _ List.mem_cons_self
      have h1 : d.length ≤ (Obj.encode .tree d).length := by simp [Obj.encode]
      simp only at this; omega
    exact snapsGood_putObj_noncommit H w .tree d (by decide) (by decide) hd hs

theorem snapsGood_putBlobs (H : HashFn) (w : World) (ds : List Bytes) (hsm : ∀ d ∈ ds, d.length ≤ Fmt.int64Max) (hs : SnapsGood H w) :
    SnapsGood H (ds.foldl (putBlob H) w) := by
  induction ds generalizing w with
  | nil => exact hs
  | cons d ds ih =>
    simp only [List.foldl_cons]
    exact ih _ (fun x hx => hsm x (List.mem_cons_of_mem _ hx))
      (snapsGood_putObj_noncommit H w .blob d (by decide) (by decide) (hsm d List.mem_cons_self) hs)

/-! ### `commit`: the new commit's tree reads back as the staging area it was made from -/

/-- what is asked of a `commit` whose object is `(id, data)`, made from the staged entries `idx` -/
structure CommitOK (H : HashFn) (w : World) (idx : List Entry) (id data : Bytes) : Prop where
  fit : Fit w (writeTree H idx).writes.reverse
  fuel : fuelFor idx ≤ treeDepth
  treeLine : ∀ c, Commit.parse data = some c → c.tree = some (writeTree H idx).id
  size : data.length ≤ Fmt.int64Max

theorem snapsGood_commit (H : HashFn) (w : World) (idx : List Entry) (id data : Bytes) (hid : id = Obj.id H .commit data)
    (hg : GoodE idx) (hsm : Small (writeTree H idx).writes) (hok : CommitOK H w idx id data) (hs : SnapsGood H w) :
    SnapsGood H (putObj (putObjs w (writeTree H idx).writes.reverse) id (Obj.encode .commit data)) := by
  obtain ⟨_, _, hall, heok⟩ := goodE_facts idx hg
  have hs0 : SnapsGood H (putObjs w (writeTree H idx).writes.reverse) :=
    snapsGood_putObjs_trees H w _ (fun p hp => writes_are_trees H _ idx p (by simpa [writeTree] using List.mem_reverse.mp hp))
      (fun p hp => hsm p (List.mem_reverse.mp hp)) hs
  have hrb := treeEntries_after_write H w idx hall heok hok.fit hsm hok.fuel
  intro i c t hc ht
  cases hex : aget (putObjs w (writeTree H idx).writes.reverse).objs i with
  | some x =>
    have hsame : aget (putObj (putObjs w (writeTree H idx).writes.reverse) id (Obj.encode .commit data)).objs i =
        aget (putObjs w (writeTree H idx).writes.reverse).objs i := by
      rw [hex]; exact putObj_le _ _ _ i x hex
    rw [commitAt_congr H _ _ i hsame] at hc
    obtain ⟨es, he, hge⟩ := hs0 i c t hc ht
    exact ⟨es, treeEntries_mono H _ _ (putObj_le _ _ _) t es he, hge⟩
  | none =>
    obtain ⟨d', hget, hparse⟩ := commitAt_some_get H _ i c hc
    by_cases hi : i = id
    · subst hi
      have hget' : aget (putObj (putObjs w (writeTree H idx).writes.reverse) i (Obj.encode .commit data)).objs i = some (Obj.encode .commit data) :=
        aget_putObj_self _ _ _ (fun c0 hc0 => by rw [hex] at hc0; cases hc0)
      have hdec := get_of_aget H _ _ _ _ hget' hget
      rw [C01.decode_encode .commit data (by decide) hok.size] at hdec
      injection hdec with hdec
      injection hdec with _ h2
      subst h2
      have := hok.treeLine c hparse
      rw [ht] at this
      injection this with this
      subst this
      exact ⟨idx, treeEntries_mono H _ _ (putObj_le _ _ _) _ idx hrb, hg⟩
    · exfalso
      have : aget (putObj (putObjs w (writeTree H idx).writes.reverse) id (Obj.encode .commit data)).objs i = none := by
        rw [aget_putObj_other _ _ _ i hi]; exact hex
      exact get_none H _ i _ this hget

/-! ### what `reset` and `restore --staged` read is covered by `SnapsGood` -/

theorem resetEntries_snap (H : HashFn) (w : World) (t : Bytes) (es : List Entry) (h : Cmds.resetEntries H (store w) treeDepth t = .ok es) :
    ∃ c tr, commitAt H w t = some c ∧ c.tree = some tr ∧ treeEntries H w tr = some es := by
  unfold Cmds.resetEntries at h
  cases hg : Store.get H (store w) t with
  | crash => simp [hg] at h
  | err => simp [hg] at h
  | ok kd =>
    obtain ⟨k, d⟩ := kd
    simp only [hg] at h
    by_cases hk : k = .commit
    · subst hk
      simp only [ne_eq, not_true_eq_false, if_false] at h
      cases hp : Commit.parse d with
      | none => simp [hp] at h
      | some c =>
        simp only [hp] at h
        cases hct : c.tree with
        | none => simp [hct] at h
        | some tr =>
          simp only [hct] at h
          refine ⟨c, tr, by unfold commitAt; rw [hg]; exact hp, hct, ?_⟩
          unfold treeEntries
          cases hg2 : Store.get H (store w) tr with
          | crash => simp [hg2] at h
          | err => simp [hg2] at h
          | ok kd2 =>
            obtain ⟨k2, d2⟩ := kd2
            simp only [hg2] at h ⊢
            cases hn : newTree H (store w) treeDepth k2 d2 with
            | none => simp [hn] at h
            | some ns => simp [hn] at h ⊢; exact h
    · simp [hk] at h

theorem readsGoodE (H : HashFn) (w : World) (hs : SnapsGood H w) :
    (∀ t es, Cmds.resetEntries H (store w) treeDepth t = .ok es → GoodE es) ∧
    (∀ l es, load H w = some l → headSnap H w l = .ok es → GoodE es) := by
  constructor
  · intro t es h
    obtain ⟨c, tr, hc, hct, hte⟩ := resetEntries_snap H w t es h
    obtain ⟨es', he', hg⟩ := hs t c tr hc hct
    rw [hte] at he'; injection he' with he'; subst he'; exact hg
  · intro l es hl h
    unfold headSnap at h
    cases hhc : l.headCommit with
    | none => simp [hhc] at h
    | some ic =>
      obtain ⟨id, c⟩ := ic
      simp only [hhc] at h
      cases hct : c.tree with
      | none => simp [hct] at h
      | some t =>
        simp only [hct] at h
        cases hte : treeEntries H w t with
        | none => simp [hte, Res.ofOption] at h
        | some es' =>
          simp [hte, Res.ofOption] at h
          subst h
          obtain ⟨es2, he2, hg⟩ := hs id c t (load_headCommit H w l hl id c hhc).1 hct
          rw [hte] at he2; injection he2 with he2; subst he2; exact hg

/-! ### the invariant and the per-step input conditions -/

def J (H : HashFn) (w : World) : Prop := IndexGoodE w ∧ SnapsGood H w

/-- conditions on the inputs of one step (work files for `add`, sizes, no collision and a readable tree line for `commit`) -/
def StepOK (H : HashFn) (w : World) (i : Inv) : Prop :=
  match i.cmd with
  | .add _ => ∀ f ∈ w.files, PathOK f.1 ∧ (0 : UInt8) ∉ f.1 ∧ f.2.length ≤ Fmt.int64Max
  | .commit _ => ∀ l, load H w = some l → Small (writeTree H l.idx).writes ∧
      ∀ id data, commitObject H w i = some (id, data) → CommitOK H w l.idx id data
  | .writeTree => ∀ l, load H w = some l → Small (writeTree H l.idx).writes
  | _ => True

theorem loaded_idx_goodE (H : HashFn) (w : World) (l : Loaded) (hl : load H w = some l) (hg : IndexGoodE w) : GoodE l.idx := by
  have : l.idx = w.index.getD [] := by
    unfold load at hl
    split at hl
    · injection hl with hl; subst hl; rfl
    · contradiction
  rw [this]
  cases hi : w.index with
  | none => exact goodp_nil
  | some es => exact hg es hi

theorem indexGoodE_set (w : World) (hg : IndexGoodE w) (old new : List Entry) (hn : GoodE new) : IndexGoodE (setIndexIfChanged w old new) := by
  intro es he
  unfold setIndexIfChanged at he
  split at he
  · exact hg es he
  · simp at he; subst he; exact hn

theorem indexGoodE_of_eq (w w' : World) (h : w'.index = w.index) (hg : IndexGoodE w) : IndexGoodE w' := by
  intro es he; rw [h] at he; exact hg es he

theorem addArgsP_blobs (H : HashFn) (w : Cmds.WS) (args : List Bytes) (idx : List Entry) (bs : List Bytes) :
    ∀ d ∈ (addArgsP H w args idx bs).blobs, d ∈ bs ∨ ∃ p, (p, d) ∈ w.files := by
  induction args generalizing idx bs with
  | nil => intro d hd; exact Or.inl hd
  | cons a rest ih =>
    unfold addArgsP
    dsimp only
    split
    · exact ih _ _
    · split
      · cases hd : IndexOps.delete idx (Cmds.cleanPath a) with
        | ok i => exact ih _ _
        | err => intro d hd'; exact Or.inl hd'
        | crash => intro d hd'; exact Or.inl hd'
      · split
        · cases hf : (List.filter (fun f => !Cmds.ignored { w with index := idx } f.1) (Cmds.filesUnder w (Cmds.cleanPath a))).foldl
              (fun (acc : Res (List Entry)) f => acc.bind fun i => Cmds.addOne H i f.1 f.2) (Res.ok idx) with
          | ok i =>
            intro d hd'
            rcases ih _ _ d hd' with h1 | h1
            · rcases List.mem_append.mp h1 with h2 | h2
              · exact Or.inl h2
              · obtain ⟨f, hfm, rfl⟩ := List.mem_map.mp h2
                have hin : f ∈ w.files := (List.mem_filter.mp (List.mem_filter.mp hfm).1).1
                exact Or.inr ⟨f.1, by cases f; exact hin⟩
            · exact Or.inr h1
          | err => intro d hd'; exact Or.inl hd'
          | crash => intro d hd'; exact Or.inl hd'
        · cases hfa : Cmds.fileAt w (Cmds.cleanPath a) with
          | none => intro d hd'; exact Or.inl hd'
          | some data =>
            dsimp only
            cases ho : Cmds.addOne H idx (Cmds.cleanPath a) data with
            | ok i =>
              intro d hd'
              rcases ih _ _ d hd' with h1 | h1
              · rcases List.mem_append.mp h1 with h2 | h2
                · exact Or.inl h2
                · simp at h2; subst h2; exact Or.inr ⟨_, fileAt_mem w _ _ hfa⟩
              · exact Or.inr h1
            | err => intro d hd'; exact Or.inl hd'
            | crash => intro d hd'; exact Or.inl hd'

theorem addCmd_J (H) (w l args) (hl : load H w = some l) (hj : J H w)
    (hw : ∀ f ∈ w.files, PathOK f.1 ∧ (0 : UInt8) ∉ f.1 ∧ f.2.length ≤ Fmt.int64Max) : J H (addCmd H w l args).1 := by
  have hgood : GoodE (addArgsP H (ws w l []) args l.idx []).idx := by
    apply goodp_addArgsP H _ args l.idx [] (loaded_idx_goodE H w l hl hj.1)
    intro ix p d hni hmem
    have := hw (p, d) hmem
    exact ⟨not_meta_of_not_ignored _ p hni, this.1, this.2.1, H.len20 _⟩
  have hsn : SnapsGood H (List.foldl (putBlob H) w (addArgsP H (ws w l []) args l.idx []).blobs) := by
    apply snapsGood_putBlobs H w _ _ hj.2
    intro d hd
    rcases addArgsP_blobs H (ws w l []) args l.idx [] d hd with h1 | ⟨p, h1⟩
    · cases h1
    · exact (hw (p, d) h1).2.2
  unfold addCmd
  dsimp only
  repeat' split
  all_goals first
    | exact hj
    | (refine ⟨indexGoodE_set _ (indexGoodE_of_eq w _ (putBlobs_index' H w _) hj.1) _ _ hgood, ?_⟩
       exact snapsGood_objs H _ _ (setIndexIfChanged_objs' _ _ _) hsn)

theorem rmCmd_J (H) (w l args) (hl : load H w = some l) (hj : J H w) : J H (rmCmd w l args).1 := by
  refine ⟨?_, snapsGood_objs H w _ (rmCmd_objs w l args) hj.2⟩
  unfold rmCmd
  split
  · exact hj.1
  · have hgood := goodp_rmArgsP (P := EntryGood) args l.idx [] (loaded_idx_goodE H w l hl hj.1)
    cases hr : rmArgsP args l.idx [] with
    | mk ok rest =>
      obtain ⟨idx', removed⟩ := rest
      rw [hr] at hgood
      dsimp only
      split
      · exact hj.1
      · show IndexGoodE (setIndexIfChanged _ l.idx idx')
        refine indexGoodE_set _ ?_ l.idx idx' hgood
        exact indexGoodE_of_eq w _ rfl hj.1

theorem restoreCmd_J (H) (w l st args) (hl : load H w = some l) (hj : J H w) : J H (restoreCmd H w l st args).1 := by
  have hobjs : (restoreCmd H w l st args).1.objs = w.objs := by
    cases st
    · exact restoreCmd_work_objs H w l args
    · exact restoreCmd_staged_objs H w l args
  refine ⟨?_, snapsGood_objs H w _ hobjs hj.2⟩
  have hr := readsGoodE H w hj.2
  unfold restoreCmd
  dsimp only
  repeat' split
  all_goals first
    | exact hj.1
    | exact indexGoodE_of_eq w _ (restoreWorkP_index' H _ w _) hj.1
    | exact indexGoodE_set w hj.1 _ _ (goodp_restoreStagedArgs _ (hr.2 l _ hl (by assumption)).all args l.idx (loaded_idx_goodE H w l hl hj.1))

theorem resetTo_J (H) (w l s h arg t prev tz ts) (hj : J H w) : J H (resetTo H w l s h arg t prev tz ts).1 := by
  have hr := readsGoodE H w hj.2
  have hobjs : (resetTo H w l s h arg t prev tz ts).1.objs = w.objs := by
    unfold resetTo
    dsimp only
    repeat' split
    all_goals simp [appendLogHead, appendLogBranch, writeEntries_objs']
  refine ⟨?_, snapsGood_objs H w _ hobjs hj.2⟩
  unfold resetTo
  cases hc : commitAt H w t with
  | none => exact hj.1
  | some c =>
    dsimp only
    cases s with
    | true => simp only [if_true]; exact indexGoodE_of_eq w _ rfl hj.1
    | false =>
      simp only [Bool.false_eq_true, if_false]
      cases hre : Cmds.resetEntries H (store (appendLogBranch (appendLogHead { w with heads := aset w.heads l.ref (hashStr t) }
          (recLine l .reset (some prev) (some t) (clock ts 0) tz (asc "moving to " ++ arg))) l.ref
          (recLine l .reset (some prev) (some t) (clock ts 0) tz (asc "moving to " ++ arg)))) treeDepth t with
      | err => exact indexGoodE_of_eq w _ rfl hj.1
      | crash => exact indexGoodE_of_eq w _ rfl hj.1
      | ok es =>
        have hes : GoodE es := hr.1 t es hre
        dsimp only
        cases h with
        | false => simp only [Bool.not_false, if_true]; intro e he; simp at he; subst he; exact hes
        | true =>
          simp only [Bool.not_true, Bool.false_eq_true, if_false]
          intro e he
          rw [writeEntries_index'] at he
          simp at he; subst he; exact hes

theorem resetCmd_J (H) (w l s m h args tz ts) (hj : J H w) : J H (resetCmd H w l s m h args tz ts).1 := by
  unfold resetCmd
  repeat' split
  all_goals first | exact hj | exact resetTo_J H w l _ _ _ _ _ tz ts hj

theorem commitWrite_J (H) (w l id data msg tz ts) (hl : load H w = some l) (hj : J H w) (hid : id = Obj.id H .commit data)
    (hsm : Small (writeTree H l.idx).writes) (hok : CommitOK H w l.idx id data) : J H (commitWrite H w l id data msg tz ts).1 := by
  have hs1 := snapsGood_commit H w l.idx id data hid (loaded_idx_goodE H w l hl hj.1) hsm hok hj.2
  have hi1 : IndexGoodE (putObj (putObjs w (writeTree H l.idx).writes.reverse) id (Obj.encode .commit data)) :=
    indexGoodE_of_eq w _ (by rw [putObj_index', putObjs_index']) hj.1
  unfold commitWrite
  dsimp only
  by_cases hc1 : (!Refs.exists_ l.refs l.ref && !Refs.validName l.ref) = true
  · rw [if_pos hc1]; exact ⟨hi1, hs1⟩
  · rw [if_neg hc1]
    by_cases hc2 : w.head.isNone = true
    · rw [if_pos hc2]
      exact ⟨indexGoodE_of_eq _ _ rfl hi1, snapsGood_objs H _ _ rfl hs1⟩
    · rw [if_neg hc2]
      exact ⟨indexGoodE_of_eq _ _ rfl hi1, snapsGood_objs H _ _ rfl hs1⟩

theorem commitCmd_J (H) (w l msg tz ts) (hl : load H w = some l) (hj : J H w) (hok : StepOK H w ⟨.commit msg, tz, ts⟩) :
    J H (commitCmd H w l msg tz ts).1 := by
  obtain ⟨hsm, hco⟩ := hok l hl
  unfold commitCmd
  dsimp only
  cases hs : (if l.headCommit.isNone = true then (Res.ok none : Res (Option (List Entry))) else (headSnap H w l).map some) with
  | crash => exact hj
  | err => dsimp only; split <;> exact hj
  | ok snap =>
    dsimp only
    cases hcc : Cmds.commitCmd H (commitIn w l snap msg tz (clock ts 0)) with
    | crash => exact hj
    | err =>
      dsimp only
      split
      · refine ⟨indexGoodE_of_eq w _ (putObjs_index' w _) hj.1, ?_⟩
        exact snapsGood_putObjs_trees H w _ (fun p hp => writes_are_trees H _ l.idx p (by simpa [writeTree] using List.mem_reverse.mp hp))
          (fun p hp => hsm p (List.mem_reverse.mp hp)) hj.2
      · exact hj
    | ok p =>
      obtain ⟨id, data⟩ := p
      dsimp only
      obtain ⟨_, _, _, _, _, _, hid, _, _, _⟩ := C02.commitCmd_ok H _ id data hcc
      have hcobj : commitObject H w ⟨.commit msg, tz, ts⟩ = some (id, data) := by
        unfold commitObject
        simp only [hl, hs, hcc]
      exact commitWrite_J H w l id data msg tz ts hl hj hid hsm (hco id data hcobj)

/-- **One invocation keeps the invariant** -/
theorem run_J (H : HashFn) (w : World) (i : Inv) (hj : J H w) (hok : StepOK H w i) : J H (run H w i).1 := by
  obtain ⟨cmd, tz, ts⟩ := i
  have other : Field.index ∉ mayTouch cmd → Field.objs ∉ mayTouch cmd → J H (run H w ⟨cmd, tz, ts⟩).1 := fun h1 h2 =>
    ⟨indexGoodE_of_eq w _ (frame H w ⟨cmd, tz, ts⟩ .index h1) hj.1, snapsGood_objs H w _ (frame H w ⟨cmd, tz, ts⟩ .objs h2) hj.2⟩
  cases cmd with
  | add args =>
    (unfold run; dsimp only; repeat' split) <;> first | exact hj | exact addCmd_J H w _ _ (by assumption) hj hok
  | rm args =>
    (unfold run; dsimp only; repeat' split) <;> first | exact hj | exact rmCmd_J H w _ _ (by assumption) hj
  | restore st args =>
    (unfold run; dsimp only; repeat' split) <;> first | exact hj | exact restoreCmd_J H w _ _ _ (by assumption) hj
  | reset s m h args =>
    (unfold run; dsimp only; repeat' split) <;> first | exact hj | exact resetCmd_J H w _ _ _ _ _ tz ts hj
  | commit msg =>
    (unfold run; dsimp only; repeat' split) <;> first | exact hj | exact commitCmd_J H w _ msg tz ts (by assumption) hj hok
  | writeTree =>
    (unfold run; dsimp only; repeat' split) <;> first
      | exact hj
      | (rename_i l hl
         refine ⟨indexGoodE_of_eq w _ (putObjs_index' w _) hj.1, ?_⟩
         exact snapsGood_putObjs_trees H w _ (fun p hp => writes_are_trees H _ l.idx p (by simpa [writeTree] using List.mem_reverse.mp hp))
           (fun p hp => (hok l hl) p (List.mem_reverse.mp hp)) hj.2)
  | config g a => exact other (by cases g <;> simp [mayTouch]) (by cases g <;> simp [mayTouch])
  | _ => exact other (by simp [mayTouch]) (by simp [mayTouch])

/-! ### histories: invocations interleaved with arbitrary edits of the working tree -/

/-- one step of a history: an invocation, or the user replacing the working tree by anything at all -/
inductive Step where
  | cmd (i : Inv)
  | edit (files : List (Bytes × Bytes)) (dirs : List Bytes)

def stepW (H : HashFn) (w : World) : Step → World
  | .cmd i => (run H w i).1
  | .edit f d => { w with files := f, dirs := d }

def runSteps (H : HashFn) (w : World) (ss : List Step) : World := ss.foldl (stepW H) w

/-- the input conditions, along the history -/
def StepsOK (H : HashFn) : World → List Step → Prop
  | _, [] => True
  | w, .cmd i :: r => StepOK H w i ∧ StepsOK H (run H w i).1 r
  | w, .edit f d :: r => StepsOK H { w with files := f, dirs := d } r

theorem edit_J (H) (w : World) (f d) (hj : J H w) : J H { w with files := f, dirs := d } :=
  ⟨indexGoodE_of_eq w _ rfl hj.1, snapsGood_objs H w _ rfl hj.2⟩

theorem runSteps_J (H : HashFn) (w : World) (ss : List Step) (hj : J H w) (hok : StepsOK H w ss) : J H (runSteps H w ss) := by
  unfold runSteps
  induction ss generalizing w with
  | nil => exact hj
  | cons s r ih =>
    simp only [List.foldl_cons]
    cases s with
    | cmd i => exact ih _ (run_J H w i hj hok.1) hok.2
    | edit f d => exact ih _ (edit_J H w f d hj) hok

theorem J_empty (H : HashFn) : J H {} :=
  ⟨fun es h => by simp at h, fun id c t h _ => by
    exfalso
    unfold commitAt at h
    split at h
    · rename_i d hg; exact get_none H {} id _ (by simp [aget]) hg
    · cases h⟩

end W

namespace C06
open C05 C17 TreeBuild

/-- **The staging area is canonical after every history** (clauses `sorted`, `unique`, `clean`, `entries`), with no assumption
    about what the stored commits hold: starting from an empty directory, after any sequence of invocations — successful, refused,
    or failing half-way — interleaved with arbitrary edits of the working tree, the index (when there is one) is strictly
    sorted by path, holds no path twice, only clean relative paths without NUL, and 20-byte ids.
    Input conditions (`StepsOK`): the files `add` may read have clean NUL-free names and fit in 2^63 bytes; the tree and commit
    objects a `commit`/`write-tree` makes fit too, the new commit object does not collide with a stored object of other
    content, and its own `tree` line reads back (what `C12.commit_parse_format` proves for the commits the generator makes). -/
theorem world_index_canonical (H : HashFn) (ss : List W.Step) (hok : W.StepsOK H {} ss) (es : List Entry)
    (h : (W.runSteps H {} ss).index = some es) : Canonical es ∧ AllOK es ∧ EntriesOK es :=
  let g := W.goodE_facts es ((W.runSteps_J H {} ss (W.J_empty H) hok).1 es h)
  ⟨g.1, g.2.2.1, g.2.2.2⟩

/-- … and every tree a stored commit names reads back, whole, as such a staging area (what `reset`, `restore --staged`,
    `switch` and `status` read) -/
theorem world_commits_read_back_canonical (H : HashFn) (ss : List W.Step) (hok : W.StepsOK H {} ss) (id : Bytes) (c : Commit) (t : Bytes)
    (hc : W.commitAt H (W.runSteps H {} ss) id = some c) (ht : c.tree = some t) :
    ∃ es, W.treeEntries H (W.runSteps H {} ss) t = some es ∧ Canonical es ∧ NoMeta es :=
  let ⟨es, he, hg⟩ := (W.runSteps_J H {} ss (W.J_empty H) hok).2 id c t hc ht
  ⟨es, he, (W.goodE_facts es hg).1, (W.goodE_facts es hg).2.1⟩

/-- one step, from any state that meets the invariant -/
theorem world_step_index_canonical (H : HashFn) (w : W.World) (i : W.Inv) (hj : W.J H w) (hok : W.StepOK H w i) :
    W.J H (W.run H w i).1 := W.run_J H w i hj hok

end C06

namespace C17

/-- **No `.goit` path ever enters the staging area, after every history**, whatever is on disk, whatever the arguments,
    whatever the stored commits — under the input conditions of `C06.world_index_canonical` -/
theorem world_no_meta (H : HashFn) (ss : List W.Step) (hok : W.StepsOK H {} ss) (es : List Entry)
    (h : (W.runSteps H {} ss).index = some es) : ∀ e ∈ es, ¬ IsMeta e.path :=
  (W.goodE_facts es ((W.runSteps_J H {} ss (W.J_empty H) hok).1 es h)).2.1

end C17

/-- the input conditions are satisfiable by a real history (init, create a file, stage it, delete everything, remove it) -/
example (H : HashFn) : W.StepsOK H {}
    [.cmd ⟨.init, 0, []⟩, .edit [([97], [120]), ([98, 47, 99], [])] [[98]], .cmd ⟨.add [[97], [98]], 0, []⟩,
     .edit [] [], .cmd ⟨.rm [[97]], 0, []⟩, .cmd ⟨.status, 0, []⟩] := by
  refine ⟨trivial, ?_, trivial, trivial, trivial⟩
  intro f hf
  have : f = ([97], [120]) ∨ f = ([98, 47, 99], []) := by simpa using hf
  rcases this with rfl | rfl
  · exact ⟨by unfold TreeBuild.PathOK; decide, by decide, by decide⟩
  · exact ⟨by unfold TreeBuild.PathOK; decide, by decide, by decide⟩
