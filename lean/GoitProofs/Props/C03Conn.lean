import GoitProofs.Props.C10World
import GoitProofs.Props.C03World
import GoitProofs.Props.C02Cmd
import GoitProofs.Props.C01
import GoitProofs.Lemmas.Hex
import GoitProofs.Props.C05Store
set_option linter.unusedSimpArgs false
set_option linter.unusedVariables false

/-! C03 on the whole-repository model, clauses `names`, `branches`, `head`: after **every** history of
    sub-commands (successful, refused, failing half-way)

    * every object file is named by the hash of its content (`Named`),
    * every file in `refs/heads` holds the 40 hex digits of a stored commit that reads back (`BranchesOK`),
    * HEAD is `ref: refs/heads/<b>` on one line and `<b>` exists unless no branch exists yet (`HeadOK`)

    — provided no hash collision happens to the commit object a `commit` stores (`NoClash`: explicit, about
    exactly one object per invocation) and that object is smaller than 2^63 bytes. Writing `HeadOK` down as
    an invariant is what exposed the defect repaired in 2c05b96 (a branch name starting with a line break). -/

namespace W

def Named (H : HashFn) (w : World) : Prop := ∀ id c, aget w.objs id = some c → H.sha c = id

/-- a name `HEAD` can hold on its one line: non-empty, not starting with a line break -/
def LineName (b : Bytes) : Prop := ∃ c rest, b = c :: rest ∧ c ≠ 10

def BranchesOK (H : HashFn) (w : World) : Prop :=
  ∀ b raw, aget w.heads b = some raw → LineName b ∧ ∃ id, raw = hashStr id ∧ (commitAt H w id).isSome = true

def HeadOK (w : World) : Prop :=
  ∃ b, w.head = some (Head.render b) ∧ LineName b ∧ ((∀ n, aget w.heads n = none) ∨ (aget w.heads b).isSome = true)

structure Conn (H : HashFn) (w : World) : Prop where
  named : Named H w
  branches : BranchesOK H w
  head : w.inited = true → HeadOK w
  fresh : w.inited = false → w.heads = []

/-! ### reading monotonically -/

theorem get_mono (H : HashFn) (w w' : World) (h : OL w.objs w'.objs) (id : Bytes) (kd : Kind × Bytes)
    (hg : Store.get H (store w) id = .ok kd) : Store.get H (store w') id = .ok kd := by
  unfold Store.get at *
  by_cases hid : id = []
  · simp [hid] at hg
  · simp only [hid, if_false] at hg ⊢
    cases hs : store w id with
    | none => simp [hs] at hg
    | some c =>
      have : store w' id = some c := h id c hs
      rw [hs] at hg; rw [this]; exact hg

theorem commitAt_mono (H : HashFn) (w w' : World) (h : OL w.objs w'.objs) (id : Bytes) (hc : (commitAt H w id).isSome = true) :
    (commitAt H w' id).isSome = true := by
  unfold commitAt at *
  cases hg : Store.get H (store w) id with
  | ok kd => rw [get_mono H w w' h id kd hg]; rw [hg] at hc; exact hc
  | err => rw [hg] at hc; simp at hc
  | crash => rw [hg] at hc; simp at hc

theorem branchesOK_mono (H : HashFn) (w w' : World) (ho : OL w.objs w'.objs) (hh : w'.heads = w.heads) (hb : BranchesOK H w) :
    BranchesOK H w' := by
  intro b raw h
  rw [hh] at h
  obtain ⟨hl, id, h1, h2⟩ := hb b raw h
  exact ⟨hl, id, h1, commitAt_mono H w w' ho id h2⟩

/-! ### what the start-up load guarantees -/

theorem loadHead_commit (H : HashFn) (w : World) (b id : Bytes) (c : Commit)
    (h : loadHead H w = some (b, some (id, c))) :
    commitAt H w id = some c ∧ ∃ raw, aget w.heads b = some raw ∧ readHash raw = some id := by
  unfold loadHead at h
  cases hw : w.head with
  | none => simp [hw] at h
  | some hd =>
    simp only [hw] at h
    cases hp : Head.parse hd with
    | none => simp [hp] at h
    | some br =>
      simp only [hp] at h
      by_cases hz : List.elem (0 : UInt8) br = true
      · simp only [hz, if_true] at h; cases h
      · simp only [hz, Bool.false_eq_true, if_false] at h
        cases ha : aget w.heads br with
        | none =>
          simp only [ha] at h
          split at h
          · cases h
          · injection h with h; injection h with _ h2; cases h2
        | some raw =>
          simp only [ha] at h
          cases hr : readHash raw with
          | none => simp [hr] at h
          | some id' =>
            simp only [hr] at h
            cases hc' : commitAt H w id' with
            | none => simp [hc'] at h
            | some c' =>
              simp [hc'] at h
              obtain ⟨h1, h2, h3⟩ := h
              subst h1; subst h2; subst h3
              exact ⟨hc', raw, ha, hr⟩

theorem load_headCommit (H : HashFn) (w : World) (l : Loaded) (h : load H w = some l) (id : Bytes) (c : Commit)
    (hc : l.headCommit = some (id, c)) :
    commitAt H w id = some c ∧ ∃ raw, aget w.heads l.ref = some raw ∧ readHash raw = some id := by
  unfold load at h
  split at h
  · rename_i hh _
    injection h with h; subst h
    simp only at hc
    subst hc
    exact loadHead_commit H w _ id c hh
  · contradiction

/-! ### the branch list that was loaded names files that exist -/

theorem bsearch_sound (keys : List Bytes) (x : Bytes) (left right i : Nat) (h : bsearch keys x left right = .found i) :
    keys[i]? = some x := by
  induction left, right using bsearch.induct keys x with
  | case1 l r hlt hnone => rw [bsearch] at h; simp [hlt, hnone] at h
  | case2 l r hlt hsome => rw [bsearch] at h; simp only [hlt, dif_pos, hsome, if_true] at h; cases h; exact hsome
  | case3 l r hlt k hk hne hklt ih => rw [bsearch] at h; simp only [hlt, dif_pos, hk, hne, if_false, hklt, if_true] at h; exact ih h
  | case4 l r hlt k hk hne hklt ih => rw [bsearch] at h; simp only [hlt, dif_pos, hk, hne, if_false, hklt] at h; exact ih h
  | case5 l r hnlt => rw [bsearch] at h; simp [hnlt] at h

theorem exists_sound (h : Refs.Heads) (n : Bytes) (he : Refs.exists_ h n = true) : n ∈ Refs.names h := by
  unfold Refs.exists_ Refs.getBranchPos bsearchTop at he
  split at he
  · rename_i i hf
    split at hf
    · cases hf
    · exact List.mem_of_getElem? (bsearch_sound _ _ _ _ _ hf)
  · cases he

theorem mapM_keys (f : Bytes × Bytes → Option (Bytes × Bytes)) (hf : ∀ p q, f p = some q → q.1 = p.1)
    (xs : List (Bytes × Bytes)) (ys : List (Bytes × Bytes)) (h : xs.mapM f = some ys) : ys.map (·.1) = xs.map (·.1) := by
  induction xs generalizing ys with
  | nil => simp at h; subst h; rfl
  | cons x xs ih =>
    simp only [List.mapM_cons, bind, Option.bind] at h
    cases hx : f x with
    | none => simp [hx] at h
    | some y =>
      simp only [hx] at h
      cases hr : xs.mapM f with
      | none => simp [hr] at h
      | some r =>
        simp only [hr] at h
        cases h
        simp [hf x y hx, ih r hr]

theorem load_names (files : List (Bytes × Bytes)) (refs : Refs.Heads) (h : Refs.load files = some refs) (n : Bytes)
    (hn : n ∈ Refs.names refs) : (aget files n).isSome = true := by
  unfold Refs.load at h
  cases hm : files.mapM (fun (p : Bytes × Bytes) => (readHash p.2).map fun h => (p.1, h)) with
  | none => simp [hm] at h
  | some l =>
    simp only [hm, Option.map_some, Option.some.injEq] at h
    subst h
    have hk := mapM_keys _ (by
      intro p q hq
      cases hr : readHash p.2 with
      | none => simp [hr] at hq
      | some x => simp [hr] at hq; rw [← hq]) files l hm
    have : n ∈ files.map (·.1) := by
      rw [← hk]
      unfold Refs.names Refs.sortHeads at hn
      obtain ⟨p, hp, rfl⟩ := List.mem_map.mp hn
      exact List.mem_map.mpr ⟨p, (List.mergeSort_perm l _).mem_iff.mp hp, rfl⟩
    obtain ⟨p, hp, hpn⟩ := List.mem_map.mp this
    unfold aget
    rw [Option.isSome_map, List.find?_isSome]
    exact ⟨p, hp, by simp [hpn]⟩

theorem load_exists (H : HashFn) (w : World) (l : Loaded) (h : load H w = some l) (n : Bytes)
    (he : Refs.exists_ l.refs n = true) : (aget w.heads n).isSome = true := by
  unfold load at h
  split at h
  · rename_i hr
    injection h with h; subst h
    exact load_names w.heads _ hr n (exists_sound _ n he)
  · contradiction

/-! ### HEAD read back -/

theorem parse_render (b : Bytes) (hb : LineName b) : Head.parse (Head.render b) = some b := by
  obtain ⟨c, rest, rfl, hc⟩ := hb
  have hp : Bytes.hasPrefix (Head.refPrefix ++ c :: rest) Head.refPrefix = true := by
    simp [Head.refPrefix, asc, Bytes.hasPrefix]
  have hd : (Head.refPrefix ++ c :: rest).drop Head.refPrefix.length = c :: rest := by simp
  unfold Head.parse Head.render
  have h1 : Head.isRef (Head.refPrefix ++ c :: rest) = true := by
    have : Head.refPrefix ++ c :: rest = (114 : UInt8) :: ((asc "ef: refs/heads/") ++ c :: rest) := by
      simp [Head.refPrefix, asc]
    rw [this]
    unfold Head.isRef
    rw [← this]
    simp [Head.matchesAt, hp, hd, hc]
  have h2 : Head.afterPrefix (Head.refPrefix ++ c :: rest) = some (c :: rest) := by
    have : Head.refPrefix ++ c :: rest = (114 : UInt8) :: ((asc "ef: refs/heads/") ++ c :: rest) := by
      simp [Head.refPrefix, asc]
    rw [this]
    unfold Head.afterPrefix
    rw [← this]
    simp [hp, hd]
  simp [h1, h2]

theorem headRef_of_headOK (w : World) (b : Bytes) (h : w.head = some (Head.render b)) (hb : LineName b) : headRef w = b := by
  unfold headRef; rw [h]; simp [parse_render b hb]

theorem lineName_of_valid (n : Bytes) (h : Refs.validName n = true) : LineName n := by
  unfold Refs.validName at h
  cases n with
  | nil => simp at h
  | cons c rest =>
    refine ⟨c, rest, rfl, ?_⟩
    intro hc; subst hc
    simp at h

/-! ### building blocks -/

theorem aget_aset_self (l : List (Bytes × Bytes)) (k v : Bytes) : aget (aset l k v) k = some v := by
  unfold aset aget; simp

theorem aget_adel_self (l : List (Bytes × Bytes)) (k : Bytes) : aget (adel l k) k = none := by
  unfold adel aget
  simp only [Option.map_eq_none_iff, List.find?_eq_none, List.mem_filter]
  intro p hp; simp at hp ⊢; exact hp.2

theorem named_of_objs (H : HashFn) (w w' : World) (h : w'.objs = w.objs) (hn : Named H w) : Named H w' := by
  intro id c hc; rw [h] at hc; exact hn id c hc

/-- the branch files after one of them is (re)written with a stored commit -/
theorem branchesOK_aset (H : HashFn) (w w' : World) (hb : BranchesOK H w) (ho : OL w.objs w'.objs)
    (n id : Bytes) (hh : w'.heads = aset w.heads n (hashStr id)) (hn : LineName n)
    (hc : (commitAt H w' id).isSome = true) : BranchesOK H w' := by
  intro b raw h
  rw [hh] at h
  by_cases hbn : b = n
  · subst hbn
    rw [aget_aset_self] at h
    injection h with h
    exact ⟨hn, id, h.symm, hc⟩
  · rw [aget_aset_ne _ _ _ _ hbn] at h
    obtain ⟨hl, i, h1, h2⟩ := hb b raw h
    exact ⟨hl, i, h1, commitAt_mono H w w' ho i h2⟩

theorem branchesOK_adel (H : HashFn) (w w' : World) (hb : BranchesOK H w) (ho : OL w.objs w'.objs)
    (n : Bytes) (hh : w'.heads = adel w.heads n) : BranchesOK H w' := by
  intro b raw h
  rw [hh] at h
  by_cases hbn : b = n
  · subst hbn; rw [aget_adel_self] at h; cases h
  · rw [aget_adel_ne _ _ _ hbn] at h
    obtain ⟨hl, i, h1, h2⟩ := hb b raw h
    exact ⟨hl, i, h1, commitAt_mono H w w' ho i h2⟩

theorem OL_of_eq {w w' : World} (h : w'.objs = w.objs) : OL w.objs w'.objs := by rw [h]; exact OL.refl _

/-! ### reference steps: the four ways a sub-command changes `refs/heads` and `HEAD` -/

inductive RefStep (H : HashFn) : World → World → Prop where
  | same {w w' : World} (ho : OL w.objs w'.objs) (hh : w'.heads = w.heads) (hd : w'.head = w.head) : RefStep H w w'
  | setBranch {w w' : World} (n id : Bytes) (ho : OL w.objs w'.objs) (hn : LineName n)
      (hc : (commitAt H w' id).isSome = true) (hpre : n = headRef w ∨ (aget w.heads (headRef w)).isSome = true)
      (hh : w'.heads = aset w.heads n (hashStr id)) (hd : w'.head = w.head) : RefStep H w w'
  | delBranch {w w' : World} (n : Bytes) (ho : OL w.objs w'.objs) (hne : n ≠ headRef w)
      (hh : w'.heads = adel w.heads n) (hd : w'.head = w.head) : RefStep H w w'
  | setHead {w w' : World} (n : Bytes) (ho : OL w.objs w'.objs) (hk : (aget w.heads n).isSome = true)
      (hh : w'.heads = w.heads) (hd : w'.head = some (Head.render n)) : RefStep H w w'
  | trans {a b c : World} : RefStep H a b → RefStep H b c → RefStep H a c

theorem RefStep.ol {H : HashFn} {w w' : World} (h : RefStep H w w') : OL w.objs w'.objs := by
  induction h with
  | same ho _ _ => exact ho
  | setBranch _ _ ho _ _ _ _ _ => exact ho
  | delBranch _ ho _ _ _ => exact ho
  | setHead _ ho _ _ _ => exact ho
  | trans _ _ ih1 ih2 => exact ih1.trans ih2

/-- reference steps keep the branch files and HEAD connected -/
theorem RefStep.keeps {H : HashFn} {w w' : World} (h : RefStep H w w') (hb : BranchesOK H w) (hh : HeadOK w) :
    BranchesOK H w' ∧ HeadOK w' := by
  induction h with
  | same ho hhs hd =>
    refine ⟨branchesOK_mono H _ _ ho hhs hb, ?_⟩
    obtain ⟨b, h1, h2, h3⟩ := hh
    exact ⟨b, by rw [hd]; exact h1, h2, by rw [hhs]; exact h3⟩
  | @setBranch w w' n id ho hn hc hpre hhs hd =>
    refine ⟨branchesOK_aset H w w' hb ho n id hhs hn hc, ?_⟩
    obtain ⟨b, h1, h2, h3⟩ := hh
    have hr : headRef w = b := headRef_of_headOK w b h1 h2
    refine ⟨b, by rw [hd]; exact h1, h2, Or.inr ?_⟩
    rw [hhs]
    by_cases hbn : b = n
    · subst hbn; simp [aget_aset_self]
    · rw [aget_aset_ne _ _ _ _ hbn]
      rcases hpre with hp | hp
      · exact absurd (hr ▸ hp.symm) hbn
      · rw [hr] at hp; exact hp
  | @delBranch w w' n ho hne hhs hd =>
    refine ⟨branchesOK_adel H w w' hb ho n hhs, ?_⟩
    obtain ⟨b, h1, h2, h3⟩ := hh
    have hr : headRef w = b := headRef_of_headOK w b h1 h2
    refine ⟨b, by rw [hd]; exact h1, h2, ?_⟩
    rw [hhs]
    have hbn : b ≠ n := fun e => hne (by rw [hr]; exact e.symm)
    rcases h3 with h3 | h3
    · left; intro m
      by_cases hm : m = n
      · subst hm; exact aget_adel_self _ _
      · rw [aget_adel_ne _ _ _ hm]; exact h3 m
    · right; rw [aget_adel_ne _ _ _ hbn]; exact h3
  | @setHead w w' n ho hk hhs hd =>
    refine ⟨branchesOK_mono H _ _ ho hhs hb, ?_⟩
    cases hg : aget w.heads n with
    | none => rw [hg] at hk; simp at hk
    | some raw => exact ⟨n, hd, (hb n raw hg).1, Or.inr (by rw [hhs, hg]; rfl)⟩
  | trans _ _ ih1 ih2 =>
    obtain ⟨b1, h1⟩ := ih1 hb hh
    exact ih2 b1 h1

/-! ### each reference-moving sub-command is a chain of reference steps -/

theorem RefStep.rfl' (H : HashFn) (w : World) : RefStep H w w := RefStep.same (OL.refl _) rfl rfl

theorem add_ok_valid (h : Refs.Heads) (n id : Bytes) (a : Refs.Heads) (hadd : Refs.add h n id = .ok a) : Refs.validName n = true := by
  unfold Refs.add at hadd
  split at hadd
  · cases hadd
  · rename_i hv; simpa using hv

theorem headBranch_exists (H : HashFn) (w : World) (l : Loaded) (hl : load H w = some l) (id : Bytes) (c : Commit)
    (hc : l.headCommit = some (id, c)) : (aget w.heads (headRef w)).isSome = true := by
  obtain ⟨_, raw, hr, _⟩ := load_headCommit H w l hl id c hc
  rw [← load_ref H w l hl, hr]; rfl

theorem rename_ok_facts (h : Refs.Heads) (cur new : Bytes) (a : Refs.Heads) (hr : Refs.rename h cur new = .ok a) :
    Refs.validName new = true ∧ cur ≠ new := by
  unfold Refs.rename at hr
  split at hr
  · cases hr
  · rename_i hv
    refine ⟨by simpa using hv, ?_⟩
    intro e; subst e
    cases hp : Refs.getBranchPos h cur with
    | crash => simp [hp] at hr
    | found i => simp [hp] at hr
    | notFound => simp [hp] at hr

theorem delete_ok_ne (h : Refs.Heads) (cur del : Bytes) (a : Refs.Heads) (hd : Refs.delete h cur del = .ok a) : del ≠ cur := by
  unfold Refs.delete at hd
  split at hd
  · cases hd
  · rename_i hne; exact hne

theorem switchTo_refstep (H : HashFn) (w : World) (l : Loaded) (hl : load H w = some l) (n : Bytes) (tz : Int) (ts : List Int) :
    RefStep H w (switchTo H w l n tz ts).1 := by
  unfold switchTo
  by_cases hx : (!Refs.exists_ l.refs n || w.head.isNone) = true
  · simp only [hx, if_true]; exact RefStep.rfl' H w
  · simp only [hx, if_false]
    cases hlk : ((Refs.lookup l.refs n).bind fun id => (commitAt H w id).map fun _ => id) with
    | none => exact RefStep.rfl' H w
    | some id =>
      dsimp only
      have hex : Refs.exists_ l.refs n = true := by
        cases he : Refs.exists_ l.refs n <;> simp_all
      exact RefStep.setHead n (OL.refl _) (load_exists H w l hl n hex) rfl rfl

theorem switchCreate_refstep (H : HashFn) (w : World) (l : Loaded) (hl : load H w = some l) (create : Bytes) (tz : Int) (ts : List Int) :
    RefStep H w (switchCreate w l create tz ts).1 := by
  unfold switchCreate
  cases hhc : l.headCommit with
  | none => exact RefStep.rfl' H w
  | some ic =>
    obtain ⟨id, c⟩ := ic
    dsimp only
    cases hadd : Refs.add l.refs create id with
    | err => exact RefStep.rfl' H w
    | crash => exact RefStep.rfl' H w
    | ok a =>
      dsimp only
      by_cases hhn : w.head.isNone = true
      · simp only [hhn, if_true]; exact RefStep.rfl' H w
      · simp only [hhn, if_false]
        have hca := (load_headCommit H w l hl id c hhc).1
        have hval := lineName_of_valid create (add_ok_valid _ _ _ _ hadd)
        refine RefStep.trans (b := { w with heads := aset w.heads create (hashStr id) })
          (RefStep.setBranch create id (OL.refl _) hval ?_ (Or.inr (headBranch_exists H w l hl id c hhc)) rfl rfl)
          (RefStep.setHead create (OL.refl _) (by simp [aget_aset_self]) rfl rfl)
        show (commitAt H { w with heads := aset w.heads create (hashStr id) } id).isSome = true
        have : commitAt H { w with heads := aset w.heads create (hashStr id) } id = commitAt H w id := rfl
        rw [this, hca]; rfl

theorem switchCmd_refstep (H : HashFn) (w : World) (l : Loaded) (hl : load H w = some l) (args : List Bytes) (create : Bytes)
    (tz : Int) (ts : List Int) : RefStep H w (switchCmd H w l args create tz ts).1 := by
  unfold switchCmd
  repeat' split
  all_goals first | exact RefStep.rfl' H w | exact switchTo_refstep H w l hl _ tz ts | exact switchCreate_refstep H w l hl _ tz ts

theorem branchCreate_refstep (H : HashFn) (w : World) (l : Loaded) (hl : load H w = some l) (n : Bytes) (tz : Int) (ts : List Int) :
    RefStep H w (branchCreate w l n tz ts).1 := by
  unfold branchCreate
  cases hhc : l.headCommit with
  | none => exact RefStep.rfl' H w
  | some ic =>
    obtain ⟨id, c⟩ := ic
    dsimp only
    cases hadd : Refs.add l.refs n id with
    | err => exact RefStep.rfl' H w
    | crash => exact RefStep.rfl' H w
    | ok a =>
      dsimp only
      have hca := (load_headCommit H w l hl id c hhc).1
      refine RefStep.setBranch n id (OL.refl _) (lineName_of_valid n (add_ok_valid _ _ _ _ hadd)) ?_
        (Or.inr (headBranch_exists H w l hl id c hhc)) rfl rfl
      show (commitAt H w id).isSome = true
      rw [hca]; rfl

theorem branchDelete_refstep (H : HashFn) (w : World) (l : Loaded) (hl : load H w = some l) (del : Bytes) :
    RefStep H w (branchDelete w l del).1 := by
  unfold branchDelete
  cases hd : Refs.delete l.refs l.ref del with
  | err => exact RefStep.rfl' H w
  | crash => exact RefStep.rfl' H w
  | ok a =>
    dsimp only
    by_cases hlg : (aget w.logHeads del).isNone = true
    · simp only [hlg, if_true]; exact RefStep.rfl' H w
    · simp only [hlg, if_false]
      refine RefStep.delBranch del (OL.refl _) ?_ rfl rfl
      rw [← load_ref H w l hl]
      exact delete_ok_ne _ _ _ _ hd

theorem branchRename_refstep (H : HashFn) (w : World) (l : Loaded) (hl : load H w = some l) (ren : Bytes) (tz : Int) (ts : List Int) :
    RefStep H w (branchRename w l ren tz ts).1 := by
  unfold branchRename
  cases hr : Refs.rename l.refs l.ref ren with
  | err => exact RefStep.rfl' H w
  | crash => exact RefStep.rfl' H w
  | ok a =>
    cases hhc : l.headCommit with
    | none => exact RefStep.rfl' H w
    | some ic =>
      obtain ⟨id, c⟩ := ic
      dsimp only
      by_cases hx : (w.head.isNone || (aget w.logHeads l.ref).isNone) = true
      · simp only [hx, if_true]; exact RefStep.rfl' H w
      · simp only [hx, if_false]
        obtain ⟨hval, hne⟩ := rename_ok_facts _ _ _ _ hr
        have hln := lineName_of_valid ren hval
        have hca := (load_headCommit H w l hl id c hhc).1
        -- new file, then HEAD, then the old file goes
        refine RefStep.trans (b := { w with heads := aset w.heads ren (hashStr id) })
          (RefStep.setBranch ren id (OL.refl _) hln ?_ (Or.inr (headBranch_exists H w l hl id c hhc)) rfl rfl) ?_
        · show (commitAt H w id).isSome = true
          rw [hca]; rfl
        · refine RefStep.trans (b := setHead { w with heads := aset w.heads ren (hashStr id) } ren)
            (RefStep.setHead ren (OL.refl _) (by simp [aget_aset_self]) rfl rfl) ?_
          refine RefStep.delBranch l.ref (OL.refl _) ?_ rfl rfl
          have : headRef (setHead { w with heads := aset w.heads ren (hashStr id) } ren) = ren :=
            headRef_of_headOK _ ren rfl hln
          rw [this]; exact hne

theorem branchCmd_refstep (H : HashFn) (w : World) (l : Loaded) (hl : load H w = some l) (args : List Bytes) (list : Bool)
    (ren del : Bytes) (tz : Int) (ts : List Int) : RefStep H w (branchCmd w l args list ren del tz ts).1 := by
  unfold branchCmd
  dsimp only
  repeat' split
  all_goals first
    | exact RefStep.rfl' H w | exact branchCreate_refstep H w l hl _ tz ts | exact branchRename_refstep H w l hl _ tz ts
    | exact branchDelete_refstep H w l hl _

theorem updateRefTo_refstep (H : HashFn) (w : World) (l : Loaded) (hl : load H w = some l) (b id d : Bytes)
    (hg : Store.get H (store w) id = .ok (.commit, d)) (hhd : w.head.isNone = false) (hbr : BranchesOK H w) (hho : HeadOK w) :
    RefStep H w (updateRefTo w l b id d).1 := by
  unfold updateRefTo
  by_cases hx : (!Refs.exists_ l.refs b) = true
  · simp only [hx, if_true]; exact RefStep.rfl' H w
  · simp only [hx, if_false, hhd, Bool.false_eq_true]
    by_cases hp : (Commit.parse d).isNone = true
    · simp only [hp, if_true]; exact RefStep.rfl' H w
    · simp only [hp, if_false]
      have hex : Refs.exists_ l.refs b = true := by cases he : Refs.exists_ l.refs b <;> simp_all
      have hk := load_exists H w l hl b hex
      cases hgb : aget w.heads b with
      | none => rw [hgb] at hk; simp at hk
      | some raw =>
        have hln := (hbr b raw hgb).1
        -- some branch exists, so HEAD's branch exists
        obtain ⟨hb0, hh1, hh2, hh3⟩ := hho
        have hr : headRef w = hb0 := headRef_of_headOK w hb0 hh1 hh2
        have hpre : (aget w.heads (headRef w)).isSome = true := by
          rcases hh3 with h3 | h3
          · rw [h3 b] at hgb; cases hgb
          · rw [hr]; exact h3
        refine RefStep.trans (b := { w with heads := aset w.heads b (hashStr id) })
          (RefStep.setBranch b id (OL.refl _) hln ?_ (Or.inr hpre) rfl rfl)
          (RefStep.setHead b (OL.refl _) (by simp [aget_aset_self]) rfl rfl)
        show (commitAt H w id).isSome = true
        unfold commitAt
        rw [hg]
        cases hpp : Commit.parse d with
        | none => simp [hpp] at hp
        | some c => simp [hpp]

theorem updateRefCmd_refstep (H : HashFn) (w : World) (l : Loaded) (hl : load H w = some l) (args : List Bytes)
    (hhd : w.head.isNone = false) (hbr : BranchesOK H w) (hho : HeadOK w) : RefStep H w (updateRefCmd H w l args).1 := by
  unfold updateRefCmd
  repeat' split
  all_goals first | exact RefStep.rfl' H w | exact updateRefTo_refstep H w l hl _ _ _ (by assumption) hhd hbr hho

theorem resetTo_refstep (H : HashFn) (w : World) (l : Loaded) (hl : load H w = some l) (s h : Bool) (arg t prev : Bytes)
    (tz : Int) (ts : List Int) (hln : LineName l.ref) : RefStep H w (resetTo H w l s h arg t prev tz ts).1 := by
  have key : ∀ w' : World, w'.objs = w.objs → w'.heads = aset w.heads l.ref (hashStr t) → w'.head = w.head →
      (commitAt H w t).isSome = true → RefStep H w w' := by
    intro w' ho hh hd hc
    refine RefStep.setBranch l.ref t (OL_of_eq ho) hln ?_ (Or.inl (load_ref H w l hl)) hh hd
    have : commitAt H w' t = commitAt H w t := by unfold commitAt store; rw [ho]
    rw [this]; exact hc
  unfold resetTo
  cases hc : commitAt H w t with
  | none => exact RefStep.rfl' H w
  | some c =>
    have hc' : (commitAt H w t).isSome = true := by rw [hc]; rfl
    dsimp only
    repeat' split
    all_goals (apply key <;> first | exact hc' | simp [appendLogHead, appendLogBranch, writeEntries_objs', writeEntries_heads', writeEntries_head'])

theorem resetCmd_refstep (H : HashFn) (w : World) (l : Loaded) (hl : load H w = some l) (s m h : Bool) (args : List Bytes)
    (tz : Int) (ts : List Int) (hln : LineName l.ref) : RefStep H w (resetCmd H w l s m h args tz ts).1 := by
  unfold resetCmd
  repeat' split
  all_goals first | exact RefStep.rfl' H w | exact resetTo_refstep H w l hl _ _ _ _ _ tz ts hln

/-! ### `commit` -/

theorem named_putObj (H : HashFn) (w : World) (id c : Bytes) (hn : Named H w) (h : H.sha c = id) : Named H (putObj w id c) := by
  intro i x hx
  unfold putObj at hx
  split at hx
  · exact hn i x hx
  · simp only [aget_cons] at hx
    split at hx
    · rename_i he
      have : id = i := by simpa using he
      injection hx with hx; subst hx; subst this; exact h
    · exact hn i x hx

theorem named_putObjs (H : HashFn) (w : World) (os : List (Bytes × Bytes)) (hn : Named H w) (h : ∀ p ∈ os, H.sha p.2 = p.1) :
    Named H (putObjs w os) := by
  unfold putObjs
  induction os generalizing w with
  | nil => exact hn
  | cons o os ih =>
    simp only [List.foldl_cons]
    exact ih _ (named_putObj H w o.1 o.2 hn (h o List.mem_cons_self)) (fun p hp => h p (List.mem_cons_of_mem _ hp))

theorem named_putBlobs (H : HashFn) (w : World) (ds : List Bytes) (hn : Named H w) : Named H (ds.foldl (putBlob H) w) := by
  induction ds generalizing w with
  | nil => exact hn
  | cons d ds ih => simp only [List.foldl_cons]; exact ih _ (named_putObj H w _ _ hn rfl)

theorem named_trees (H : HashFn) (w : World) (es : List Entry) (hn : Named H w) :
    Named H (putObjs w (TreeBuild.writeTree H es).writes.reverse) := by
  apply named_putObjs H w _ hn
  intro p hp
  have := C05.writes_id_eq H (TreeBuild.fuelFor es) es p (by simpa [TreeBuild.writeTree] using hp)
  exact this.symm

/-- the commit object does not meet a stored object of other content under its id, and has a sane size -/
def CommitFits (w0 : World) (id data : Bytes) : Prop :=
  (∀ c0, aget w0.objs id = some c0 → c0 = Obj.encode .commit data) ∧ data.length ≤ Fmt.int64Max

theorem commitAt_putObj (H : HashFn) (w0 : World) (id data : Bytes) (hid : id = Obj.id H .commit data)
    (hp : (Commit.parse data).isSome = true) (hfit : CommitFits w0 id data) :
    (commitAt H (putObj w0 id (Obj.encode .commit data)) id).isSome = true := by
  have hget : aget (putObj w0 id (Obj.encode .commit data)).objs id = some (Obj.encode .commit data) := by
    unfold putObj
    split
    · rename_i hs
      cases hc : aget w0.objs id with
      | none => rw [hc] at hs; simp at hs
      | some c0 => rw [hfit.1 c0 hc]
    · simp [aget_cons]
  have hne : id ≠ [] := by
    intro e
    have := H.len20 (Obj.encode .commit data)
    rw [hid] at e; unfold Obj.id at e; rw [e] at this; simp at this
  unfold commitAt Store.get store
  simp only [hne, if_false, hget]
  rw [C01.decode_encode .commit data (by decide) hfit.2]
  have hs : H.sha (Obj.encode .commit data) = id := by rw [hid]; rfl
  simp only [hs, if_true]
  exact hp

theorem commitWrite_refstep (H : HashFn) (w : World) (l : Loaded) (hl : load H w = some l) (id data msg : Bytes) (tz : Int) (ts : List Int)
    (hid : id = Obj.id H .commit data) (hp : (Commit.parse data).isSome = true)
    (hfit : CommitFits (putObjs w (TreeBuild.writeTree H l.idx).writes.reverse) id data) (hho : HeadOK w) :
    RefStep H w (commitWrite H w l id data msg tz ts).1 := by
  obtain ⟨b, hh1, hh2, _⟩ := hho
  have hr : l.ref = b := by rw [load_ref H w l hl]; exact headRef_of_headOK w b hh1 hh2
  have hol : OL w.objs (putObj (putObjs w (TreeBuild.writeTree H l.idx).writes.reverse) id (Obj.encode .commit data)).objs :=
    (putObjs_le w _).trans (putObj_le _ _ _)
  unfold commitWrite
  dsimp only
  by_cases hx : (!Refs.exists_ l.refs l.ref && !Refs.validName l.ref) = true
  · simp only [hx, if_true]
    exact RefStep.same hol (by simp [putObj_heads', putObjs_heads']) (by simp [putObj_head', putObjs_head'])
  · simp only [hx, if_false]
    have hhead : (putObj (putObjs w (TreeBuild.writeTree H l.idx).writes.reverse) id (Obj.encode .commit data)).head = w.head := by
      simp [putObj_head', putObjs_head']
    have hnn : ¬ (w.head.isNone = true) := by simp [hh1]
    simp only [hnn, if_false]
    refine RefStep.setBranch l.ref id ?_ (hr ▸ hh2) ?_ (Or.inl (load_ref H w l hl)) ?_ ?_
    · simpa [setHead, appendLogBranch, appendLogHead] using hol
    · have hc := commitAt_putObj H _ id data hid hp hfit
      unfold commitAt store at hc ⊢
      simpa [setHead, appendLogBranch, appendLogHead] using hc
    · simp [setHead, appendLogBranch, appendLogHead, putObj_heads', putObjs_heads']
    · simp [setHead, appendLogBranch, appendLogHead, hh1, hr]

/-- the commit object an invocation makes, if it is a `commit` that gets that far -/
def commitObject (H : HashFn) (w : World) (i : Inv) : Option (Bytes × Bytes) :=
  match i.cmd, load H w with
  | .commit msg, some l =>
    match (if l.headCommit.isNone then (Res.ok none : Res (Option (List Entry))) else (headSnap H w l).map some) with
    | .ok snap =>
      match Cmds.commitCmd H (commitIn w l snap msg i.tz (clock i.ts 0)) with
      | .ok p => some p
      | _ => none
    | _ => none
  | _, _ => none

/-- **No collision for the one object that matters**: the commit object this invocation makes (if any) does not
    find, under its id, a stored object with other content, and is smaller than 2^63 bytes -/
def NoClash (H : HashFn) (w : World) (i : Inv) : Prop :=
  ∀ id data l, commitObject H w i = some (id, data) → load H w = some l →
    CommitFits (putObjs w (TreeBuild.writeTree H l.idx).writes.reverse) id data

theorem commitCmd_refstep (H : HashFn) (w : World) (l : Loaded) (hl : load H w = some l) (msg : Bytes) (tz : Int) (ts : List Int)
    (hho : HeadOK w) (hnc : NoClash H w ⟨.commit msg, tz, ts⟩) : RefStep H w (commitCmd H w l msg tz ts).1 := by
  unfold commitCmd
  dsimp only
  cases hs : (if l.headCommit.isNone = true then (Res.ok none : Res (Option (List Entry))) else (headSnap H w l).map some) with
  | crash => exact RefStep.rfl' H w
  | err => dsimp only; split <;> exact RefStep.rfl' H w
  | ok snap =>
    dsimp only
    cases hcc : Cmds.commitCmd H (commitIn w l snap msg tz (clock ts 0)) with
    | crash => exact RefStep.rfl' H w
    | err =>
      dsimp only
      split
      · exact RefStep.same (putObjs_le w _) (by simp [putObjs_heads']) (by simp [putObjs_head'])
      · exact RefStep.rfl' H w
    | ok p =>
      obtain ⟨id, data⟩ := p
      dsimp only
      obtain ⟨_, _, _, _, _, _, hid, hp, _, _⟩ := C02.commitCmd_ok H _ id data hcc
      have hco : commitObject H w ⟨.commit msg, tz, ts⟩ = some (id, data) := by
        unfold commitObject
        simp only [hl, hs, hcc]
      exact commitWrite_refstep H w l hl id data msg tz ts hid hp (hnc id data l hco hl) hho

/-! ### every invocation -/

theorem conn_init (H : HashFn) (w : World) (hc : Conn H w) (hi : w.inited = false) : Conn H (initCmd w).1 := by
  unfold initCmd
  repeat' split
  all_goals first | exact hc | skip
  refine ⟨hc.named, ?_, ?_, ?_⟩
  · intro b raw h
    have : w.heads = [] := hc.fresh hi
    simp [this, aget] at h
  · intro _
    refine ⟨asc "main", rfl, ⟨109, asc "ain", rfl, by decide⟩, Or.inl ?_⟩
    intro n
    have : w.heads = [] := hc.fresh hi
    simp [this, aget]
  · intro h; simp at h

theorem commitWrite_named (H : HashFn) (w : World) (l : Loaded) (id data msg : Bytes) (tz : Int) (ts : List Int)
    (hn : Named H w) (hid : id = Obj.id H .commit data) : Named H (commitWrite H w l id data msg tz ts).1 := by
  have h1 : Named H (putObj (putObjs w (TreeBuild.writeTree H l.idx).writes.reverse) id (Obj.encode .commit data)) :=
    named_putObj H _ _ _ (named_trees H w _ hn) (by rw [hid]; rfl)
  unfold commitWrite; dsimp only
  repeat' split
  all_goals first
    | exact h1
    | exact named_of_objs H _ _ (by simp [setHead, appendLogHead, appendLogBranch]) h1

theorem commitCmd_named (H : HashFn) (w : World) (l : Loaded) (msg : Bytes) (tz : Int) (ts : List Int) (hn : Named H w) :
    Named H (commitCmd H w l msg tz ts).1 := by
  unfold commitCmd; dsimp only
  cases hs : (if l.headCommit.isNone = true then (Res.ok none : Res (Option (List Entry))) else (headSnap H w l).map some) with
  | crash => exact hn
  | err => dsimp only; split <;> exact hn
  | ok snap =>
    dsimp only
    cases hcc : Cmds.commitCmd H (commitIn w l snap msg tz (clock ts 0)) with
    | crash => exact hn
    | err => dsimp only; split <;> first | exact hn | exact named_trees H w _ hn
    | ok p =>
      obtain ⟨id, data⟩ := p
      obtain ⟨_, _, _, _, _, _, hid, _, _, _⟩ := C02.commitCmd_ok H _ id data hcc
      exact commitWrite_named H w l id data msg tz ts hn hid

theorem addCmd_named (H : HashFn) (w : World) (l : Loaded) (args : List Bytes) (hn : Named H w) : Named H (addCmd H w l args).1 := by
  unfold addCmd; dsimp only
  repeat' split
  all_goals first
    | exact hn
    | exact named_of_objs H _ _ (setIndexIfChanged_objs' _ _ _) (named_putBlobs H w _ hn)

theorem run_named (H : HashFn) (w : World) (i : Inv) (hn : Named H w) : Named H (run H w i).1 := by
  obtain ⟨cmd, tz, ts⟩ := i
  cases cmd with
  | add args =>
    (unfold run; dsimp only; repeat' split) <;> first | exact hn | exact addCmd_named H w _ _ hn
  | commit msg =>
    (unfold run; dsimp only; repeat' split) <;> first | exact hn | exact commitCmd_named H w _ _ tz ts hn
  | writeTree =>
    (unfold run; dsimp only; repeat' split) <;> first | exact hn | exact named_trees H w _ hn
  | restore st a => exact named_of_objs H w _ (frame H w ⟨_, tz, ts⟩ .objs (by cases st <;> simp [mayTouch])) hn
  | config g a => exact named_of_objs H w _ (frame H w ⟨_, tz, ts⟩ .objs (by cases g <;> simp [mayTouch])) hn
  | _ => exact named_of_objs H w _ (frame H w ⟨_, tz, ts⟩ .objs (by simp [mayTouch])) hn

theorem run_refstep (H : HashFn) (w : World) (i : Inv) (hc : Conn H w) (hi : w.inited = true) (hnc : NoClash H w i) :
    RefStep H w (run H w i).1 := by
  have hho := hc.head hi
  have hhd : w.head.isNone = false := by obtain ⟨b, h1, _⟩ := hho; rw [h1]; rfl
  obtain ⟨cmd, tz, ts⟩ := i
  have other : Field.heads ∉ mayTouch cmd → Field.head ∉ mayTouch cmd → RefStep H w (run H w ⟨cmd, tz, ts⟩).1 := by
    intro h1 h2
    exact RefStep.same (run_grows H w ⟨cmd, tz, ts⟩).1 (frame H w ⟨cmd, tz, ts⟩ .heads h1) (frame H w ⟨cmd, tz, ts⟩ .head h2)
  cases cmd with
  | init => (unfold run; dsimp only; repeat' split) <;> first | exact RefStep.rfl' H w | simp_all
  | commit msg =>
    (unfold run; dsimp only; repeat' split) <;>
      first | exact RefStep.rfl' H w | exact commitCmd_refstep H w _ (by assumption) msg tz ts hho hnc
  | branch args list ren del =>
    (unfold run; dsimp only; repeat' split) <;>
      first | exact RefStep.rfl' H w | exact branchCmd_refstep H w _ (by assumption) _ _ _ _ tz ts
  | switch args create =>
    (unfold run; dsimp only; repeat' split) <;>
      first | exact RefStep.rfl' H w | exact switchCmd_refstep H w _ (by assumption) _ _ tz ts
  | updateRef args =>
    (unfold run; dsimp only; repeat' split) <;>
      first | exact RefStep.rfl' H w | exact updateRefCmd_refstep H w _ (by assumption) _ hhd hc.branches hho
  | reset s m h args =>
    (unfold run; dsimp only; repeat' split) <;>
      first
      | exact RefStep.rfl' H w
      | (rename_i l hl
         obtain ⟨b, hh1, hh2, _⟩ := hho
         have hr : l.ref = b := by rw [load_ref H w l hl]; exact headRef_of_headOK w b hh1 hh2
         exact resetCmd_refstep H w l hl _ _ _ _ tz ts (hr ▸ hh2))
  | restore st a => exact other (by cases st <;> simp [mayTouch]) (by cases st <;> simp [mayTouch])
  | config g a => exact other (by cases g <;> simp [mayTouch]) (by cases g <;> simp [mayTouch])
  | _ => exact other (by simp [mayTouch]) (by simp [mayTouch])

theorem inited_untouched (cmd : Cmd) (h : cmd ≠ .init) : Field.inited ∉ mayTouch cmd := by
  cases cmd with
  | init => exact absurd rfl h
  | restore st a => cases st <;> simp [mayTouch]
  | config g a => cases g <;> simp [mayTouch]
  | _ => simp [mayTouch]

theorem run_inited (H : HashFn) (w : World) (i : Inv) (hi : w.inited = true) : (run H w i).1.inited = true := by
  obtain ⟨cmd, tz, ts⟩ := i
  by_cases hc : cmd = .init
  · subst hc
    (unfold run; dsimp only; repeat' split) <;> first | exact hi | simp_all
  · have := frame H w ⟨cmd, tz, ts⟩ .inited (inited_untouched cmd hc)
    simp only [fieldEq] at this
    rw [this, hi]

/-- **One invocation keeps the repository connected** (names, branches, HEAD) -/
theorem run_conn (H : HashFn) (w : World) (i : Inv) (hc : Conn H w) (hnc : NoClash H w i) : Conn H (run H w i).1 := by
  by_cases hi : w.inited = true
  · have hstep := run_refstep H w i hc hi hnc
    obtain ⟨hb, hh⟩ := hstep.keeps hc.branches (hc.head hi)
    have hin : (run H w i).1.inited = true := run_inited H w i hi
    exact ⟨run_named H w i hc.named, hb, fun _ => hh, fun h => by rw [hin] at h; cases h⟩
  · have hi' : w.inited = false := by cases h : w.inited <;> simp_all
    (unfold run; dsimp only; repeat' split) <;> first | exact hc | exact conn_init H w hc hi' | simp_all

/-- every step of the history is free of the one collision that matters -/
def NoClashAll (H : HashFn) : World → List Inv → Prop
  | _, [] => True
  | w, i :: is => NoClash H w i ∧ NoClashAll H (run H w i).1 is

theorem runAll_conn (H : HashFn) (w : World) (is : List Inv) (hc : Conn H w) (hnc : NoClashAll H w is) : Conn H (runAll H w is) := by
  unfold runAll
  induction is generalizing w with
  | nil => exact hc
  | cons i is ih => simp only [List.foldl_cons]; exact ih _ (run_conn H w i hc hnc.1) hnc.2

theorem conn_empty (H : HashFn) : Conn H {} :=
  ⟨fun id c h => by simp [aget] at h, fun b raw h => by simp [aget] at h, fun h => by simp at h, fun _ => rfl⟩

end W

namespace C03

/-- **Connectivity of the reference side, for every history of the whole-repository model** (clauses `names`,
    `branches`, `head`): starting from an empty directory, after any sequence of invocations — successful,
    refused or failing half-way — every object file is named by the hash of its content, every file in
    `refs/heads` holds the hex id of a stored commit object that reads back, and HEAD is a one-line
    `ref: refs/heads/<b>` whose branch exists unless no branch exists at all. The only hypothesis is that no
    commit object made along the way collides with a stored object of other content (and is below 2^63 bytes). -/
theorem world_connected (H : HashFn) (is : List W.Inv) (hnc : W.NoClashAll H {} is) : W.Conn H (W.runAll H {} is) :=
  W.runAll_conn H {} is (W.conn_empty H) hnc

/-- the same from any connected state (one step) -/
theorem world_step_connected (H : HashFn) (w : W.World) (i : W.Inv) (hc : W.Conn H w) (hnc : W.NoClash H w i) :
    W.Conn H (W.run H w i).1 := W.run_conn H w i hc hnc

end C03

namespace C03

/-- a history without `commit` meets the hypothesis outright -/
theorem noClash_of_not_commit (H : HashFn) (w : W.World) (i : W.Inv) (h : ∀ m, i.cmd ≠ .commit m) : W.NoClash H w i := by
  intro id data l hco _
  unfold W.commitObject at hco
  cases hc : i.cmd with
  | commit m => exact absurd hc (h m)
  | _ => simp [hc] at hco

/-- non-vacuity: `init` then `add f` from the empty directory is such a history, and its result is not trivial
    (one stored blob, HEAD set) -/
example :
    let is : List W.Inv := [⟨.init, 0, []⟩]
    W.NoClashAll sha1Fn {} is ∧ (W.runAll sha1Fn {} is).head = some (asc "ref: refs/heads/main") := by
  refine ⟨⟨noClash_of_not_commit _ _ _ (by intro m h; cases h), trivial⟩, by decide⟩

end C03
