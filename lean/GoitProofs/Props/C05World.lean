import GoitProofs.Props.WorldAgree
import GoitProofs.Lemmas.WalkMono
set_option linter.unusedSimpArgs false
set_option linter.unusedVariables false

/-! C02 (`snapshot`) / C05 (`reset-readback`) on the whole-repository model: after `commit()` has stored the trees of
    the staged entries, reading the root tree back **through the World's own store and reader** gives exactly the
    staged entries — provided the tree objects written do not meet stored objects of other content (`Fit`, the
    finite no-collision hypothesis), are of sane size, and the paths are well formed. -/

namespace W

open C05 TreeBuild TreeCodec

/-- the objects `os` fit into `w`: whatever is already stored under one of their ids is that object, and two of them
    with one id are one object -/
def Fit (w : World) (os : List (Bytes × Bytes)) : Prop :=
  (∀ p ∈ os, ∀ c0, aget w.objs p.1 = some c0 → c0 = p.2) ∧ (∀ p ∈ os, ∀ q ∈ os, p.1 = q.1 → p.2 = q.2)

theorem aget_putObj_self (w : World) (id c : Bytes) (h : ∀ c0, aget w.objs id = some c0 → c0 = c) :
    aget (putObj w id c).objs id = some c := by
  unfold putObj
  split
  · rename_i hs
    cases hc : aget w.objs id with
    | none => rw [hc] at hs; simp at hs
    | some c0 => rw [h c0 hc]
  · simp [aget_cons]

theorem aget_putObj_other (w : World) (id c k : Bytes) (hne : k ≠ id) : aget (putObj w id c).objs k = aget w.objs k := by
  unfold putObj
  split
  · rfl
  · have : (id == k) = false := by simpa using fun e => hne e.symm
    simp [aget_cons, this]

/-- after `putObjs`, every one of the objects is stored with its content -/
theorem putObjs_holds (w : World) (os : List (Bytes × Bytes)) (hf : Fit w os) : ∀ p ∈ os, aget (putObjs w os).objs p.1 = some p.2 := by
  induction os generalizing w with
  | nil => intro p hp; cases hp
  | cons o os ih =>
    intro p hp
    have hstep : putObjs w (o :: os) = putObjs (putObj w o.1 o.2) os := rfl
    rw [hstep]
    have hself := aget_putObj_self w o.1 o.2 (hf.1 o List.mem_cons_self)
    have hfit' : Fit (putObj w o.1 o.2) os := by
      refine ⟨?_, fun p hp q hq => hf.2 p (List.mem_cons_of_mem _ hp) q (List.mem_cons_of_mem _ hq)⟩
      intro q hq c0 hc0
      by_cases he : q.1 = o.1
      · rw [he, hself] at hc0
        injection hc0 with hc0
        rw [← hc0]
        exact (hf.2 q (List.mem_cons_of_mem _ hq) o List.mem_cons_self he).symm
      · rw [aget_putObj_other w o.1 o.2 q.1 he] at hc0
        exact hf.1 q (List.mem_cons_of_mem _ hq) c0 hc0
    rcases List.mem_cons.mp hp with rfl | hp'
    · exact putObjs_le _ os _ _ hself
    · exact ih _ hfit' p hp'

/-- **Reader ∘ writer in any store that holds the written trees** (the proof of `C05.readback_writeTree` with its
    only store-specific step, `holds_storeAfter`, taken as the hypothesis) -/
theorem readback_of_holds (H : HashFn) (s' : Store) (es : List Entry) (hok : AllOK es) (heok : EntriesOK es)
    (hh0 : Holds s' (writeTree H es).writes) (hsmall : Small (writeTree H es).writes) :
    ∃ data, Store.get H s' (writeTree H es).id = .ok (.tree, data) ∧
      (walk H s' (fuelFor es) data).map flattenTree = some es := by
  have hfuel : fuelFor es = size es + 1 := by simp [fuelFor, size]
  have hwe : (writeTree H es).writes = (write H (size es + 1) es).writes := by simp [writeTree, hfuel]
  have hh : Holds s' (write H (size es + 1) es).writes := by rw [← hwe]; exact hh0
  have hs : Small (write H (size es + 1) es).writes := by rw [← hwe]; exact hsmall
  have hwalk := walk_write H s' (size es) es hok heok (by omega) hh hs
  obtain ⟨hroot, hid⟩ := root_write_mem H (size es) es
  refine ⟨dataOf H (size es) es, ?_, ?_⟩
  · have hsid := hh _ hroot
    have hdlen : (dataOf H (size es) es).length ≤ Fmt.int64Max := by
      have h1 : (dataOf H (size es) es).length ≤ (Obj.encode .tree (dataOf H (size es) es)).length := by simp [Obj.encode]
      have h2 : (Obj.encode .tree (dataOf H (size es) es)).length ≤ Fmt.int64Max := hs _ hroot
      omega
    have hidw : (writeTree H es).id = (write H (size es + 1) es).id := by simp [writeTree, hfuel]
    rw [hidw]
    unfold Store.get
    have hne : (write H (size es + 1) es).id ≠ [] := by
      rw [hid]; intro h0; have := H.len20 (Obj.encode .tree (dataOf H (size es) es)); rw [h0] at this; cases this
    simp only [hne, if_false, hsid, C01.decode_encode .tree _ (by decide) hdlen]
    simp [hid]
  · rw [hfuel, hwalk]
    simp only [Option.map_some]
    have := C02.flatten_writeTree H es hok
    rw [hfuel] at this
    rw [this]

/-- **What the World reads back from the trees `commit()` just stored is the staging area** -/
theorem treeEntries_after_write (H : HashFn) (w : World) (es : List Entry) (hok : AllOK es) (heok : EntriesOK es)
    (hfit : Fit w (writeTree H es).writes.reverse) (hsmall : Small (writeTree H es).writes) (hfuel : fuelFor es ≤ treeDepth) :
    treeEntries H (putObjs w (writeTree H es).writes.reverse) (writeTree H es).id = some es := by
  have hh : Holds (store (putObjs w (writeTree H es).writes.reverse)) (writeTree H es).writes := by
    intro p hp
    exact putObjs_holds w _ hfit p (List.mem_reverse.mpr hp)
  obtain ⟨data, hget, hwalk⟩ := readback_of_holds H _ es hok heok hh hsmall
  unfold treeEntries
  rw [hget]
  simp only [newTree, if_true]
  cases hw : walk H (store (putObjs w (writeTree H es).writes.reverse)) (fuelFor es) data with
  | none => rw [hw] at hwalk; cases hwalk
  | some ns =>
    rw [hw] at hwalk
    rw [walk_mono H _ _ (fun _ _ h => h) (fuelFor es) treeDepth data ns hfuel hw]
    exact hwalk

end W

namespace C05

open TreeBuild

/-- **Snapshot read-back on the whole-repository model** (C02 `snapshot`, C05 `reset-readback`): once `commit()` has
    stored the trees of the staged entries `es` in the World's object store, the World's own reader — `GetObject` of
    the root id, `NewTree`, `getEntriesFromTree`, i.e. what `reset`, `status`, `restore --staged` and the next `commit`
    read — returns exactly `es`. Hypotheses: well-formed paths (non-empty components, no NUL), 20-byte ids, the tree
    objects written do not meet stored objects of other content (`W.Fit`, finite), sane sizes. Together with
    `W.walk_mono` (more objects or more fuel never change what was read) this is the store-level half of "what Goit
    reads from a commit is what it wrote" for the composed model. -/
theorem world_readback (H : HashFn) (w : W.World) (es : List Entry) (hok : AllOK es) (heok : EntriesOK es)
    (hfit : W.Fit w (TreeBuild.writeTree H es).writes.reverse) (hsmall : Small (TreeBuild.writeTree H es).writes)
    (hfuel : TreeBuild.fuelFor es ≤ W.treeDepth) :
    W.treeEntries H (W.putObjs w (TreeBuild.writeTree H es).writes.reverse) (TreeBuild.writeTree H es).id = some es :=
  W.treeEntries_after_write H w es hok heok hfit hsmall hfuel

/-- the tree reader is monotone in the store and in its nesting fuel -/
theorem walk_monotone (H : HashFn) (st st' : Store)
    (hst : ∀ id kd, Store.get H st id = .ok kd → Store.get H st' id = .ok kd)
    (d d' : Nat) (data : Bytes) (ns : List Node) (hd : d ≤ d') (h : TreeCodec.walk H st d data = some ns) :
    TreeCodec.walk H st' d' data = some ns := TreeCodec.walk_mono H st st' hst d d' data ns hd h

end C05
