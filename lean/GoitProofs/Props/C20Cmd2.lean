import GoitModel.CmdsConfig
import GoitProofs.Props.C20Cmd

/-! # C20 at command level: `goit config` on the command model `Cmds.configCmd` -/

namespace C20

open Config Cmds

theorem split1_two_mem (b : UInt8) (s x y : Bytes) (h : Bytes.split1 b s = [x, y]) : ∀ c ∈ x, c ∈ s := by
  induction s generalizing x with
  | nil => simp [Bytes.split1] at h
  | cons a as ih =>
    by_cases ha : a = b
    · simp only [Bytes.split1, ha, if_true, List.cons.injEq] at h
      obtain ⟨rfl, _⟩ := h
      intro c hc; cases hc
    · simp only [Bytes.split1, ha, if_false] at h
      cases hsp : Bytes.split1 b as with
      | nil => simp [hsp] at h
      | cons f fs =>
        simp only [hsp, List.cons.injEq] at h
        obtain ⟨rfl, rfl⟩ := h
        intro c hc
        rcases List.mem_cons.1 hc with rfl | hc
        · exact List.mem_cons_self
        · exact List.mem_cons_of_mem _ (ih f hsp c hc)

/-- what `config` accepts: one dot, a non-empty section, no line break — and then it sets exactly that key -/
theorem configCmd_ok (file : Option Bytes) (key value : Bytes) (c' : Sections) (h : configCmd file key value = .ok c') :
    ∃ sec k c, Bytes.split1 46 key = [sec, k] ∧ SecOK sec ∧ (10 : UInt8) ∉ value ∧ cfgOf file = some c ∧
      c' = add c sec k value := by
  unfold configCmd at h
  cases ha : configArgsOK key value with
  | none => simp [ha] at h
  | some p =>
    obtain ⟨sec, k⟩ := p
    simp only [ha] at h
    cases hc : cfgOf file with
    | none => simp [hc] at h
    | some c =>
      simp only [hc, Res.ok.injEq] at h
      unfold configArgsOK at ha
      split at ha
      · rename_i s1 k1 hsp
        split at ha
        · cases ha
        · rename_i hcond
          simp only [Option.some.injEq, Prod.mk.injEq] at ha
          obtain ⟨rfl, rfl⟩ := ha
          simp only [Bool.or_eq_true, decide_eq_true_eq, List.any_eq_true, not_or, not_exists, not_and] at hcond
          have hno : ∀ x ∈ key ++ value, ¬ (x = 10 ∨ x = 13) := fun x hx hx' => by
            have := hcond.2 x hx
            rcases hx' with e | e
            · exact this.1 e
            · exact this.2 e
          refine ⟨s1, k1, c, hsp, ⟨hcond.1, ?_⟩, ?_, rfl, h.symm⟩
          · intro hin
            exact hno 10 (List.mem_append_left _ (split1_two_mem 46 key s1 k1 hsp 10 hin)) (Or.inl rfl)
          · intro hin
            exact hno 10 (List.mem_append_right _ hin) (Or.inl rfl)
      · cases ha

/-- **An accepted setting is written to a file that loads again and reads back exactly**: for a configuration Goit
    wrote, a well-formed key and a value of printable characters with inner blanks. -/
theorem configCmd_roundtrip (file : Option Bytes) (key value : Bytes) (c' : Sections) (h : configCmd file key value = .ok c')
    (c : Sections) (hc : cfgOf file = some c) (hok : CfgOK c) (sec k : Bytes) (hsp : Bytes.split1 46 key = [sec, k])
    (hk : KeyOK k) (hv : ValOK value)
    (hl1 : (headLine sec).length < Bytes.maxToken) (hl2 : (keyLine (k, value)).length < Bytes.maxToken) :
    parse (render c') = some c' ∧ get c' sec k = some value ∧
      ∀ s' k', ¬ (s' = sec ∧ k' = k) → get c' s' k' = get c s' k' := by
  obtain ⟨sec2, k2, c2, hsp2, hsec, _, hc2, hadd⟩ := configCmd_ok file key value c' h
  rw [hsp] at hsp2
  simp only [List.cons.injEq, and_true] at hsp2
  obtain ⟨rfl, rfl⟩ := hsp2
  rw [hc] at hc2; cases hc2
  subst hadd
  refine ⟨parse_render _ (add_cfgOK c hok sec k value hsec hk hv hl1 hl2), ?_, ?_⟩
  · rw [add_get]; simp
  · intro s' k' hne; rw [add_get]; simp [hne]

/-- an empty section name, a key without or with several dots, or a line break anywhere is refused -/
theorem configCmd_refused (file : Option Bytes) (key value : Bytes)
    (h : (Bytes.split1 46 key).length ≠ 2 ∨ (∃ k, Bytes.split1 46 key = [[], k]) ∨ (10 : UInt8) ∈ key ++ value ∨ (13 : UInt8) ∈ key ++ value) :
    configCmd file key value = .err := by
  have : configArgsOK key value = none := by
    unfold configArgsOK
    split
    · rename_i s1 k1 hsp
      rcases h with h | ⟨k, h⟩ | h | h
      · rw [hsp] at h; simp at h
      · rw [hsp] at h; simp only [List.cons.injEq, and_true] at h; simp [h.1]
      · have : (key ++ value).any (fun c => decide (c = 10) || decide (c = 13)) = true :=
          List.any_eq_true.2 ⟨10, h, by simp⟩
        simp [this]
      · have : (key ++ value).any (fun c => decide (c = 10) || decide (c = 13)) = true :=
          List.any_eq_true.2 ⟨13, h, by simp⟩
        simp [this]
    · rfl
  simp [configCmd, this]

end C20
