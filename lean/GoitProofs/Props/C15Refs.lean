import GoitProofs.Props.C15
set_option linter.unusedSimpArgs false
set_option linter.unusedVariables false

/-! C15 for the commands that move references without `commit`: at **every** crash point of `branch -r`, `switch`, `switch -c`,
    `update-ref`, `reset` and `branch <name>`, HEAD names a branch whose file holds a full id — the old one or the new one —
    and no branch file is ever empty or half written. (Effect sequences: `GoitModel/Effects.lean`, compared with the traced
    system calls of the real binary on every run.) -/

namespace C15

open Eff

/-- HEAD names branch `b`, whose file holds the full id `id` -/
def HeadNames (s : FS) (b id : Bytes) : Prop := s .head = some (Head.render b) ∧ s (.branch b) = some (hashStr id)

theorem crash_append_untouched (s : FS) (a b : List E) (k : Nat) (r : Role) (hb : ∀ e ∈ b, Untouched r e) :
    crash s (a ++ b) k r = crash s a k r := by
  unfold crash
  rw [List.take_append, run_append]
  exact run_untouched _ _ _ (fun e he => hb e (List.mem_of_mem_take he))

theorem crash_ge (s : FS) (a : List E) (k : Nat) (hk : a.length ≤ k) : crash s a k = run s a := by
  unfold crash; rw [List.take_of_length_le hk]

/-- **`branch -r` never leaves HEAD naming a branch that does not exist**: at every crash point HEAD names the old name (still
    holding the commit) or the new name (already holding it) -/
theorem rename_head_always_names (s : FS) (old new id : Bytes) (logs : List E) (k : Nat) (hne : old ≠ new)
    (h0 : HeadNames s old id)
    (hlogs : ∀ e ∈ logs, Untouched .head e ∧ Untouched (.branch old) e ∧ Untouched (.branch new) e) :
    HeadNames (crash s (branchRename old new id logs) k) old id ∨ HeadNames (crash s (branchRename old new id logs) k) new id := by
  obtain ⟨hh, hb⟩ := h0
  have hsplit : branchRename old new id logs = (setBranch new id ++ setHead new ++ [.remove (.branch old)]) ++ logs := by
    simp [branchRename, List.append_assoc]
  have hbr : Role.branch old ≠ Role.branch new := by intro h; injection h with h; exact hne h
  have hbr' : Role.branch new ≠ Role.branch old := Ne.symm hbr
  unfold HeadNames
  rw [hsplit, crash_append_untouched _ _ _ _ _ (fun e he => (hlogs e he).1),
    crash_append_untouched _ _ _ _ _ (fun e he => (hlogs e he).2.1),
    crash_append_untouched _ _ _ _ _ (fun e he => (hlogs e he).2.2)]
  match k with
  | 0 => left; exact ⟨hh, hb⟩
  | 1 => left; simp [crash, setBranch, setHead, replace, run, apply, hh, hb, hbr, hbr']
  | 2 => left; simp [crash, setBranch, setHead, replace, run, apply, hh, hb, hbr, hbr']
  | 3 => left; simp [crash, setBranch, setHead, replace, run, apply, hh, hb, hbr, hbr']
  | 4 => left; simp [crash, setBranch, setHead, replace, run, apply, hh, hb, hbr, hbr']
  | 5 => left; simp [crash, setBranch, setHead, replace, run, apply, hh, hb, hbr, hbr']
  | 6 => right; simp [crash, setBranch, setHead, replace, run, apply, hh, hb, hbr, hbr']
  | k + 7 =>
    right
    rw [crash_ge _ _ _ (by simp [setBranch, setHead, replace])]
    simp [setBranch, setHead, replace, run, apply, hh, hb, hbr, hbr']

theorem crash_untouched (s : FS) (es : List E) (k : Nat) (r : Role) (h : ∀ e ∈ es, Untouched r e) : crash s es k r = s r := by
  unfold crash; exact run_untouched _ _ _ (fun e he => h e (List.mem_of_mem_take he))

/-- a branch written first by atomic replacement, followed by operations that do not touch it: old or new at every crash point -/
theorem branch_first_old_or_new (s : FS) (b id : Bytes) (rest : List E) (hrest : ∀ e ∈ rest, Untouched (.branch b) e) (k : Nat) :
    crash s (setBranch b id ++ rest) k (.branch b) = s (.branch b) ∨
    crash s (setBranch b id ++ rest) k (.branch b) = some (hashStr id) := by
  rw [crash_append_untouched _ _ _ _ _ hrest]
  exact replace_old_or_new s "branch" (.branch b) (hashStr id) (by simp) k

theorem untouched_setBranch (r : Role) (b id : Bytes) (h1 : r ≠ .branch b) (h2 : r ≠ .tmp "branch") : ∀ e ∈ setBranch b id, Untouched r e := by
  intro e he
  simp [setBranch, replace] at he
  rcases he with rfl | rfl | rfl <;> simp [Untouched, h1, h2, Ne.symm h1, Ne.symm h2]

theorem untouched_setHead (r : Role) (b : Bytes) (h1 : r ≠ .head) (h2 : r ≠ .tmp "HEAD") : ∀ e ∈ setHead b, Untouched r e := by
  intro e he
  simp [setHead, replace] at he
  rcases he with rfl | rfl | rfl <;> simp [Untouched, h1, h2, Ne.symm h1, Ne.symm h2]

theorem untouched_setIndex (r : Role) (f : Bytes) (h1 : r ≠ .index) (h2 : r ≠ .tmp "index") : ∀ e ∈ setIndex f, Untouched r e := by
  intro e he
  simp [setIndex, replace] at he
  rcases he with rfl | rfl | rfl <;> simp [Untouched, h1, h2, Ne.symm h1, Ne.symm h2]

def idxPart (idx : Option Bytes) : List E := match idx with | some f => setIndex f | none => []

/-- **`reset` (any mode)**: at every crash point the current branch holds its old or the target commit, completely; HEAD and every
    other branch file are untouched — whatever happens later to the staging area and the working tree -/
theorem reset_refs_old_or_new (s : FS) (b id line : Bytes) (idx : Option Bytes) (files : List (Bytes × Bytes)) (k : Nat) :
    (crash s (reset b id line idx files) k (.branch b) = s (.branch b) ∨
      crash s (reset b id line idx files) k (.branch b) = some (hashStr id)) ∧
    crash s (reset b id line idx files) k .head = s .head ∧
    ∀ n, n ≠ b → crash s (reset b id line idx files) k (.branch n) = s (.branch n) := by
  have hrest : ∀ (r : Role), r ≠ .index → r ≠ .tmp "index" → r ≠ .logHead → r ≠ .logBranch b → (∀ p, r ≠ .work p) →
      ∀ e ∈ ([E.append .logHead line, E.append (.logBranch b) line] ++ idxPart idx ++
        (files.map fun f => [E.create (.work f.1), .write (.work f.1) f.2]).flatten), Untouched r e := by
    intro r h1 h2 h3 h4 h5 e he
    simp only [List.mem_append, List.mem_cons, List.mem_singleton, List.not_mem_nil, or_false, List.mem_flatten, List.mem_map] at he
    rcases he with (( rfl | rfl) | he) | ⟨l, ⟨f, _, rfl⟩, hel⟩
    · simp [Untouched, h3, Ne.symm h3]
    · simp [Untouched, h4, Ne.symm h4]
    · cases idx with
      | none => simp [idxPart] at he
      | some f => exact untouched_setIndex r f h1 h2 e (by simpa [idxPart] using he)
    · simp at hel
      rcases hel with rfl | rfl <;> simp [Untouched, h5, fun p => Ne.symm (h5 p)]
  have hsplit : reset b id line idx files = setBranch b id ++ ([E.append .logHead line, E.append (.logBranch b) line] ++ idxPart idx ++
        (files.map fun f => [E.create (.work f.1), .write (.work f.1) f.2]).flatten) := by
    cases idx <;> simp [reset, idxPart, List.append_assoc]
  rw [hsplit]
  refine ⟨branch_first_old_or_new s b id _ (hrest _ (by simp) (by simp) (by simp) (by simp) (by simp)) k, ?_, ?_⟩
  · apply crash_untouched
    intro e he
    rcases List.mem_append.mp he with h | h
    · exact untouched_setBranch .head b id (by simp) (by simp) e h
    · exact hrest .head (by simp) (by simp) (by simp) (by simp) (by simp) e h
  · intro n hn
    apply crash_untouched
    intro e he
    rcases List.mem_append.mp he with h | h
    · exact untouched_setBranch (.branch n) b id (by intro h'; injection h' with h'; exact hn h') (by simp) e h
    · exact hrest (.branch n) (by simp) (by simp) (by simp) (by simp) (by simp) e h

/-- **`switch`**: at every crash point HEAD names the old or the new branch, completely; no branch file is touched -/
theorem switch_head_old_or_new (s : FS) (b line : Bytes) (k : Nat) :
    (crash s (switchTo b line) k .head = s .head ∨ crash s (switchTo b line) k .head = some (Head.render b)) ∧
    ∀ n, crash s (switchTo b line) k (.branch n) = s (.branch n) := by
  constructor
  · unfold switchTo
    rw [crash_append_untouched _ _ _ _ _ (by intro e he; simp at he; subst he; simp [Untouched])]
    exact replace_old_or_new s "HEAD" .head (Head.render b) (by simp) k
  · intro n
    apply crash_untouched
    intro e he
    unfold switchTo at he
    rcases List.mem_append.mp he with h | h
    · exact untouched_setHead (.branch n) b (by simp) (by simp) e h
    · simp at h; subst h; simp [Untouched]

/-- **`switch -c`**: at every crash point HEAD names the old branch (untouched) or the new one, which then already holds the
    commit completely -/
theorem switchCreate_head_always_names (s : FS) (cur n id l1 l2 : Bytes) (k : Nat) (hne : cur ≠ n) (h0 : HeadNames s cur id) :
    HeadNames (crash s (switchCreate n id l1 l2) k) cur id ∨ HeadNames (crash s (switchCreate n id l1 l2) k) n id := by
  obtain ⟨hh, hb⟩ := h0
  have hbr : Role.branch cur ≠ Role.branch n := by intro h; injection h with h; exact hne h
  have hbr' : Role.branch n ≠ Role.branch cur := Ne.symm hbr
  have hsplit : switchCreate n id l1 l2 = (setBranch n id ++ setHead n) ++ [E.append .logHead l1, E.append (.logBranch n) l2] := by
    simp [switchCreate, List.append_assoc]
  have hl : ∀ (r : Role), r ≠ .logHead → r ≠ .logBranch n → ∀ e ∈ [E.append .logHead l1, E.append (.logBranch n) l2], Untouched r e := by
    intro r h1 h2 e he
    simp at he
    rcases he with rfl | rfl <;> simp [Untouched, h1, h2, Ne.symm h1, Ne.symm h2]
  unfold HeadNames
  rw [hsplit, crash_append_untouched _ _ _ _ _ (hl .head (by simp) (by simp)),
    crash_append_untouched _ _ _ _ _ (hl (.branch cur) (by simp) (by simp)),
    crash_append_untouched _ _ _ _ _ (hl (.branch n) (by simp) (by simp))]
  match k with
  | 0 => left; exact ⟨hh, hb⟩
  | 1 => left; simp [crash, setBranch, setHead, replace, run, apply, hh, hb, hbr, hbr']
  | 2 => left; simp [crash, setBranch, setHead, replace, run, apply, hh, hb, hbr, hbr']
  | 3 => left; simp [crash, setBranch, setHead, replace, run, apply, hh, hb, hbr, hbr']
  | 4 => left; simp [crash, setBranch, setHead, replace, run, apply, hh, hb, hbr, hbr']
  | 5 => left; simp [crash, setBranch, setHead, replace, run, apply, hh, hb, hbr, hbr']
  | k + 6 =>
    right
    rw [crash_ge _ _ _ (by simp [setBranch, setHead, replace])]
    simp [setBranch, setHead, replace, run, apply, hh, hb, hbr, hbr']

/-- **`update-ref`**: at every crash point the named branch holds its old or the new id, completely; HEAD names its old branch or
    the named one; every other branch file is untouched -/
theorem updateRef_old_or_new (s : FS) (b id : Bytes) (k : Nat) :
    (crash s (updateRef b id) k (.branch b) = s (.branch b) ∨ crash s (updateRef b id) k (.branch b) = some (hashStr id)) ∧
    (crash s (updateRef b id) k .head = s .head ∨ crash s (updateRef b id) k .head = some (Head.render b)) ∧
    ∀ n, n ≠ b → crash s (updateRef b id) k (.branch n) = s (.branch n) := by
  refine ⟨?_, ?_, ?_⟩
  · unfold updateRef
    exact branch_first_old_or_new s b id _ (untouched_setHead (.branch b) b (by simp) (by simp)) k
  · unfold updateRef crash
    rw [List.take_append, run_append]
    have h1 : run s ((setBranch b id).take k) .head = s .head :=
      run_untouched _ _ _ (fun e he => untouched_setBranch .head b id (by simp) (by simp) e (List.mem_of_mem_take he))
    have := replace_old_or_new (run s ((setBranch b id).take k)) "HEAD" .head (Head.render b) (by simp) (k - (setBranch b id).length)
    simp only [crash, setHead] at this ⊢
    rw [h1] at this
    exact this
  · intro n hn
    apply crash_untouched
    intro e he
    unfold updateRef at he
    rcases List.mem_append.mp he with h | h
    · exact untouched_setBranch (.branch n) b id (by intro h'; injection h' with h'; exact hn h') (by simp) e h
    · exact untouched_setHead (.branch n) b (by simp) (by simp) e h

/-- **`branch <name>`**: at every crash point the new branch file is absent (as before) or complete; HEAD and every other branch
    file are untouched -/
theorem branchCreate_absent_or_complete (s : FS) (n id line : Bytes) (k : Nat) :
    (crash s (branchCreate n id line) k (.branch n) = s (.branch n) ∨
      crash s (branchCreate n id line) k (.branch n) = some (hashStr id)) ∧
    crash s (branchCreate n id line) k .head = s .head ∧
    ∀ m, m ≠ n → crash s (branchCreate n id line) k (.branch m) = s (.branch m) := by
  have hl : ∀ (r : Role), r ≠ .logBranch n → ∀ e ∈ [E.append (.logBranch n) line], Untouched r e := by
    intro r h1 e he; simp at he; subst he; simp [Untouched, h1, Ne.symm h1]
  refine ⟨?_, ?_, ?_⟩
  · unfold branchCreate
    exact branch_first_old_or_new s n id _ (hl _ (by simp)) k
  · apply crash_untouched
    intro e he
    unfold branchCreate at he
    rcases List.mem_append.mp he with h | h
    · exact untouched_setBranch .head n id (by simp) (by simp) e h
    · exact hl .head (by simp) e h
  · intro m hm
    apply crash_untouched
    intro e he
    unfold branchCreate at he
    rcases List.mem_append.mp he with h | h
    · exact untouched_setBranch (.branch m) n id (by intro h'; injection h' with h'; exact hm h') (by simp) e h
    · exact hl (.branch m) (by simp) e h

end C15
