import GoitModel

/-! # C14 — log lists the history reachable from HEAD, newest first, bounded by -n -/

namespace C14

open History

/-- a linear history as Goit creates it: each commit is stored, parses, and names the next one as its
    only parent; the last one has no parent -/
def Chain (H : HashFn) (st : Store) : List (Bytes × Commit) → Prop
  | [] => True
  | (id, c) :: rest =>
    (∃ data, Store.get H st id = .ok (.commit, data) ∧ Commit.parse data = some c) ∧
    c.parents = (match rest with | [] => [] | (id', _) :: _ => [id']) ∧ Chain H st rest

def ids (l : List (Bytes × Commit)) : List Bytes := l.map (·.1)

theorem walk_chain_aux (H : HashFn) (st : Store) (chain : List (Bytes × Commit)) (k : Nat) (visited : List Bytes)
    (hc : Chain H st chain) (hnd : (ids chain).Nodup) (hv : ∀ i ∈ ids chain, i ∉ visited) :
    walk H st k (match chain with | [] => [] | (id, _) :: _ => [id]) visited = .ok (chain.take k) := by
  induction k generalizing chain visited with
  | zero => cases chain <;> simp [walk]
  | succ k ih =>
    cases chain with
    | nil => simp [walk]
    | cons p rest =>
      obtain ⟨id, c⟩ := p
      obtain ⟨⟨data, hget, hparse⟩, hpar, hrest⟩ := hc
      have hnv : visited.contains id = false := by
        have := hv id (by simp [ids])
        simpa using this
      simp only [walk, hnv, Bool.false_eq_true, if_false, hget, ne_eq, not_true_eq_false, hparse, List.nil_append, hpar]
      have hnd' : (ids rest).Nodup := by
        simp only [ids, List.map_cons, List.nodup_cons] at hnd; exact hnd.2
      have hid : id ∉ ids rest := by
        simp only [ids, List.map_cons, List.nodup_cons] at hnd; exact hnd.1
      have hv' : ∀ i ∈ ids rest, i ∉ id :: visited := by
        intro i hi hm
        rcases List.mem_cons.mp hm with rfl | hm
        · exact hid hi
        · exact hv i (by simp only [ids, List.map_cons, List.mem_cons]; exact Or.inr hi) hm
      have := ih rest (id :: visited) hrest hnd' hv'
      cases rest with
      | nil => simp [walk] at this ⊢; cases k <;> simp [walk]
      | cons q rest' =>
        obtain ⟨id', c'⟩ := q
        simp only at this ⊢
        rw [this]
        simp

/-- **`log -n k` prints exactly the min(k, length) most recent commits of the parent chain from HEAD,
    newest first, each once** — for every chain length and every k (0, 1, the exact length, above it). -/
theorem log_chain (H : HashFn) (st : Store) (head : Bytes) (c : Commit) (rest : List (Bytes × Commit)) (k : Nat)
    (hc : Chain H st ((head, c) :: rest)) (hnd : (ids ((head, c) :: rest)).Nodup) :
    log H st head (k : Int) = .ok (((head, c) :: rest).take k) := by
  have := walk_chain_aux H st ((head, c) :: rest) k [] hc hnd (by simp)
  simpa [log] using this

/-- a non-positive bound prints nothing -/
theorem log_nonpos (H : HashFn) (st : Store) (head : Bytes) (k : Int) (hk : k ≤ 0) : log H st head k = .ok [] := by
  have : k.toNat = 0 := by omega
  simp [log, this, walk]

/-- the listing depends only on the object store (the commit graph): `log` takes no index, work tree or
    branch list — by the type of `History.log` -/
example : HashFn → Store → Bytes → Int → Res (List (Bytes × Commit)) := History.log

end C14
