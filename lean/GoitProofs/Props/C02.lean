import GoitProofs.Lemmas.TreeBuild

/-! # C02 — Commit records exactly the staged snapshot

Kernel theorems about the tree writer (`writeTreeObject`, `cmd/writeTree.go`) and the flattening used
to read a snapshot back (`getEntriesFromTree`). The command-level clauses (parent, branch, frame,
identity) are judged on the implementation by the executable specification `orC02` and tied by the
correspondence run. -/

namespace C02

open TreeBuild

/-- **The snapshot a commit records, flattened to (path, blob id) pairs, is exactly the staging
    area** — for *every* list of entries whose paths have non-empty components: any names (spaces,
    dots, dashes, non-ASCII), directories next to files whose names extend the directory's name
    (`lib/`, `lib.go`, `lib-old`), any nesting depth, any order (sortedness is not needed: runs are
    re-concatenated in order). -/
theorem flatten_writeTree (H : HashFn) (es : List Entry) (hok : AllOK es) :
    flattenTree (build H (fuelFor es) es) = es := by
  have h := (flatten_build H (fuelFor es) es hok (by simp [fuelFor, size])).2 []
  rw [addRoot_nil] at h
  exact h

/-- a non-empty staging area never produces an empty snapshot -/
theorem build_ne_nil (H : HashFn) (es : List Entry) (hok : AllOK es) (hne : es ≠ []) :
    build H (fuelFor es) es ≠ [] :=
  (flatten_build H (fuelFor es) es hok (by simp [fuelFor, size])).1 hne

/-- every sub-list handed to a sub-directory is non-empty, keeps valid paths, has a non-empty
    directory name and is strictly smaller: the recursion of `writeTreeObject` terminates and never
    writes an empty sub-tree -/
theorem subtrees_wellformed (es : List Entry) (hok : AllOK es) :
    ∀ d sub, Item.dir d sub ∈ group [] [] es → sub ≠ [] ∧ AllOK sub ∧ d ≠ [] ∧ size sub < size es := by
  intro d sub hm
  obtain ⟨a, b, c, dd⟩ := group_dir [] [] es hok (by intro x hx; simp at hx) (fun h => absurd rfl h) d sub hm
  have : 0 < sub.length := List.length_pos_iff.mpr a
  simp at dd
  exact ⟨a, b, c, by omega⟩

/-- non-vacuity: the sibling shape of the property text, unsorted on purpose -/
example : AllOK [⟨[1], asc "lib/a"⟩, ⟨[2], asc "lib.go"⟩, ⟨[3], asc "lib-old"⟩, ⟨[4], asc "lib/x y/ü"⟩] := by
  intro e he
  simp at he
  rcases he with rfl | rfl | rfl | rfl <;> (intro c hc; revert c hc; decide)

end C02
