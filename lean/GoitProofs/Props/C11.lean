import GoitProofs.Lemmas.Bytes
import GoitProofs.Lemmas.Hex

/-! # C11 — Reflog is a faithful, append-only journal that always reads back -/

namespace C11

open Reflog

theorem hasPrefix_append_self (p m : Bytes) : Bytes.hasPrefix (p ++ m) p = true := by
  induction p with
  | nil => cases m <;> simp [Bytes.hasPrefix]
  | cons a as ih => simp [Bytes.hasPrefix, ih]

/-- the first occurrence of a separator whose first byte does not occur in `k` is right after `k` -/
theorem indexOf_append (p0 : UInt8) (ps k m : Bytes) (h : p0 ∉ k) :
    Bytes.indexOf (p0 :: ps) (k ++ ((p0 :: ps) ++ m)) = some k.length := by
  induction k with
  | nil =>
    have := hasPrefix_append_self (p0 :: ps) m
    simp only [List.nil_append, List.cons_append] at this ⊢
    simp [Bytes.indexOf, this]
  | cons a as ih =>
    have ha : a ≠ p0 := fun e => h (by simp [e])
    have has : p0 ∉ as := fun x => h (List.mem_cons_of_mem _ x)
    have := ih has
    simp only [List.cons_append] at this ⊢
    simp [Bytes.indexOf, Bytes.hasPrefix, ha, this]

theorem cutSeq_append (p0 : UInt8) (ps k m : Bytes) (h : p0 ∉ k) :
    Bytes.cutSeq (p0 :: ps) (k ++ (p0 :: ps) ++ m) = (k, some m) := by
  have hi := indexOf_append p0 ps k m h
  rw [List.append_assoc]
  simp only [Bytes.cutSeq, hi]
  have h1 : (k ++ ((p0 :: ps) ++ m)).take k.length = k := List.take_left' rfl
  have h2 : (k ++ ((p0 :: ps) ++ m)).drop (k.length + (p0 :: ps).length) = m := by
    rw [← List.append_assoc]
    exact List.drop_left' (by simp)
  rw [h1, h2]

theorem dec_no_tab (n : Nat) : (9 : UInt8) ∉ Dec.ofNat n :=
  Dec.not_mem_of_all_digits _ (Dec.ofNat_all_digits n) 9 (by decide)

theorem ofInt_no_tab (i : Int) : (9 : UInt8) ∉ Dec.ofInt i := by
  unfold Dec.ofInt
  split
  · simp only [List.mem_cons, not_or]; exact ⟨by decide, dec_no_tab _⟩
  · exact dec_no_tab _

theorem pad2_no_tab (i : Int) : (9 : UInt8) ∉ Dec.pad2 i := by
  unfold Dec.pad2
  simp only
  split
  · simp only [List.mem_cons, not_or]; exact ⟨by decide, ofInt_no_tab _⟩
  · exact ofInt_no_tab _

theorem plus03_no_tab (i : Int) : (9 : UInt8) ∉ Dec.plus03 i := by
  unfold Dec.plus03
  simp only [List.mem_cons, List.mem_append, List.mem_replicate, not_or]
  refine ⟨by split <;> decide, ?_, dec_no_tab _⟩
  rintro ⟨-, h⟩; revert h; decide

theorem zone_no_tab (o : Int) : (9 : UInt8) ∉ zone o := by
  unfold zone
  simp only [List.mem_append, not_or]
  exact ⟨plus03_no_tab _, pad2_no_tab _⟩

theorem hashOrZeros_no_space (h : Option Bytes) : (32 : UInt8) ∉ hashOrZeros h := by
  cases h with
  | none => simp [hashOrZeros, zeros40]
  | some x => exact Hex.encode_no_space x

theorem kind_no_colon (k : RecKind) : (58 : UInt8) ∉ k.str := by cases k <;> decide
theorem kind_parse_str (k : RecKind) : RecKind.parse k.str = k := by cases k <;> decide

/-- what the *writer* guarantees about a record: name and e-mail come from the configuration (tabs are
    deleted when it is loaded), the action kind is one of the four real kinds, ids are 20 bytes and a
    real id is not all zeros -/
def LineSafe (r : Rec) : Prop :=
  (9 : UInt8) ∉ r.name ∧ (9 : UInt8) ∉ r.email ∧ r.kind ≠ .undefined ∧
  ∀ id, r.to = some id → id.length = 20 ∧ hashStr id ≠ zeros40

/-- the entry a record reads back as -/
def loaded (r : Rec) : Loaded := ⟨r.to, r.kind, firstLine r.msg⟩

/-- the line without its final newline -/
def lineOf (r : Rec) : Bytes :=
  hashOrZeros r.frm ++ [32] ++ hashOrZeros r.to ++ [32] ++ r.name ++ asc " <" ++ r.email ++ asc "> "
    ++ Dec.ofInt r.unix ++ [32] ++ zone r.offset ++ [9] ++ r.kind.str ++ asc ": " ++ firstLine r.msg

theorem format_eq (r : Rec) : format r = lineOf r ++ [10] := rfl

/-- **Whatever the commit message contains** (`": "`, tabs, several lines, lines of three or more
    words, a text that looks like a hash), every identity and every time-zone offset: the line the
    writer produces reads back as exactly one entry with the same commit, the same kind of action and
    the first line of the message. -/
theorem parseLine_format (r : Rec) (h : LineSafe r) : parseLine (lineOf r) = .record (loaded r) := by
  obtain ⟨hn, he, hk, hid⟩ := h
  -- header between the second space and the tab contains no tab
  have hhdr : (9 : UInt8) ∉ r.name ++ asc " <" ++ r.email ++ asc "> " ++ Dec.ofInt r.unix ++ [32] ++ zone r.offset := by
    simp only [List.mem_append, not_or]
    exact ⟨⟨⟨⟨⟨⟨hn, by decide⟩, he⟩, by decide⟩, ofInt_no_tab _⟩, by decide⟩, zone_no_tab _⟩
  have e1 : lineOf r = hashOrZeros r.frm ++ 32 :: (hashOrZeros r.to ++ 32 ::
      ((r.name ++ asc " <" ++ r.email ++ asc "> " ++ Dec.ofInt r.unix ++ [32] ++ zone r.offset) ++ 9 ::
        (r.kind.str ++ (58 :: [32]) ++ firstLine r.msg))) := by
    simp [lineOf, List.append_assoc]; rfl
  unfold parseLine
  rw [e1, Bytes.cut1_append 32 _ _ (hashOrZeros_no_space _)]
  simp only
  rw [Bytes.cut1_append 32 _ _ (hashOrZeros_no_space _)]
  simp only
  rw [Bytes.cut1_append 9 _ _ hhdr]
  have hcs := cutSeq_append 58 [32] r.kind.str (firstLine r.msg) (kind_no_colon _)
  have hasc : asc ": " = 58 :: [32] := by decide
  simp only [hasc, hcs, kind_parse_str, hk, if_false]
  cases hto : r.to with
  | none => simp [hashOrZeros, loaded, hto]
  | some id =>
    obtain ⟨hl, hz⟩ := hid id hto
    simp only [hashOrZeros]
    have : hashStr id ≠ zeros40 := hz
    simp [this, readHash_hashStr id hl, loaded, hto]

/-- reading the log one more line: earlier entries are untouched, in content and in order -/
theorem parseLines_snoc (ls : List Bytes) (l : Bytes) :
    parseLines (ls ++ [l]) = (parseLines ls).bind fun rs =>
      match parseLine l with
      | .fail => none
      | .skip => some rs
      | .record r => some (rs ++ [r]) := by
  induction ls with
  | nil =>
    simp only [List.nil_append, parseLines]
    cases parseLine l <;> simp [parseLines]
  | cons a as ih =>
    simp only [List.cons_append, parseLines]
    cases ha : parseLine a with
    | fail => simp
    | skip => simp [ih]
    | record r =>
      simp only [ih]
      cases parseLines as with
      | none => simp
      | some rs => cases parseLine l <;> simp

/-- **Append-only**: a log that read back as `rs`, extended by the line of a record the writer
    produced, reads back as `rs ++ [that record]` -/
theorem parse_append (ls : List Bytes) (rs : List Loaded) (r : Rec) (h : LineSafe r)
    (hls : parseLines ls = some rs) : parseLines (ls ++ [lineOf r]) = some (rs ++ [loaded r]) := by
  rw [parseLines_snoc, hls, parseLine_format r h]; rfl

/-- **`reflog` and `reset HEAD@{n}` resolve position n to the same entry**: `GetRecord n` returns the
    entry the listing shows at position n (newest first) -/
theorem get_agrees_with_listing (rs : List Loaded) (n : Nat) (hn : n < rs.length) :
    ∃ r, Reflog.get rs n = some r ∧
      (listing rs)[n]? = some (n, show7 r.hash, r.kind, r.msg) := by
  have hidx : rs.length - 1 - n < rs.length := by omega
  refine ⟨rs[rs.length - 1 - n], ?_, ?_⟩
  · simp [Reflog.get, hn, Nat.not_le.mpr hn, List.getElem?_eq_getElem hidx]
  · simp [listing, hn, List.getElem?_eq_getElem hidx]

theorem get_out_of_range (rs : List Loaded) (n : Nat) (hn : rs.length ≤ n) : Reflog.get rs n = none := by
  simp [Reflog.get, hn]

/-- appending shifts every position by exactly one: HEAD@{0} is the new entry, HEAD@{n+1} is the old HEAD@{n} -/
theorem get_append_zero (rs : List Loaded) (r : Loaded) : Reflog.get (rs ++ [r]) 0 = some r := by
  simp [Reflog.get]

theorem get_append_succ (rs : List Loaded) (r : Loaded) (n : Nat) :
    Reflog.get (rs ++ [r]) (n + 1) = Reflog.get rs n := by
  simp only [Reflog.get, List.length_append, List.length_cons, List.length_nil]
  by_cases h : n ≥ rs.length
  · have : n + 1 ≥ rs.length + (0 + 1) := by omega
    simp [h, this]
  · have h1 : ¬ n + 1 ≥ rs.length + (0 + 1) := by omega
    simp only [h, h1, if_false]
    have : rs.length + (0 + 1) - 1 - (n + 1) = rs.length - 1 - n := by omega
    rw [this, List.getElem?_append_left (by omega)]

/-- non-vacuity: a message with a colon, a tab, three words on a second line, and a negative half-hour zone -/
example : LineSafe ⟨.commit, none, some (List.replicate 20 7), asc "Test User", asc "t@example.com", 1700000000, -12600,
    asc "fix: colon\tmsg\nthree more words"⟩ := by
  refine ⟨by decide, by decide, by decide, ?_⟩
  intro id hid; cases hid; exact ⟨by decide, by decide⟩

end C11
