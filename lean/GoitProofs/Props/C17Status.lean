import GoitProofs.Props.C17Cmd
import GoitProofs.Props.C13

/-! # C17: `status` never lists a path inside Goit's directory or an ignored path as untracked -/

namespace C17

open Cmds

theorem status_never_lists_ignored (H : HashFn) (w : WS) (st : Status) (h : status H w = .ok st) (p : Bytes)
    (hp : p ∈ st.untracked) : ¬ IsMeta p ∧ ignored w p = false ∧ ∀ d ∈ dirPrefixes p, ignored w d = false := by
  obtain ⟨_, _, hig, hdirs⟩ := (C13.untracked_iff H w st h p).1 hp
  refine ⟨fun hm => ?_, hig, hdirs⟩
  rw [ignored_meta w p hm] at hig
  cases hig

end C17
