import GoitProofs.Props.C17Cmd
import GoitProofs.Props.C13
import GoitProofs.Props.C09Staged
import GoitProofs.Props.C09

/-! # C17: `status` never lists a path inside Goit's directory or an ignored path as untracked -/

namespace C17

open Cmds

theorem status_never_lists_ignored (H : HashFn) (w : WS) (st : Status) (h : status H w = .ok st) (p : Bytes)
    (hp : p ∈ st.untracked) : ¬ IsMeta p ∧ ignored w p = false ∧ ∀ d ∈ dirPrefixes p, ignored w d = false := by
  obtain ⟨_, _, hig, hdirs⟩ := (C13.untracked_iff H w st h p).1 hp
  refine ⟨fun hm => ?_, hig, hdirs⟩
  rw [ignored_meta w p hm] at hig
  cases hig

end C17

namespace C17

open Cmds

/-- **`restore` never overwrites Goit's own files**: it rewrites tracked paths only, and no tracked path lies
    inside the metadata directory (`addArgs_no_meta`: `add` never stages one). -/
theorem restore_never_writes_meta (w : WS) (args : List Bytes) (r : List Entry) (h : restoreWork w args = .ok r)
    (hn : NoMeta w.index) : ∀ e ∈ r, ¬ IsMeta e.path :=
  fun e he => hn e (C09.restore_only_tracked w args r h e he)

/-- the same for `restore --staged`: entries come from the staging area or from HEAD's snapshot, so if neither
    holds a path inside the metadata directory, neither does the result -/
theorem restoreStaged_no_meta (snap : List Entry) (hs : C06.Canonical snap) (args : List Bytes) (idx : List Entry)
    (hi : C06.Canonical idx) (idx' : List Entry) (h : restoreStagedArgs snap args idx = (true, idx'))
    (hn : NoMeta idx) (hns : NoMeta snap) : NoMeta idx' := by
  obtain ⟨_, hat, hfr⟩ := C09.restoreStaged_exact snap hs args idx hi idx' h
  intro e he
  by_cases hnm : C09.Named args e.path
  · exact hns e ((hat e hnm).1 he)
  · exact hn e ((hfr e hnm).1 he)

end C17
