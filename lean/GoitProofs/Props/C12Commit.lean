import GoitProofs.Props.C12
import GoitProofs.Lemmas.Lines
import GoitProofs.Lemmas.Hex

/-! # C12 — the whole commit object: what `cmd.commit` writes, `NewCommit` reads back -/

namespace C12

open Bytes

theorem join_unlines (ls : List Bytes) (h : ls ≠ []) : Bytes.join [10] ls ++ [10] = unlines ls := by
  induction ls with
  | nil => exact absurd rfl h
  | cons a rest ih =>
    cases rest with
    | nil => simp [Bytes.join, unlines]
    | cons b rest' =>
      have := ih (by simp)
      have hj : Bytes.join [10] (a :: b :: rest') = a ++ [10] ++ Bytes.join [10] (b :: rest') := by simp [Bytes.join]
      have hu : unlines (a :: b :: rest') = a ++ [10] ++ unlines (b :: rest') := by simp [unlines]
      rw [hj, hu, List.append_assoc, this]

/-- everything `readSign` needs to give the signature back (C12.parse_format) -/
def SignOK (s : Sign) : Prop :=
  NameOK s.name ∧ Sign.matchesEmail s.email = true ∧ 0 < s.unix ∧ s.unix ≤ Fmt.int64Max ∧ zoneOK s.offset = true

def treeLine (t : Bytes) : Bytes := asc "tree " ++ hashStr t
def parentLine (p : Bytes) : Bytes := asc "parent " ++ hashStr p
def authorLine (s : Sign) : Bytes := asc "author " ++ s.format
def committerLine (s : Sign) : Bytes := asc "committer " ++ s.format

def headerLines (tree : Bytes) (parent : Option Bytes) (a c : Sign) : List Bytes :=
  [treeLine tree] ++ (match parent with | some p => [parentLine p] | none => []) ++ [authorLine a, committerLine c]

theorem format_eq_unlines (tree : Bytes) (parent : Option Bytes) (a c : Sign) (ls : List Bytes) (hls : ls ≠ []) :
    Commit.format tree (parent.map hashStr) a c (Bytes.join [10] ls) =
      unlines (headerLines tree parent a c ++ [[]] ++ ls) := by
  have hj := join_unlines ls hls
  cases parent with
  | none =>
    simp only [Commit.format, Option.map_none, headerLines, treeLine, authorLine, committerLine, unlines,
      List.map_append, List.map_cons, List.map_nil, List.flatten_append, List.flatten_cons, List.flatten_nil] at hj ⊢
    simp only [List.append_assoc, List.nil_append, List.append_nil]
    rw [← hj]
  | some p =>
    simp only [Commit.format, Option.map_some, headerLines, treeLine, parentLine, authorLine, committerLine, unlines,
      List.map_append, List.map_cons, List.map_nil, List.flatten_append, List.flatten_cons, List.flatten_nil] at hj ⊢
    simp only [List.append_assoc, List.nil_append, List.append_nil]
    rw [← hj]

theorem cut_word (w rest : Bytes) (h : (32 : UInt8) ∉ w) : Bytes.cut1 32 (w ++ 32 :: rest) = (w, some rest) :=
  Bytes.cut1_append 32 w rest h

/-- **A commit object round trips**: tree, parent, author, committer and the message text (any number
    of lines, blank lines, colons, non-ASCII; lines without CR at the end and shorter than the scanner's
    64 KiB limit) read back exactly as written. -/
theorem commit_parse_format (tree : Bytes) (parent : Option Bytes) (a c : Sign) (ls : List Bytes)
    (hls : ls ≠ []) (ht : tree.length = 20) (hp : ∀ p, parent = some p → p.length = 20)
    (ha : SignOK a) (hc : SignOK c)
    (hlines : ∀ l ∈ headerLines tree parent a c ++ [[]] ++ ls, LineOK l) :
    Commit.parse (Commit.format tree (parent.map hashStr) a c (Bytes.join [10] ls)) =
      some ⟨some tree, parent.toList, some a, some c, Bytes.join [10] ls⟩ := by
  unfold Commit.parse
  rw [format_eq_unlines tree parent a c ls hls, scanLines_unlines _ hlines]
  have hsa := parse_format a ha.1 ha.2.1 ha.2.2.1 ha.2.2.2.1 ha.2.2.2.2
  have hsc := parse_format c hc.1 hc.2.1 hc.2.2.1 hc.2.2.2.1 hc.2.2.2.2
  have e_tree : asc "tree " = asc "tree" ++ [32] := by decide
  have e_parent : asc "parent " = asc "parent" ++ [32] := by decide
  have e_author : asc "author " = asc "author" ++ [32] := by decide
  have e_comm : asc "committer " = asc "committer" ++ [32] := by decide
  have step_tree : ∀ (cm : Commit) (rest : List Bytes),
      Commit.header cm (treeLine tree :: rest) = Commit.header { cm with tree := some tree } rest := by
    intro cm rest
    rw [Commit.header]
    have : treeLine tree = asc "tree" ++ 32 :: hashStr tree := by simp [treeLine, e_tree]
    rw [this, cut_word _ _ (by decide)]
    simp [readHash_hashStr tree ht]
  have step_parent : ∀ (cm : Commit) (p : Bytes) (rest : List Bytes), p.length = 20 →
      Commit.header cm (parentLine p :: rest) = Commit.header { cm with parents := cm.parents ++ [p] } rest := by
    intro cm p rest hpl
    rw [Commit.header]
    have : parentLine p = asc "parent" ++ 32 :: hashStr p := by simp [parentLine, e_parent]
    rw [this, cut_word _ _ (by decide)]
    have h1 : asc "parent" ≠ asc "tree" := by decide
    simp [h1, readHash_hashStr p hpl]
  have step_author : ∀ (cm : Commit) (rest : List Bytes),
      Commit.header cm (authorLine a :: rest) = Commit.header { cm with author := some a } rest := by
    intro cm rest
    rw [Commit.header]
    have : authorLine a = asc "author" ++ 32 :: a.format := by simp [authorLine, e_author]
    rw [this, cut_word _ _ (by decide)]
    have h1 : asc "author" ≠ asc "tree" := by decide
    have h2 : asc "author" ≠ asc "parent" := by decide
    simp [h1, h2, hsa]
  have step_comm : ∀ (cm : Commit) (rest : List Bytes),
      Commit.header cm (committerLine c :: rest) = Commit.header { cm with committer := some c } rest := by
    intro cm rest
    rw [Commit.header]
    have : committerLine c = asc "committer" ++ 32 :: c.format := by simp [committerLine, e_comm]
    rw [this, cut_word _ _ (by decide)]
    have h1 : asc "committer" ≠ asc "tree" := by decide
    have h2 : asc "committer" ≠ asc "parent" := by decide
    have h3 : asc "committer" ≠ asc "author" := by decide
    simp [h1, h2, h3, hsc]
  have step_blank : ∀ (cm : Commit) (rest : List Bytes), Commit.header cm ([] :: rest) = some (cm, rest) := by
    intro cm rest
    rw [Commit.header]
    simp [Bytes.cut1]
  cases parent with
  | none =>
    simp only [headerLines, List.append_nil, List.cons_append, List.nil_append, List.singleton_append]
    rw [step_tree, step_author, step_comm, step_blank]
    simp
  | some p =>
    simp only [headerLines, List.cons_append, List.nil_append, List.singleton_append]
    rw [step_tree, step_parent _ p _ (hp p rfl), step_author, step_comm, step_blank]
    simp

end C12
