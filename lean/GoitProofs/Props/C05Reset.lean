import GoitProofs.Props.C05Store
import GoitProofs.Props.C12Commit

/-! # C05 / C08 — `reset --mixed` to a commit Goit created installs exactly the entries staged when it was made -/

namespace C05

open TreeBuild TreeCodec

/-- **`reset` reads back what `commit` wrote.** Let `commit` have stored the trees of the staged
    entries `es` and then the commit object naming the root tree (author/committer/message as `commit`
    formats them). Then `Index.Reset` to that commit (`GetObject` → `NewCommit` → `GetObject` → `walkTree` →
    `getEntriesFromTree`) installs exactly `es` — the composition of the object codec (C01), the commit
    codec (C12), the tree reader∘writer (C05) and the flattening (C02), through the object store. -/
theorem reset_readback (H : HashFn) (s : Store) (es : List Entry) (parent : Option Bytes) (a c : Sign) (msg : List Bytes)
    (hok : AllOK es) (heok : EntriesOK es) (hmsg : msg ≠ []) (hp : ∀ p, parent = some p → p.length = 20)
    (ha : C12.SignOK a) (hc : C12.SignOK c)
    (hlines : ∀ l ∈ C12.headerLines (writeTree H es).id parent a c ++ [[]] ++ msg, Bytes.LineOK l) :
    let data := Commit.format (writeTree H es).id (parent.map hashStr) a c (Bytes.join [10] msg)
    let content := Obj.encode .commit data
    let ws := (writeTree H es).writes ++ [(H.sha content, content)]
    CollisionFreeOn H (fun b => ∃ p ∈ ws, p.2 = b) → Small ws →
    Cmds.resetEntries H (storeAfter s ws) (fuelFor es) (H.sha content) = .ok es := by
  intro data content ws hcf hsmall
  have hfuel : fuelFor es = size es + 1 := by simp [fuelFor, size]
  -- every written object is in the store
  have hids : ∀ p ∈ ws, p.1 = H.sha p.2 := by
    intro p hp
    rcases List.mem_append.mp hp with h | h
    · exact writes_id_eq H _ es p (by simpa [writeTree] using h)
    · simp at h; subst h; rfl
  have hh : Holds (storeAfter s ws) ws := by
    apply holds_storeAfter
    intro p hp q hq hid
    apply hcf p.2 q.2 ⟨p, hp, rfl⟩ ⟨q, hq, rfl⟩
    rw [← hids p hp, ← hids q hq, hid]
  have hhT : Holds (storeAfter s ws) (write H (size es + 1) es).writes := by
    intro p hp
    apply hh p
    apply List.mem_append_left
    simpa [writeTree, hfuel] using hp
  have hsT : Small (write H (size es + 1) es).writes := by
    intro p hp
    apply hsmall p
    apply List.mem_append_left
    simpa [writeTree, hfuel] using hp
  -- the commit object
  have hcget : Store.get H (storeAfter s ws) (H.sha content) = .ok (.commit, data) := by
    have hmem : (H.sha content, content) ∈ ws := by simp [ws]
    have hsid := hh _ hmem
    have hdlen : data.length ≤ Fmt.int64Max := by
      have h1 : data.length ≤ content.length := by simp [content, Obj.encode]
      have h2 : content.length ≤ Fmt.int64Max := hsmall _ hmem
      omega
    unfold Store.get
    have hne : H.sha content ≠ [] := by
      intro h0; have := H.len20 content; rw [h0] at this; cases this
    simp only at hsid
    simp only [hne, if_false, hsid]
    have := C01.decode_encode .commit data (by decide) hdlen
    simp only [content] at this ⊢
    simp [this]
  have hidlen : (writeTree H es).id.length = 20 := by
    have : (writeTree H es).id = (write H (size es + 1) es).id := by simp [writeTree, hfuel]
    rw [this, (root_write_mem H (size es) es).2]; exact H.len20 _
  have hparse := C12.commit_parse_format (writeTree H es).id parent a c msg hmsg hidlen hp ha hc hlines
  -- the root tree
  have hwalk := walk_write H (storeAfter s ws) (size es) es hok heok (by omega) hhT hsT
  obtain ⟨hroot, hid⟩ := root_write_mem H (size es) es
  have htget : Store.get H (storeAfter s ws) (writeTree H es).id = .ok (.tree, dataOf H (size es) es) := by
    have hsid := hhT _ hroot
    have hdlen : (dataOf H (size es) es).length ≤ Fmt.int64Max := by
      have h1 : (dataOf H (size es) es).length ≤ (Obj.encode .tree (dataOf H (size es) es)).length := by simp [Obj.encode]
      have h2 : (Obj.encode .tree (dataOf H (size es) es)).length ≤ Fmt.int64Max := hsT _ hroot
      omega
    have hidw : (writeTree H es).id = (write H (size es + 1) es).id := by simp [writeTree, hfuel]
    rw [hidw]
    unfold Store.get
    have hne : (write H (size es + 1) es).id ≠ [] := by
      rw [hid]; intro h0; have := H.len20 (Obj.encode .tree (dataOf H (size es) es)); rw [h0] at this; cases this
    simp only [hne, if_false, hsid, C01.decode_encode .tree _ (by decide) hdlen]
    simp [hid]
  have hflat := C02.flatten_writeTree H es hok
  rw [hfuel] at hflat
  unfold Cmds.resetEntries
  simp only [hcget, ne_eq, not_true_eq_false, if_false, data, hparse, htget, newTree, if_true, hfuel, hwalk, hflat]

end C05
