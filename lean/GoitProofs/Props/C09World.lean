import GoitProofs.Props.C01World
import GoitProofs.Props.C09Staged
set_option linter.unusedSimpArgs false
set_option linter.unusedVariables false

/-! C09 (`restore --staged`) on the whole-repository model, in a state every history reaches: the snapshot the command restores
    from is HEAD's commit read back through the World's own store, and it is canonical by `W.J`; so `C09.restoreStaged_exact`
    applies without any assumption on the snapshot. -/

namespace C09

open Cmds IndexOps C06

/-- **`restore --staged <args>`, exact, on the whole-repository model**: when it ends `ok` in a state meeting `W.J`, the staging
    area afterwards holds, for every named path (the path itself; for a directory every path beneath it that is staged or in HEAD),
    exactly HEAD's entry (none if HEAD has none), every other entry is as before, and nothing but the staging area changed
    (`C09.world_restore_staged_frame`). -/
theorem world_restore_staged_exact (H : HashFn) (w : W.World) (l : W.Loaded) (args : List Bytes) (o : Option Bytes)
    (hl : W.load H w = some l) (hj : W.J H w) (hok : (W.restoreCmd H w l true args).2 = .ok o) :
    ∃ snap idx', W.headSnap H w l = .ok snap ∧
      (W.restoreCmd H w l true args).1.index = (if idx' = l.idx then w.index else some idx') ∧
      Canonical idx' ∧ (∀ e : Entry, Named args e.path → (e ∈ idx' ↔ e ∈ snap)) ∧
      (∀ e : Entry, ¬ Named args e.path → (e ∈ idx' ↔ e ∈ l.idx)) := by
  unfold W.restoreCmd at hok ⊢
  by_cases he : args.isEmpty = true
  · rw [if_pos he] at hok; cases hok
  · rw [if_neg he] at hok ⊢
    simp only [Bool.not_true, Bool.false_eq_true, if_false] at hok ⊢
    by_cases hb : (W.aget w.heads l.ref).isNone = true
    · rw [if_pos hb] at hok; cases hok
    · rw [if_neg hb] at hok ⊢
      cases hs : W.headSnap H w l with
      | crash => simp only [hs] at hok; cases hok
      | err => simp only [hs] at hok; cases hok
      | ok snap =>
        simp only [hs] at hok ⊢
        have hsn : Canonical snap := ((W.readsGoodE H w hj.2).2 l snap hl hs).canon
        have hidx : Canonical l.idx := (W.loaded_idx_goodE H w l hl hj.1).canon
        cases hr : restoreStagedArgs snap args l.idx with
        | mk ok idx' =>
          rw [hr] at hok
          cases ok with
          | false => simp at hok
          | true =>
            obtain ⟨hc, hn, hf⟩ := restoreStaged_exact snap hsn args l.idx hidx idx' hr
            refine ⟨snap, idx', rfl, ?_, hc, hn, hf⟩
            unfold W.setIndexIfChanged
            by_cases hx : idx' = l.idx
            · simp [hx]
            · simp [hx]

end C09
