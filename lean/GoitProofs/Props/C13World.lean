import GoitProofs.Props.C09World
import GoitProofs.Props.C13
set_option linter.unusedSimpArgs false
set_option linter.unusedVariables false

/-! C13 / C18 on the whole-repository model: in every state a history reaches, `status` **succeeds** (it reads HEAD's snapshot,
    which reads back by `W.J`, and compares on a canonical staging area, where its lookups cannot fail) and changes nothing; its
    report is the one `Cmds.status` computes on the World's files, staging area and HEAD snapshot — the object of `C13.modified_iff`,
    `deleted_iff`, `untracked_iff`, `C07.status_staged_exact`. -/

namespace C13

open Cmds

/-- **`status` succeeds and changes nothing in every state a history reaches** (with a `.goitignore` in the modelled domain) -/
theorem world_status_ok (H : HashFn) (w : W.World) (tz : Int) (ts : List Int) (l : W.Loaded)
    (hinit : w.inited = true) (hl : W.load H w = some l) (hj : W.J H w) (hk : W.K H w) (hio : W.ignoreOK w = true) :
    (W.run H w ⟨.status, tz, ts⟩).1 = w ∧ (W.run H w ⟨.status, tz, ts⟩).2 = .ok none ∧
    ∃ snap st, (l.headCommit = none → snap = []) ∧ (l.headCommit ≠ none → W.headSnap H w l = .ok snap) ∧
      status H (W.ws w l snap) = .ok st := by
  have hcan : C06.Canonical (W.ws w l []).index := (W.loaded_idx_goodE H w l hl hj.1).canon
  unfold W.run
  simp only [hinit, Bool.not_true, Bool.false_eq_true, if_false, W.pathArgs, List.all_nil, hl, hio]
  cases hh : l.headCommit with
  | none =>
    obtain ⟨st, hst⟩ := status_ok H (W.ws w l []) hcan
    simp only [hst]
    exact ⟨trivial, trivial, [], st, (fun _ => rfl), (fun h => absurd rfl h), hst⟩
  | some ic =>
    obtain ⟨id, c⟩ := ic
    -- HEAD's snapshot reads back (W.J)
    obtain ⟨hca, _⟩ := W.load_headCommit H w l hl id c hh
    cases hct : c.tree with
    | none =>
      -- every stored commit has a tree line (`W.K.hasTree`)
      have := hk.hasTree id c hca
      rw [hct] at this; cases this
    | some t =>
      obtain ⟨es, hes, hg⟩ := hj.2 id c t hca hct
      have hsnap : W.headSnap H w l = .ok es := by
        unfold W.headSnap; simp [hh, hct, hes, Res.ofOption]
      simp only [hsnap]
      obtain ⟨st, hst⟩ := status_ok H (W.ws w l es) hcan
      simp only [hst]
      exact ⟨trivial, trivial, es, st, (fun h => by cases h), (fun _ => rfl), hst⟩

end C13
