import GoitProofs.Props.C05End
set_option linter.unusedSimpArgs false
set_option linter.unusedVariables false

/-! C01 at the command line of the whole-repository model: `cat-file` prints what the store's reader returns — for a stored blob,
    its kind and exactly its bytes — so, with `C04.world_add_file_stored`, the bytes `add` staged are the bytes `cat-file -p` prints. -/

namespace C01

/-- **`cat-file` on a 20-byte id prints the stored object**: `-t` its kind, `-p` (for a blob or commit) exactly its bytes followed
    by a line break — whenever Goit's object reader returns the object -/
theorem world_catfile_prints_stored (H : HashFn) (w : W.World) (id : Bytes) (k : Kind) (d : Bytes) (hlen : id.length = 20)
    (hg : Store.get H (W.store w) id = .ok (k, d)) (hk : k ≠ .tree) :
    W.catFileCmd H w true false [hashStr id] = .ok (some (k.str ++ [10])) ∧
    W.catFileCmd H w false true [hashStr id] = .ok (some (d ++ [10])) := by
  have hrh := readHash_hashStr id hlen
  have hkt : (k == Kind.tree) = false := by cases k <;> simp_all
  constructor
  · unfold W.catFileCmd
    simp [hrh, hg]
  · unfold W.catFileCmd
    simp [hrh, hg, hkt]

/-- … so the bytes `add <file>` staged are the bytes `cat-file -p <staged id>` prints afterwards -/
theorem world_add_then_catfile (H : HashFn) (w : W.World) (l : W.Loaded) (a data : Bytes)
    (hl : W.load H w = some l) (hj : W.J H w)
    (hw : ∀ f ∈ w.files, TreeBuild.PathOK f.1 ∧ (0 : UInt8) ∉ f.1 ∧ f.2.length ≤ Fmt.int64Max)
    (hfit : W.BlobsFit H w (w.files.map (·.2))) (hio : W.ignoreOK w = true)
    (hig : Cmds.ignored (W.ws w l []) (Cmds.cleanPath a) = false) (hfile : Cmds.fileAt (W.ws w l []) (Cmds.cleanPath a) = some data)
    (hnd : Cmds.isDirOnDisk (W.ws w l []) (Cmds.cleanPath a) = false) :
    W.catFileCmd H (W.addCmd H w l [a]).1 false true [hashStr (Obj.id H .blob data)] = .ok (some (data ++ [10])) ∧
    W.catFileCmd H (W.addCmd H w l [a]).1 true false [hashStr (Obj.id H .blob data)] = .ok (some (asc "blob" ++ [10])) := by
  obtain ⟨_, _, hget⟩ := C04.world_add_file_stored H w l a data hl hj hw hfit hio hig hfile hnd
  have hlen : (Obj.id H .blob data).length = 20 := H.len20 _
  obtain ⟨h1, h2⟩ := world_catfile_prints_stored H _ _ .blob data hlen hget (by decide)
  exact ⟨h2, h1⟩

end C01
