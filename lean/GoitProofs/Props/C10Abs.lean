import GoitProofs.Props.C03H

/-! # C10 — the branch / HEAD state machine on the abstract repository (`Abs.step`)

"All other branches keep their commits", "a refused operation changes nothing", and what each accepted
operation does, for every state. The machine is compared with the real repository around every command
of the generated histories (refinement check). -/

namespace C10

open Abs

def find (bs : List (Name × Id)) (m : Name) : Option Id := (bs.find? (fun b => b.1 == m)).map (·.2)

theorem tip_eq (r : Repo) (m : Name) : tip r m = find r.branches m := rfl

theorem find_map_other (bs : List (Name × Id)) (n m : Name) (i : Id) (h : m ≠ n) :
    find (bs.map (fun b => if b.1 == n then (n, i) else b)) m = find bs m := by
  induction bs with
  | nil => rfl
  | cons b bs ih =>
    simp only [List.map_cons, find, List.find?_cons]
    by_cases hbn : b.1 = n
    · have h1 : (b.1 == n) = true := by simp [hbn]
      have h2 : ((n, i).1 == m) = false := by simp; exact fun e => h e.symm
      have h3 : (b.1 == m) = false := by simp [hbn]; exact fun e => h e.symm
      simp only [h1, if_true, h2, h3]
      exact ih
    · have h1 : (b.1 == n) = false := by simp [hbn]
      simp only [h1, Bool.false_eq_true, if_false]
      by_cases hbm : b.1 = m
      · simp [hbm]
      · have h3 : (b.1 == m) = false := by simp [hbm]
        simp only [h3]
        exact ih

theorem find_setBranch_other (bs : List (Name × Id)) (n m : Name) (i : Id) (h : m ≠ n) :
    find (setBranch bs n i) m = find bs m := by
  unfold setBranch
  split
  · exact find_map_other bs n m i h
  · simp only [find, List.find?_append]
    have : ((n, i).1 == m) = false := by simp; exact fun e => h e.symm
    cases hf : bs.find? (fun b => b.1 == m) with
    | none => simp [List.find?, this]
    | some x => simp

theorem find_setBranch_self (bs : List (Name × Id)) (n : Name) (i : Id) : find (setBranch bs n i) n = some i := by
  unfold setBranch
  split
  · rename_i hany
    induction bs with
    | nil => simp at hany
    | cons b bs ih =>
      simp only [List.map_cons, find, List.find?_cons]
      by_cases hbn : b.1 = n
      · have h1 : (b.1 == n) = true := by simp [hbn]
        simp [h1]
      · have h1 : (b.1 == n) = false := by simp [hbn]
        simp only [h1, Bool.false_eq_true, if_false]
        apply ih
        simpa [List.any_cons, h1] using hany
  · rename_i hany
    simp only [find, List.find?_append]
    have : bs.find? (fun b => b.1 == n) = none := by
      simp only [List.find?_eq_none]
      intro x hx hxn
      exact hany (List.any_eq_true.mpr ⟨x, hx, hxn⟩)
    simp [this, List.find?]

theorem find_append_other (bs : List (Name × Id)) (n m : Name) (i : Id) (h : m ≠ n) :
    find (bs ++ [(n, i)]) m = find bs m := by
  simp only [find, List.find?_append]
  have : ((n, i).1 == m) = false := by simp; exact fun e => h e.symm
  cases hf : bs.find? (fun b => b.1 == m) with
  | none => simp [List.find?, this]
  | some x => simp

theorem find_filter_other (bs : List (Name × Id)) (n m : Name) (h : m ≠ n) :
    find (bs.filter (fun b => b.1 != n)) m = find bs m := by
  induction bs with
  | nil => rfl
  | cons b bs ih =>
    simp only [List.filter_cons]
    by_cases hbn : b.1 = n
    · have h3 : (b.1 == m) = false := by simp [hbn]; exact fun e => h e.symm
      simp only [hbn, bne_self_eq_false, Bool.false_eq_true, if_false, find, List.find?_cons]
      rw [hbn] at h3
      simp only [h3]
      exact ih
    · have : (b.1 != n) = true := by simp [hbn]
      simp only [this, if_true, find, List.find?_cons]
      by_cases hbm : (b.1 == m) = true
      · simp [hbm]
      · simp only [Bool.not_eq_true] at hbm
        simp only [hbm]
        exact ih

/-- the branch an operation may change (everything else must keep its commit) -/
def target (r : Repo) : Op → List Name
  | .commit _ => [r.head]
  | .branchCreate n => [n]
  | .branchDelete n => [n]
  | .branchRename n => [r.head, n]
  | .switchCreate n => [n]
  | .updateRef n _ => [n]
  | .reset _ => [r.head]
  | _ => []

/-- **In every case all other branches keep their commits.** -/
theorem others_keep (r : Repo) (op : Op) (m : Name) (h : m ∉ target r op) : tip (step r op) m = tip r m := by
  simp only [tip_eq]
  cases op with
  | add p b => rfl
  | unstage p => rfl
  | stageFromHead p b => simp only [step]; split <;> rfl
  | commit c =>
    simp only [target, List.mem_singleton] at h
    exact find_setBranch_other _ _ _ _ h
  | branchCreate n =>
    simp only [target, List.mem_singleton] at h
    simp only [step]
    split
    · split
      · exact find_append_other _ _ _ _ h
      · rfl
    · rfl
  | branchDelete n =>
    simp only [target, List.mem_singleton] at h
    simp only [step]
    split
    · exact find_filter_other _ _ _ h
    · rfl
  | branchRename n =>
    simp only [target, List.mem_cons, List.mem_singleton, not_or, List.not_mem_nil, or_false] at h
    simp only [step]
    split
    · split
      · rw [find_append_other _ _ _ _ h.2, find_filter_other _ _ _ h.1]
      · rfl
    · rfl
  | switch n => simp only [step]; split <;> rfl
  | switchCreate n =>
    simp only [target, List.mem_singleton] at h
    simp only [step]
    split
    · split
      · exact find_append_other _ _ _ _ h
      · rfl
    · rfl
  | updateRef n id =>
    simp only [target, List.mem_singleton] at h
    simp only [step]
    split
    · exact find_setBranch_other _ _ _ _ h
    · rfl
  | reset pos =>
    simp only [target, List.mem_singleton] at h
    simp only [step]
    split
    · exact find_setBranch_other _ _ _ _ h
    · rfl

/-- **`update-ref` sets the named existing branch to the given existing commit** (and is refused, changing
    nothing, for an unknown branch or an id that is not a stored commit) -/
theorem updateRef_spec (r : Repo) (n : Name) (id : Id) :
    ((names r).contains n = true ∧ r.commits.contains id = true → tip (step r (.updateRef n id)) n = some id) ∧
    (¬((names r).contains n = true ∧ r.commits.contains id = true) → step r (.updateRef n id) = r) := by
  constructor
  · intro h
    simp only [step, h.1, h.2, Bool.and_self, if_true, tip_eq]
    exact find_setBranch_self _ _ _
  · intro h
    simp only [step]
    split
    · rename_i hc; simp only [Bool.and_eq_true] at hc; exact absurd hc h
    · rfl

/-- **Duplicate names are refused; a refused creation changes nothing** -/
theorem create_refused (r : Repo) (n : Name) (h : (names r).contains n = true ∨ validName n = false ∨ tip r r.head = none) :
    step r (.branchCreate n) = r := by
  simp only [step]
  split
  · split
    · rename_i hc
      simp only [Bool.and_eq_true, Bool.not_eq_eq_eq_not, Bool.not_true] at hc
      rcases h with h | h | h
      · rw [h] at hc; cases hc.2
      · rw [h] at hc; cases hc.1
      · rename_i t ht; rw [h] at ht; cases ht
    · rfl
  · rfl

/-- **Deleting the current branch or an unknown branch is refused and changes nothing** -/
theorem delete_refused (r : Repo) (n : Name) (h : n = r.head ∨ (names r).contains n = false) :
    step r (.branchDelete n) = r := by
  simp only [step]
  split
  · rename_i hc
    simp only [Bool.and_eq_true, bne_iff_ne, ne_eq] at hc
    rcases h with h | h
    · exact absurd h hc.1
    · rw [h] at hc; cases hc.2
  · rfl

/-- **`switch` changes which branch HEAD names and nothing else on the reference side but the log** -/
theorem switch_spec (r : Repo) (n : Name) (t : Id) (h : tip r n = some t) :
    (step r (.switch n)).head = n ∧ (step r (.switch n)).branches = r.branches ∧ (step r (.switch n)).index = r.index := by
  simp [step, h]

end C10
