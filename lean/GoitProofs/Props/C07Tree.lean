import GoitProofs.Lemmas.TreeKeys
import GoitProofs.Props.C07

/-! # C07, the new-file half: `GetNode` on the trees Goit itself writes

For every canonical, well-formed snapshot `es₀` the lookup `getNode (build es₀) p` finds a *file* exactly
when `p` is one of the snapshot's paths — whatever siblings sort between `dir` and `dir/`, and also when a
file and a directory share a name. With `diff_fromTree_build` this gives the full statement: the
staged-changes report is empty **iff** the staging area equals the HEAD snapshot. -/

namespace C07

open TreeBuild IndexOps C06

theorem find?_first {α : Type} (l : List α) (q : α → Bool) (R : α → α → Prop) (hR : l.Pairwise R)
    (x y : α) (hx : l.find? q = some x) (hy : y ∈ l) (hqy : q y = true) : x = y ∨ R x y := by
  induction l with
  | nil => cases hy
  | cons a as ih =>
    rw [List.pairwise_cons] at hR
    simp only [List.find?_cons] at hx
    by_cases hqa : q a = true
    · simp only [hqa] at hx
      cases hx
      rcases List.mem_cons.1 hy with rfl | hy
      · exact Or.inl rfl
      · exact Or.inr (hR.1 y hy)
    · simp only [Bool.not_eq_true] at hqa
      simp only [hqa] at hx
      rcases List.mem_cons.1 hy with rfl | hy
      · rw [hqa] at hqy; cases hqy
      · exact ih hR.2 hx hy

def Item.name : Item → Bytes
  | .leaf n _ => n
  | .dir d _ => d

theorem toNode_name (H : HashFn) (f : Nat) (it : Item) : (toNode H f it).name = Item.name it := by
  cases it <;> rfl

theorem mem_group_iff (es : List Entry) (hok : AllOK es) (e : Entry) :
    e ∈ es ↔ ∃ it ∈ group [] [] es, e ∈ Item.entries it := by
  have h := group_flat [] [] es hok (fun _ => rfl)
  simp only [ne_eq, not_true_eq_false, if_false, List.nil_append] at h
  conv => lhs; rw [← h]
  simp only [List.mem_flatten, List.mem_map]
  constructor
  · rintro ⟨l, ⟨it, hit, rfl⟩, he⟩; exact ⟨it, hit, he⟩
  · rintro ⟨it, hit, he⟩; exact ⟨_, ⟨it, hit, rfl⟩, he⟩

theorem lt_self_append (p : Bytes) : p < p ++ [47] := by
  induction p with
  | nil => simp
  | cons a as ih => exact List.cons_lt_cons_iff.2 (Or.inr ⟨rfl, ih⟩)

/-- the sub-list of a directory item is canonical again -/
theorem sub_canonical (es : List Entry) (hs : Canonical es) (hok : AllOK es) (d : Bytes) (sub : List Entry)
    (hit : Item.dir d sub ∈ group [] [] es) : Canonical sub := by
  have h := group_flat [] [] es hok (fun _ => rfl)
  simp only [ne_eq, not_true_eq_false, if_false, List.nil_append] at h
  have hsub : (Item.entries (.dir d sub)).Sublist es := by
    rw [← h]
    exact List.sublist_flatten_of_mem (List.mem_map.2 ⟨_, hit, rfl⟩)
  unfold Canonical SortedKeys paths at hs ⊢
  have := List.Pairwise.sublist (hsub.map (·.path)) hs
  simp only [Item.entries, List.map_map] at this
  rw [List.pairwise_map] at this ⊢
  refine this.imp ?_
  intro a b hab
  simp only [Function.comp] at hab
  have : d ++ 47 :: a.path = (d ++ [47]) ++ a.path := by simp
  rw [this] at hab
  have : d ++ 47 :: b.path = (d ++ [47]) ++ b.path := by simp
  rw [this] at hab
  exact (append_lt_append_left _ _ _).1 hab

theorem getNodeAux_build (H : HashFn) : ∀ (fuel f : Nat) (es : List Entry) (p : Bytes),
    Canonical es → AllOK es → size es < f → PathOK p → p.length < fuel →
    ((∃ n, getNodeAux fuel (build H f es) p = some n ∧ n.kids = []) ↔ ∃ e ∈ es, e.path = p) := by
  intro fuel
  induction fuel with
  | zero => intro f es p _ _ _ _ h; omega
  | succ fuel ih =>
    intro f es p hs hok hf hp hlen
    cases f with
    | zero => omega
    | succ f =>
    rw [build_succ]
    have hkeys := group_keys [] [] es (by simpa [PL, pend, Canonical, SortedKeys, paths] using hs) hok
      (fun h => absurd rfl h) (fun _ => rfl) (by simp)
    obtain ⟨hpw, hitems⟩ := hkeys
    rw [List.pairwise_map] at hpw
    -- facts about directory items
    have hdir : ∀ d sub, Item.dir d sub ∈ group [] [] es →
        sub ≠ [] ∧ AllOK sub ∧ Canonical sub ∧ size sub < f ∧ build H f sub ≠ [] := by
      intro d sub hit
      obtain ⟨h1, h2, _, h4⟩ := group_dir [] [] es hok (fun _ h => by cases h) (fun h => absurd rfl h) d sub hit
      have hlen : 0 < sub.length := List.length_pos_iff.2 h1
      have hsz : size sub < f := by
        simp only [size_nil, List.length_nil, Nat.add_zero, Nat.zero_add] at h4
        omega
      exact ⟨h1, h2, sub_canonical es hs hok d sub hit, hsz, (flatten_build H f sub h2 hsz).1 h1⟩
    have hkids : ∀ it ∈ group [] [] es, ((toNode H f it).kids = [] ↔ ∃ n i, it = .leaf n i) := by
      intro it hit
      cases it with
      | leaf n i => simp [toNode, Node.kids]
      | dir d sub => simp [toNode, Node.kids, (hdir d sub hit).2.2.2.2]
    rcases pathOK_cases p hp with ⟨hnone, hpne⟩ | ⟨rest, hsome, hcne, hrest, hpeq⟩
    · -- last component: first child of that name
      have hg : getNodeAux (fuel + 1) ((group [] [] es).map (toNode H f)) p =
          ((group [] [] es).map (toNode H f)).find? (fun c => c.name == p) := by
        have h1 : Bytes.cut1 47 p = (p, none) := cut_none_of_no47 p (no47_of_cut_none p hnone)
        simp only [getNodeAux, h1]
      rw [hg, List.find?_map]
      constructor
      · rintro ⟨n, hfind, hk⟩
        cases hf0 : (group [] [] es).find? ((fun c => c.name == p) ∘ toNode H f) with
        | none => simp [hf0] at hfind
        | some it0 =>
          simp only [hf0, Option.map_some, Option.some.injEq] at hfind
          subst hfind
          have hmem := List.mem_of_find?_eq_some hf0
          have hq := List.find?_some hf0
          simp only [Function.comp, beq_iff_eq, toNode_name] at hq
          obtain ⟨nm, i, rfl⟩ := (hkids it0 hmem).1 hk
          simp only [Item.name] at hq
          subst hq
          exact ⟨⟨i, nm⟩, (mem_group_iff es hok _).2 ⟨_, hmem, by simp [Item.entries]⟩, rfl⟩
      · rintro ⟨e, he, hep⟩
        obtain ⟨it, hit, hein⟩ := (mem_group_iff es hok e).1 he
        have hleaf : it = .leaf p e.id := by
          cases it with
          | leaf nm i =>
            simp only [Item.entries, List.mem_singleton] at hein
            subst hein; simp at hep; subst hep; rfl
          | dir d sub =>
            exfalso
            simp only [Item.entries, List.mem_map] at hein
            obtain ⟨e', _, rfl⟩ := hein
            simp only at hep
            exact no47_of_cut_none p hnone (hep ▸ by simp)
        subst hleaf
        have hq : ((fun c : Node => c.name == p) ∘ toNode H f) (.leaf p e.id) = true := by simp [toNode, Node.name]
        cases hf0 : (group [] [] es).find? ((fun c => c.name == p) ∘ toNode H f) with
        | none =>
          have := List.find?_eq_none.1 hf0 _ hit
          exact absurd hq this
        | some it0 =>
          refine ⟨toNode H f it0, by simp, ?_⟩
          have hmem := List.mem_of_find?_eq_some hf0
          have hq0 := List.find?_some hf0
          simp only [Function.comp, beq_iff_eq, toNode_name] at hq0
          rcases find?_first _ _ _ hpw it0 _ hf0 hit hq with h | h
          · subst h; simp [toNode, Node.kids]
          · cases it0 with
            | leaf nm i => simp [toNode, Node.kids]
            | dir d sub =>
              exfalso
              simp only [Item.name] at hq0
              subst hq0
              simp only [Item.key] at h
              exact absurd (List.lt_trans h (lt_self_append d)) (List.lt_irrefl _)
    · -- a directory component: the first directory of that name is entered
      have hc1 : (Bytes.cut1 47 p).1 = (Bytes.cut1 47 p).1 := rfl
      generalize hcdef : (Bytes.cut1 47 p).1 = c at hcne hpeq
      have h47c : (47 : UInt8) ∉ c := hcdef ▸ cut1_fst_no47 p
      have hcut : Bytes.cut1 47 p = (c, some rest) := by rw [hpeq]; exact cut1_append c rest h47c
      have hg : getNodeAux (fuel + 1) ((group [] [] es).map (toNode H f)) p =
          match ((group [] [] es).map (toNode H f)).find? (fun x => x.name == c && !x.kids.isEmpty) with
          | none => none
          | some node => getNodeAux fuel node.kids rest := by
        simp only [getNodeAux, hcut]
        rfl
      rw [hg, List.find?_map]
      have hrlen : rest.length < fuel := by
        have : p.length = c.length + 1 + rest.length := by rw [hpeq]; simp; omega
        omega
      constructor
      · rintro ⟨n, hfind, hk⟩
        cases hf0 : (group [] [] es).find? ((fun x => x.name == c && !x.kids.isEmpty) ∘ toNode H f) with
        | none => simp [hf0] at hfind
        | some it0 =>
          simp only [hf0, Option.map_some] at hfind
          have hmem := List.mem_of_find?_eq_some hf0
          have hq := List.find?_some hf0
          simp only [Function.comp, Bool.and_eq_true, beq_iff_eq, toNode_name, Bool.not_eq_true',
            List.isEmpty_eq_false_iff] at hq
          cases it0 with
          | leaf nm i => simp [toNode, Node.kids] at hq
          | dir d sub =>
            simp only [Item.name] at hq
            obtain ⟨rfl, _⟩ := hq
            obtain ⟨_, h2, h3, h4, _⟩ := hdir d sub hmem
            simp only [toNode] at hfind
            obtain ⟨e', he', hpe'⟩ := (ih f sub rest h3 h2 h4 hrest hrlen).1 ⟨n, hfind, hk⟩
            refine ⟨⟨e'.id, d ++ 47 :: e'.path⟩, (mem_group_iff es hok _).2 ⟨_, hmem, ?_⟩, by rw [hpe', hpeq]⟩
            simp only [Item.entries, List.mem_map]
            exact ⟨e', he', rfl⟩
      · rintro ⟨e, he, hep⟩
        obtain ⟨it, hit, hein⟩ := (mem_group_iff es hok e).1 he
        have hOK := (hitems it hit).2
        cases it with
        | leaf nm i =>
          exfalso
          simp only [Item.entries, List.mem_singleton] at hein
          subst hein
          simp only [ItemOK] at hOK
          simp only at hep
          subst hep
          rw [hsome] at hOK; cases hOK
        | dir d sub =>
          simp only [ItemOK] at hOK
          simp only [Item.entries, List.mem_map] at hein
          obtain ⟨e', he', rfl⟩ := hein
          simp only at hep
          have hcut2 : Bytes.cut1 47 p = (d, some e'.path) := by rw [← hep]; exact cut1_append d e'.path hOK
          rw [hcut] at hcut2
          simp only [Prod.mk.injEq, Option.some.injEq] at hcut2
          obtain ⟨rfl, rfl⟩ := hcut2
          obtain ⟨_, h2, h3, h4, h5⟩ := hdir c sub hit
          have hq : ((fun x : Node => x.name == c && !x.kids.isEmpty) ∘ toNode H f) (.dir c sub) = true := by
            simp [toNode, Node.name, Node.kids, h5]
          cases hf0 : (group [] [] es).find? ((fun x => x.name == c && !x.kids.isEmpty) ∘ toNode H f) with
          | none =>
            have := List.find?_eq_none.1 hf0 _ hit
            exact absurd hq this
          | some it0 =>
            have hmem := List.mem_of_find?_eq_some hf0
            have hq0 := List.find?_some hf0
            simp only [Function.comp, Bool.and_eq_true, beq_iff_eq, toNode_name, Bool.not_eq_true',
              List.isEmpty_eq_false_iff] at hq0
            have heq : it0 = .dir c sub := by
              rcases find?_first _ _ _ hpw it0 _ hf0 hit hq with h | h
              · exact h
              · exfalso
                cases it0 with
                | leaf nm i => simp [toNode, Node.kids] at hq0
                | dir d0 sub0 =>
                  simp only [Item.name] at hq0
                  obtain ⟨rfl, _⟩ := hq0
                  simp only [Item.key] at h
                  exact absurd h (List.lt_irrefl _)
            subst heq
            simp only [Option.map_some, toNode]
            exact (ih f sub e'.path h3 h2 h4 hrest hrlen).2 ⟨e', he', rfl⟩

end C07

namespace C07

open TreeBuild IndexOps C06

/-- **`GetNode` on a tree Goit wrote finds a file exactly at the snapshot's paths.** -/
theorem getNode_build (H : HashFn) (es₀ : List Entry) (hs : Canonical es₀) (hok : AllOK es₀) (p : Bytes) (hp : PathOK p) :
    (∃ n, getNode (build H (fuelFor es₀) es₀) p = some n ∧ n.kids = []) ↔ ∃ t ∈ es₀, t.path = p := by
  unfold getNode
  exact getNodeAux_build H (p.length + 1) (fuelFor es₀) es₀ p hs hok (by simp [fuelFor, size]) hp (by omega)

/-- a staged entry is reported as a new file iff the HEAD snapshot has no file at its path -/
theorem isNew_build (H : HashFn) (es₀ : List Entry) (hs : Canonical es₀) (hok : AllOK es₀) (e : Entry) (hp : PathOK e.path) :
    isNew (build H (fuelFor es₀) es₀) e = false ↔ ∃ t ∈ es₀, t.path = e.path := by
  rw [← getNode_build H es₀ hs hok e.path hp]
  unfold isNew
  cases hg : getNode (build H (fuelFor es₀) es₀) e.path with
  | none => simp
  | some n =>
    simp only [Bool.not_eq_false', Option.some.injEq, exists_eq_left']
    exact List.isEmpty_iff

theorem canonical_inj (es : List Entry) (hs : Canonical es) (a b : Entry) (ha : a ∈ es) (hb : b ∈ es)
    (h : a.path = b.path) : a = b := by
  unfold Canonical SortedKeys paths at hs
  rw [List.pairwise_map] at hs
  induction es with
  | nil => cases ha
  | cons x xs ih =>
    rw [List.pairwise_cons] at hs
    rcases List.mem_cons.1 ha with ha' | ha' <;> rcases List.mem_cons.1 hb with hb' | hb'
    · rw [ha', hb']
    · subst ha'; exact absurd (h ▸ hs.1 b hb') (List.lt_irrefl _)
    · subst hb'; exact absurd (h ▸ hs.1 a ha') (List.lt_irrefl _)
    · exact ih hs.2 ha' hb'

theorem canonical_ext (l1 l2 : List Entry) (h1 : Canonical l1) (h2 : Canonical l2) (h : ∀ e, e ∈ l1 ↔ e ∈ l2) :
    l1 = l2 := by
  induction l1 generalizing l2 with
  | nil =>
    cases l2 with
    | nil => rfl
    | cons b bs => exact absurd ((h b).2 List.mem_cons_self) (by simp)
  | cons a as ih =>
    cases l2 with
    | nil => exact absurd ((h a).1 List.mem_cons_self) (by simp)
    | cons b bs =>
      have h1' := h1; have h2' := h2
      unfold Canonical SortedKeys paths at h1' h2'
      rw [List.pairwise_map, List.pairwise_cons] at h1' h2'
      have hab : a = b := by
        rcases List.mem_cons.1 ((h a).1 List.mem_cons_self) with hab | hab
        · exact hab
        · rcases List.mem_cons.1 ((h b).2 List.mem_cons_self) with hba | hba
          · exact hba.symm
          · exact absurd (List.lt_trans (h1'.1 b hba) (h2'.1 a hab)) (List.lt_irrefl _)
      subst hab
      congr 1
      apply ih
      · unfold Canonical SortedKeys paths; rw [List.pairwise_map]; exact h1'.2
      · unfold Canonical SortedKeys paths; rw [List.pairwise_map]; exact h2'.2
      · intro e
        constructor
        · intro he
          rcases List.mem_cons.1 ((h e).1 (List.mem_cons_of_mem _ he)) with rfl | h'
          · exact absurd (h1'.1 e he) (List.lt_irrefl _)
          · exact h'
        · intro he
          rcases List.mem_cons.1 ((h e).2 (List.mem_cons_of_mem _ he)) with rfl | h'
          · exact absurd (h2'.1 e he) (List.lt_irrefl _)
          · exact h'

/-- **The staged-changes report is empty exactly when the staging area equals the HEAD snapshot** — hence
    `commit` (which refuses iff the report is empty) refuses exactly the no-op commits, for every canonical
    staging area and every snapshot Goit wrote, whatever the names. -/
theorem diff_nil_iff (H : HashFn) (es es₀ : List Entry) (hs : Canonical es) (hok : AllOK es)
    (hs0 : Canonical es₀) (hok0 : AllOK es₀) :
    diffWithTree es (build H (fuelFor es₀) es₀) = .ok [] ↔ es = es₀ := by
  rw [diff_fromTree_build H es es₀ hs hok0]
  simp only [Res.ok.injEq, List.append_eq_nil_iff, List.map_eq_nil_iff]
  constructor
  · rintro ⟨h1, h2⟩
    have hsub0 : ∀ t ∈ es₀, t ∈ es := by
      intro t ht
      obtain ⟨e, hfind, hid⟩ := (fromTree_nil_iff es es₀).1 h1 t ht
      have hmem := List.mem_of_find?_eq_some hfind
      have hq := List.find?_some hfind
      simp only [beq_iff_eq] at hq
      have : e = t := by cases e; cases t; simp_all
      exact this ▸ hmem
    apply canonical_ext es es₀ hs hs0
    intro e
    constructor
    · intro he
      have hnn : isNew (build H (fuelFor es₀) es₀) e = false := by
        have := List.filter_eq_nil_iff.1 h2 e he
        simpa using this
      obtain ⟨t, ht, htp⟩ := (isNew_build H es₀ hs0 hok0 e (hok e he)).1 hnn
      have := canonical_inj es hs t e (hsub0 t ht) he htp
      exact this ▸ ht
    · exact hsub0 e
  · rintro rfl
    constructor
    · apply (fromTree_nil_iff es es).2
      intro t ht
      obtain ⟨i, hi, hget⟩ := List.getElem_of_mem ht
      refine ⟨es[i], find_of_sorted es hs t.path i hi (by rw [hget]), by rw [hget]⟩
    · apply List.filter_eq_nil_iff.2
      intro e he
      have := (isNew_build H es hs hok e (hok e he)).2 ⟨e, he, rfl⟩
      simp [this]

/-- and in general the new-file part of the report lists exactly the staged paths absent from the snapshot -/
theorem diff_exact (H : HashFn) (es es₀ : List Entry) (hs : Canonical es) (hok : AllOK es)
    (hs0 : Canonical es₀) (hok0 : AllOK es₀) :
    diffWithTree es (build H (fuelFor es₀) es₀) = .ok (fromTree es es₀ ++
      (es.filter (fun e => decide (∀ t ∈ es₀, t.path ≠ e.path))).map fun e => ⟨.new, e.id, e.path⟩) := by
  rw [diff_fromTree_build H es es₀ hs hok0]
  congr 3
  apply List.filter_congr
  intro e he
  have h := isNew_build H es₀ hs0 hok0 e (hok e he)
  cases hn : isNew (build H (fuelFor es₀) es₀) e with
  | false =>
    obtain ⟨t, ht, htp⟩ := h.1 hn
    symm; simp only [decide_eq_false_iff_not]
    exact fun hall => hall t ht htp
  | true =>
    symm; simp only [decide_eq_true_eq]
    intro t ht htp
    have := h.2 ⟨t, ht, htp⟩
    rw [hn] at this; cases this

end C07

/-! non-vacuity: a snapshot with siblings sorting between `test` and `test/`, and a file next to a directory of its name -/
section Examples
open TreeBuild IndexOps
def exSnap : List Entry := [⟨[1], asc "test"⟩, ⟨[2], asc "test-data"⟩, ⟨[3], asc "test.c"⟩, ⟨[4], asc "test/x"⟩, ⟨[5], asc "test/y z"⟩]
example : C06.Canonical exSnap := by unfold C06.Canonical SortedKeys; decide +kernel
example : AllOK exSnap := by unfold AllOK PathOK; decide +kernel
end Examples
