import GoitProofs.Lemmas.World

/-! C03 (clause `monotone`) and C11 (clause `append`) on the whole-repository model, for **every** state,
    **every** invocation (successful, refused, or failing half-way) and every history:

    * no stored object ever disappears or changes (`world_objects_monotone`, `world_history_objects_monotone`);
    * `logs/HEAD` only ever grows at its end: what was there stays, byte for byte, as a prefix
      (`C11.world_log_prefix`, `C11.world_history_log_prefix`).

    `W.run` is compared with the real `goit` on every step of every generated history (`w.x` lines). -/

namespace W

/-- every object of the first store is in the second, with the same content -/
def OL (a b : List (Bytes × Bytes)) : Prop := ∀ id c, aget a id = some c → aget b id = some c

theorem OL.refl (a) : OL a a := fun _ _ h => h
theorem OL.trans {a b c} (h1 : OL a b) (h2 : OL b c) : OL a c := fun i x h => h2 i x (h1 i x h)

theorem ol_putObj {l} (w : World) (id c : Bytes) (h : OL l w.objs) : OL l (putObj w id c).objs :=
  h.trans (putObj_le w id c)
theorem ol_putObjs {l} (w : World) (os) (h : OL l w.objs) : OL l (putObjs w os).objs :=
  h.trans (putObjs_le w os)
theorem ol_putBlobs {l} (H : HashFn) (w : World) (ds) (h : OL l w.objs) : OL l (List.foldl (putBlob H) w ds).objs :=
  h.trans (putBlobs_le H w ds)

/-- the log before is a prefix of the log after -/
def PL (a b : Option Bytes) : Prop := a.getD [] <+: b.getD []

theorem PL.refl (a) : PL a a := List.prefix_refl _
theorem PL.trans {a b c} (h1 : PL a b) (h2 : PL b c) : PL a c := List.IsPrefix.trans h1 h2
theorem pl_append {l} (o : Option Bytes) (x : Bytes) (h : PL l o) : PL l (some (o.getD [] ++ x)) := by
  unfold PL at *; simp only [Option.getD_some]; exact h.trans (List.prefix_append _ _)

/-- both facts at once -/
def Grows (w w' : World) : Prop := OL w.objs w'.objs ∧ PL w.logHead w'.logHead

theorem Grows.refl (w) : Grows w w := ⟨OL.refl _, PL.refl _⟩
theorem Grows.trans {a b c : World} (h1 : Grows a b) (h2 : Grows b c) : Grows a c := ⟨h1.1.trans h2.1, h1.2.trans h2.2⟩

/-- closes goals `OL w.objs e.objs` / `PL w.logHead e.logHead` where `e` is built from the primitive updates -/
macro "grow" : tactic => `(tactic| (
  refine ⟨?_, ?_⟩
  · simp only [setHead_objs, appendLogHead_objs, appendLogBranch_objs, writeFile_objs, setIndexIfChanged_objs,
      writeEntries_objs]
    repeat (first | exact OL.refl _ | apply ol_putObj | apply ol_putObjs | apply ol_putBlobs)
  · simp only [setHead_logHead, appendLogHead_logHead, appendLogBranch_logHead, writeFile_logHead,
      setIndexIfChanged_logHead, writeEntries_logHead, putObj_logHead, putObjs_logHead, putBlobs_logHead]
    repeat (first | exact PL.refl _ | apply pl_append)))

/-- unfold a command, remove its local definitions, split every branch, close each by the primitive lemmas -/
macro "grows_by " f:ident : tactic => `(tactic| (
  unfold $f
  try unfold branchCreate
  try unfold branchRename
  try unfold branchDelete
  try unfold switchTo
  try unfold switchCreate
  try unfold updateRefTo
  try unfold resetTo
  try unfold commitWrite
  try dsimp only
  repeat' split
  all_goals first | exact Grows.refl _ | grow))

theorem addCmd_grows (H) (w l args) : Grows w (addCmd H w l args).1 := by grows_by addCmd
theorem rmCmd_grows (w l args) : Grows w (rmCmd w l args).1 := by grows_by rmCmd

theorem restoreWorkP_grows (H idx w args) : Grows w (restoreWorkP H idx w args).1 := by
  refine ⟨?_, ?_⟩
  · rw [restoreWorkP_field H (fun w => w.objs) writeFile_objs]; exact OL.refl _
  · rw [restoreWorkP_field H (fun w => w.logHead) writeFile_logHead]; exact PL.refl _

theorem restoreCmd_grows (H) (w l staged args) : Grows w (restoreCmd H w l staged args).1 := by
  unfold restoreCmd
  dsimp only
  repeat' split
  all_goals first | exact Grows.refl _ | exact restoreWorkP_grows _ _ _ _ | grow

theorem commitCmd_grows (H) (w l msg tz ts) : Grows w (commitCmd H w l msg tz ts).1 := by grows_by commitCmd
theorem branchCmd_grows (w l args list ren del tz ts) : Grows w (branchCmd w l args list ren del tz ts).1 := by
  grows_by branchCmd
theorem switchCmd_grows (H) (w l args create tz ts) : Grows w (switchCmd H w l args create tz ts).1 := by
  grows_by switchCmd
theorem updateRefCmd_grows (H) (w l args) : Grows w (updateRefCmd H w l args).1 := by grows_by updateRefCmd
theorem resetCmd_grows (H) (w l s m h args tz ts) : Grows w (resetCmd H w l s m h args tz ts).1 := by grows_by resetCmd
theorem configCmd_grows (w g args) : Grows w (configCmd w g args).1 := by grows_by configCmd
theorem initCmd_grows (w) : Grows w (initCmd w).1 := by grows_by initCmd

theorem run_grows (H : HashFn) (w : World) (i : Inv) : Grows w (run H w i).1 := by
  unfold run
  dsimp only
  repeat' split
  all_goals first
    | exact Grows.refl _ | exact initCmd_grows _ | exact addCmd_grows _ _ _ _ | exact rmCmd_grows _ _ _
    | exact commitCmd_grows _ _ _ _ _ _ | exact branchCmd_grows _ _ _ _ _ _ _ _ | exact switchCmd_grows _ _ _ _ _ _ _
    | exact resetCmd_grows _ _ _ _ _ _ _ _ _ | exact restoreCmd_grows _ _ _ _ _ | exact updateRefCmd_grows _ _ _ _
    | exact configCmd_grows _ _ _ | grow

theorem runAll_grows (H : HashFn) (w : World) (is : List Inv) : Grows w (runAll H w is) := by
  unfold runAll
  induction is generalizing w with
  | nil => exact Grows.refl w
  | cons i is ih => simp only [List.foldl_cons]; exact (run_grows H w i).trans (ih _)

end W

namespace C03

/-- one invocation of any sub-command, in any state, with any outcome: every stored object is still
    stored afterwards, under the same id, with the same bytes -/
theorem world_objects_monotone (H : HashFn) (w : W.World) (i : W.Inv) (id c : Bytes)
    (h : W.aget w.objs id = some c) : W.aget (W.run H w i).1.objs id = some c :=
  (W.run_grows H w i).1 id c h

/-- … and so after every history -/
theorem world_history_objects_monotone (H : HashFn) (w : W.World) (is : List W.Inv) (id c : Bytes)
    (h : W.aget w.objs id = some c) : W.aget (W.runAll H w is).objs id = some c :=
  (W.runAll_grows H w is).1 id c h

end C03

namespace C11

/-- `logs/HEAD` is append-only through every invocation: the bytes that were there are a prefix of the bytes
    that are there afterwards (for commands that do not log, and for refused ones, the file is unchanged) -/
theorem world_log_prefix (H : HashFn) (w : W.World) (i : W.Inv) :
    w.logHead.getD [] <+: (W.run H w i).1.logHead.getD [] := (W.run_grows H w i).2

theorem world_history_log_prefix (H : HashFn) (w : W.World) (is : List W.Inv) :
    w.logHead.getD [] <+: (W.runAll H w is).logHead.getD [] := (W.runAll_grows H w is).2

end C11
