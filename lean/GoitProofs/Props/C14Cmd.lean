import GoitProofs.Props.C14

/-! # C14 at command level: `goit log [-n k]` on the command model `Cmds.logCmd`
    (compared with the ids the real `log` prints on every `log` of the generated histories) -/

namespace C14

open History Cmds

/-- **`log -n k` lists exactly the first min(k, length) commits of the parent chain from HEAD, newest first,
    each once**, for every chain and every k ≥ 0 -/
theorem logCmd_chain (H : HashFn) (st : Store) (head : Bytes) (c : Commit) (rest : List (Bytes × Commit)) (k : Nat)
    (hc : Chain H st ((head, c) :: rest)) (hnd : (ids ((head, c) :: rest)).Nodup) :
    logCmd H st true head (k : Int) = .ok (ids (((head, c) :: rest).take k)) := by
  simp only [logCmd, Bool.not_true, Bool.false_eq_true, if_false, log_chain H st head c rest k hc hnd, Res.map, ids]

/-- the number of commits listed is min(k, length) -/
theorem logCmd_count (H : HashFn) (st : Store) (head : Bytes) (c : Commit) (rest : List (Bytes × Commit)) (k : Nat)
    (hc : Chain H st ((head, c) :: rest)) (hnd : (ids ((head, c) :: rest)).Nodup) :
    ∃ l, logCmd H st true head (k : Int) = .ok l ∧ l.length = min k (rest.length + 1) := by
  refine ⟨_, logCmd_chain H st head c rest k hc hnd, ?_⟩
  simp [ids]

/-- `-n 0` and negative bounds print nothing; before the first commit `log` is refused -/
theorem logCmd_nonpos (H : HashFn) (st : Store) (head : Bytes) (k : Int) (hk : k ≤ 0) :
    logCmd H st true head k = .ok [] := by
  simp [logCmd, log_nonpos H st head k hk, Res.map]

theorem logCmd_no_commits (H : HashFn) (st : Store) (head : Bytes) (k : Int) : logCmd H st false head k = .err := by
  simp [logCmd]

end C14
