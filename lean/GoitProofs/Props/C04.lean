import GoitProofs.Props.C06

/-! # C04 — Staging is exact: the index operations behind `add` and `rm` -/

namespace C04

open IndexOps C06

theorem leEntry_trans (a b c : Entry) : leEntry a b = true → leEntry b c = true → leEntry a c = true := by
  simp only [leEntry, decide_eq_true_eq]; exact List.le_trans
theorem leEntry_total (a b : Entry) : (leEntry a b || leEntry b a) = true := by
  simp only [leEntry, Bool.or_eq_true, decide_eq_true_eq]; exact List.le_total a.path b.path

/-- after `Index.Update` the entries are a permutation of the old ones with the updated entry in place -/
theorem update_perm (es : List Entry) (hs : Canonical es) (id p : Bytes) :
    (∀ i, (h : i < es.length) → es[i].path = p → es[i].id ≠ id →
        update es id p = .ok (true, sortEntries (es.eraseIdx i ++ [⟨id, p⟩]))) ∧
    (∀ i, (h : i < es.length) → es[i].path = p → es[i].id = id → update es id p = .ok (false, es)) ∧
    ((∀ e ∈ es, e.path ≠ p) → update es id p = .ok (true, sortEntries (es ++ [⟨id, p⟩]))) := by
  obtain ⟨h1, h2, _⟩ := getEntry_correct es hs p
  refine ⟨?_, ?_, ?_⟩
  · intro i hi hp hne
    have hg := h1 i hi hp
    simp only [update, hg, List.getElem?_eq_getElem hi]
    have : ¬ (es[i].id = id ∧ es[i].path = p) := fun h => hne h.1
    simp [this]
  · intro i hi hp he
    have hg := h1 i hi hp
    simp only [update, hg, List.getElem?_eq_getElem hi]
    simp [he, hp]
  · intro hn
    simp [update, h2 hn]

/-- **Re-adding an unchanged file changes nothing** (same id, same path ⇒ the index is not even rewritten) -/
theorem update_same_noop (es : List Entry) (hs : Canonical es) (e : Entry) (he : e ∈ es) :
    update es e.id e.path = .ok (false, es) := by
  obtain ⟨i, hi, hei⟩ := List.getElem_of_mem he
  exact (update_perm es hs e.id e.path).2.1 i hi (by rw [hei]) (by rw [hei])

/-- the merge sort used to model `sort.Slice` returns a permutation in ascending path order -/
theorem sortEntries_perm (es : List Entry) : (sortEntries es).Perm es := List.mergeSort_perm _ _
theorem sortEntries_sorted (es : List Entry) : (sortEntries es).Pairwise (fun a b => leEntry a b = true) :=
  List.pairwise_mergeSort leEntry_trans leEntry_total es

/-- **Staging a path stages exactly that path**: the new entry is present, and an entry with any other
    path is present afterwards iff it was present before. -/
theorem update_membership (es : List Entry) (hs : Canonical es) (id p : Bytes) :
    ∃ ch es', update es id p = .ok (ch, es') ∧ (⟨id, p⟩ : Entry) ∈ es' ∧
      ∀ e : Entry, e.path ≠ p → (e ∈ es' ↔ e ∈ es) := by
  by_cases hex : ∃ e ∈ es, e.path = p
  · obtain ⟨e, he, hp⟩ := hex
    obtain ⟨i, hi, hei⟩ := List.getElem_of_mem he
    have hpi : es[i].path = p := by rw [hei]; exact hp
    by_cases hid : es[i].id = id
    · refine ⟨false, es, (update_perm es hs id p).2.1 i hi hpi hid, ?_, fun _ _ => Iff.rfl⟩
      have : es[i] = ⟨id, p⟩ := by
        cases hx : es[i]; simp only [hx] at hid hpi; simp [hid, hpi]
      rw [← this]; exact List.getElem_mem hi
    · refine ⟨true, _, (update_perm es hs id p).1 i hi hpi hid, ?_, ?_⟩
      · exact (sortEntries_perm _).mem_iff.mpr (by simp)
      · intro x hx
        rw [(sortEntries_perm _).mem_iff]
        simp only [List.mem_append, List.mem_singleton]
        constructor
        · rintro (h | h)
          · exact List.mem_of_mem_eraseIdx h
          · subst h; exact absurd rfl hx
        · intro h
          left
          -- x is in es and is not the erased element (different path)
          obtain ⟨j, hj, hxj⟩ := List.getElem_of_mem h
          have hji : j ≠ i := by
            intro e; subst e; rw [hxj] at hpi; exact hx hpi
          rw [List.mem_eraseIdx_iff_getElem]
          exact ⟨j, hj, hji, hxj⟩
  · have hn : ∀ e ∈ es, e.path ≠ p := fun e he hp => hex ⟨e, he, hp⟩
    refine ⟨true, _, (update_perm es hs id p).2.2 hn, ?_, ?_⟩
    · exact (sortEntries_perm _).mem_iff.mpr (by simp)
    · intro x hx
      rw [(sortEntries_perm _).mem_iff]
      simp only [List.mem_append, List.mem_singleton]
      constructor
      · rintro (h | h)
        · exact h
        · subst h; exact absurd rfl hx
      · intro h; exact Or.inl h

/-- **Unstaging removes exactly the named path**; an untracked path is refused. -/
theorem delete_exact (es : List Entry) (hs : Canonical es) (p : Bytes) :
    (∀ i, (h : i < es.length) → es[i].path = p → delete es p = .ok (es.eraseIdx i)) ∧
    ((∀ e ∈ es, e.path ≠ p) → delete es p = .err) := by
  obtain ⟨h1, h2, _⟩ := getEntry_correct es hs p
  exact ⟨fun i hi hp => by simp [delete, h1 i hi hp], fun hn => by simp [delete, h2 hn]⟩

/-- removing an entry keeps the index canonical -/
theorem eraseIdx_canonical (es : List Entry) (hs : Canonical es) (i : Nat) : Canonical (es.eraseIdx i) := by
  unfold Canonical SortedKeys paths at *
  exact List.Pairwise.sublist ((List.eraseIdx_sublist es i).map _) hs

end C04
