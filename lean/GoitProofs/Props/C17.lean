import GoitModel

/-! # C17 — Goit's own directory and ignored paths never enter the staging area (matching rules) -/

namespace C17

open Ignore

def lits (l : Bytes) : List Tok := l.map Tok.lit

theorem matchHere_lits (l rest : Bytes) (ts : List Tok) : matchHere (lits l ++ ts) (l ++ rest) = matchHere ts rest := by
  induction l with
  | nil => simp [lits]
  | cons a as ih =>
    simp only [lits, List.map_cons, List.cons_append] at ih ⊢
    rw [matchHere]
    simp [ih]

theorem search_of_suffix (pat : List Tok) (pre s : Bytes) (h : matchHere pat s = true) : search pat (pre ++ s) = true := by
  induction pre with
  | nil =>
    cases s with
    | nil => simpa [search] using h
    | cons a as => simp [search, h]
  | cons b bs ih =>
    simp only [List.cons_append, search, ih, Bool.or_true]

theorem star_nil (s : Bytes) : matchHere [.star] s = true := by
  cases s <;> simp [matchHere]

/-- **A `name/` entry excludes everything beneath that directory**, wherever the directory sits in the
    path, whatever characters the name contains (the text is matched literally). -/
theorem matches_dir (name pre rest : Bytes) (other : List Bytes) :
    matchesTarget ((name ++ [47]) :: other) (pre ++ (name ++ [47]) ++ rest) = true := by
  have hc : compile (name ++ [47]) = lits (name ++ [47]) ++ [.star] := by
    have : List.elem (47 : UInt8) (name ++ [47]) = true := by simp
    simp [compile, this, lits]
  have h1 : matchHere (lits (name ++ [47]) ++ [.star]) ((name ++ [47]) ++ rest) = true := by
    rw [matchHere_lits]; exact star_nil rest
  have h2 := search_of_suffix _ pre _ h1
  simp only [matchesTarget, List.any_cons, hc]
  rw [List.append_assoc, h2]
  simp

theorem star_consume (stem : Bytes) (ts : List Tok) (s : Bytes) (hs : (10 : UInt8) ∉ stem)
    (h : matchHere ts s = true) : matchHere (.star :: ts) (stem ++ s) = true := by
  induction stem with
  | nil =>
    cases s with
    | nil => simpa [matchHere] using h
    | cons a as => simp [matchHere, h]
  | cons b bs ih =>
    have hb : b ≠ 10 := fun e => hs (by simp [e])
    have := ih (fun m => hs (List.mem_cons_of_mem _ m))
    simp only [List.cons_append]
    rw [matchHere]
    simp [hb, this]

theorem matchHere_lits_nil (l : Bytes) : matchHere (lits l) l = true := by
  have := matchHere_lits l [] []
  simp only [List.append_nil] at this
  rw [this]; simp [matchHere]

/-- **A `*.ext` entry excludes files with that extension** (in any directory). -/
theorem matches_ext (ext stem : Bytes) (other : List Bytes) (hext : (47 : UInt8) ∉ ext ∧ (42 : UInt8) ∉ ext)
    (hstem : (10 : UInt8) ∉ stem) :
    matchesTarget ((42 :: 46 :: ext) :: other) (stem ++ 46 :: ext) = true := by
  have hno : List.elem (47 : UInt8) (42 :: 46 :: ext) = false := by
    simp only [List.elem_cons]
    have : List.elem (47 : UInt8) ext = false := by
      cases h : List.elem (47 : UInt8) ext
      · rfl
      · exact absurd (List.elem_iff.mp h) hext.1
    simp [this, hext.1]
  have hmap : ext.map (fun c => if c = 42 then Tok.star else Tok.lit c) = lits ext := by
    apply List.map_congr_left
    intro c hc
    have : c ≠ 42 := fun e => hext.2 (e ▸ hc)
    simp [this]
  have hc : compile (42 :: 46 :: ext) = .star :: lits (46 :: ext) := by
    simp only [compile, hno, Bool.false_eq_true, if_false, List.map_cons, if_true]
    simp [lits, hmap]
  have h1 : matchHere (.star :: lits (46 :: ext)) (stem ++ 46 :: ext) = true :=
    star_consume stem _ _ hstem (matchHere_lits_nil (46 :: ext))
  have h2 := search_of_suffix _ [] _ h1
  simp only [matchesTarget, List.any_cons, hc]
  simp only [List.nil_append] at h2
  rw [h2]; simp

/-- **With no `.goitignore`, no path outside the metadata directory is ever hidden**: only paths that
    start with `.goit/` match (the pinned, unanchored pattern also hid `my.goit/file`). -/
theorem nothing_hidden_without_ignore (t : Bytes) : matchesTarget [] t = Bytes.hasPrefix t (asc ".goit/") := by
  simp [matchesTarget, isMeta, metaPrefix]

/-- Goit's own directory is always excluded, whatever `.goitignore` says -/
theorem meta_always (lines : List Bytes) (rest : Bytes) : matchesTarget lines (asc ".goit/" ++ rest) = true := by
  have : Bytes.hasPrefix (asc ".goit/" ++ rest) (asc ".goit/") = true := by
    induction (asc ".goit/") with
    | nil => cases rest <;> simp [Bytes.hasPrefix]
    | cons a as ih => simp [Bytes.hasPrefix, ih]
  simp [matchesTarget, isMeta, metaPrefix, this]

example : matchesTarget [] (asc "my.goit/file") = false ∧ matchesTarget [asc "x+y/"] (asc "x+y/f") = true ∧
    matchesTarget [asc "x+y/"] (asc "xxy/f") = false ∧ matchesTarget [asc "*.log"] (asc "d/f.log") = true := by decide +kernel

end C17
