import GoitProofs.Lemmas.BSearch

/-! # C10 — Branch and HEAD state machine (the sorted branch list and its operations) -/

namespace C10

open Refs

def Sorted (h : Heads) : Prop := SortedKeys (names h)

/-- the hand-written binary search over the branch list finds exactly the existing names -/
theorem getBranchPos_correct (h : Heads) (hs : Sorted h) (n : Bytes) :
    (∀ i, (hi : i < h.length) → h[i].1 = n → getBranchPos h n = .found i) ∧
    (n ∉ names h → getBranchPos h n = .notFound) ∧ getBranchPos h n ≠ .crash := by
  obtain ⟨h1, h2, h3⟩ := bsearchTop_correct (names h) hs n
  refine ⟨?_, h2, h3⟩
  intro i hi hn
  exact h1 i (by simpa [names] using hi) (by simpa [names] using hn)

theorem found_of_mem (h : Heads) (hs : Sorted h) (n : Bytes) (hm : n ∈ names h) :
    ∃ i, ∃ hi : i < h.length, h[i].1 = n ∧ getBranchPos h n = .found i := by
  simp only [names, List.mem_map] at hm
  obtain ⟨p, hp, rfl⟩ := hm
  obtain ⟨i, hi, hpi⟩ := List.getElem_of_mem hp
  exact ⟨i, hi, by rw [hpi], (getBranchPos_correct h hs p.1).1 i hi (by rw [hpi])⟩

/-- **Creating a branch adds exactly one branch**: the new list is a permutation of the old one plus
    the new (name, commit) pair — every other branch keeps its commit. -/
theorem add_ok (h : Heads) (hs : Sorted h) (n id : Bytes) (hv : validName n = true) (hnew : n ∉ names h) :
    ∃ h', add h n id = .ok h' ∧ h'.Perm (h ++ [(n, id)]) := by
  have := (getBranchPos_correct h hs n).2.1 hnew
  exact ⟨sortHeads (h ++ [(n, id)]), by simp [add, hv, this], List.mergeSort_perm _ _⟩

/-- **Duplicate names are refused.** -/
theorem add_dup (h : Heads) (hs : Sorted h) (n id : Bytes) (hm : n ∈ names h) : add h n id = .err := by
  obtain ⟨i, _, _, hf⟩ := found_of_mem h hs n hm
  unfold add
  split
  · rfl
  · simp [hf]

/-- names that would leave `refs/heads` are refused (the pinned code let `../../HEAD` overwrite HEAD) -/
theorem add_invalid (h : Heads) (n id : Bytes) (hv : validName n = false) : add h n id = .err := by
  simp [add, hv]

example : validName (asc "../../HEAD") = false ∧ validName (asc "a/b") = false ∧ validName (asc "..") = false ∧
    validName (asc "v1.0-x_y") = true := by decide

/-- **Deleting removes exactly that branch** and is refused for the current branch or an unknown name. -/
theorem delete_ok (h : Heads) (hs : Sorted h) (head del : Bytes) (hne : del ≠ head) (hm : del ∈ names h) :
    ∃ i, ∃ hi : i < h.length, h[i].1 = del ∧ delete h head del = .ok (h.eraseIdx i) := by
  obtain ⟨i, hi, hn, hf⟩ := found_of_mem h hs del hm
  exact ⟨i, hi, hn, by simp [delete, hne, hf]⟩

theorem delete_current_refused (h : Heads) (head : Bytes) : delete h head head = .err := by simp [delete]

theorem delete_unknown_refused (h : Heads) (hs : Sorted h) (head del : Bytes) (hm : del ∉ names h) :
    delete h head del = .err := by
  have := (getBranchPos_correct h hs del).2.1 hm
  unfold delete
  split
  · rfl
  · simp [this]

/-- **`update-ref` sets exactly the named branch**; all names and all other commits are unchanged. -/
theorem update_ok (h : Heads) (hs : Sorted h) (n id : Bytes) (hm : n ∈ names h) :
    ∃ i, ∃ hi : i < h.length, h[i].1 = n ∧ update h n id = .ok (h.modify i (fun p => (p.1, id))) := by
  obtain ⟨i, hi, hn, hf⟩ := found_of_mem h hs n hm
  exact ⟨i, hi, hn, by simp [update, hf]⟩

theorem update_unknown_refused (h : Heads) (hs : Sorted h) (n id : Bytes) (hm : n ∉ names h) : update h n id = .err := by
  simp [update, (getBranchPos_correct h hs n).2.1 hm]

/-- **Renaming gives the branch a new name with the same commit**; refused if the new name exists. -/
theorem rename_ok (h : Heads) (hs : Sorted h) (cur new : Bytes) (hv : validName new = true) (hnew : new ∉ names h)
    (hm : cur ∈ names h) :
    ∃ i, ∃ hi : i < h.length, h[i].1 = cur ∧
      ∃ h', rename h cur new = .ok h' ∧ h'.Perm (h.modify i (fun p => (new, p.2))) := by
  obtain ⟨i, hi, hn, hf⟩ := found_of_mem h hs cur hm
  have hnf := (getBranchPos_correct h hs new).2.1 hnew
  exact ⟨i, hi, hn, sortHeads (h.modify i (fun p => (new, p.2))), by simp [rename, hv, hnf, hf], List.mergeSort_perm _ _⟩

theorem rename_dup_refused (h : Heads) (hs : Sorted h) (cur new : Bytes) (hm : new ∈ names h) : rename h cur new = .err := by
  obtain ⟨i, _, _, hf⟩ := found_of_mem h hs new hm
  unfold rename
  split
  · rfl
  · simp [hf]

/-- non-vacuity: names that are prefixes of each other, in sorted order -/
example : Sorted [(asc "a", []), (asc "ab", []), (asc "abc", []), (asc "main", [])] := by
  simp [Sorted, SortedKeys, names]; decide

end C10
