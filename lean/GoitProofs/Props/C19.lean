import GoitProofs.Props.C01
import GoitProofs.Lemmas.BSearch

/-! # C19 — Decoders are total: damaged files give errors, not crashes or wrong data

In the model every decoder is a total function into `Option`/`Res`: `Obj.decode`, `TreeCodec.walk`,
`Commit.parse`, `Sign.parse`, `IndexFile.decode`, `Config.parse`, `Head.parse`, `readHash`,
`Reflog.parse` cannot panic by construction (Lean accepts the definitions only with their termination
proofs); that the *code* behaves like these definitions on damaged input is what the correspondence
run checks. The theorems below are the parts that are not by type. -/

namespace C19

/-- the only panic left in `GetObject` is the empty id (slicing `hash.String()[:2]`) -/
theorem get_crash_iff (H : HashFn) (s : Store) (id : Bytes) : Store.get H s id = .crash ↔ id = [] := by
  constructor
  · intro hc
    unfold Store.get at hc
    split at hc
    · assumption
    · split at hc
      · cases hc
      · split at hc
        · cases hc
        · split at hc <;> cases hc
  · intro e; simp [Store.get, e]

/-- **A damaged object is never returned as if it were the requested content**: whatever bytes the
    file holds, a successful read returns content that hashes to the requested id (so a truncated,
    bit-flipped or swapped file is an error, up to a hash collision). -/
theorem get_returns_requested (H : HashFn) (s : Store) (id : Bytes) (kd : Kind × Bytes)
    (h : Store.get H s id = .ok kd) :
    ∃ content, s id = some content ∧ H.sha content = id ∧ Obj.decode content = some kd := by
  unfold Store.get at h
  by_cases hid : id = []
  · simp [hid] at h
  · simp only [hid, if_false] at h
    cases hs : s id with
    | none => simp [hs] at h
    | some c =>
      simp only [hs] at h
      cases hd : Obj.decode c with
      | none => simp [hd] at h
      | some x =>
        simp only [hd] at h
        by_cases hsha : H.sha c = id
        · simp only [hsha, if_true, Res.ok.injEq] at h
          exact ⟨c, rfl, hsha, by rw [← h]; exact hd⟩
        · simp [hsha] at h

/-- the kind table is strict: no reader ever yields the `undefined` kind -/
theorem parse_ne_undefined (s : Bytes) (k : Kind) (h : Kind.parse s = some k) : k ≠ .undefined := by
  unfold Kind.parse at h
  split at h
  · cases h; decide
  · split at h
    · cases h; decide
    · split at h
      · cases h; decide
      · split at h
        · cases h; decide
        · cases h

/-- **No unbounded work or allocation from a forged entry count**: decoding `n` entries succeeds only
    if the file really holds them (≥ 22 bytes each), so the number of entries built is bounded by the
    file size, whatever the header claims. -/
theorem decodeEntries_bounded (n : Nat) (buf : Bytes) (es : List Entry) (h : IndexFile.decodeEntries n buf = some es) :
    es.length = n ∧ 22 * n ≤ buf.length := by
  induction n generalizing buf es with
  | zero => simp [IndexFile.decodeEntries] at h; subst h; simp
  | succ n ih =>
    rw [IndexFile.decodeEntries] at h
    split at h
    · cases h
    · rename_i h1
      simp only at h
      split at h
      · cases h
      · rename_i h2
        split at h
        · cases h
        · rename_i h3
          split at h
          · rename_i es' hr
            cases h
            obtain ⟨hl, hb⟩ := ih _ _ hr
            simp only [List.length_drop] at hb h1 h2 h3
            simp only [List.length_cons, hl, true_and]
            omega
          · cases h

/-- a forged count of 2^32−1 on a short file is an error, not an allocation -/
example : IndexFile.decode (asc "DIRC" ++ [0,0,0,1, 255,255,255,255] ++ List.replicate 40 0) = none := by decide +kernel

/-- the lookups never index out of range on canonical data -/
theorem lookups_never_crash (keys : List Bytes) (hs : SortedKeys keys) (x : Bytes) : bsearchTop keys x ≠ .crash :=
  (bsearchTop_correct keys hs x).2.2

end C19
