import GoitProofs.Props.C03Closure
set_option linter.unusedSimpArgs false
set_option linter.unusedVariables false

/-! The whole of C03 on the whole-repository model with hypotheses about **inputs** only: the "reads back" conditions of
    `StepOK` / `StepOK3` (the new commit object's `tree` and `parent` lines parse back) are *derived* here from
    `C12.commit_parse_format`, for identities and messages in C12's domain, using the reference-side invariant `Conn`
    (the branch file holds the hex id of a stored commit). What remains assumed per step: name/size conditions on the files
    `add` reads, sizes of the objects made, and the absence of SHA-1 collisions for exactly the objects the step stores. -/

namespace W

open C04 C05 C06 C17 TreeBuild TreeCodec

/-- the identity and the message of a `commit` are in the domain in which commit objects read back (C12): an identity the
    signature reader accepts, a message made of lines without CR at the end and shorter than the scanner's limit, author and
    committer lines likewise -/
def CommitDomain (w : World) (msg : Bytes) (tz t : Int) : Prop :=
  ∀ loc glob, Cmds.cfgOf w.cfgLocal = some loc → Cmds.cfgOf w.cfgGlobal = some glob →
    C12.SignOK ⟨Config.userField loc glob (asc "name"), Config.userField loc glob (asc "email"), t, tz⟩ ∧
    Bytes.LineOK (C12.authorLine ⟨Config.userField loc glob (asc "name"), Config.userField loc glob (asc "email"), t, tz⟩) ∧
    Bytes.LineOK (C12.committerLine ⟨Config.userField loc glob (asc "name"), Config.userField loc glob (asc "email"), t, tz⟩) ∧
    ∃ ls, ls ≠ [] ∧ msg = Bytes.join [10] ls ∧ ∀ l ∈ ls, Bytes.LineOK l

/-- a header line made of a short keyword and the hex form of a 20-byte id is a line the scanner returns whole -/
theorem hexLine_ok (pre t : Bytes) (hpre : (10 : UInt8) ∉ pre) (hl : pre.length ≤ 100) (ht : t.length = 20) :
    Bytes.LineOK (pre ++ hashStr t) := by
  have hhex := Hex.encode_all_lower t
  have hlen : (Hex.encode t).length = 40 := by rw [Hex.encode_length, ht]
  refine ⟨?_, ?_, ?_⟩
  · intro hm
    rcases List.mem_append.mp hm with h1 | h1
    · exact hpre h1
    · have := hhex 10 h1; revert this; decide
  · simp only [List.length_append, hashStr, hlen, Bytes.maxToken]; omega
  · have hne : Hex.encode t ≠ [] := by intro h0; rw [h0] at hlen; cases hlen
    intro h13
    rw [List.getLast?_append] at h13
    cases hg : (hashStr t).getLast? with
    | none => exact hne (List.getLast?_eq_none_iff.mp hg)
    | some y =>
    rw [hg] at h13
    simp at h13
    subst h13
    have hmem : (13 : UInt8) ∈ Hex.encode t := List.mem_of_getLast? hg
    have := hhex 13 hmem; revert this; decide

theorem lineOK_nil : Bytes.LineOK [] := ⟨by simp, by simp [Bytes.maxToken], by simp⟩

theorem writeTree_id_len (H : HashFn) (es : List Entry) : (writeTree H es).id.length = 20 := by
  show (write H ((es.map (fun e => e.path.length)).sum + 1) es).id.length = 20
  rw [(root_write_mem H _ es).2]; exact H.len20 _

theorem commitAt_len20 (H : HashFn) (w : World) (hn : Named H w) (id : Bytes) (h : (commitAt H w id).isSome = true) : id.length = 20 := by
  cases hc : commitAt H w id with
  | none => rw [hc] at h; cases h
  | some c =>
    obtain ⟨d, hget, _⟩ := commitAt_some_get H w id c hc
    cases ha : aget w.objs id with
    | none => exact absurd hget (get_none H w id _ ha)
    | some content => rw [← hn id content ha]; exact H.len20 _

/-- in a connected repository, for an identity and a message in C12's domain, the commit object `commit` makes **reads back
    as what was put in**: the root tree of the staged entries, the commit the branch file names as its only parent (none when the
    branch has no file yet), the configured identity as author and committer at the clock's instant and offset, the message -/
theorem commit_parses (H : HashFn) (w : World) (l : Loaded) (snap : Option (List Entry)) (msg : Bytes) (tz t : Int) (id data : Bytes)
    (hconn : Conn H w) (hcc : Cmds.commitCmd H (commitIn w l snap msg tz t) = .ok (id, data))
    (hdom : CommitDomain w msg tz t) :
    ∃ (parent : Option Bytes) (loc glob : Config.Sections),
      aget w.heads l.ref = parent.map hashStr ∧ (∀ p, parent = some p → (commitAt H w p).isSome = true) ∧
      Cmds.cfgOf w.cfgLocal = some loc ∧ Cmds.cfgOf w.cfgGlobal = some glob ∧
      Commit.parse data = some ⟨some (writeTree H l.idx).id, parent.toList,
        some ⟨Config.userField loc glob (asc "name"), Config.userField loc glob (asc "email"), t, tz⟩,
        some ⟨Config.userField loc glob (asc "name"), Config.userField loc glob (asc "email"), t, tz⟩, msg⟩ := by
  obtain ⟨loc, glob, hloc, hglob, _, hdata, _, _, _, _⟩ := C02.commitCmd_ok H _ id data hcc
  obtain ⟨hsign, hau, hco, ls, hls, hmsg, hmsgl⟩ := hdom loc glob hloc hglob
  have hlines : ∀ parent : Option Bytes, (∀ p, parent = some p → p.length = 20) →
      ∀ x ∈ C12.headerLines (writeTree H l.idx).id parent
        ⟨Config.userField loc glob (asc "name"), Config.userField loc glob (asc "email"), t, tz⟩
        ⟨Config.userField loc glob (asc "name"), Config.userField loc glob (asc "email"), t, tz⟩ ++ [[]] ++ ls, Bytes.LineOK x := by
    intro parent hpl x hx
    have htl : Bytes.LineOK (C12.treeLine (writeTree H l.idx).id) :=
      hexLine_ok (asc "tree ") _ (by decide) (by decide) (writeTree_id_len H l.idx)
    simp only [C12.headerLines, List.mem_append, List.mem_cons, List.mem_singleton, List.not_mem_nil, or_false] at hx
    rcases hx with ((h1 | h1) | h1) | h1
    · rcases h1 with h1 | h1
      · rw [h1]; exact htl
      · cases parent with
        | none => simp at h1
        | some p =>
          simp at h1; rw [h1]
          exact hexLine_ok (asc "parent ") p (by decide) (by decide) (hpl p rfl)
    · rcases h1 with h1 | h1
      · rw [h1]; exact hau
      · rw [h1]; exact hco
    · rw [h1]; exact lineOK_nil
    · exact hmsgl x h1
  have hdata' : data = Commit.format (writeTree H l.idx).id (aget w.heads l.ref)
      ⟨Config.userField loc glob (asc "name"), Config.userField loc glob (asc "email"), t, tz⟩
      ⟨Config.userField loc glob (asc "name"), Config.userField loc glob (asc "email"), t, tz⟩ msg := hdata
  cases hb : aget w.heads l.ref with
  | none =>
    have hp := C12.commit_parse_format (writeTree H l.idx).id none _ _ ls hls (writeTree_id_len H l.idx)
      (fun p hp => by cases hp) hsign hsign (hlines none (fun p hp => by cases hp))
    rw [hb, hmsg] at hdata'
    simp only [Option.map_none] at hp
    refine ⟨none, loc, glob, rfl, (fun p hp => by cases hp), hloc, hglob, ?_⟩
    rw [hdata', hmsg]; exact hp
  | some raw =>
    obtain ⟨_, pid, hraw, hpc⟩ := hconn.branches l.ref raw hb
    have hlen := commitAt_len20 H w hconn.named pid hpc
    have hp := C12.commit_parse_format (writeTree H l.idx).id (some pid) _ _ ls hls (writeTree_id_len H l.idx)
      (fun p hp => by injection hp with hp; rw [← hp]; exact hlen) hsign hsign
      (hlines (some pid) (fun p hp => by injection hp with hp; rw [← hp]; exact hlen))
    rw [hb, hmsg, hraw] at hdata'
    simp only [Option.map_some] at hp
    refine ⟨some pid, loc, glob, ?_, ?_, hloc, hglob, ?_⟩
    · rw [hraw, Option.map_some]
    · intro p hpp; have hq : pid = p := Option.some.inj hpp; rw [← hq]; exact hpc
    · rw [hdata', hmsg]; exact hp

theorem commit_lines (H : HashFn) (w : World) (l : Loaded) (snap : Option (List Entry)) (msg : Bytes) (tz t : Int) (id data : Bytes)
    (hconn : Conn H w) (hcc : Cmds.commitCmd H (commitIn w l snap msg tz t) = .ok (id, data))
    (hdom : CommitDomain w msg tz t) :
    ∀ c, Commit.parse data = some c →
      c.tree = some (writeTree H l.idx).id ∧ ∀ p ∈ c.parents, (commitAt H w p).isSome = true := by
  obtain ⟨parent, loc, glob, _, hpar, _, _, hp⟩ := commit_parses H w l snap msg tz t id data hconn hcc hdom
  intro c hc
  rw [hp] at hc; injection hc with hc; subst hc
  refine ⟨rfl, fun p hpm => ?_⟩
  cases parent with
  | none => cases hpm
  | some q => simp at hpm; rw [hpm]; exact hpar q rfl

/-- the input conditions of one step -/
def StepIn (H : HashFn) (w : World) (i : Inv) : Prop :=
  match i.cmd with
  | .add _ => (∀ f ∈ w.files, PathOK f.1 ∧ (0 : UInt8) ∉ f.1 ∧ f.2.length ≤ Fmt.int64Max) ∧ BlobsFit H w (w.files.map (·.2))
  | .commit msg => NoClash H w i ∧ ∀ l, load H w = some l →
      Small (writeTree H l.idx).writes ∧ Fit w (writeTree H l.idx).writes.reverse ∧ fuelFor l.idx ≤ treeDepth ∧
      CommitDomain w msg i.tz (clock i.ts 0)
  | .writeTree => ∀ l, load H w = some l → Small (writeTree H l.idx).writes
  | _ => True

theorem commitObject_cmd (H : HashFn) (w : World) (msg : Bytes) (tz : Int) (ts : List Int) (l : Loaded) (id data : Bytes)
    (hl : load H w = some l) (h : commitObject H w ⟨.commit msg, tz, ts⟩ = some (id, data)) :
    ∃ snap, Cmds.commitCmd H (commitIn w l snap msg tz (clock ts 0)) = .ok (id, data) := by
  unfold commitObject at h
  simp only [hl] at h
  split at h
  · rename_i snap _
    split at h
    · rename_i p hcc
      injection h with h; subst h
      exact ⟨snap, hcc⟩
    · cases h
  · cases h

theorem stepOK_of_inputs (H : HashFn) (w : World) (i : Inv) (hconn : Conn H w) (hin : StepIn H w i) :
    StepOK H w i ∧ StepOK3 H w i ∧ NoClash H w i := by
  obtain ⟨cmd, tz, ts⟩ := i
  cases cmd with
  | add args => exact ⟨hin.1, hin.2, C03.noClash_of_not_commit H w _ (fun m h => by cases h)⟩
  | writeTree => exact ⟨hin, trivial, C03.noClash_of_not_commit H w _ (fun m h => by cases h)⟩
  | commit msg =>
    obtain ⟨hnc, hrest⟩ := hin
    refine ⟨?_, ?_, hnc⟩
    · intro l hl
      obtain ⟨hsm, hfit, hfuel, hdom⟩ := hrest l hl
      refine ⟨hsm, fun id data hco => ?_⟩
      obtain ⟨snap, hcc⟩ := commitObject_cmd H w msg tz ts l id data hl hco
      exact ⟨hfit, hfuel, fun c hc => (commit_lines H w l snap msg tz _ id data hconn hcc hdom c hc).1, (hnc id data l hco hl).2⟩
    · intro l id data hl hco c hc
      obtain ⟨hsm, hfit, hfuel, hdom⟩ := hrest l hl
      obtain ⟨snap, hcc⟩ := commitObject_cmd H w msg tz ts l id data hl hco
      exact (commit_lines H w l snap msg tz _ id data hconn hcc hdom c hc).2
  | _ => exact ⟨trivial, trivial, C03.noClash_of_not_commit H w _ (fun m h => by cases h)⟩

/-! ### histories -/

def StepsIn (H : HashFn) : World → List Step → Prop
  | _, [] => True
  | w, .cmd i :: r => StepIn H w i ∧ StepsIn H (run H w i).1 r
  | w, .edit f d :: r => StepsIn H { w with files := f, dirs := d } r

theorem edit_conn (H : HashFn) (w : World) (f d) (hc : Conn H w) : Conn H { w with files := f, dirs := d } :=
  ⟨hc.named, hc.branches, hc.head, hc.fresh⟩

/-- the three invariants together: reference side, staging area / snapshots, content side -/
def Fsck (H : HashFn) (w : World) : Prop := Conn H w ∧ J H w ∧ K H w

theorem run_fsck (H : HashFn) (w : World) (i : Inv) (h : Fsck H w) (hin : StepIn H w i) : Fsck H (run H w i).1 := by
  obtain ⟨hok, hok3, hnc⟩ := stepOK_of_inputs H w i h.1 hin
  exact ⟨run_conn H w i h.1 hnc, run_J H w i h.2.1 hok, run_K H w i h.2.1 h.2.2 hok hok3⟩

theorem runSteps_fsck (H : HashFn) (w : World) (ss : List Step) (h : Fsck H w) (hin : StepsIn H w ss) : Fsck H (runSteps H w ss) := by
  unfold runSteps
  induction ss generalizing w with
  | nil => exact h
  | cons s r ih =>
    simp only [List.foldl_cons]
    cases s with
    | cmd i => exact ih _ (run_fsck H w i h hin.1) hin.2
    | edit f d =>
      exact ih _ ⟨edit_conn H w f d h.1, edit_J H w f d h.2.1, K_index_only H w _ h.2.1 h.2.2 rfl (fun es he => h.2.2.index es he)⟩ hin

end W

namespace C03

/-- **C03 on the whole-repository model, for every history, from hypotheses about inputs only.** Starting from an empty
    directory, after any sequence of invocations of any sub-commands — successful, refused, failing half-way — interleaved with
    arbitrary edits of the working tree:
    * `Conn`: every object file is named by the hash of its content; every branch file holds the hex id of a stored commit,
      under a name HEAD can hold; HEAD names a branch, which exists unless no branch exists;
    * `J`: the staging area is canonical, free of `.goit` paths, and every stored commit's tree reads back whole as such;
    * `K`: every staged id and every entry of every stored commit's snapshot names a stored blob; every parent of a stored
      commit is a stored commit.
    Hypotheses (`StepsIn`), per step: `add` — the files it may read have clean NUL-free names, fit in 2^63 bytes, and their
    blobs do not collide with stored objects of other content or with each other; `commit` — the tree and commit objects it
    makes fit in 2^63 bytes and do not collide with stored objects of other content, and the identity and the message are in the
    domain in which C12 proves that a commit object reads back; `write-tree` — sizes. Nothing is assumed about what is stored. -/
theorem world_fsck (H : HashFn) (ss : List W.Step) (hin : W.StepsIn H {} ss) : W.Fsck H (W.runSteps H {} ss) :=
  W.runSteps_fsck H {} ss ⟨W.conn_empty H, W.J_empty H, W.K_empty H⟩ hin

theorem world_step_fsck (H : HashFn) (w : W.World) (i : W.Inv) (h : W.Fsck H w) (hin : W.StepIn H w i) : W.Fsck H (W.run H w i).1 :=
  W.run_fsck H w i h hin

end C03

namespace W

private def cfgX : Bytes := asc "[user]\n\tname = X\n\temail = x@example.com\n"
private def secX : Config.Sections := [(asc "user", [(asc "name", asc "X"), (asc "email", asc "x@example.com")])]
private theorem cfgX_parse : Cmds.cfgOf (some cfgX) = some secX := by decide

/-- the domain of `commit` is inhabited: an ordinary identity, an ordinary message -/
example : CommitDomain { cfgLocal := some cfgX } (asc "first") 0 1700000000 := by
  intro loc glob hl hg
  rw [show ({ cfgLocal := some cfgX } : World).cfgLocal = some cfgX from rfl, cfgX_parse] at hl
  injection hl with hl; subst hl
  have : glob = [] := by
    have h : Cmds.cfgOf ({ cfgLocal := some cfgX } : World).cfgGlobal = some [] := rfl
    rw [h] at hg; injection hg with hg; exact hg.symm
  subst this
  refine ⟨?_, ?_, ?_, [asc "first"], by simp, by decide, ?_⟩
  · unfold C12.SignOK C12.NameOK; decide +kernel
  · unfold Bytes.LineOK; decide +kernel
  · unfold Bytes.LineOK; decide +kernel
  · intro l hl; simp at hl; subst hl; unfold Bytes.LineOK; decide +kernel

end W
