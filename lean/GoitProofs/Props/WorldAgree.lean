import GoitProofs.Props.C02Spec
import GoitProofs.Props.C04Cmd
import GoitProofs.Props.C04Add
import GoitProofs.Props.C09
import GoitProofs.Props.C20Cmd2
set_option linter.unusedSimpArgs false
set_option linter.unusedVariables false

/-! The argument loops of the whole-repository model (`W.addArgsP`, `W.rmArgsP`, `W.restoreWorkP`: they keep what
    a failing command leaves behind) **agree** with the command models the C04 / C09 / C17 theorems are about
    (`Cmds.addArgs`, `Cmds.rmArgs`, `Cmds.restoreWork`: they keep only the successful result). So every theorem
    about those command models is a theorem about what `W.run` — the function compared with the real binary on
    every step — does to the staging area and the working tree. -/

namespace W

/-- `add`: the World loop ends `ok` exactly when the command model succeeds, with the same staging area -/
theorem addArgsP_agree (H : HashFn) (w : Cmds.WS) (args : List Bytes) (idx : List Entry) (bs : List Bytes) :
    ((addArgsP H w args idx bs).ok = true → Cmds.addArgs H w args idx = .ok (addArgsP H w args idx bs).idx) ∧
    ((addArgsP H w args idx bs).ok = false → ∀ r, Cmds.addArgs H w args idx ≠ .ok r) := by
  induction args generalizing idx bs with
  | nil => constructor <;> simp [addArgsP, Cmds.addArgs]
  | cons a rest ih =>
    unfold addArgsP Cmds.addArgs
    dsimp only
    split
    · exact ih _ _
    · split
      · cases hd : IndexOps.delete idx (Cmds.cleanPath a) with
        | ok i => exact ih _ _
        | err => (constructor <;> simp)
        | crash => (constructor <;> simp)
      · split
        · cases hf : (List.filter (fun f => !Cmds.ignored { w with index := idx } f.1) (Cmds.filesUnder w (Cmds.cleanPath a))).foldl
              (fun (acc : Res (List Entry)) f => acc.bind fun i => Cmds.addOne H i f.1 f.2) (Res.ok idx) with
          | ok i => exact ih _ _
          | err => (constructor <;> simp)
          | crash => (constructor <;> simp)
        · cases hfa : Cmds.fileAt w (Cmds.cleanPath a) with
          | none => (constructor <;> simp)
          | some data =>
            dsimp only
            cases ho : Cmds.addOne H idx (Cmds.cleanPath a) data with
            | ok i => exact ih _ _
            | err => (constructor <;> simp)
            | crash => (constructor <;> simp)

/-- `rm`: the same for the removal loop -/
theorem rmArgsP_agree (w : Cmds.WS) (args : List Bytes) (idx : List Entry) (removed : List Bytes) :
    ((rmArgsP args idx removed).1 = true → Cmds.rmArgs w args idx removed = .ok ((rmArgsP args idx removed).2.1, (rmArgsP args idx removed).2.2)) ∧
    ((rmArgsP args idx removed).1 = false → Cmds.rmArgs w args idx removed = .err) := by
  induction args generalizing idx removed with
  | nil => constructor <;> simp [rmArgsP, Cmds.rmArgs]
  | cons a rest ih =>
    unfold rmArgsP Cmds.rmArgs
    dsimp only
    cases hwd : IndexOps.isDir idx (Cmds.cleanPath a) <;>
      simp only [Bool.false_eq_true, if_false, if_true, Bool.not_false, Bool.not_true, Bool.and_true, Bool.and_false,
        List.contains_nil, List.append_nil, List.nil_append] <;>
      split <;> first | exact ih _ _ | (constructor <;> simp) | simp_all

end W

namespace C04

/-- **`add` on the whole-repository model is the command model**: when `W.run` of an `add` ends `ok`, the staging
    area it leaves is the one `Cmds.add` computes — so `addArgs_frame`, `add_file_staged`, `add_dir_staged`,
    `C17.addArgs_no_meta` speak about it -/
theorem world_add_is_cmd (H : HashFn) (w : W.World) (l : W.Loaded) (args : List Bytes) (o : Option Bytes)
    (h : (W.addCmd H w l args).2 = .ok o) :
    ∃ idx', Cmds.add H (W.ws w l []) args = .ok idx' ∧
      (W.addCmd H w l args).1.index = (if idx' = l.idx then w.index else some idx') := by
  unfold W.addCmd at h ⊢
  dsimp only at h ⊢
  by_cases h1 : (!W.ignoreOK w) = true
  · simp only [h1, if_true] at h; cases h
  · simp only [h1, Bool.false_eq_true, if_false] at h ⊢
    by_cases h2 : args.isEmpty = true
    · simp only [h2, if_true] at h; cases h
    · simp only [h2, Bool.false_eq_true, if_false] at h ⊢
      by_cases h3 : (!args.all fun a => Cmds.existsOnDisk (W.ws w l []) (Cmds.cleanPath a) || IndexOps.found l.idx (Cmds.cleanPath a)) = true
      · simp only [h3, if_true] at h; cases h
      · simp only [h3, Bool.false_eq_true, if_false] at h ⊢
        have hok : (W.addArgsP H (W.ws w l []) args l.idx []).ok = true := by
          cases hc : (W.addArgsP H (W.ws w l []) args l.idx []).crash <;> cases hk : (W.addArgsP H (W.ws w l []) args l.idx []).ok <;> simp_all
        refine ⟨(W.addArgsP H (W.ws w l []) args l.idx []).idx, ?_, ?_⟩
        · unfold Cmds.add
          have h3' : (args.all fun a => Cmds.existsOnDisk (W.ws w l []) (Cmds.cleanPath a) || IndexOps.found (W.ws w l []).index (Cmds.cleanPath a)) = true := by
            have : (W.ws w l []).index = l.idx := rfl
            rw [this]; cases hx : (args.all fun a => Cmds.existsOnDisk (W.ws w l []) (Cmds.cleanPath a) || IndexOps.found l.idx (Cmds.cleanPath a)) <;> simp_all
          simp only [h2, Bool.false_eq_true, if_false, h3', if_true]
          exact (W.addArgsP_agree H (W.ws w l []) args l.idx []).1 hok
        · unfold W.setIndexIfChanged
          split
          · rename_i he; simp [he, W.putBlobs_index']
          · rename_i he; simp [he]

/-- **`rm` on the whole-repository model is the command model** (`rm_exact`, `rmArgs_exact`, `rm_unknown_refused` apply) -/
theorem world_rm_is_cmd (w : W.World) (l : W.Loaded) (args : List Bytes) (o : Option Bytes) (h : (W.rmCmd w l args).2 = .ok o) :
    ∃ idx' removed, Cmds.rm (W.ws w l []) args = .ok (idx', removed) ∧
      (W.rmCmd w l args).1.files = w.files.filter (fun f => !removed.contains f.1) ∧
      (W.rmCmd w l args).1.index = (if idx' = l.idx then w.index else some idx') := by
  unfold W.rmCmd at h ⊢
  by_cases h1 : (!args.all fun a => IndexOps.found l.idx (Cmds.cleanPath a) || IndexOps.isDir l.idx (Cmds.cleanPath a)) = true
  · simp only [h1, if_true] at h; cases h
  · simp only [h1, Bool.false_eq_true, if_false] at h ⊢
    have hagree := W.rmArgsP_agree (W.ws w l []) args l.idx []
    cases hr : W.rmArgsP args l.idx [] with
    | mk ok rest =>
      obtain ⟨idx', removed⟩ := rest
      simp only [hr] at h hagree ⊢
      by_cases h2 : (removed.any fun p => w.dirs.contains p) = true
      · simp only [h2, if_true] at h; cases h
      · simp only [h2, Bool.false_eq_true, if_false] at h ⊢
        cases ok with
        | false => simp at h
        | true =>
          refine ⟨idx', removed, ?_, (by rw [W.setIndexIfChanged_files']), ?_⟩
          · unfold Cmds.rm
            have h1' : (args.all fun a => IndexOps.found (W.ws w l []).index (Cmds.cleanPath a) || IndexOps.isDir (W.ws w l []).index (Cmds.cleanPath a)) = true := by
              have : (W.ws w l []).index = l.idx := rfl
              rw [this]; cases hx : (args.all fun a => IndexOps.found l.idx (Cmds.cleanPath a) || IndexOps.isDir l.idx (Cmds.cleanPath a)) <;> simp_all
            simp only [h1', if_true]
            exact hagree.1 rfl
          · unfold W.setIndexIfChanged
            split
            · rename_i he; simp [he]
            · rename_i he; simp [he]

end C04

namespace C20

/-- **`config` on the whole-repository model is the command model**: a successful `config [--global] k v` writes
    `Config.render` of exactly the sections `Cmds.configCmd` computes into the file the flag selects (and creates an
    empty local file if there was none); so `configCmd_ok`, `configCmd_roundtrip` (the file loads again and reads
    back exactly, every other key as before) and `configCmd_refused` speak about `W.run` -/
theorem world_config_is_cmd (w : W.World) (g : Bool) (key value : Bytes) (o : Option Bytes)
    (h : (W.configCmd w g [key, value]).2 = .ok o) :
    ∃ c', Cmds.configCmd (if g then w.cfgGlobal else w.cfgLocal) key value = .ok c' ∧
      (if g then (W.configCmd w g [key, value]).1.cfgGlobal else (W.configCmd w g [key, value]).1.cfgLocal) = some (Config.render c') ∧
      (g = true → (W.configCmd w g [key, value]).1.cfgLocal = some (w.cfgLocal.getD [])) ∧
      (g = false → (W.configCmd w g [key, value]).1.cfgGlobal = w.cfgGlobal) := by
  unfold W.configCmd at h ⊢
  cases hc : Cmds.configCmd (if g = true then w.cfgGlobal else w.cfgLocal) key value with
  | err => simp only [hc] at h; cases h
  | crash => simp only [hc] at h; cases h
  | ok c' =>
    simp only [hc]
    refine ⟨c', rfl, ?_, ?_, ?_⟩
    · cases g <;> (cases hl : w.cfgLocal <;> simp [hl])
    · intro hg; subst hg; cases hl : w.cfgLocal <;> simp [hl]
    · intro hg; subst hg; cases hl : w.cfgLocal <;> simp [hl]

/-- a refused `config` (wrong number of arguments, malformed key, line break) changes nothing -/
theorem world_config_refused_unchanged (w : W.World) (g : Bool) (args : List Bytes) (h : ∀ o, (W.configCmd w g args).2 ≠ .ok o) :
    (W.configCmd w g args).1 = w := by
  unfold W.configCmd at h ⊢
  repeat' split
  all_goals first | rfl | (exfalso; simp_all)

end C20
