import GoitProofs.Props.C04

/-! # C04 at command level: `goit rm args` and `goit add args` on the command model (`Cmds.rm`, `Cmds.add`)

The command models are compared with the real commands on every `rm`/`add` of the generated histories
(derived `cmd.rm` / `cmd.add` lines). -/

namespace C04

open IndexOps C06 Cmds

theorem found_iff (es : List Entry) (hs : Canonical es) (p : Bytes) : found es p = true ↔ ∃ e ∈ es, e.path = p := by
  obtain ⟨h1, h2, _⟩ := getEntry_correct es hs p
  constructor
  · intro hf
    apply Classical.byContradiction
    intro hne
    have : ∀ e ∈ es, e.path ≠ p := fun e he hp => hne ⟨e, he, hp⟩
    simp [found, h2 this] at hf
  · rintro ⟨e, he, hp⟩
    obtain ⟨i, hi, hget⟩ := List.getElem_of_mem he
    have := h1 i hi (by rw [hget]; exact hp)
    simp [found, this]

theorem filter_canonical (es : List Entry) (hs : Canonical es) (f : Entry → Bool) : Canonical (es.filter f) := by
  unfold Canonical SortedKeys paths at *
  exact List.Pairwise.sublist ((List.filter_sublist (l := es) (p := f)).map _) hs

/-- what one argument of `rm` leaves in the staging area -/
def Kept (p : Bytes) (e : Entry) : Prop := e.path ≠ p ∧ ¬ Beneath p e.path

/-- **`rm` removes exactly the named tracked paths and everything tracked beneath a named directory; every
    other entry stays as it was (same id, same path), in the same order.** For every canonical staging
    area and every argument list on which the command succeeds. -/
theorem rmArgs_exact (w : WS) (args : List Bytes) (idx : List Entry) (removed : List Bytes)
    (hs : Canonical idx) (idx' : List Entry) (removed' : List Bytes)
    (h : rmArgs w args idx removed = .ok (idx', removed')) :
    Canonical idx' ∧ idx'.Sublist idx ∧ ∀ e, e ∈ idx' ↔ e ∈ idx ∧ ∀ a ∈ args, Kept (cleanPath a) e := by
  induction args generalizing idx removed with
  | nil =>
    simp only [rmArgs, Res.ok.injEq, Prod.mk.injEq] at h
    obtain ⟨rfl, _⟩ := h
    exact ⟨hs, List.Sublist.refl _, fun e => by simp⟩
  | cons a rest ih =>
    simp only [rmArgs] at h
    generalize hb : (if isDir idx (cleanPath a) = true then List.map (fun x => x.path) (byDir idx (cleanPath a)) else []) = beneath at h
    generalize h1 : idx.filter (fun e => !beneath.contains e.path) = idx1 at h
    by_cases hguard : (!found idx1 (cleanPath a) && !isDir idx (cleanPath a)) = true
    · rw [if_pos hguard] at h; cases h
    · rw [if_neg hguard] at h
      have hs1 : Canonical idx1 := h1 ▸ filter_canonical idx hs _
      -- membership in idx1
      have hm1 : ∀ e, e ∈ idx1 ↔ e ∈ idx ∧ ¬ Beneath (cleanPath a) e.path := by
        intro e
        rw [← h1, List.mem_filter]
        constructor
        · rintro ⟨he, hc⟩
          refine ⟨he, fun hb' => ?_⟩
          have hd : isDir idx (cleanPath a) = true := (isDir_iff _ _).2 ⟨e, he, hb'⟩
          rw [← hb, if_pos hd] at hc
          have : e.path ∈ List.map (fun x => x.path) (byDir idx (cleanPath a)) :=
            List.mem_map.2 ⟨e, (mem_byDir _ _ _).2 ⟨he, hb'⟩, rfl⟩
          simp only [Bool.not_eq_true', List.contains_eq_mem, decide_eq_false_iff_not] at hc
          exact hc this
        · rintro ⟨he, hnb⟩
          refine ⟨he, ?_⟩
          simp only [Bool.not_eq_true', List.contains_eq_mem, decide_eq_false_iff_not]
          intro hmem
          rw [← hb] at hmem
          split at hmem
          · obtain ⟨e', he', hp'⟩ := List.mem_map.1 hmem
            have := ((mem_byDir _ _ _).1 he').2
            rw [hp'] at this
            exact hnb this
          · cases hmem
      generalize h2 : (if found idx1 (cleanPath a) = true then idx1.filter (fun e => e.path != cleanPath a) else idx1) = idx2 at h
      have hs2 : Canonical idx2 := by
        rw [← h2]; split
        · exact filter_canonical idx1 hs1 _
        · exact hs1
      have hm2 : ∀ e, e ∈ idx2 ↔ e ∈ idx ∧ Kept (cleanPath a) e := by
        intro e
        rw [← h2]
        split
        · rw [List.mem_filter, hm1]
          simp only [bne_iff_ne, ne_eq, Kept]
          constructor
          · rintro ⟨⟨he, hnb⟩, hne⟩; exact ⟨he, hne, hnb⟩
          · rintro ⟨he, hne, hnb⟩; exact ⟨⟨he, hnb⟩, hne⟩
        · rename_i hnf
          rw [hm1]
          simp only [Kept]
          constructor
          · rintro ⟨he, hnb⟩
            refine ⟨he, fun hp => hnf ?_, hnb⟩
            exact (found_iff idx1 hs1 _).2 ⟨e, (hm1 e).2 ⟨he, hnb⟩, hp⟩
          · rintro ⟨he, _, hnb⟩; exact ⟨he, hnb⟩
      have hsub2 : idx2.Sublist idx := by
        rw [← h2]
        split
        · exact (List.filter_sublist).trans (h1 ▸ List.filter_sublist)
        · exact h1 ▸ List.filter_sublist
      obtain ⟨hc, hsub, hmem⟩ := ih idx2 _ hs2 h
      refine ⟨hc, hsub.trans hsub2, fun e => ?_⟩
      rw [hmem, hm2]
      simp only [List.mem_cons, forall_eq_or_imp]
      constructor
      · rintro ⟨⟨he, hk⟩, hr⟩; exact ⟨he, hk, hr⟩
      · rintro ⟨he, hk, hr⟩; exact ⟨⟨he, hk⟩, hr⟩

/-- `goit rm` as a whole: it is refused (nothing changes) unless every argument is a tracked path or a
    tracked directory, and then removes exactly the named paths -/
theorem rm_exact (w : WS) (args : List Bytes) (hs : Canonical w.index) (idx' : List Entry) (removed' : List Bytes)
    (h : rm w args = .ok (idx', removed')) :
    (∀ a ∈ args, (∃ e ∈ w.index, e.path = cleanPath a) ∨ ∃ e ∈ w.index, Beneath (cleanPath a) e.path) ∧
    Canonical idx' ∧ idx'.Sublist w.index ∧ ∀ e, e ∈ idx' ↔ e ∈ w.index ∧ ∀ a ∈ args, Kept (cleanPath a) e := by
  unfold rm at h
  split at h
  · rename_i hall
    refine ⟨?_, rmArgs_exact w args w.index [] hs idx' removed' h⟩
    intro a ha
    have := List.all_eq_true.1 hall a ha
    simp only [Bool.or_eq_true] at this
    rcases this with hf | hd
    · exact Or.inl ((found_iff _ hs _).1 hf)
    · exact Or.inr ((isDir_iff _ _).1 hd)
  · cases h

/-- an argument that is neither tracked nor a tracked directory makes `rm` refuse -/
theorem rm_unknown_refused (w : WS) (args : List Bytes) (hs : Canonical w.index) (a : Bytes) (ha : a ∈ args)
    (h1 : ∀ e ∈ w.index, e.path ≠ cleanPath a) (h2 : ∀ e ∈ w.index, ¬ Beneath (cleanPath a) e.path) :
    rm w args = .err := by
  unfold rm
  split
  · rename_i hall
    have := List.all_eq_true.1 hall a ha
    simp only [Bool.or_eq_true] at this
    rcases this with hf | hd
    · obtain ⟨e, he, hp⟩ := (found_iff _ hs _).1 hf; exact absurd hp (h1 e he)
    · obtain ⟨e, he, hp⟩ := (isDir_iff _ _).1 hd; exact absurd hp (h2 e he)
  · rfl

end C04
