import GoitProofs.Props.WorldFrame
set_option linter.unusedSimpArgs false

/-! C10, clause `others-keep`, on the whole-repository model at the level of the files in `refs/heads`:
    a sub-command changes (creates, rewrites, removes) only the branch files it names — the current branch for
    `commit` and `reset`, the named branch for `branch <n>`, `branch -d <n>`, `switch -c <n>`, `update-ref`,
    the old and the new name for `branch -r` — and every other branch file keeps its bytes, in any state,
    whatever the outcome. -/

namespace W

theorem aget_aset_ne (l : List (Bytes × Bytes)) (k v b : Bytes) (h : b ≠ k) : aget (aset l k v) b = aget l b := by
  unfold aset adel aget
  have hk : (k == b) = false := by simpa using fun e => h e.symm
  simp only [List.find?_cons, hk]
  congr 1
  induction l with
  | nil => rfl
  | cons p l ih =>
    simp only [List.filter_cons]
    by_cases hp : (p.1 != k) = true
    · simp only [hp, if_true, List.find?_cons]; split <;> simp_all
    · have : p.1 = k := by simpa using hp
      simp only [hp, List.find?_cons]
      have hb : (p.1 == b) = false := by rw [this]; exact hk
      simp [hb, ih]

theorem aget_adel_ne (l : List (Bytes × Bytes)) (k b : Bytes) (h : b ≠ k) : aget (adel l k) b = aget l b := by
  unfold adel aget
  congr 1
  induction l with
  | nil => rfl
  | cons p l ih =>
    simp only [List.filter_cons]
    by_cases hp : (p.1 != k) = true
    · simp only [hp, if_true, List.find?_cons]; split <;> simp_all
    · have : p.1 = k := by simpa using hp
      have hk : (k == b) = false := by simpa using fun e => h e.symm
      have hb : (p.1 == b) = false := by rw [this]; exact hk
      simp [hp, List.find?_cons, hb, ih]

/-- the branch `HEAD` names, as `NewHead` reads it -/
def headRef (w : World) : Bytes :=
  match w.head with
  | none => []
  | some h => (Head.parse h).getD []

theorem loadHead_ref (H : HashFn) (w : World) (b : Bytes) (hc : Option (Bytes × Commit))
    (h : loadHead H w = some (b, hc)) : b = headRef w := by
  unfold loadHead at h; unfold headRef
  cases hw : w.head with
  | none => simp [hw] at h; simp only [hw]; exact h.1
  | some hd =>
    simp only [hw] at h ⊢
    cases hp : Head.parse hd with
    | none => simp [hp] at h
    | some br =>
      simp only [hp, Option.getD_some] at h ⊢
      by_cases hz : List.elem (0 : UInt8) br = true
      · simp only [hz, if_true] at h; cases h
      · simp only [hz, Bool.false_eq_true, if_false] at h
        cases ha : aget w.heads br with
        | none =>
          simp only [ha] at h
          split at h
          · cases h
          · injection h with h; injection h with h1 _; exact h1.symm
        | some raw =>
          simp only [ha] at h
          cases hr : readHash raw with
          | none => simp [hr] at h
          | some id =>
            simp only [hr] at h
            cases hc' : commitAt H w id with
            | none => simp [hc'] at h
            | some c => simp [hc'] at h; exact h.1.symm

theorem load_ref (H : HashFn) (w : World) (l : Loaded) (h : load H w = some l) : l.ref = headRef w := by
  unfold load at h
  split at h
  · rename_i hh _
    injection h with h; subst h
    exact loadHead_ref H w _ _ hh
  · contradiction

/-- the branch files a sub-command names -/
def namedBranches (w : World) : Cmd → List Bytes
  | .commit _ => [headRef w]
  | .reset _ _ _ _ => [headRef w]
  | .branch args _ ren del => args ++ [ren, del, headRef w]
  | .switch _ create => [create]
  | .updateRef args => (args.map fun p => (Bytes.split1 47 p).getLast?.getD [])
  | _ => []

macro "heads_by " f:ident : tactic => `(tactic| (
  unfold $f
  try unfold branchCreate
  try unfold branchRename
  try unfold branchDelete
  try unfold switchTo
  try unfold switchCreate
  try unfold updateRefTo
  try unfold resetTo
  try unfold commitWrite
  try dsimp only
  repeat' split
  all_goals first | rfl | (simp_all [setHead, appendLogHead, appendLogBranch, putObj_heads', putObjs_heads', writeEntries_heads', aget_aset_ne, aget_adel_ne])))

theorem commitCmd_other (H) (w l msg tz ts) (b : Bytes) (hb : b ≠ l.ref) :
    aget (commitCmd H w l msg tz ts).1.heads b = aget w.heads b := by heads_by commitCmd

theorem resetCmd_other (H) (w l s m h args tz ts) (b : Bytes) (hb : b ≠ l.ref) :
    aget (resetCmd H w l s m h args tz ts).1.heads b = aget w.heads b := by heads_by resetCmd

theorem switchCmd_other (H) (w l args create tz ts) (b : Bytes) (hb : b ≠ create) :
    aget (switchCmd H w l args create tz ts).1.heads b = aget w.heads b := by heads_by switchCmd

theorem branchCmd_other (w l args list ren del tz ts) (b : Bytes) (h1 : b ∉ args) (h2 : b ≠ ren) (h3 : b ≠ del) (h4 : b ≠ l.ref) :
    aget (branchCmd w l args list ren del tz ts).1.heads b = aget w.heads b := by heads_by branchCmd

theorem updateRefCmd_other (H) (w l args) (b : Bytes) (hb : b ∉ args.map fun p => (Bytes.split1 47 p).getLast?.getD []) :
    aget (updateRefCmd H w l args).1.heads b = aget w.heads b := by heads_by updateRefCmd

end W

namespace C10

/-- **others keep their commits**, at the level of the bytes of every file in `refs/heads`, for every
    sub-command, state and outcome -/
theorem world_others_keep (H : HashFn) (w : W.World) (i : W.Inv) (b : Bytes) (hb : b ∉ W.namedBranches w i.cmd) :
    W.aget (W.run H w i).1.heads b = W.aget w.heads b := by
  obtain ⟨cmd, tz, ts⟩ := i
  have other : W.Field.heads ∉ W.mayTouch cmd → W.aget (W.run H w ⟨cmd, tz, ts⟩).1.heads b = W.aget w.heads b := by
    intro ht
    have := W.frame H w ⟨cmd, tz, ts⟩ .heads ht
    simp only [W.fieldEq] at this
    rw [this]
  cases cmd with
  | commit msg =>
    simp only [W.namedBranches, List.mem_cons, List.not_mem_nil, or_false] at hb
    (unfold W.run; dsimp only; repeat' split) <;> first | rfl | (rename_i l hl; exact W.commitCmd_other _ _ _ _ _ _ _ (by rw [W.load_ref H w l hl]; exact hb))
  | reset s m h args =>
    simp only [W.namedBranches, List.mem_cons, List.not_mem_nil, or_false] at hb
    (unfold W.run; dsimp only; repeat' split) <;> first | rfl | (rename_i l hl; exact W.resetCmd_other _ _ _ _ _ _ _ _ _ _ (by rw [W.load_ref H w l hl]; exact hb))
  | switch args create =>
    simp only [W.namedBranches, List.mem_cons, List.not_mem_nil, or_false] at hb
    (unfold W.run; dsimp only; repeat' split) <;> first | rfl | exact W.switchCmd_other _ _ _ _ _ _ _ _ hb
  | updateRef args =>
    simp only [W.namedBranches] at hb
    (unfold W.run; dsimp only; repeat' split) <;> first | rfl | exact W.updateRefCmd_other _ _ _ _ _ hb
  | branch args list ren del =>
    simp only [W.namedBranches, List.mem_cons, List.mem_append, List.not_mem_nil, or_false, not_or] at hb
    (unfold W.run; dsimp only; repeat' split) <;> first | rfl | (rename_i l hl; exact W.branchCmd_other _ _ _ _ _ _ _ _ _ hb.1 hb.2.1 hb.2.2.1 (by rw [W.load_ref H w l hl]; exact hb.2.2.2))
  | init => exact other (by simp [W.mayTouch])
  | add _ => exact other (by simp [W.mayTouch])
  | rm _ => exact other (by simp [W.mayTouch])
  | restore st _ => exact other (by cases st <;> simp [W.mayTouch])
  | config g _ => exact other (by cases g <;> simp [W.mayTouch])
  | status => exact other (by simp [W.mayTouch])
  | log _ => exact other (by simp [W.mayTouch])
  | reflog => exact other (by simp [W.mayTouch])
  | lsFiles _ => exact other (by simp [W.mayTouch])
  | catFile _ _ _ => exact other (by simp [W.mayTouch])
  | hashObject _ => exact other (by simp [W.mayTouch])
  | revParse _ => exact other (by simp [W.mayTouch])
  | writeTree => exact other (by simp [W.mayTouch])

end C10
