import GoitProofs.Props.C04Add

/-! # C04: `add <directory>` stages every file beneath it with the blob id of its current bytes -/

namespace C04

open IndexOps C06 Cmds

theorem addFold_staged (H : HashFn) (fs : List (Bytes × Bytes)) (es : List Entry) (hs : Canonical es)
    (hnd : (fs.map (·.1)).Nodup) :
    ∃ es', fs.foldl (fun (acc : Res (List Entry)) f => acc.bind fun i => addOne H i f.1 f.2) (Res.ok es) = .ok es' ∧
      Canonical es' ∧ (∀ f ∈ fs, (⟨Obj.id H .blob f.2, f.1⟩ : Entry) ∈ es') ∧
      (∀ e : Entry, (∀ f ∈ fs, e.path ≠ f.1) → (e ∈ es' ↔ e ∈ es)) := by
  induction fs generalizing es with
  | nil => exact ⟨es, rfl, hs, fun _ h => (by cases h), fun _ _ => Iff.rfl⟩
  | cons f fs ih =>
    simp only [List.map_cons, List.nodup_cons] at hnd
    obtain ⟨es1, h1, hc1, hin1, hfr1⟩ := addOne_spec H es hs f.1 f.2
    obtain ⟨es2, h2, hc2, hin2, hfr2⟩ := ih es1 hc1 hnd.2
    refine ⟨es2, ?_, hc2, ?_, ?_⟩
    · simp only [List.foldl_cons, Res.bind, h1]; exact h2
    · intro g hg
      rcases List.mem_cons.1 hg with rfl | hg
      · -- the first file's entry survives the later additions: their paths differ
        apply (hfr2 _ ?_).2 hin1
        intro f' hf' hp
        exact hnd.1 (List.mem_map.2 ⟨f', hf', hp.symm⟩)
      · exact hin2 g hg
    · intro e he
      rw [hfr2 e (fun f' hf' => he f' (List.mem_cons_of_mem _ hf')), hfr1 e (he f List.mem_cons_self)]

/-- **`add <dir>` (or `add .`) stages each file beneath the directory with the blob id of its current
    bytes**, for every work tree (a map from paths to bytes), `.goitignore` and canonical staging area;
    ignored files are skipped, every path outside the directory keeps its entry. -/
theorem add_dir_staged (H : HashFn) (w : WS) (a : Bytes) (hs : Canonical w.index)
    (hnd : (w.files.map (·.1)).Nodup)
    (hig : ignored w (cleanPath a) = false) (hdir : isDirOnDisk w (cleanPath a) = true) :
    ∃ idx', add H w [a] = .ok idx' ∧ Canonical idx' ∧
      (∀ f ∈ w.files, (cleanPath a = asc "." ∨ Beneath (cleanPath a) f.1) → ignored w f.1 = false →
        (⟨Obj.id H .blob f.2, f.1⟩ : Entry) ∈ idx') ∧
      (∀ e : Entry, ¬ Touches (cleanPath a) e.path → (e ∈ idx' ↔ e ∈ w.index)) := by
  have hex : existsOnDisk w (cleanPath a) = true := by simp [existsOnDisk, hdir]
  have hw : ({ w with index := w.index } : WS) = w := rfl
  have hnd' : (((filesUnder w (cleanPath a)).filter fun f => !ignored w f.1).map (·.1)).Nodup := by
    apply List.Nodup.sublist _ hnd
    exact ((List.filter_sublist).trans (List.filter_sublist)).map _
  obtain ⟨idx1, hf, hc1, hin1, hfr1⟩ := addFold_staged H
    ((filesUnder w (cleanPath a)).filter fun f => !ignored w f.1) w.index hs hnd'
  refine ⟨idx1, ?_, hc1, ?_, ?_⟩
  · simp [add, addArgs, hex, hw, hig, hdir, hf]
  · intro f hf' hu hnig
    apply hin1 f
    simp only [List.mem_filter, filesUnder, Bool.or_eq_true, beq_iff_eq, hnig, Bool.not_false, and_true]
    refine ⟨hf', ?_⟩
    rcases hu with h | h
    · exact Or.inl h
    · exact Or.inr ((under_iff _ _).2 h)
  · intro e hn
    apply hfr1 e
    intro f hf' hp
    have hfu := (List.mem_filter.1 hf').1
    simp only [filesUnder, List.mem_filter, Bool.or_eq_true, beq_iff_eq] at hfu
    apply hn
    rcases hfu.2 with hdot | hund
    · exact Or.inl hdot
    · exact Or.inr (Or.inr (hp ▸ (under_iff _ _).1 hund))

end C04
