import GoitProofs.Props.C07World
set_option linter.unusedSimpArgs false
set_option linter.unusedVariables false

/-! C04 + C01 composed on the whole-repository model: `add <file>` **stores what it stages** — the staging area gets exactly the
    blob id of the file's current bytes under the cleaned path, every other staged path is untouched, and Goit's own object
    reader returns, for that id, kind `blob` and exactly those bytes. -/

namespace W

open C04 C05 C06 C17 TreeBuild TreeCodec

/-- after the blobs are stored, each reads back as a blob with its own bytes -/
theorem putBlobs_get (H : HashFn) (w : World) (ds : List Bytes) (hfit : BlobsFit H w ds) (hsz : ∀ d ∈ ds, d.length ≤ Fmt.int64Max) :
    ∀ d ∈ ds, Store.get H (store (ds.foldl (putBlob H) w)) (Obj.id H .blob d) = .ok (.blob, d) := by
  induction ds generalizing w with
  | nil => intro d hd; cases hd
  | cons d0 ds ih =>
    have hself : aget (putBlob H w d0).objs (Obj.id H .blob d0) = some (Obj.encode .blob d0) :=
      aget_putObj_self w _ _ (fun c0 hc0 => hfit.1 d0 List.mem_cons_self c0 hc0)
    have hfit1 : BlobsFit H (putBlob H w d0) ds := by
      refine ⟨?_, fun d hd d' hd' => hfit.2 d (List.mem_cons_of_mem _ hd) d' (List.mem_cons_of_mem _ hd')⟩
      intro d hd c hc
      by_cases hid : Obj.id H .blob d = Obj.id H .blob d0
      · have : d = d0 := hfit.2 d (List.mem_cons_of_mem _ hd) d0 List.mem_cons_self hid
        subst this
        rw [hself] at hc; injection hc with hc; exact hc.symm
      · have : aget (putBlob H w d0).objs (Obj.id H .blob d) = aget w.objs (Obj.id H .blob d) := aget_putObj_other w _ _ _ hid
        rw [this] at hc
        exact hfit.1 d (List.mem_cons_of_mem _ hd) c hc
    intro d hd
    simp only [List.foldl_cons]
    rcases List.mem_cons.mp hd with rfl | hd
    · have hb : BlobAt H (putBlob H w d) (Obj.id H .blob d) := ⟨d, hself, hsz d List.mem_cons_self, rfl⟩
      have hne : Obj.id H .blob d ≠ [] := by
        intro h0; have := H.len20 (Obj.encode .blob d); unfold Obj.id at h0; rw [h0] at this; simp at this
      have hg : Store.get H (store (putBlob H w d)) (Obj.id H .blob d) = .ok (.blob, d) := by
        unfold Store.get store
        simp only [hne, if_false, hself, C01.decode_encode .blob d (by decide) (hsz d List.mem_cons_self)]
        have : H.sha (Obj.encode .blob d) = Obj.id H .blob d := rfl
        simp [this]
      exact get_mono H _ _ (putBlobs_le H _ ds) _ _ hg
    · exact ih _ hfit1 (fun x hx => hsz x (List.mem_cons_of_mem _ hx)) d hd

end W

namespace C04

open Cmds IndexOps

/-- **`add <file>` stores what it stages** (whole-repository model, one file argument): for a file that exists, is not a directory
    and is not ignored, in a state whose staging area is canonical (`W.J`, every history) and under the input conditions of the step,
    the command ends `ok`; the staging area holds the blob id of the file's current bytes under the cleaned path and is otherwise
    unchanged; and Goit's object reader returns kind `blob` and exactly those bytes for that id. -/
theorem world_add_file_stored (H : HashFn) (w : W.World) (l : W.Loaded) (a data : Bytes)
    (hl : W.load H w = some l) (hj : W.J H w)
    (hw : ∀ f ∈ w.files, TreeBuild.PathOK f.1 ∧ (0 : UInt8) ∉ f.1 ∧ f.2.length ≤ Fmt.int64Max)
    (hfit : W.BlobsFit H w (w.files.map (·.2)))
    (hio : W.ignoreOK w = true)
    (hig : ignored (W.ws w l []) (cleanPath a) = false) (hfile : fileAt (W.ws w l []) (cleanPath a) = some data)
    (hnd : isDirOnDisk (W.ws w l []) (cleanPath a) = false) :
    (W.addCmd H w l [a]).2 = .ok none ∧
    (∃ idx', (W.addCmd H w l [a]).1.index = (if idx' = l.idx then w.index else some idx') ∧
      (⟨Obj.id H .blob data, cleanPath a⟩ : Entry) ∈ idx' ∧
      ∀ e : Entry, e.path ≠ cleanPath a → (e ∈ idx' ↔ e ∈ l.idx)) ∧
    Store.get H (W.store (W.addCmd H w l [a]).1) (Obj.id H .blob data) = .ok (.blob, data) := by
  have hcan : C06.Canonical l.idx := (W.loaded_idx_goodE H w l hl hj.1).canon
  obtain ⟨idx1, h1, hc1, hin, hfr1⟩ := addOne_spec H l.idx hcan (cleanPath a) data
  have hex : existsOnDisk (W.ws w l []) (cleanPath a) = true := by simp [existsOnDisk, isFile, hfile]
  have hws : ({ W.ws w l [] with index := l.idx } : WS) = W.ws w l [] := rfl
  have hloop : W.addArgsP H (W.ws w l []) [a] l.idx [] = ⟨true, false, idx1, [data]⟩ := by
    simp [W.addArgsP, hws, hig, hex, hnd, hfile, h1]
  have hmem : (cleanPath a, data) ∈ w.files := W.fileAt_mem (W.ws w l []) _ _ hfile
  have hsz : data.length ≤ Fmt.int64Max := (hw _ hmem).2.2
  have hfit1 : W.BlobsFit H w [data] :=
    W.blobsFit_sub H w _ [data] (fun d hd => by simp at hd; rw [hd]; exact List.mem_map.mpr ⟨(cleanPath a, data), hmem, rfl⟩) hfit
  have hget := W.putBlobs_get H w [data] hfit1 (fun d hd => by simp at hd; rw [hd]; exact hsz) data (by simp)
  have hrun : W.addCmd H w l [a] = (W.setIndexIfChanged (List.foldl (W.putBlob H) w [data]) l.idx idx1, .ok none) := by
    unfold W.addCmd
    simp [hio, hex, hloop]
  rw [hrun]
  refine ⟨rfl, ⟨idx1, ?_, hin, hfr1⟩, ?_⟩
  · unfold W.setIndexIfChanged
    by_cases he : idx1 = l.idx
    · simp only [he, if_true]; exact W.putBlobs_index' H w [data]
    · simp [he]
  · have hobjs : (W.setIndexIfChanged (List.foldl (W.putBlob H) w [data]) l.idx idx1).objs = (List.foldl (W.putBlob H) w [data]).objs :=
      W.setIndexIfChanged_objs' _ _ _
    have hstore : W.store (W.setIndexIfChanged (List.foldl (W.putBlob H) w [data]) l.idx idx1) = W.store (List.foldl (W.putBlob H) w [data]) := by
      unfold W.store; rw [hobjs]
    rw [hstore]; exact hget

end C04

namespace C04

open Cmds IndexOps

/-- **`rm <args>`, exact, on the whole-repository model** (a state meeting `W.J`): when it ends `ok`, every argument named a tracked
    path or a tracked directory, the staging area afterwards holds exactly the earlier entries that no argument names (the path
    itself or anything beneath it), in their order, and is canonical -/
theorem world_rm_exact (H : HashFn) (w : W.World) (l : W.Loaded) (args : List Bytes) (o : Option Bytes)
    (hl : W.load H w = some l) (hj : W.J H w) (hok : (W.rmCmd w l args).2 = .ok o) :
    ∃ idx', (W.rmCmd w l args).1.index = (if idx' = l.idx then w.index else some idx') ∧
      (∀ a ∈ args, (∃ e ∈ l.idx, e.path = cleanPath a) ∨ ∃ e ∈ l.idx, C06.Beneath (cleanPath a) e.path) ∧
      C06.Canonical idx' ∧ idx'.Sublist l.idx ∧ ∀ e, e ∈ idx' ↔ e ∈ l.idx ∧ ∀ a ∈ args, Kept (cleanPath a) e := by
  obtain ⟨idx', removed, hcmd, _, hidx⟩ := world_rm_is_cmd w l args o hok
  have hcan : C06.Canonical (W.ws w l []).index := (W.loaded_idx_goodE H w l hl hj.1).canon
  obtain ⟨h1, h2, h3, h4⟩ := rm_exact (W.ws w l []) args hcan idx' removed hcmd
  exact ⟨idx', hidx, h1, h2, h3, h4⟩

end C04
