import GoitModel

/-! # C03 / C10 — the connectivity invariant over *all* command sequences (abstract state machine)

`Abs.Repo` / `Abs.step` (GoitModel/Abstract.lean) is the reference side of a repository with the
validations of the repaired commands as guards. The theorems hold for every sequence of operations,
including refused and hostile ones (an id that is not a stored commit given to `update-ref`, invalid
names, a reset to a zero-id record or out of range). The abstract machine is compared with the
abstraction of the real repository around every command of the generated histories. -/

namespace C03

open Abs

/-- connectivity of the reference side -/
structure Inv (r : Repo) : Prop where
  branches : ∀ b ∈ r.branches, b.2 ∈ r.commits            -- every branch holds the id of a stored commit
  head     : r.head ∈ names r ∨ r.branches = []           -- HEAD names an existing branch (or nothing is committed yet)
  index    : ∀ e ∈ r.index, e.2 ∈ r.blobs                 -- every staged path names a stored blob
  reflog   : ∀ i, some i ∈ r.reflog → i ∈ r.commits       -- every id in the reflog is a stored commit

theorem inv_init : Inv {} := ⟨by simp, Or.inr rfl, by simp, by simp⟩

theorem mem_setBranch (bs : List (Name × Id)) (n : Name) (i : Id) (b : Name × Id) (h : b ∈ setBranch bs n i) :
    b = (n, i) ∨ b ∈ bs := by
  unfold setBranch at h
  split at h
  · simp only [List.mem_map] at h
    obtain ⟨x, hx, rfl⟩ := h
    split
    · exact Or.inl rfl
    · exact Or.inr hx
  · rcases List.mem_append.mp h with h | h
    · exact Or.inr h
    · simp at h; exact Or.inl h

theorem mem_setPath (ix : List (Bytes × Id)) (p : Bytes) (i : Id) (e : Bytes × Id) (h : e ∈ setPath ix p i) :
    e = (p, i) ∨ e ∈ ix := by
  unfold setPath at h
  split at h
  · simp only [List.mem_map] at h
    obtain ⟨x, hx, rfl⟩ := h
    split
    · exact Or.inl rfl
    · exact Or.inr hx
  · rcases List.mem_append.mp h with h | h
    · exact Or.inr h
    · simp at h; exact Or.inl h

theorem name_mem_setBranch (bs : List (Name × Id)) (n : Name) (i : Id) : n ∈ (setBranch bs n i).map (·.1) := by
  unfold setBranch
  split
  · rename_i h
    simp only [List.any_eq_true, beq_iff_eq] at h
    obtain ⟨b, hb, hbn⟩ := h
    simp only [List.map_map, List.mem_map, Function.comp]
    exact ⟨b, hb, by simp [hbn]⟩
  · simp

theorem names_setBranch (bs : List (Name × Id)) (n m : Name) (i : Id) (h : m ∈ bs.map (·.1)) :
    m ∈ (setBranch bs n i).map (·.1) := by
  unfold setBranch
  split
  · simp only [List.map_map, List.mem_map, Function.comp] at h ⊢
    obtain ⟨b, hb, rfl⟩ := h
    refine ⟨b, hb, ?_⟩
    split
    · rename_i hbn; simp only [beq_iff_eq] at hbn; exact hbn.symm
    · rfl
  · simp only [List.map_append, List.mem_append]; exact Or.inl h

theorem tip_mem (r : Repo) (n : Name) (t : Id) (h : tip r n = some t) : (n, t) ∈ r.branches := by
  unfold tip at h
  cases hf : r.branches.find? (fun b => b.1 == n) with
  | none => simp [hf] at h
  | some b =>
    simp only [hf, Option.map_some, Option.some.injEq] at h
    have hm := List.mem_of_find?_eq_some hf
    have hp := List.find?_some hf
    simp only [beq_iff_eq] at hp
    subst h
    have : b = (n, b.2) := by cases b; simp only at hp; simp [hp]
    rw [← this]; exact hm

/-- **One command preserves connectivity** — whatever the command and its arguments. -/
theorem inv_step (r : Repo) (op : Op) (h : Inv r) : Inv (step r op) := by
  obtain ⟨hb, hh, hi, hr⟩ := h
  cases op with
  | add p b =>
    refine ⟨hb, hh, ?_, hr⟩
    intro e he
    rcases mem_setPath _ _ _ _ he with rfl | he'
    · simp [step]
    · exact List.mem_cons_of_mem _ (hi e he')
  | unstage p =>
    exact ⟨hb, hh, fun e he => hi e (List.mem_filter.mp he).1, hr⟩
  | stageFromHead p b =>
    simp only [step]
    split
    · rename_i hc
      refine ⟨hb, hh, ?_, hr⟩
      intro e he
      rcases mem_setPath _ _ _ _ he with rfl | he'
      · simpa using hc
      · exact hi e he'
    · exact ⟨hb, hh, hi, hr⟩
  | commit c =>
    refine ⟨?_, ?_, hi, ?_⟩
    · intro b hbm
      rcases mem_setBranch _ _ _ _ hbm with rfl | hbm'
      · simp [step]
      · exact List.mem_cons_of_mem _ (hb b hbm')
    · left; exact name_mem_setBranch _ _ _
    · intro i him
      have him' : some i ∈ r.reflog ++ [some c] := him
      rcases List.mem_append.mp him' with him | him
      · exact List.mem_cons_of_mem _ (hr i him)
      · simp at him; subst him; simp [step]
  | branchCreate n =>
    simp only [step]
    split
    · rename_i t ht
      split
      · refine ⟨?_, ?_, hi, hr⟩
        · intro b hbm
          rcases List.mem_append.mp hbm with hbm | hbm
          · exact hb b hbm
          · simp at hbm; subst hbm; exact hb (r.head, t) (tip_mem r r.head t ht)
        · left
          have := tip_mem r r.head t ht
          simp only [names, List.map_append, List.mem_append]
          exact Or.inl (List.mem_map.mpr ⟨_, this, rfl⟩)
      · exact ⟨hb, hh, hi, hr⟩
    · exact ⟨hb, hh, hi, hr⟩
  | branchDelete n =>
    simp only [step]
    split
    · rename_i hc
      simp only [Bool.and_eq_true, bne_iff_ne, ne_eq] at hc
      refine ⟨fun b hbm => hb b (List.mem_filter.mp hbm).1, ?_, hi, hr⟩
      rcases hh with hh | hh
      · left
        simp only [names, List.mem_map] at hh ⊢
        obtain ⟨b, hbm, hbn⟩ := hh
        exact ⟨b, List.mem_filter.mpr ⟨hbm, by simp [hbn]; exact fun e => hc.1 e.symm⟩, hbn⟩
      · right; simp [hh]
    · exact ⟨hb, hh, hi, hr⟩
  | branchRename n =>
    simp only [step]
    split
    · rename_i t ht
      split
      · refine ⟨?_, ?_, hi, ?_⟩
        · intro b hbm
          rcases List.mem_append.mp hbm with hbm | hbm
          · exact hb b (List.mem_filter.mp hbm).1
          · simp at hbm; subst hbm; exact hb (r.head, t) (tip_mem r r.head t ht)
        · left; simp [names]
        · intro i him
          simp only [List.mem_append, List.mem_cons, List.mem_singleton] at him
          rcases him with him | him
          · exact hr i him
          · rcases him with him | him | him
            · cases him
            · cases him; exact hb _ (tip_mem r r.head t ht)
            · cases him
      · exact ⟨hb, hh, hi, hr⟩
    · exact ⟨hb, hh, hi, hr⟩
  | switch n =>
    simp only [step]
    split
    · rename_i t ht
      refine ⟨hb, ?_, hi, ?_⟩
      · left; exact List.mem_map.mpr ⟨_, tip_mem r n t ht, rfl⟩
      · intro i him
        simp only [List.mem_append, List.mem_singleton] at him
        rcases him with him | him
        · exact hr i him
        · cases him; exact hb _ (tip_mem r n t ht)
    · exact ⟨hb, hh, hi, hr⟩
  | switchCreate n =>
    simp only [step]
    split
    · rename_i t ht
      split
      · refine ⟨?_, ?_, hi, ?_⟩
        · intro b hbm
          rcases List.mem_append.mp hbm with hbm | hbm
          · exact hb b hbm
          · simp at hbm; subst hbm; exact hb (r.head, t) (tip_mem r r.head t ht)
        · left; simp [names]
        · intro i him
          simp only [List.mem_append, List.mem_singleton] at him
          rcases him with him | him
          · exact hr i him
          · cases him; exact hb _ (tip_mem r r.head t ht)
      · exact ⟨hb, hh, hi, hr⟩
    · exact ⟨hb, hh, hi, hr⟩
  | updateRef n id =>
    simp only [step]
    split
    · rename_i hc
      simp only [Bool.and_eq_true, List.contains_iff_mem] at hc
      refine ⟨?_, ?_, hi, hr⟩
      · intro b hbm
        rcases mem_setBranch _ _ _ _ hbm with rfl | hbm'
        · exact hc.2
        · exact hb b hbm'
      · left; exact name_mem_setBranch _ _ _
    · exact ⟨hb, hh, hi, hr⟩
  | reset pos =>
    simp only [step]
    split
    · rename_i id t hra ht
      have hid : id ∈ r.commits := by
        apply hr id
        unfold reflogAt at hra
        split at hra
        · exact List.mem_of_getElem? hra
        · cases hra
      refine ⟨?_, ?_, hi, ?_⟩
      · intro b hbm
        rcases mem_setBranch _ _ _ _ hbm with rfl | hbm'
        · exact hid
        · exact hb b hbm'
      · left; exact name_mem_setBranch _ _ _
      · intro i him
        simp only [List.mem_append, List.mem_singleton] at him
        rcases him with him | him
        · exact hr i him
        · cases him; exact hid
    · exact ⟨hb, hh, hi, hr⟩

/-- **After any sequence of commands — accepted, refused or hostile — the repository is connected.** -/
theorem inv_run (ops : List Op) : Inv (run {} ops) := by
  have : ∀ (r : Repo), Inv r → Inv (run r ops) := by
    induction ops with
    | nil => intro r h; exact h
    | cons op ops ih => intro r h; exact ih _ (inv_step r op h)
  exact this {} inv_init

/-- **No command deletes a stored object**: the sets of stored commits and blobs only grow. -/
theorem objects_monotone (r : Repo) (op : Op) :
    (∀ c ∈ r.commits, c ∈ (step r op).commits) ∧ (∀ b ∈ r.blobs, b ∈ (step r op).blobs) := by
  cases op <;> simp only [step] <;> (try split) <;> (try split) <;> simp_all

/-- non-vacuity: a concrete hostile history (blob id to update-ref, bad names, reset to the rename record) -/
example : (run {} [.add (asc "f") [1], .commit [9], .updateRef (asc "main") [1], .branchCreate (asc "../x"),
    .branchRename (asc "dev"), .reset 1, .switchCreate (asc "t"), .reset 0]).branches =
    [(asc "dev", [9]), (asc "t", [9])] := by decide

end C03
