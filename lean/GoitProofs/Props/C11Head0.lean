import GoitProofs.Props.C11World
set_option linter.unusedSimpArgs false
set_option linter.unusedVariables false

/-! C11 `head0` at byte level on the whole-repository model: after a successful `commit`, `reset`, `switch`, `switch -c` or
    `branch -r`, the **last record** of `logs/HEAD` names, as its new id, the commit the branch HEAD names now holds. -/

namespace W

open Reflog

/-- the log of `w'` is the log of `w` followed by some lines and then the line of `r` -/
def LastRec (w w' : World) (r : Rec) : Prop :=
  ∃ pre, w'.logHead = some (w.logHead.getD [] ++ pre ++ Reflog.format r)

/-- **head0, byte level**: after a successful `commit` the last record of `logs/HEAD` is a `commit` record with the message given
    whose new id is the commit the branch HEAD names now holds -/
theorem _root_.C11.world_head0_commit (H : HashFn) (w : World) (l : Loaded) (id data msg : Bytes) (tz : Int) (ts : List Int) (o : Option Bytes)
    (h : (commitWrite H w l id data msg tz ts).2 = .ok o) :
    ∃ r, LastRec w (commitWrite H w l id data msg tz ts).1 r ∧ r.to = some id ∧ r.kind = .commit ∧ r.msg = msg ∧
      (commitWrite H w l id data msg tz ts).1.head = some (Head.render l.ref) ∧
      aget (commitWrite H w l id data msg tz ts).1.heads l.ref = some (hashStr id) := by
  unfold commitWrite at h ⊢
  dsimp only at h ⊢
  by_cases hx : (!Refs.exists_ l.refs l.ref && !Refs.validName l.ref) = true
  · rw [if_pos hx] at h; cases h
  · rw [if_neg hx] at h ⊢
    by_cases hhn : w.head.isNone = true
    · rw [if_pos hhn] at h; cases h
    · rw [if_neg hhn] at h ⊢
      refine ⟨⟨.commit, (if Refs.exists_ l.refs l.ref = true then Option.map (fun x => x.fst) l.headCommit else none), some id,
        userName l, userEmail l, clock ts 1, tz, msg⟩, ⟨[], ?_⟩, rfl, rfl, rfl, rfl, ?_⟩
      · simp [setHead, appendLogHead, appendLogBranch, recLine]
      · simp [setHead, appendLogHead, appendLogBranch, aget_aset_self]

/-- … after a successful `reset` (any mode): a `reset` record whose new id is the target, which the current branch now holds -/
theorem _root_.C11.world_head0_reset (H : HashFn) (w : World) (l : Loaded) (s h : Bool) (arg t prev : Bytes) (tz : Int) (ts : List Int) (o : Option Bytes)
    (hok : (resetTo H w l s h arg t prev tz ts).2 = .ok o) :
    ∃ r, LastRec w (resetTo H w l s h arg t prev tz ts).1 r ∧ r.to = some t ∧ r.kind = .reset ∧
      (resetTo H w l s h arg t prev tz ts).1.head = w.head ∧
      aget (resetTo H w l s h arg t prev tz ts).1.heads l.ref = some (hashStr t) := by
  obtain ⟨hheads, hhead, _⟩ := resetTo_spec H w l s h arg t prev tz ts o hok
  refine ⟨⟨.reset, some prev, some t, userName l, userEmail l, clock ts 0, tz, asc "moving to " ++ arg⟩, ⟨[], ?_⟩, rfl, rfl, hhead, hheads⟩
  unfold resetTo at hok ⊢
  cases hc : commitAt H w t with
  | none => simp only [hc] at hok; cases hok
  | some c =>
    simp only [hc] at hok ⊢
    repeat' split
    all_goals first
      | (simp only [writeEntries_logHead, appendLogBranch_logHead, appendLogHead_logHead, recLine, List.append_nil])
      | (exfalso; simp_all)

/-- … after a successful `switch`: a `checkout` record whose new id is the commit of the branch HEAD now names -/
theorem _root_.C11.world_head0_switch (H : HashFn) (w : World) (l : Loaded) (n : Bytes) (tz : Int) (ts : List Int) (o : Option Bytes)
    (hok : (switchTo H w l n tz ts).2 = .ok o) :
    ∃ r id, LastRec w (switchTo H w l n tz ts).1 r ∧ r.to = some id ∧ r.kind = .checkout ∧
      Refs.lookup l.refs n = some id ∧ (commitAt H w id).isSome = true ∧
      (switchTo H w l n tz ts).1.head = some (Head.render n) ∧ (switchTo H w l n tz ts).1.heads = w.heads := by
  unfold switchTo at hok ⊢
  by_cases hx : (!Refs.exists_ l.refs n || w.head.isNone) = true
  · rw [if_pos hx] at hok; cases hok
  · rw [if_neg hx] at hok ⊢
    cases hlk : ((Refs.lookup l.refs n).bind fun id => (commitAt H w id).map fun _ => id) with
    | none => simp only [hlk] at hok; cases hok
    | some id =>
      simp only [hlk]
      have hl2 : Refs.lookup l.refs n = some id ∧ (commitAt H w id).isSome = true := by
        cases h1 : Refs.lookup l.refs n with
        | none => simp [h1] at hlk
        | some x =>
          simp only [h1, Option.bind_some] at hlk
          cases h2 : commitAt H w x with
          | none => simp [h2] at hlk
          | some c => simp [h2] at hlk; subst hlk; exact ⟨rfl, by rw [h2]; rfl⟩
      refine ⟨⟨.checkout, some id, some id, userName l, userEmail l, clock ts 0, tz, asc "moving from " ++ l.ref ++ asc " to " ++ n⟩, id,
        ⟨[], ?_⟩, rfl, rfl, hl2.1, hl2.2, rfl, rfl⟩
      simp [setHead, appendLogHead, recLine]

/-- … after a successful `switch -c`: a `checkout` record whose new id is HEAD's commit, which the new branch holds -/
theorem _root_.C11.world_head0_switch_create (w : World) (l : Loaded) (create : Bytes) (tz : Int) (ts : List Int) (o : Option Bytes)
    (hok : (switchCreate w l create tz ts).2 = .ok o) :
    ∃ r id c, LastRec w (switchCreate w l create tz ts).1 r ∧ r.to = some id ∧ r.kind = .checkout ∧ l.headCommit = some (id, c) ∧
      (switchCreate w l create tz ts).1.head = some (Head.render create) ∧
      aget (switchCreate w l create tz ts).1.heads create = some (hashStr id) := by
  unfold switchCreate at hok ⊢
  cases hhc : l.headCommit with
  | none => simp only [hhc] at hok; cases hok
  | some ic =>
    obtain ⟨id, c⟩ := ic
    simp only [hhc] at hok ⊢
    cases hadd : Refs.add l.refs create id with
    | err => simp only [hadd] at hok; cases hok
    | crash => simp only [hadd] at hok; cases hok
    | ok a =>
      simp only [hadd] at hok ⊢
      by_cases hhn : w.head.isNone = true
      · rw [if_pos hhn] at hok; cases hok
      · rw [if_neg hhn]
        refine ⟨⟨.checkout, some id, some id, userName l, userEmail l, clock ts 0, tz, asc "moving from " ++ l.ref ++ asc " to " ++ create⟩, id, c,
          ⟨[], ?_⟩, rfl, rfl, rfl, rfl, ?_⟩
        · simp [setHead, appendLogHead, appendLogBranch, recLine]
        · simp [setHead, appendLogHead, appendLogBranch, aget_aset_self]

/-- … after a successful `branch -r`: two records, the last one with HEAD's commit as its new id, held by the new name -/
theorem _root_.C11.world_head0_rename (w : World) (l : Loaded) (ren : Bytes) (tz : Int) (ts : List Int) (o : Option Bytes)
    (hok : (branchRename w l ren tz ts).2 = .ok o) :
    ∃ r id c, LastRec w (branchRename w l ren tz ts).1 r ∧ r.to = some id ∧ r.kind = .branch ∧ l.headCommit = some (id, c) ∧
      (branchRename w l ren tz ts).1.head = some (Head.render ren) ∧
      aget (branchRename w l ren tz ts).1.heads ren = some (hashStr id) := by
  obtain ⟨hspec, _⟩ := branchRename_spec w l ren tz ts
  obtain ⟨id, c, hhc, _, hne, hren, _, hhead⟩ := hspec o hok
  refine ⟨⟨.branch, none, some id, userName l, userEmail l, clock ts 1, tz, asc "renamed refs/heads/" ++ l.ref ++ asc " to refs/heads/" ++ ren⟩, id, c,
    ?_, rfl, rfl, hhc, hhead, hren⟩
  unfold branchRename at hok ⊢
  cases hr : Refs.rename l.refs l.ref ren with
  | err => simp only [hr] at hok; cases hok
  | crash => simp only [hr] at hok; cases hok
  | ok a =>
    simp only [hr, hhc] at hok ⊢
    by_cases hx : (w.head.isNone || (aget w.logHeads l.ref).isNone) = true
    · rw [if_pos hx] at hok; cases hok
    · rw [if_neg hx]
      refine ⟨recLine l .branch (some id) none (clock ts 0) tz (asc "renamed refs/heads/" ++ l.ref ++ asc " to refs/heads/" ++ ren), ?_⟩
      simp [setHead, appendLogHead, appendLogBranch, recLine, List.append_assoc]

end W
