import GoitProofs.Props.C15

/-! # C15: the commands that never touch a reference or an object — `rm`, `restore --staged`, `config`,
    `branch -d` (other branches), `init` — cannot break one at any crash point -/

namespace C15

open Eff

theorem mem_take {α} (l : List α) (k : Nat) (x : α) (h : x ∈ l.take k) : x ∈ l := List.mem_of_mem_take h

/-- `rm` killed anywhere: every object, every branch and HEAD are exactly as before -/
theorem rm_keeps_refs (s : FS) (ps : List (Bytes × Bytes)) (k : Nat) (r : Role)
    (hr : (∃ i, r = .object i) ∨ (∃ b, r = .branch b) ∨ r = .head) :
    crash s (rmFiles ps) k r = s r := by
  unfold crash
  apply run_untouched
  intro e he
  have he' := mem_take _ _ _ he
  simp only [rmFiles, List.mem_flatten, List.mem_map] at he'
  obtain ⟨l, ⟨p, _, rfl⟩, hel⟩ := he'
  simp only [setIndex, replace, List.mem_cons, List.not_mem_nil, or_false] at hel
  rcases hr with ⟨i, rfl⟩ | ⟨b, rfl⟩ | rfl <;> rcases hel with rfl | rfl | rfl | rfl <;> simp [Untouched]

/-- `restore --staged` killed anywhere: every object, every branch and HEAD are exactly as before -/
theorem restoreStaged_keeps_refs (s : FS) (fs : List Bytes) (k : Nat) (r : Role)
    (hr : (∃ i, r = .object i) ∨ (∃ b, r = .branch b) ∨ r = .head) :
    crash s (restoreStaged fs) k r = s r := by
  unfold crash
  apply run_untouched
  intro e he
  have he' := mem_take _ _ _ he
  simp only [restoreStaged, List.mem_flatten, List.mem_map] at he'
  obtain ⟨l, ⟨p, _, rfl⟩, hel⟩ := he'
  simp only [setIndex, replace, List.mem_cons, List.not_mem_nil, or_false] at hel
  rcases hr with ⟨i, rfl⟩ | ⟨b, rfl⟩ | rfl <;> rcases hel with rfl | rfl | rfl <;> simp [Untouched]

/-- `config` killed anywhere touches nothing but the config file and its temporary file -/
theorem config_keeps_all (s : FS) (data : Bytes) (k : Nat) (r : Role) (h1 : r ≠ .config) (h2 : r ≠ .tmp "config") :
    crash s (replace "config" .config data) k r = s r := by
  unfold crash
  apply run_untouched
  intro e he
  have he' := mem_take _ _ _ he
  simp only [replace, List.mem_cons, List.not_mem_nil, or_false] at he'
  rcases he' with rfl | rfl | rfl <;> simp [Untouched, h1, h2, Ne.symm h1, Ne.symm h2]

/-- `branch -d old` killed anywhere: every other branch, HEAD and every object are as before -/
theorem branchDelete_keeps_others (s : FS) (old : Bytes) (k : Nat) (r : Role)
    (hr : (∃ i, r = .object i) ∨ (∃ b, b ≠ old ∧ r = .branch b) ∨ r = .head ∨ r = .index) :
    crash s (branchDelete old) k r = s r := by
  unfold crash
  apply run_untouched
  intro e he
  have he' := mem_take _ _ _ he
  simp only [branchDelete, List.mem_cons, List.not_mem_nil, or_false] at he'
  rcases hr with ⟨i, rfl⟩ | ⟨b, hb, rfl⟩ | rfl | rfl
  · rcases he' with rfl | rfl <;> simp [Untouched]
  · rcases he' with rfl | rfl
    · simp only [Untouched, ne_eq, Role.branch.injEq]; exact fun h => hb h.symm
    · simp [Untouched]
  · rcases he' with rfl | rfl <;> simp [Untouched]
  · rcases he' with rfl | rfl <;> simp [Untouched]

/-- an interrupted `init` never leaves a `.goit`: the directory appears only with the last step, complete -/
theorem init_all_or_nothing (s : FS) (k : Nat) (hk : k < init.length) : crash s init k .repoDir = s .repoDir := by
  unfold crash
  apply run_untouched
  intro e he
  have hlen : init.length = 4 := rfl
  have : e ∈ init.take 3 := by
    have hsub : init.take k = (init.take 3).take k := by
      rw [List.take_take]; congr 1; omega
    rw [hsub] at he
    exact mem_take _ _ _ he
  simp only [init, List.take, List.mem_cons, List.not_mem_nil, or_false] at this
  rcases this with rfl | rfl | rfl <;> simp [Untouched]

end C15
