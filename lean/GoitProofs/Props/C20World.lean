import GoitProofs.Props.C06World
set_option linter.unusedSimpArgs false
set_option linter.unusedVariables false

/-! C20 `identity-gate` and C07 `refuse-noop` on the whole-repository model: a `commit` without a configured identity,
    and a `commit` of a staging area equal to HEAD's snapshot, are refused **and leave the repository exactly as it was**
    (no tree, no commit object, no branch, no log line). -/

namespace W

theorem commitWith_unset (H : HashFn) (ci : Cmds.CommitIn) (loc glob : Config.Sections) (h : Config.isUserSet loc glob = false) :
    Cmds.commitWith H ci loc glob = .err := by
  unfold Cmds.commitWith
  simp only [h, Bool.not_false, if_true]

theorem load_cfg (H : HashFn) (w : World) (l : Loaded) (hl : load H w = some l) :
    Cmds.cfgOf w.cfgLocal = some l.loc ∧ Cmds.cfgOf w.cfgGlobal = some l.glob := by
  unfold load at hl
  split at hl
  · rename_i h1 h2 _ _; injection hl with hl; subst hl; exact ⟨h1, h2⟩
  · contradiction

/-- `commit` with no identity configured: refused (or outside the model), and nothing at all is written -/
theorem commitCmd_identity_gate (H : HashFn) (w : World) (l : Loaded) (hl : load H w = some l) (msg : Bytes) (tz : Int) (ts : List Int)
    (hu : Config.isUserSet l.loc l.glob = false) :
    (commitCmd H w l msg tz ts).1 = w ∧ ∀ o, (commitCmd H w l msg tz ts).2 ≠ .ok o := by
  obtain ⟨hc1, hc2⟩ := load_cfg H w l hl
  unfold commitCmd
  dsimp only
  cases hs : (if l.headCommit.isNone = true then (Res.ok none : Res (Option (List Entry))) else (headSnap H w l).map some) with
  | crash => exact ⟨rfl, fun o h => by cases h⟩
  | err => dsimp only; split <;> exact ⟨rfl, fun o h => by cases h⟩
  | ok snap =>
    dsimp only
    have herr : Cmds.commitCmd H (commitIn w l snap msg tz (clock ts 0)) = .err := by
      unfold Cmds.commitCmd
      have e1 : (commitIn w l snap msg tz (clock ts 0)).cfgLocal = w.cfgLocal := rfl
      have e2 : (commitIn w l snap msg tz (clock ts 0)).cfgGlobal = w.cfgGlobal := rfl
      rw [e1, e2, hc1, hc2]
      exact commitWith_unset H _ _ _ hu
    rw [herr]
    dsimp only
    have hnr : commitReached H (commitIn w l snap msg tz (clock ts 0)) l = false := by
      unfold commitReached; simp [hu]
    simp only [hnr, Bool.false_eq_true, if_false]
    constructor <;> simp

end W

namespace C20

/-- **Identity gate** on the whole-repository model: until both a name and an e-mail address are configured (locally or
    globally), `commit` is refused and the repository — objects, branches, HEAD, logs, staging area — is unchanged -/
theorem world_identity_gate (H : HashFn) (w : W.World) (l : W.Loaded) (hl : W.load H w = some l) (msg : Bytes) (tz : Int) (ts : List Int)
    (hu : Config.isUserSet l.loc l.glob = false) :
    (W.commitCmd H w l msg tz ts).1 = w ∧ ∀ o, (W.commitCmd H w l msg tz ts).2 ≠ .ok o :=
  W.commitCmd_identity_gate H w l hl msg tz ts hu

end C20

namespace C07

/-- **Committing nothing is refused and changes nothing** on the whole-repository model: whenever the command model
    refuses (`Cmds.commitCmd = err`, e.g. by `C02.commit_refuses_noop` when the staging area equals HEAD's snapshot) and
    `commit()` was not entered, the world is returned as it was -/
theorem world_commit_refused_unchanged (H : HashFn) (w : W.World) (l : W.Loaded) (msg : Bytes) (tz : Int) (ts : List Int)
    (snap : Option (List Entry))
    (hs : (if l.headCommit.isNone = true then (Res.ok none : Res (Option (List Entry))) else (W.headSnap H w l).map some) = .ok snap)
    (herr : Cmds.commitCmd H (W.commitIn w l snap msg tz (W.clock ts 0)) = .err)
    (hnr : W.commitReached H (W.commitIn w l snap msg tz (W.clock ts 0)) l = false) :
    (W.commitCmd H w l msg tz ts).1 = w ∧ (W.commitCmd H w l msg tz ts).2 = .err := by
  unfold W.commitCmd
  dsimp only
  rw [hs]
  dsimp only
  rw [herr]
  dsimp only
  simp only [hnr, Bool.false_eq_true, if_false]
  constructor <;> simp

end C07
