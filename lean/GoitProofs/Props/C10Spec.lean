import GoitProofs.Props.C18World
set_option linter.unusedSimpArgs false
set_option linter.unusedVariables false

/-! C10 on the whole-repository model: what each branch / HEAD command does **exactly**, at the level of the
    bytes of `refs/heads/*` and `HEAD`, and that a refused one changes nothing.

    Together with `C10.world_others_keep` (every branch file the command does not name keeps its bytes) and
    `W.frame` (no other store is touched) these are complete step specifications of `branch <n>`,
    `branch -d`, `branch -r`, `switch`, `switch -c`. -/

namespace W

macro "refuse_leaf" : tactic => `(tactic| first
  | exact ⟨fun o h => (by cases h), fun _ => rfl⟩
  | exact ⟨fun o h => (by cases h), fun _ => trivial⟩
  | (constructor <;> simp))

/-! ### the helpers, one by one: outcome `ok` pins the new files down, any other outcome leaves the world as it was -/

theorem branchCreate_spec (w : World) (l : Loaded) (n : Bytes) (tz : Int) (ts : List Int) :
    (∀ o, (branchCreate w l n tz ts).2 = .ok o → ∃ id c, l.headCommit = some (id, c) ∧ Refs.validName n = true ∧
        aget (branchCreate w l n tz ts).1.heads n = some (hashStr id) ∧ (branchCreate w l n tz ts).1.head = w.head) ∧
    ((∀ o, (branchCreate w l n tz ts).2 ≠ .ok o) → (branchCreate w l n tz ts).1 = w) := by
  unfold branchCreate
  cases hhc : l.headCommit with
  | none => refuse_leaf
  | some ic =>
    obtain ⟨id, c⟩ := ic
    dsimp only
    cases hadd : Refs.add l.refs n id with
    | err => refuse_leaf
    | crash => refuse_leaf
    | ok a =>
      dsimp only
      refine ⟨fun o _ => ⟨id, c, rfl, add_ok_valid _ _ _ _ hadd, by simp [appendLogBranch, aget_aset_self], rfl⟩, fun h => ?_⟩
      exact absurd rfl (h none)

theorem branchDelete_spec (w : World) (l : Loaded) (del : Bytes) :
    (∀ o, (branchDelete w l del).2 = .ok o → del ≠ l.ref ∧ aget (branchDelete w l del).1.heads del = none ∧ (branchDelete w l del).1.head = w.head) ∧
    ((∀ o, (branchDelete w l del).2 ≠ .ok o) → (branchDelete w l del).1 = w) := by
  unfold branchDelete
  cases hd : Refs.delete l.refs l.ref del with
  | err => refuse_leaf
  | crash => refuse_leaf
  | ok a =>
    dsimp only
    by_cases hlg : (aget w.logHeads del).isNone = true
    · simp only [hlg, if_true]; refuse_leaf
    · simp only [hlg, Bool.false_eq_true, if_false]
      exact ⟨fun o _ => ⟨delete_ok_ne _ _ _ _ hd, by simp [aget_adel_self], by first | rfl | trivial | simp⟩, fun h => absurd rfl (h none)⟩

theorem branchRename_spec (w : World) (l : Loaded) (ren : Bytes) (tz : Int) (ts : List Int) :
    (∀ o, (branchRename w l ren tz ts).2 = .ok o → ∃ id c, l.headCommit = some (id, c) ∧ Refs.validName ren = true ∧ l.ref ≠ ren ∧
        aget (branchRename w l ren tz ts).1.heads ren = some (hashStr id) ∧ aget (branchRename w l ren tz ts).1.heads l.ref = none ∧ (branchRename w l ren tz ts).1.head = some (Head.render ren)) ∧
    ((∀ o, (branchRename w l ren tz ts).2 ≠ .ok o) → (branchRename w l ren tz ts).1 = w) := by
  unfold branchRename
  cases hr : Refs.rename l.refs l.ref ren with
  | err => refuse_leaf
  | crash => refuse_leaf
  | ok a =>
    cases hhc : l.headCommit with
    | none => refuse_leaf
    | some ic =>
      obtain ⟨id, c⟩ := ic
      dsimp only
      by_cases hx : (w.head.isNone || (aget w.logHeads l.ref).isNone) = true
      · simp only [hx, if_true]; refuse_leaf
      · simp only [hx, Bool.false_eq_true, if_false]
        obtain ⟨hval, hne⟩ := rename_ok_facts _ _ _ _ hr
        refine ⟨fun o _ => ⟨id, c, rfl, hval, hne, ?_, ?_, rfl⟩, fun h => absurd rfl (h none)⟩
        · simp only [appendLogBranch, appendLogHead, setHead]
          rw [aget_adel_ne _ _ _ (fun e => hne e.symm)]
          exact aget_aset_self _ _ _
        · simp only [appendLogBranch, appendLogHead, setHead]
          exact aget_adel_self _ _

theorem switchTo_spec (H : HashFn) (w : World) (l : Loaded) (n : Bytes) (tz : Int) (ts : List Int) :
    (∀ o, (switchTo H w l n tz ts).2 = .ok o → Refs.exists_ l.refs n = true ∧ (switchTo H w l n tz ts).1.head = some (Head.render n) ∧ (switchTo H w l n tz ts).1.heads = w.heads) ∧
    ((∀ o, (switchTo H w l n tz ts).2 ≠ .ok o) → (switchTo H w l n tz ts).1 = w) := by
  unfold switchTo
  by_cases hx : (!Refs.exists_ l.refs n || w.head.isNone) = true
  · simp only [hx, if_true]; refuse_leaf
  · simp only [hx, Bool.false_eq_true, if_false]
    cases hlk : ((Refs.lookup l.refs n).bind fun id => (commitAt H w id).map fun _ => id) with
    | none => refuse_leaf
    | some id =>
      dsimp only
      have hex : Refs.exists_ l.refs n = true := by cases he : Refs.exists_ l.refs n <;> simp_all
      exact ⟨fun o _ => ⟨hex, rfl, rfl⟩, fun h => absurd rfl (h none)⟩

theorem switchCreate_spec (w : World) (l : Loaded) (create : Bytes) (tz : Int) (ts : List Int) :
    (∀ o, (switchCreate w l create tz ts).2 = .ok o → ∃ id c, l.headCommit = some (id, c) ∧ Refs.validName create = true ∧
        aget (switchCreate w l create tz ts).1.heads create = some (hashStr id) ∧ (switchCreate w l create tz ts).1.head = some (Head.render create)) ∧
    ((∀ o, (switchCreate w l create tz ts).2 ≠ .ok o) → (switchCreate w l create tz ts).1 = w) := by
  unfold switchCreate
  cases hhc : l.headCommit with
  | none => refuse_leaf
  | some ic =>
    obtain ⟨id, c⟩ := ic
    dsimp only
    cases hadd : Refs.add l.refs create id with
    | err => refuse_leaf
    | crash => refuse_leaf
    | ok a =>
      dsimp only
      by_cases hhn : w.head.isNone = true
      · simp only [hhn, if_true]; refuse_leaf
      · simp only [hhn, Bool.false_eq_true, if_false]
        refine ⟨fun o _ => ⟨id, c, rfl, add_ok_valid _ _ _ _ hadd, by simp [appendLogBranch, appendLogHead, setHead, aget_aset_self], rfl⟩,
          fun h => absurd rfl (h none)⟩

/-- an outcome other than `ok` leaves the world as it was -/
def RefusedSame (w : World) (p : World × Out) : Prop := (∀ o, p.2 ≠ .ok o) → p.1 = w

/-- `branch …` and `switch …`: an invocation that does not end in `ok` leaves the whole repository exactly as it was -/
theorem branchCmd_refused (w : World) (l : Loaded) (args list ren del tz ts) : RefusedSame w (branchCmd w l args list ren del tz ts) := by
  unfold branchCmd
  dsimp only
  repeat' split
  all_goals first
    | exact fun _ => rfl
    | exact (branchCreate_spec w l _ tz ts).2
    | exact (branchRename_spec w l _ tz ts).2
    | exact (branchDelete_spec w l _).2

theorem switchCmd_refused (H : HashFn) (w : World) (l : Loaded) (args create tz ts) : RefusedSame w (switchCmd H w l args create tz ts) := by
  unfold switchCmd
  repeat' split
  all_goals first
    | exact fun _ => rfl
    | exact (switchTo_spec H w l _ tz ts).2
    | exact (switchCreate_spec w l _ tz ts).2

end W

namespace C10

/-- **refused ⇒ unchanged** for the branch and switch commands, in any state: if `branch …` or `switch …` does not
    succeed, nothing in the repository — no branch file, not HEAD, no log, no object — has changed -/
theorem world_branch_switch_refused_unchanged (H : HashFn) (w : W.World) (i : W.Inv)
    (hc : (∃ a l r d, i.cmd = .branch a l r d) ∨ (∃ a c, i.cmd = .switch a c)) (h : ∀ o, (W.run H w i).2 ≠ .ok o) :
    (W.run H w i).1 = w := by
  obtain ⟨cmd, tz, ts⟩ := i
  revert h
  show W.RefusedSame w (W.run H w ⟨cmd, tz, ts⟩)
  rcases hc with ⟨a, l, r, d, rfl⟩ | ⟨a, c, rfl⟩
  · unfold W.run; dsimp only
    repeat' split
    all_goals first | exact fun _ => rfl | exact W.branchCmd_refused w _ _ _ _ _ tz ts
  · unfold W.run; dsimp only
    repeat' split
    all_goals first | exact fun _ => rfl | exact W.switchCmd_refused H w _ _ _ tz ts

/-- `switch <n>` that succeeds: HEAD is `ref: refs/heads/<n>`, `<n>` is an existing branch, no branch file changes -/
theorem world_switch_spec (H : HashFn) (w : W.World) (l : W.Loaded) (n : Bytes) (tz : Int) (ts : List Int) (o : Option Bytes)
    (h : (W.switchTo H w l n tz ts).2 = .ok o) :
    (W.switchTo H w l n tz ts).1.head = some (Head.render n) ∧ (W.switchTo H w l n tz ts).1.heads = w.heads ∧
      Refs.exists_ l.refs n = true := by
  obtain ⟨h1, h2, h3⟩ := (W.switchTo_spec H w l n tz ts).1 o h
  exact ⟨h2, h3, h1⟩

/-- `branch <n>` that succeeds: `<n>` is a valid new name and its file holds the hex id of HEAD's commit; HEAD is untouched -/
theorem world_create_spec (w : W.World) (l : W.Loaded) (n : Bytes) (tz : Int) (ts : List Int) (o : Option Bytes)
    (h : (W.branchCreate w l n tz ts).2 = .ok o) :
    ∃ id c, l.headCommit = some (id, c) ∧ Refs.validName n = true ∧
      W.aget (W.branchCreate w l n tz ts).1.heads n = some (hashStr id) ∧ (W.branchCreate w l n tz ts).1.head = w.head :=
  (W.branchCreate_spec w l n tz ts).1 o h

/-- `branch -d <n>` that succeeds: `<n>` is not the current branch and its file is gone; HEAD is untouched -/
theorem world_delete_spec (w : W.World) (l : W.Loaded) (del : Bytes) (o : Option Bytes) (h : (W.branchDelete w l del).2 = .ok o) :
    del ≠ l.ref ∧ W.aget (W.branchDelete w l del).1.heads del = none ∧ (W.branchDelete w l del).1.head = w.head :=
  (W.branchDelete_spec w l del).1 o h

/-- `branch -r <new>` that succeeds: the new name holds HEAD's commit, the old name is gone, HEAD names the new one -/
theorem world_rename_spec (w : W.World) (l : W.Loaded) (ren : Bytes) (tz : Int) (ts : List Int) (o : Option Bytes)
    (h : (W.branchRename w l ren tz ts).2 = .ok o) :
    ∃ id c, l.headCommit = some (id, c) ∧ Refs.validName ren = true ∧ l.ref ≠ ren ∧
      W.aget (W.branchRename w l ren tz ts).1.heads ren = some (hashStr id) ∧
      W.aget (W.branchRename w l ren tz ts).1.heads l.ref = none ∧
      (W.branchRename w l ren tz ts).1.head = some (Head.render ren) :=
  (W.branchRename_spec w l ren tz ts).1 o h

/-- `switch -c <n>` that succeeds: new valid name at HEAD's commit, HEAD names it -/
theorem world_switch_create_spec (w : W.World) (l : W.Loaded) (c : Bytes) (tz : Int) (ts : List Int) (o : Option Bytes)
    (h : (W.switchCreate w l c tz ts).2 = .ok o) :
    ∃ id cm, l.headCommit = some (id, cm) ∧ Refs.validName c = true ∧
      W.aget (W.switchCreate w l c tz ts).1.heads c = some (hashStr id) ∧ (W.switchCreate w l c tz ts).1.head = some (Head.render c) :=
  (W.switchCreate_spec w l c tz ts).1 o h

end C10
