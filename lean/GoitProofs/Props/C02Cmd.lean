import GoitProofs.Props.C07Tree
import GoitProofs.Props.C05Reset

/-! # C02 / C07 at command level: `goit commit` on the command model `Cmds.commitCmd`

The model is compared with the real command on every `commit` of the generated histories: it predicts the
id of the new commit object byte for byte (root tree of the staged entries, parent line, configured
identity, message) or the refusal. -/

namespace C02

open TreeBuild IndexOps C06 Cmds

theorem commitMake_ok (H : HashFn) (i : CommitIn) (name email id data : Bytes)
    (h : commitMake H i name email = .ok (id, data)) :
    data = commitData H i name email ∧ id = Obj.id H .commit data ∧ (Commit.parse data).isSome = true := by
  unfold commitMake at h
  split at h
  · cases h
  · rename_i hp
    simp only [Res.ok.injEq, Prod.mk.injEq] at h
    obtain ⟨h1, h2⟩ := h
    subst h2
    refine ⟨rfl, h1.symm, ?_⟩
    cases hx : Commit.parse (commitData H i name email) with
    | none => rw [hx] at hp; simp at hp
    | some _ => rfl

/-- **What a successful `commit` creates.** If the command succeeds it is because an identity is configured,
    the staging area differs from HEAD's snapshot (or is non-empty before the first commit), and the new
    object is exactly: root tree of the staged entries (written by `writeTree`), the branch file's content
    as parent, the configured name / e-mail (local before global) with the clock as author and committer,
    and the message; its id is the hash of that content. -/
theorem commitCmd_ok (H : HashFn) (i : CommitIn) (id data : Bytes) (h : commitCmd H i = .ok (id, data)) :
    ∃ loc glob, cfgOf i.cfgLocal = some loc ∧ cfgOf i.cfgGlobal = some glob ∧ Config.isUserSet loc glob = true ∧
      data = Commit.format (writeTree H i.index).id i.branchRaw
        ⟨Config.userField loc glob (asc "name"), Config.userField loc glob (asc "email"), i.unix, i.offset⟩
        ⟨Config.userField loc glob (asc "name"), Config.userField loc glob (asc "email"), i.unix, i.offset⟩ i.msg ∧
      id = Obj.id H .commit data ∧ (Commit.parse data).isSome = true ∧
      (i.anyBranches = false → i.index ≠ []) ∧
      (i.anyBranches = true → ∃ sn d ds, i.snap = some sn ∧
          diffWithTree i.index (build H (fuelFor sn) sn) = .ok (d :: ds)) := by
  unfold commitCmd at h
  cases hl : cfgOf i.cfgLocal with
  | none => simp only [hl] at h; cases h
  | some loc =>
  cases hg : cfgOf i.cfgGlobal with
  | none => simp only [hl, hg] at h; cases h
  | some glob =>
    simp only [hl, hg] at h
    refine ⟨loc, glob, rfl, rfl, ?_⟩
    unfold commitWith at h
    by_cases hu : Config.isUserSet loc glob = true
    · simp only [hu, Bool.not_true, Bool.false_eq_true, if_false] at h
      refine ⟨hu, ?_⟩
      by_cases hb : i.anyBranches = true
      · simp only [hb, Bool.not_true, Bool.false_eq_true, if_false] at h
        cases hsn : i.snap with
        | none => simp only [hsn] at h; cases h
        | some sn =>
          simp only [hsn] at h
          cases hd : diffWithTree i.index (build H (fuelFor sn) sn) with
          | err => simp only [hd] at h; cases h
          | crash => simp only [hd] at h; cases h
          | ok l =>
            cases l with
            | nil => simp only [hd] at h; cases h
            | cons d ds =>
              simp only [hd] at h
              obtain ⟨h1, h2, h3⟩ := commitMake_ok H i _ _ id data h
              exact ⟨h1, h2, h3, fun hf => (by rw [hb] at hf; cases hf), fun _ => ⟨sn, d, ds, rfl, hd⟩⟩
      · simp only [Bool.not_eq_true] at hb
        simp only [hb, Bool.not_false, if_true] at h
        by_cases he : i.index.isEmpty = true
        · simp only [he, if_true] at h; cases h
        · simp only [he, Bool.false_eq_true, if_false] at h
          obtain ⟨h1, h2, h3⟩ := commitMake_ok H i _ _ id data h
          exact ⟨h1, h2, h3, fun _ hn => he (by simp [hn]), fun hf => (by rw [hb] at hf; cases hf)⟩
    · simp only [Bool.not_eq_true] at hu
      simp only [hu, Bool.not_false, if_true] at h
      cases h

/-- **Committing nothing is refused**: with a HEAD snapshot equal to the staging area the command refuses,
    whatever the configuration, names or message. -/
theorem commit_refuses_noop (H : HashFn) (i : CommitIn) (sn : List Entry) (hb : i.anyBranches = true)
    (hsn : i.snap = some sn) (hs : Canonical sn) (hok : AllOK sn) (heq : i.index = sn) :
    commitCmd H i = .err := by
  have hd := (C07.diff_nil_iff H i.index sn (heq ▸ hs) (heq ▸ hok) hs hok).2 heq
  unfold commitCmd
  split
  · unfold commitWith
    split
    · rfl
    · simp only [hb, Bool.not_true, Bool.false_eq_true, if_false, hsn, hd]
  · rfl

/-- **Conversely any staged difference makes `commit` succeed** (given an identity the reader accepts). -/
theorem commit_accepts_diff (H : HashFn) (i : CommitIn) (sn : List Entry) (loc glob : Config.Sections)
    (hl : cfgOf i.cfgLocal = some loc) (hg : cfgOf i.cfgGlobal = some glob) (hu : Config.isUserSet loc glob = true)
    (hb : i.anyBranches = true) (hsn : i.snap = some sn)
    (hsi : Canonical i.index) (hoki : AllOK i.index) (hs : Canonical sn) (hok : AllOK sn) (hne : i.index ≠ sn)
    (hparse : (Commit.parse (commitData H i (Config.userField loc glob (asc "name")) (Config.userField loc glob (asc "email")))).isSome = true) :
    ∃ id data, commitCmd H i = .ok (id, data) := by
  have hd := C07.diff_exact H i.index sn hsi hoki hs hok
  have hnn : ∀ l, diffWithTree i.index (build H (fuelFor sn) sn) = .ok l → l ≠ [] := by
    intro l hl' hnil
    subst hnil
    exact hne ((C07.diff_nil_iff H i.index sn hsi hoki hs hok).1 hl')
  have hp : (Commit.parse (commitData H i (Config.userField loc glob (asc "name")) (Config.userField loc glob (asc "email")))).isNone = false := by
    cases hx : Commit.parse (commitData H i (Config.userField loc glob (asc "name")) (Config.userField loc glob (asc "email"))) with
    | none => rw [hx] at hparse; cases hparse
    | some _ => rfl
  unfold commitCmd
  simp only [hl, hg]
  unfold commitWith
  simp only [hu, Bool.not_true, Bool.false_eq_true, if_false, hb, hsn]
  cases hl2 : diffWithTree i.index (build H (fuelFor sn) sn) with
  | err => rw [hd] at hl2; cases hl2
  | crash => rw [hd] at hl2; cases hl2
  | ok l =>
    cases l with
    | nil => exact absurd rfl (hnn _ hl2)
    | cons d ds =>
      simp only [commitMake, hp, Bool.false_eq_true, if_false]
      exact ⟨_, _, rfl⟩

end C02

namespace C02

open TreeBuild IndexOps C06 Cmds

/-- **The commit `commit` creates reads back as exactly the staged entries** (end to end, through the object
    store): after the objects of a successful `commit` are stored, `Index.Reset` to the new commit id installs
    the entries that were staged. Composition of `commitCmd_ok` with `C05.reset_readback`. -/
theorem commit_readback (H : HashFn) (s : Store) (i : CommitIn) (id data : Bytes) (parent : Option Bytes) (msg : List Bytes)
    (h : commitCmd H i = .ok (id, data))
    (hbr : i.branchRaw = parent.map hashStr) (hm : i.msg = Bytes.join [10] msg) (hmsg : msg ≠ [])
    (hok : AllOK i.index) (heok : C05.EntriesOK i.index) (hp : ∀ p, parent = some p → p.length = 20)
    (hsign : ∀ loc glob, cfgOf i.cfgLocal = some loc → cfgOf i.cfgGlobal = some glob →
      C12.SignOK ⟨Config.userField loc glob (asc "name"), Config.userField loc glob (asc "email"), i.unix, i.offset⟩)
    (hlines : ∀ loc glob, cfgOf i.cfgLocal = some loc → cfgOf i.cfgGlobal = some glob →
      ∀ l ∈ C12.headerLines (writeTree H i.index).id parent
        ⟨Config.userField loc glob (asc "name"), Config.userField loc glob (asc "email"), i.unix, i.offset⟩
        ⟨Config.userField loc glob (asc "name"), Config.userField loc glob (asc "email"), i.unix, i.offset⟩ ++ [[]] ++ msg, Bytes.LineOK l) :
    let ws := (writeTree H i.index).writes ++ [(id, Obj.encode .commit data)]
    CollisionFreeOn H (fun b => ∃ p ∈ ws, p.2 = b) → C05.Small ws →
    Cmds.resetEntries H (C05.storeAfter s ws) (fuelFor i.index) id = .ok i.index := by
  obtain ⟨loc, glob, hl, hg, _, hdata, hid, _, _, _⟩ := commitCmd_ok H i id data h
  intro ws hcf hsmall
  have hidsha : id = H.sha (Obj.encode .commit data) := by rw [hid]; rfl
  have := C05.reset_readback H s i.index parent _ _ msg hok heok hmsg hp (hsign loc glob hl hg) (hsign loc glob hl hg)
    (hlines loc glob hl hg)
  simp only at this
  rw [hbr, hm] at hdata
  rw [← hdata, ← hidsha] at this
  exact this hcf hsmall

end C02
