import GoitProofs.Props.C06
import GoitProofs.Props.C10
import GoitProofs.Props.C19

/-! # C18 — No command crashes or hangs (the mechanisms that could)

Every loop of the model is structural or carries a termination proof accepted by Lean: the three
hand-written binary searches (`bsearch`, `termination_by right - left`), the tree reader (fuel = data
length + 1 and nesting depth), the tree writer (fuel = total path length + 1, proved sufficient in C02),
the regexp-free matchers. The theorems below state that the remaining *explicit* crash outcomes of the
model cannot occur on the states Goit produces. -/

namespace C18

/-- lookups in the staging area never run out of range -/
theorem getEntry_never_crashes (es : List Entry) (hs : C06.Canonical es) (p : Bytes) :
    IndexOps.getEntry es p ≠ .crash := (C06.getEntry_correct es hs p).2.2

/-- lookups in the branch list never run out of range -/
theorem getBranchPos_never_crashes (h : Refs.Heads) (hs : C10.Sorted h) (n : Bytes) :
    Refs.getBranchPos h n ≠ .crash := (C10.getBranchPos_correct h hs n).2.2

/-- `Index.Update` / `DeleteEntry` never crash on a canonical index -/
theorem update_never_crashes (es : List Entry) (hs : C06.Canonical es) (id p : Bytes) :
    IndexOps.update es id p ≠ .crash := by
  have hne := getEntry_never_crashes es hs p
  unfold IndexOps.update
  cases hg : IndexOps.getEntry es p with
  | crash => exact absurd hg hne
  | notFound => simp
  | found i =>
    simp only
    -- a found position is in range
    have : ∃ h : i < es.length, es[i].path = p := by
      have := (bsearch_spec (IndexOps.paths es) hs p 0 (IndexOps.paths es).length (Nat.le_refl _)).2.1 i
      unfold IndexOps.getEntry bsearchTop at hg
      by_cases h0 : (IndexOps.paths es).length = 0
      · simp [h0] at hg
      · simp only [h0, if_false] at hg
        obtain ⟨hi, hp⟩ := this hg
        exact ⟨by simpa [IndexOps.paths] using hi, by simpa [IndexOps.paths] using hp⟩
    obtain ⟨hi, _⟩ := this
    simp only [List.getElem?_eq_getElem hi]
    split <;> simp

theorem delete_never_crashes (es : List Entry) (hs : C06.Canonical es) (p : Bytes) :
    IndexOps.delete es p ≠ .crash := by
  have hne := getEntry_never_crashes es hs p
  unfold IndexOps.delete
  cases hg : IndexOps.getEntry es p with
  | crash => exact absurd hg hne
  | notFound => simp
  | found i => simp

/-- reading an object never crashes for a non-empty id (ids come from 40-digit hashes: 20 bytes) -/
theorem get_never_crashes (H : HashFn) (s : Store) (id : Bytes) (h : id.length = 20) : Store.get H s id ≠ .crash := by
  intro hc
  have := (C19.get_crash_iff H s id).mp hc
  rw [this] at h; cases h

end C18
