import GoitProofs.Props.C13World
import GoitProofs.Props.C20World
set_option linter.unusedSimpArgs false
set_option linter.unusedVariables false

/-! C07, the other half, on the whole-repository model: **any staged difference makes `commit` succeed** — in a state every
    history reaches, with an identity and a message in C12's domain and a valid current branch name. -/

namespace W

open C04 C05 C06 C17 TreeBuild TreeCodec

/-- the commit object text `commit` is about to write parses (the reader accepts what the writer produces), in a connected
    repository, for an identity and a message in C12's domain -/
theorem format_parses (H : HashFn) (w : World) (l : Loaded) (msg : Bytes) (tz t : Int) (loc glob : Config.Sections)
    (hconn : Conn H w) (hloc : Cmds.cfgOf w.cfgLocal = some loc) (hglob : Cmds.cfgOf w.cfgGlobal = some glob)
    (hdom : CommitDomain w msg tz t) :
    (Commit.parse (Commit.format (writeTree H l.idx).id (aget w.heads l.ref)
      ⟨Config.userField loc glob (asc "name"), Config.userField loc glob (asc "email"), t, tz⟩
      ⟨Config.userField loc glob (asc "name"), Config.userField loc glob (asc "email"), t, tz⟩ msg)).isSome = true := by
  obtain ⟨hsign, hau, hco, ls, hls, hmsg, hmsgl⟩ := hdom loc glob hloc hglob
  have hlines : ∀ parent : Option Bytes, (∀ p, parent = some p → p.length = 20) →
      ∀ x ∈ C12.headerLines (writeTree H l.idx).id parent
        ⟨Config.userField loc glob (asc "name"), Config.userField loc glob (asc "email"), t, tz⟩
        ⟨Config.userField loc glob (asc "name"), Config.userField loc glob (asc "email"), t, tz⟩ ++ [[]] ++ ls, Bytes.LineOK x := by
    intro parent hpl x hx
    have htl : Bytes.LineOK (C12.treeLine (writeTree H l.idx).id) :=
      hexLine_ok (asc "tree ") _ (by decide) (by decide) (writeTree_id_len H l.idx)
    simp only [C12.headerLines, List.mem_append, List.mem_cons, List.mem_singleton, List.not_mem_nil, or_false] at hx
    rcases hx with ((h1 | h1) | h1) | h1
    · rcases h1 with h1 | h1
      · rw [h1]; exact htl
      · cases parent with
        | none => simp at h1
        | some p =>
          simp at h1; rw [h1]
          exact hexLine_ok (asc "parent ") p (by decide) (by decide) (hpl p rfl)
    · rcases h1 with h1 | h1
      · rw [h1]; exact hau
      · rw [h1]; exact hco
    · rw [h1]; exact lineOK_nil
    · exact hmsgl x h1
  cases hb : aget w.heads l.ref with
  | none =>
    have hp := C12.commit_parse_format (writeTree H l.idx).id none _ _ ls hls (writeTree_id_len H l.idx)
      (fun p hp => by cases hp) hsign hsign (hlines none (fun p hp => by cases hp))
    simp only [Option.map_none] at hp
    rw [hmsg, hp]; rfl
  | some raw =>
    obtain ⟨_, pid, hraw, hpc⟩ := hconn.branches l.ref raw hb
    have hlen := commitAt_len20 H w hconn.named pid hpc
    have hp := C12.commit_parse_format (writeTree H l.idx).id (some pid) _ _ ls hls (writeTree_id_len H l.idx)
      (fun p hp => by have hq : pid = p := Option.some.inj hp; rw [← hq]; exact hlen) hsign hsign
      (hlines (some pid) (fun p hp => by have hq : pid = p := Option.some.inj hp; rw [← hq]; exact hlen))
    simp only [Option.map_some] at hp
    rw [hmsg, hraw, hp]; rfl

end W

namespace C07

open TreeBuild IndexOps Cmds

/-- **Any staged difference makes `commit` succeed** (whole-repository model): in a state meeting `W.Fsck` (every history), when HEAD's
    branch has a commit, the staging area differs from that commit's snapshot (as read back through the World's own store), an
    identity is configured, identity and message are in C12's domain, HEAD's file is there and names a valid branch name — `commit`
    ends `ok`. With `world_commit_nothing_staged_refused` this is the whole `commit-if-diff` clause on `W.run`. -/
theorem world_commit_succeeds_on_diff (H : HashFn) (w : W.World) (msg : Bytes) (tz : Int) (ts : List Int) (l : W.Loaded)
    (id0 : Bytes) (c0 : Commit) (sn : List Entry)
    (hf : W.Fsck H w) (hinit : w.inited = true) (hl : W.load H w = some l)
    (hh : l.headCommit = some (id0, c0)) (hsn : W.headSnap H w l = .ok sn) (hne : l.idx ≠ sn)
    (hu : Config.isUserSet l.loc l.glob = true) (hdom : W.CommitDomain w msg tz (W.clock ts 0))
    (hhead : w.head.isNone = false) (hvn : Refs.validName l.ref = true) :
    (W.run H w ⟨.commit msg, tz, ts⟩).2 = .ok none := by
  obtain ⟨hloc, hglob⟩ := W.load_cfg H w l hl
  obtain ⟨_, raw, hraw, _⟩ := W.load_headCommit H w l hl id0 c0 hh
  have hneH : w.heads.isEmpty = false := by
    cases hw : w.heads with
    | nil => rw [hw] at hraw; simp [W.aget] at hraw
    | cons x xs => rfl
  have hgi := W.goodE_facts l.idx (W.loaded_idx_goodE H w l hl hf.2.1.1)
  have hgs := W.goodE_facts sn ((W.readsGoodE H w hf.2.1.2).2 l sn hl hsn)
  have hparse := W.format_parses H w l msg tz (W.clock ts 0) l.loc l.glob hf.1 hloc hglob hdom
  obtain ⟨id, data, hcc⟩ := C02.commit_accepts_diff H (W.commitIn w l (some sn) msg tz (W.clock ts 0)) sn l.loc l.glob
    hloc hglob hu (by simp [W.commitIn, hneH]) rfl hgi.1 hgi.2.2.1 hgs.1 hgs.2.2.1 hne hparse
  unfold W.run
  simp only [hinit, Bool.not_true, Bool.false_eq_true, if_false, W.pathArgs, List.all_nil, hl]
  unfold W.commitCmd
  simp only [hh, Option.isNone_some, Bool.false_eq_true, if_false, hsn, Res.map, hcc]
  unfold W.commitWrite
  simp only [hvn, Bool.not_true, Bool.and_false, Bool.false_eq_true, if_false, hhead]

end C07

namespace C07

open TreeBuild IndexOps Cmds

/-- **The first commit**: in a repository without branches, with a non-empty staging area, a configured identity and identity and
    message in C12's domain, `commit` ends `ok` (whole-repository model, a state meeting `W.Conn`) -/
theorem world_first_commit_succeeds (H : HashFn) (w : W.World) (msg : Bytes) (tz : Int) (ts : List Int) (l : W.Loaded)
    (hconn : W.Conn H w) (hinit : w.inited = true) (hl : W.load H w = some l)
    (hnb : w.heads.isEmpty = true) (hh : l.headCommit = none) (hne : l.idx.isEmpty = false)
    (hu : Config.isUserSet l.loc l.glob = true) (hdom : W.CommitDomain w msg tz (W.clock ts 0))
    (hhead : w.head.isNone = false) (hvn : Refs.validName l.ref = true) :
    (W.run H w ⟨.commit msg, tz, ts⟩).2 = .ok none := by
  obtain ⟨hloc, hglob⟩ := W.load_cfg H w l hl
  have hparse := W.format_parses H w l msg tz (W.clock ts 0) l.loc l.glob hconn hloc hglob hdom
  have hp : (Commit.parse (commitData H (W.commitIn w l none msg tz (W.clock ts 0)) (Config.userField l.loc l.glob (asc "name"))
      (Config.userField l.loc l.glob (asc "email")))).isNone = false := by
    have : commitData H (W.commitIn w l none msg tz (W.clock ts 0)) (Config.userField l.loc l.glob (asc "name"))
        (Config.userField l.loc l.glob (asc "email")) =
      Commit.format (writeTree H l.idx).id (W.aget w.heads l.ref)
        ⟨Config.userField l.loc l.glob (asc "name"), Config.userField l.loc l.glob (asc "email"), W.clock ts 0, tz⟩
        ⟨Config.userField l.loc l.glob (asc "name"), Config.userField l.loc l.glob (asc "email"), W.clock ts 0, tz⟩ msg := rfl
    rw [this]
    cases hx : Commit.parse (Commit.format (writeTree H l.idx).id (W.aget w.heads l.ref)
        ⟨Config.userField l.loc l.glob (asc "name"), Config.userField l.loc l.glob (asc "email"), W.clock ts 0, tz⟩
        ⟨Config.userField l.loc l.glob (asc "name"), Config.userField l.loc l.glob (asc "email"), W.clock ts 0, tz⟩ msg) with
    | none => rw [hx] at hparse; cases hparse
    | some _ => rfl
  have hcc : ∃ id data, Cmds.commitCmd H (W.commitIn w l none msg tz (W.clock ts 0)) = .ok (id, data) := by
    unfold Cmds.commitCmd
    have h1 : (W.commitIn w l none msg tz (W.clock ts 0)).cfgLocal = w.cfgLocal := rfl
    have h2 : (W.commitIn w l none msg tz (W.clock ts 0)).cfgGlobal = w.cfgGlobal := rfl
    simp only [h1, h2, hloc, hglob]
    unfold Cmds.commitWith
    have h3 : (W.commitIn w l none msg tz (W.clock ts 0)).anyBranches = false := by simp [W.commitIn, hnb]
    have h4 : (W.commitIn w l none msg tz (W.clock ts 0)).index = l.idx := rfl
    simp only [hu, Bool.not_true, Bool.false_eq_true, if_false, h3, Bool.not_false, if_true, h4, hne]
    unfold Cmds.commitMake
    simp only [hp, Bool.false_eq_true, if_false]
    exact ⟨_, _, rfl⟩
  obtain ⟨id, data, hcc⟩ := hcc
  unfold W.run
  simp only [hinit, Bool.not_true, Bool.false_eq_true, if_false, W.pathArgs, List.all_nil, hl]
  unfold W.commitCmd
  simp only [hh, Option.isNone_none, if_true, hcc]
  unfold W.commitWrite
  simp only [hvn, Bool.not_true, Bool.and_false, Bool.false_eq_true, if_false, hhead]

end C07
