import GoitProofs.Props.C20

/-! # C20: a value set with `config <section>.<key> <value>` is the value later commands read,
    and the file written still loads -/

namespace C20

open Config

theorem keys_kvSet (k v : Bytes) (kv : KV) (hnd : (keys kv).Nodup) :
    (keys (kvSet k v kv)).Nodup ∧ ∀ q, q ∈ kvSet k v kv → q = (k, v) ∨ q ∈ kv := by
  induction kv with
  | nil => simp [kvSet, keys]
  | cons p t ih =>
    obtain ⟨k', v'⟩ := p
    simp only [keys, List.map_cons, List.nodup_cons] at hnd
    by_cases hk : k' = k
    · subst hk
      simp only [kvSet, if_true, keys, List.map_cons, List.nodup_cons]
      exact ⟨hnd, fun q hq => by rcases List.mem_cons.1 hq with h | h; exact Or.inl h; exact Or.inr (List.mem_cons_of_mem _ h)⟩
    · simp only [kvSet, hk, if_false, keys, List.map_cons, List.nodup_cons]
      obtain ⟨ih1, ih2⟩ := ih hnd.2
      refine ⟨⟨?_, ih1⟩, ?_⟩
      · intro hin
        obtain ⟨q, hq, hqe⟩ := List.mem_map.1 hin
        rcases ih2 q hq with rfl | hq'
        · exact hk hqe.symm
        · exact hnd.1 (List.mem_map.2 ⟨q, hq', hqe⟩)
      · intro q hq
        rcases List.mem_cons.1 hq with h | h
        · exact Or.inr (h ▸ List.mem_cons_self)
        · rcases ih2 q h with h' | h'
          · exact Or.inl h'
          · exact Or.inr (List.mem_cons_of_mem _ h')

theorem names_secSet (s : Bytes) (kv : KV) (c : Sections) (hnd : (names c).Nodup) :
    (names (secSet s kv c)).Nodup ∧ ∀ p, p ∈ secSet s kv c → p = (s, kv) ∨ p ∈ c := by
  induction c with
  | nil => simp [secSet, names]
  | cons p t ih =>
    obtain ⟨s', kv'⟩ := p
    simp only [names, List.map_cons, List.nodup_cons] at hnd
    by_cases hs : s' = s
    · subst hs
      simp only [secSet, if_true, names, List.map_cons, List.nodup_cons]
      exact ⟨hnd, fun q hq => by rcases List.mem_cons.1 hq with h | h; exact Or.inl h; exact Or.inr (List.mem_cons_of_mem _ h)⟩
    · simp only [secSet, hs, if_false, names, List.map_cons, List.nodup_cons]
      obtain ⟨ih1, ih2⟩ := ih hnd.2
      refine ⟨⟨?_, ih1⟩, ?_⟩
      · intro hin
        obtain ⟨q, hq, hqe⟩ := List.mem_map.1 hin
        rcases ih2 q hq with rfl | hq'
        · exact hs hqe.symm
        · exact hnd.1 (List.mem_map.2 ⟨q, hq', hqe⟩)
      · intro q hq
        rcases List.mem_cons.1 hq with h | h
        · exact Or.inr (h ▸ List.mem_cons_self)
        · rcases ih2 q h with h' | h'
          · exact Or.inl h'
          · exact Or.inr (List.mem_cons_of_mem _ h')

theorem secGet_mem (s : Bytes) (c : Sections) (kv : KV) (h : secGet s c = some kv) : (s, kv) ∈ c := by
  induction c with
  | nil => simp [secGet] at h
  | cons p t ih =>
    obtain ⟨s', kv'⟩ := p
    by_cases hs : s' = s
    · subst hs; simp only [secGet, if_true, Option.some.injEq] at h; subst h; exact List.mem_cons_self
    · simp only [secGet, hs, if_false] at h; exact List.mem_cons_of_mem _ (ih h)

/-- setting a well-formed key keeps the configuration well formed (what Goit writes stays loadable) -/
theorem add_cfgOK (c : Sections) (h : CfgOK c) (s k v : Bytes) (hs : SecOK s) (hk : KeyOK k) (hv : ValOK v)
    (hl1 : (headLine s).length < Bytes.maxToken) (hl2 : (keyLine (k, v)).length < Bytes.maxToken) :
    CfgOK (add c s k v) := by
  obtain ⟨hnd, hp⟩ := h
  unfold add
  cases hg : secGet s c with
  | none =>
    obtain ⟨h1, h2⟩ := names_secSet s [(k, v)] c hnd
    refine ⟨h1, fun p hpm => ?_⟩
    rcases h2 p hpm with rfl | hpc
    · refine ⟨hs, hl1, by simp [keys], ?_⟩
      intro q hq
      simp only [List.mem_singleton] at hq
      subst hq
      exact ⟨hk, hv, hl2⟩
    · exact hp p hpc
  | some kv =>
    have hmem := secGet_mem s c kv hg
    obtain ⟨hsk, hhl, hknd, hq⟩ := hp _ hmem
    obtain ⟨k1, k2⟩ := keys_kvSet k v kv hknd
    obtain ⟨h1, h2⟩ := names_secSet s (kvSet k v kv) c hnd
    refine ⟨h1, fun p hpm => ?_⟩
    rcases h2 p hpm with rfl | hpc
    · refine ⟨hs, hl1, k1, ?_⟩
      intro q hqm
      rcases k2 q hqm with rfl | hq'
      · exact ⟨hk, hv, hl2⟩
      · exact hq q hq'
    · exact hp p hpc

/-- **Round trip through the file**: after `config s.k v` on a configuration Goit wrote, what is written loads
    again, `s.k` reads as exactly `v`, and every other (section, key) reads as before — for every value of
    printable characters with inner blanks, including `=`, `[`, `]`, `#`, quotes and non-ASCII text. -/
theorem config_set_roundtrip (c : Sections) (h : CfgOK c) (s k v : Bytes) (hs : SecOK s) (hk : KeyOK k) (hv : ValOK v)
    (hl1 : (headLine s).length < Bytes.maxToken) (hl2 : (keyLine (k, v)).length < Bytes.maxToken) :
    ∃ c', parse (render (add c s k v)) = some c' ∧ get c' s k = some v ∧
      ∀ s' k', ¬ (s' = s ∧ k' = k) → get c' s' k' = get c s' k' := by
  refine ⟨add c s k v, parse_render _ (add_cfgOK c h s k v hs hk hv hl1 hl2), ?_, ?_⟩
  · rw [add_get]; simp
  · intro s' k' hne
    rw [add_get]; simp [hne]

end C20
