import GoitProofs.Lemmas.BSearch
import GoitProofs.Lemmas.IndexCodec

/-! # C06 — Staging-area file is canonical and lossless; every tracked path is addressable -/

namespace C06

open IndexFile IndexOps

/-- an in-memory index the file format can carry -/
def IdxOK (ix : Idx) : Prop :=
  ix.sig.length = 4 ∧ ix.version < 4294967296 ∧ ix.entries.length < 4294967296 ∧ ∀ e ∈ ix.entries, EntryOK e

/-- **The on-disk staging area decodes to exactly the entries written**: entry count, 20-byte ids and
    complete path bytes, for every entry list (any names, any ids). -/
theorem decode_encode (ix : Idx) (h : IdxOK ix) : decode (encode ix) = some ix := by
  obtain ⟨hs, hv, hn, he⟩ := h
  have hmod : ix.entries.length % 4294967296 = ix.entries.length := Nat.mod_eq_of_lt hn
  have e1 : encode ix = ix.sig ++ (be32 ix.version ++ (be32 ix.entries.length ++ ((ix.entries.map encodeEntry).flatten ++ []))) := by
    simp [encode, hmod, List.append_assoc]
  have hlen : ¬ (encode ix).length < 12 := by
    rw [e1]; simp [hs, be32_length]; omega
  unfold decode
  simp only [hlen, if_false]
  rw [e1]
  have t1 : (ix.sig ++ (be32 ix.version ++ (be32 ix.entries.length ++ ((ix.entries.map encodeEntry).flatten ++ [])))).take 4 = ix.sig :=
    List.take_left' hs
  have d1 : (ix.sig ++ (be32 ix.version ++ (be32 ix.entries.length ++ ((ix.entries.map encodeEntry).flatten ++ [])))).drop 4 =
      be32 ix.version ++ (be32 ix.entries.length ++ ((ix.entries.map encodeEntry).flatten ++ [])) := List.drop_left' hs
  have d8 : (ix.sig ++ (be32 ix.version ++ (be32 ix.entries.length ++ ((ix.entries.map encodeEntry).flatten ++ [])))).drop 8 =
      be32 ix.entries.length ++ ((ix.entries.map encodeEntry).flatten ++ []) := by
    have : (ix.sig ++ be32 ix.version).length = 8 := by simp [hs, be32_length]
    rw [← List.append_assoc]; exact List.drop_left' this
  have d12 : (ix.sig ++ (be32 ix.version ++ (be32 ix.entries.length ++ ((ix.entries.map encodeEntry).flatten ++ [])))).drop 12 =
      (ix.entries.map encodeEntry).flatten ++ [] := by
    have : (ix.sig ++ (be32 ix.version ++ be32 ix.entries.length)).length = 12 := by simp [hs, be32_length]
    rw [← List.append_assoc (be32 ix.version), ← List.append_assoc ix.sig]; exact List.drop_left' this
  rw [t1, d1, d8, d12]
  have t2 : (be32 ix.version ++ (be32 ix.entries.length ++ ((ix.entries.map encodeEntry).flatten ++ []))).take 4 = be32 ix.version :=
    List.take_left' (be32_length _)
  have t3 : (be32 ix.entries.length ++ ((ix.entries.map encodeEntry).flatten ++ [])).take 4 = be32 ix.entries.length :=
    List.take_left' (be32_length _)
  rw [t2, t3, rd32_be32 _ hv, rd32_be32 _ hn, decodeEntries_encode _ _ he]

/-- the tracked paths are in strictly ascending byte order (hence duplicate free) -/
def Canonical (es : List Entry) : Prop := SortedKeys (paths es)

/-- **Every tracked path is addressable**: on a canonical index the lookup finds exactly the tracked
    paths, at their position, never reports an untracked path, and never indexes out of range. -/
theorem getEntry_correct (es : List Entry) (hs : Canonical es) (p : Bytes) :
    (∀ i, (h : i < es.length) → es[i].path = p → getEntry es p = .found i) ∧
    ((∀ e ∈ es, e.path ≠ p) → getEntry es p = .notFound) ∧ getEntry es p ≠ .crash := by
  obtain ⟨h1, h2, h3⟩ := bsearchTop_correct (paths es) hs p
  refine ⟨?_, ?_, h3⟩
  · intro i hi hp
    have hi' : i < (paths es).length := by simpa [paths] using hi
    exact h1 i hi' (by simpa [paths] using hp)
  · intro hne
    apply h2
    intro hm
    simp only [paths, List.mem_map] at hm
    obtain ⟨e, he, hep⟩ := hm
    exact hne e he hep

theorem hasPrefix_iff (s p : Bytes) : Bytes.hasPrefix s p = true ↔ p <+: s := by
  induction p generalizing s with
  | nil => cases s <;> simp [Bytes.hasPrefix]
  | cons b bs ih =>
    cases s with
    | nil => simp [Bytes.hasPrefix]
    | cons a as =>
      simp only [Bytes.hasPrefix, Bool.and_eq_true, beq_iff_eq, ih, List.cons_prefix_cons]
      constructor
      · rintro ⟨h1, h2⟩; exact ⟨h1.symm, h2⟩
      · rintro ⟨h1, h2⟩; exact ⟨h1.symm, h2⟩

/-- what "beneath the directory `d`" means: the path starts with `d/` and goes on -/
def Beneath (d p : Bytes) : Prop := (d ++ [47]) <+: p ∧ (d ++ [47]).length < p.length

theorem under_iff (d p : Bytes) : under d p = true ↔ Beneath d p := by
  simp [under, Beneath, hasPrefix_iff]

/-- **A name is a tracked directory iff some tracked path lies beneath `<name>/`** — for every name,
    including names with regexp metacharacters, and never because a path merely contains the name. -/
theorem isDir_iff (es : List Entry) (d : Bytes) : isDir es d = true ↔ ∃ e ∈ es, Beneath d e.path := by
  simp [isDir, under_iff]

/-- **A directory operation selects exactly the tracked paths beneath that directory**, in index order. -/
theorem mem_byDir (es : List Entry) (d : Bytes) (e : Entry) : e ∈ byDir es d ↔ e ∈ es ∧ Beneath d e.path := by
  simp [byDir, under_iff]

theorem byDir_sublist (es : List Entry) (d : Bytes) : (byDir es d).Sublist es := List.filter_sublist

/-- `ad/x` and `d-old` are not beneath `d`; `d/x` is (the pinned code selected all three for `ad/x`). -/
example : byDir [⟨[], asc "ad/x"⟩, ⟨[], asc "d-old"⟩, ⟨[], asc "d/x"⟩] (asc "d") = [⟨[], asc "d/x"⟩] := by decide
/-- with siblings that sort between `test` and `test/`, the directory is still recognised -/
example : isDir [⟨[], asc "test-data"⟩, ⟨[], asc "test.c"⟩, ⟨[], asc "test/x"⟩] (asc "test") = true := by decide
example : getEntry [⟨[], asc "test-data"⟩, ⟨[], asc "test.c"⟩, ⟨[], asc "test/x"⟩] (asc "test/x") = .found 2 := by
  decide +kernel
/-- non-vacuity of `Canonical` and `IdxOK` -/
example : Canonical [⟨[], asc "test-data"⟩, ⟨[], asc "test.c"⟩, ⟨[], asc "test/x"⟩] := by
  simp [Canonical, SortedKeys, paths]; decide

end C06
