import GoitProofs.Props.C02
import GoitProofs.Props.C06

/-! # C07 — Staged-changes report is exact (index vs. tree diff) -/

namespace C07

open IndexOps TreeBuild

/-- the first half of `DiffWithTree`, as a plain function of the flattened tree -/
def fromTree (es : List Entry) (flat : List Entry) : List DiffEntry :=
  flat.filterMap fun t =>
    match es.find? (fun e => e.path == t.path) with
    | none => some ⟨.deleted, t.id, t.path⟩
    | some e => if e.id = t.id then none else some ⟨.modified, e.id, e.path⟩

theorem find_of_sorted (es : List Entry) (hs : C06.Canonical es) (p : Bytes) :
    (∀ i, (h : i < es.length) → es[i].path = p → es.find? (fun e => e.path == p) = some es[i]) := by
  intro i hi hp
  -- paths are pairwise distinct, so the first match is the only one
  have hnd : (paths es).Nodup := by
    have : List.Pairwise (· ≠ ·) (paths es) := List.Pairwise.imp (fun h e => by subst e; exact List.lt_irrefl _ h) hs
    exact this
  induction es generalizing i with
  | nil => cases hi
  | cons a as ih =>
    cases i with
    | zero => simp at hp; simp [List.find?, hp]
    | succ j =>
      simp only [List.getElem_cons_succ] at hp ⊢
      have hj : j < as.length := by simpa using hi
      have hne : a.path ≠ p := by
        intro e
        simp only [paths, List.map_cons, List.nodup_cons] at hnd
        exact hnd.1 (by rw [e, ← hp]; exact List.mem_map.mpr ⟨as[j], List.getElem_mem hj, rfl⟩)
      have hs' : C06.Canonical as := by
        unfold C06.Canonical SortedKeys paths at *
        simp only [List.map_cons, List.pairwise_cons] at hs; exact hs.2
      have hnd' : (paths as).Nodup := by
        simp only [paths, List.map_cons, List.nodup_cons] at hnd; exact hnd.2
      have hb : (a.path == p) = false := by simp [hne]
      rw [List.find?_cons, hb]
      exact ih hs' j hj hp hnd'

theorem diffStep_ok (es : List Entry) (hs : C06.Canonical es) (acc : List DiffEntry) (t : Entry) :
    diffStep es (.ok acc) t = .ok (acc ++ fromTree es [t]) := by
  obtain ⟨h1, h2, _⟩ := C06.getEntry_correct es hs t.path
  by_cases hex : ∃ e ∈ es, e.path = t.path
  · obtain ⟨e, he, hp⟩ := hex
    obtain ⟨i, hi, hei⟩ := List.getElem_of_mem he
    have hpi : es[i].path = t.path := by rw [hei]; exact hp
    have hfind := find_of_sorted es hs t.path i hi hpi
    by_cases hid : es[i].id = t.id
    · simp [diffStep, Res.bind, h1 i hi hpi, List.getElem?_eq_getElem hi, hid, fromTree, hfind]
    · simp [diffStep, Res.bind, h1 i hi hpi, List.getElem?_eq_getElem hi, hid, fromTree, hfind]
  · have hn : ∀ e ∈ es, e.path ≠ t.path := fun e he hp => hex ⟨e, he, hp⟩
    have hfind : es.find? (fun e => e.path == t.path) = none := by
      simp only [List.find?_eq_none, beq_iff_eq]; exact hn
    simp [diffStep, Res.bind, h2 hn, fromTree, hfind]

theorem fromTree_cons (es : List Entry) (t : Entry) (ts : List Entry) :
    fromTree es (t :: ts) = fromTree es [t] ++ fromTree es ts := by
  simp only [fromTree, List.filterMap_cons, List.filterMap_nil]
  split <;> simp

theorem fold_ok (es : List Entry) (hs : C06.Canonical es) (flat : List Entry) (acc : List DiffEntry) :
    flat.foldl (diffStep es) (.ok acc) = .ok (acc ++ fromTree es flat) := by
  induction flat generalizing acc with
  | nil => simp [fromTree]
  | cons t ts ih =>
    rw [List.foldl_cons, diffStep_ok es hs, ih, fromTree_cons es t ts]
    simp [List.append_assoc]

/-- **The deleted / modified part of the report is exact**: on a canonical index, `DiffWithTree` reports
    a tree path as deleted iff it is not staged and as modified iff it is staged with another id —
    computed by the binary search exactly as by a plain scan; it never crashes. The new-file part lists
    the staged paths at which the tree has no file. -/
theorem diff_fromTree (es : List Entry) (hs : C06.Canonical es) (tree : List Node) :
    diffWithTree es tree = .ok (fromTree es (flattenTree tree) ++
      (es.filter (isNew tree)).map fun e => ⟨.new, e.id, e.path⟩) := by
  unfold diffWithTree
  rw [fold_ok es hs]
  simp [Res.map]

/-- with the tree Goit itself wrote from entries `es₀`, the flattened tree *is* `es₀` (C02), so the
    deleted/modified report is computed against exactly the committed snapshot -/
theorem diff_fromTree_build (H : HashFn) (es es₀ : List Entry) (hs : C06.Canonical es) (hok : AllOK es₀) :
    diffWithTree es (build H (fuelFor es₀) es₀) = .ok (fromTree es es₀ ++
      (es.filter (isNew (build H (fuelFor es₀) es₀))).map fun e => ⟨.new, e.id, e.path⟩) := by
  have := diff_fromTree es hs (build H (fuelFor es₀) es₀)
  rwa [C02.flatten_writeTree H es₀ hok] at this

/-- nothing deleted and nothing modified iff every committed entry is staged unchanged -/
theorem fromTree_nil_iff (es flat : List Entry) :
    fromTree es flat = [] ↔ ∀ t ∈ flat, ∃ e, es.find? (fun e => e.path == t.path) = some e ∧ e.id = t.id := by
  induction flat with
  | nil => simp [fromTree]
  | cons t ts ih =>
    simp only [fromTree, List.filterMap_cons] at ih ⊢
    cases hf : es.find? (fun e => e.path == t.path) with
    | none => simp [hf]
    | some e =>
      by_cases hid : e.id = t.id
      · simp only [hid, if_true, List.mem_cons, forall_eq_or_imp]
        rw [ih]
        simp [hf, hid]
      · simp [hid, hf]

/-- the repaired lookup: siblings that sort between `test` and `test/` do not hide the directory,
    and a file is not mistaken for a directory prefix (both failed on the pinned code) -/
example :
    let tree := [Node.mk (asc "test-data") [1] [], Node.mk (asc "test.c") [2] [], Node.mk (asc "test") [3] [Node.mk (asc "x") [4] []]]
    (getNode tree (asc "test/x")).isSome = true ∧ (getNode tree (asc "test.c/y")).isSome = false := by decide +kernel

end C07
