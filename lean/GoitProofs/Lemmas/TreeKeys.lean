import GoitProofs.Lemmas.TreeBuild
import GoitProofs.Lemmas.BSearch

/-! Order structure of the trees `writeTreeObject` builds from a canonical (strictly ascending) entry list:
    the children of every tree are strictly ascending in *directory-aware* order (a directory `d` counts as
    `d/`), hence a file precedes a directory of the same name and no two directories share a name. -/

open TreeBuild

/-- the directory-aware sort key of a path's first component: the path itself for a plain name, `first/` otherwise -/
def keyE : Bytes → Bytes
  | [] => []
  | x :: xs => if x = 47 then [47] else x :: keyE xs

theorem keyE_mono (a b : Bytes) (h : a < b) : keyE a ≤ keyE b := by
  induction a generalizing b with
  | nil => simp only [keyE]; exact List.nil_le _
  | cons x xs ih =>
    cases b with
    | nil => exact absurd h (by simp)
    | cons y ys =>
      rcases List.cons_lt_cons_iff.1 h with hxy | ⟨hxy, hlt⟩
      · apply List.le_of_lt
        have hne : x ≠ y := fun e => by subst e; exact absurd hxy (by simp)
        by_cases hx : x = 47 <;> by_cases hy : y = 47
        · exact absurd (hx.trans hy.symm) hne
        · simp only [keyE, hx, hy, if_true, if_false]
          exact List.cons_lt_cons_iff.2 (Or.inl (hx ▸ hxy))
        · simp only [keyE, hx, hy, if_true, if_false]
          exact List.cons_lt_cons_iff.2 (Or.inl (hy ▸ hxy))
        · simp only [keyE, hx, hy, if_false]
          exact List.cons_lt_cons_iff.2 (Or.inl hxy)
      · subst hxy
        simp only [keyE]
        split
        · exact List.le_refl _
        · exact List.cons_le_cons_iff.2 (Or.inr ⟨rfl, ih ys hlt⟩)

theorem keyE_of_cut_none (p : Bytes) (h : (Bytes.cut1 47 p).2 = none) : keyE p = p := by
  induction p with
  | nil => rfl
  | cons a as ih =>
    by_cases ha : a = 47
    · simp [Bytes.cut1, ha] at h
    · simp only [Bytes.cut1, ha, if_false] at h
      simp only [keyE, ha, if_false, ih h]

theorem no47_of_cut_none (p : Bytes) (h : (Bytes.cut1 47 p).2 = none) : (47 : UInt8) ∉ p := by
  induction p with
  | nil => simp
  | cons a as ih =>
    by_cases ha : a = 47
    · simp [Bytes.cut1, ha] at h
    · simp only [Bytes.cut1, ha, if_false] at h
      simp only [List.mem_cons, not_or]
      exact ⟨fun e => ha e.symm, ih h⟩

theorem cut_none_of_no47 (p : Bytes) (h : (47 : UInt8) ∉ p) : Bytes.cut1 47 p = (p, none) := by
  induction p with
  | nil => rfl
  | cons a as ih =>
    simp only [List.mem_cons, not_or] at h
    have ha : a ≠ 47 := fun e => h.1 e.symm
    simp only [Bytes.cut1, ha, if_false, ih h.2]

theorem cut1_append (d x : Bytes) (h : (47 : UInt8) ∉ d) : Bytes.cut1 47 (d ++ 47 :: x) = (d, some x) := by
  induction d with
  | nil => simp [Bytes.cut1]
  | cons a as ih =>
    simp only [List.mem_cons, not_or] at h
    have ha : a ≠ 47 := fun e => h.1 e.symm
    simp only [List.cons_append, Bytes.cut1, ha, if_false, ih h.2]

theorem keyE_append (d x : Bytes) (h : (47 : UInt8) ∉ d) : keyE (d ++ 47 :: x) = d ++ [47] := by
  induction d with
  | nil => simp [keyE]
  | cons a as ih =>
    simp only [List.mem_cons, not_or] at h
    have ha : a ≠ 47 := fun e => h.1 e.symm
    simp only [List.cons_append, keyE, ha, if_false, ih h.2]

theorem cut1_fst_no47 (p : Bytes) : (47 : UInt8) ∉ (Bytes.cut1 47 p).1 := by
  induction p with
  | nil => simp [Bytes.cut1]
  | cons a as ih =>
    by_cases ha : a = 47
    · simp [Bytes.cut1, ha]
    · simp only [Bytes.cut1, ha, if_false, List.mem_cons, not_or]
      exact ⟨fun e => ha e.symm, ih⟩

theorem cut1_some_eq (p r : Bytes) (h : (Bytes.cut1 47 p).2 = some r) : p = (Bytes.cut1 47 p).1 ++ 47 :: r := by
  induction p with
  | nil => simp [Bytes.cut1] at h
  | cons a as ih =>
    by_cases ha : a = 47
    · simp only [Bytes.cut1, ha, if_true, Option.some.injEq] at h ⊢
      simp [h]
    · simp only [Bytes.cut1, ha, if_false] at h ⊢
      simp only [List.cons_append, List.cons.injEq, true_and]
      exact ih h

theorem append_lt_append_left (c a b : Bytes) : c ++ a < c ++ b ↔ a < b := by
  induction c with
  | nil => simp
  | cons x xs ih =>
    simp only [List.cons_append, List.cons_lt_cons_iff, ih]
    constructor
    · rintro (h | ⟨_, h⟩)
      · exact absurd h (by simp)
      · exact h
    · intro h; exact Or.inr (by simpa using h)

def TreeBuild.Item.key : Item → Bytes
  | .leaf n _ => n
  | .dir d _ => d ++ [47]

theorem keyE_no47 (p : Bytes) (h : (47 : UInt8) ∉ keyE p) : keyE p = p := by
  induction p with
  | nil => rfl
  | cons a as ih =>
    by_cases ha : a = 47
    · simp [keyE, ha] at h
    · simp only [keyE, ha, if_false, List.mem_cons, not_or] at h ⊢
      rw [ih h.2]

/-- the entries the single pass has buffered for the open directory, with their full paths -/
def pend (dn : Bytes) (buf : List Entry) : List Entry := if dn ≠ [] then pre dn buf else []

/-- paths still to be emitted by `group dn buf es`, in order -/
def PL (dn : Bytes) (buf es : List Entry) : List Bytes := (pend dn buf ++ es).map (·.path)

theorem leaf_lt_rest (p : Bytes) (rest : List Bytes) (hnone : (Bytes.cut1 47 p).2 = none)
    (hlt : ∀ q ∈ rest, p < q) (k : Bytes) (hk : ∃ q ∈ rest, keyE q = k) : p < k := by
  obtain ⟨q, hq, rfl⟩ := hk
  have hle : keyE p ≤ keyE q := keyE_mono p q (hlt q hq)
  rw [keyE_of_cut_none p hnone] at hle
  apply Std.lt_of_le_of_ne hle
  intro heq
  have h47 : (47 : UInt8) ∉ keyE q := heq ▸ no47_of_cut_none p hnone
  have := keyE_no47 q h47
  rw [this] at heq
  exact absurd (heq ▸ hlt q hq) (List.lt_irrefl _)

theorem dir_lt_rest (dn n : Bytes) (x : Bytes) (b : Bytes) (rest : List Bytes) (h47 : (47 : UInt8) ∉ dn) (h47n : (47 : UInt8) ∉ n)
    (hne : dn ≠ n) (hb : b < n ++ 47 :: x) (hbk : keyE b = dn ++ [47])
    (hlt : ∀ q ∈ rest, n ++ 47 :: x < q) (k : Bytes) (hk : ∃ q ∈ (n ++ 47 :: x) :: rest, keyE q = k) : dn ++ [47] < k := by
  obtain ⟨q, hq, rfl⟩ := hk
  have h1 : dn ++ [47] ≤ n ++ [47] := by
    have := keyE_mono b _ hb
    rwa [hbk, keyE_append n x h47n] at this
  have h2 : dn ++ [47] < n ++ [47] := by
    apply Std.lt_of_le_of_ne h1
    intro heq
    have : dn = n := by
      have := congrArg List.dropLast heq
      simpa using this
    exact hne this
  have h3 : n ++ [47] ≤ keyE q := by
    rcases List.mem_cons.1 hq with rfl | hq
    · rw [keyE_append n x h47n]; exact List.le_refl _
    · have := keyE_mono _ q (hlt q hq)
      rwa [keyE_append n x h47n] at this
  exact Std.lt_of_lt_of_le h2 h3

/-- what `group` guarantees about an item -/
def ItemOK : Item → Prop
  | .leaf n _ => (Bytes.cut1 47 n).2 = none
  | .dir d _ => (47 : UInt8) ∉ d

theorem group_keys (dn : Bytes) (buf es : List Entry)
    (hV : (PL dn buf es).Pairwise (· < ·)) (hok : AllOK es)
    (hdn : dn ≠ [] → buf ≠ []) (hdn0 : dn = [] → buf = []) (h47 : (47 : UInt8) ∉ dn) :
    ((group dn buf es).map Item.key).Pairwise (· < ·) ∧
    ∀ it ∈ group dn buf es, (∃ q ∈ PL dn buf es, keyE q = it.key) ∧ ItemOK it := by
  induction es generalizing dn buf with
  | nil =>
    by_cases hd : dn = []
    · simp [group, hd]
    · simp only [group, hd, ne_eq, not_false_eq_true, if_true, List.map_cons, List.map_nil, List.pairwise_cons,
        List.not_mem_nil, false_imp_iff, implies_true, List.Pairwise.nil, and_self, List.mem_singleton, forall_eq, true_and]
      refine ⟨?_, h47⟩
      obtain ⟨b, bs, hb⟩ := List.exists_cons_of_ne_nil (hdn hd)
      refine ⟨dn ++ 47 :: b.path, ?_, keyE_append dn b.path h47⟩
      simp [PL, pend, hd, pre, hb]
  | cons e es ih =>
    have hoke : PathOK e.path := hok e List.mem_cons_self
    have hok' : AllOK es := fun x hx => hok x (List.mem_cons_of_mem _ hx)
    cases hc : Bytes.cut1 47 e.path with
    | mk n r =>
    cases r with
    | none =>
      have hnone : (Bytes.cut1 47 e.path).2 = none := by rw [hc]
      by_cases hd : dn = []
      · have hb := hdn0 hd
        subst hd; subst hb
        have hPL : PL [] [] (e :: es) = e.path :: PL [] [] es := by simp [PL, pend]
        rw [hPL, List.pairwise_cons] at hV
        obtain ⟨ihp, ihm⟩ := ih [] [] hV.2 hok' (fun h => absurd rfl h) (fun _ => rfl) (by simp)
        have hg : group [] [] (e :: es) = .leaf e.path e.id :: group [] [] es := by
          simp [group, hc]
        rw [hg]
        refine ⟨?_, ?_⟩
        · simp only [List.map_cons, List.pairwise_cons]
          refine ⟨?_, ihp⟩
          intro k hk
          obtain ⟨it, hit, rfl⟩ := List.mem_map.1 hk
          exact leaf_lt_rest e.path _ hnone hV.1 _ (ihm it hit).1
        · intro it hit
          rcases List.mem_cons.1 hit with rfl | hit
          · refine ⟨⟨e.path, ?_, keyE_of_cut_none _ hnone⟩, hnone⟩
            rw [hPL]; exact List.mem_cons_self
          · obtain ⟨⟨q, hq, hk⟩, hi⟩ := ihm it hit
            exact ⟨⟨q, by rw [hPL]; exact List.mem_cons_of_mem _ hq, hk⟩, hi⟩
      · have hPL : PL dn buf (e :: es) = (pre dn buf).map (·.path) ++ e.path :: PL [] [] es := by
          simp [PL, pend, hd]
        rw [hPL, List.pairwise_append, List.pairwise_cons] at hV
        obtain ⟨_, ⟨hV1, hV2⟩, hV3⟩ := hV
        obtain ⟨ihp, ihm⟩ := ih [] [] hV2 hok' (fun h => absurd rfl h) (fun _ => rfl) (by simp)
        have hg : group dn buf (e :: es) = .dir dn buf :: .leaf e.path e.id :: group [] [] es := by
          simp [group, hc, hd]
        rw [hg]
        obtain ⟨b, bs, hb⟩ := List.exists_cons_of_ne_nil (hdn hd)
        have hbmem : dn ++ 47 :: b.path ∈ (pre dn buf).map (·.path) := by simp [pre, hb]
        have hdl : dn ++ [47] < e.path := by
          have h1 := keyE_mono _ _ (hV3 _ hbmem e.path List.mem_cons_self)
          rw [keyE_append dn b.path h47, keyE_of_cut_none _ hnone] at h1
          apply Std.lt_of_le_of_ne h1
          intro heq
          exact no47_of_cut_none _ hnone (heq ▸ by simp)
        have hleaf : ∀ k ∈ (group [] [] es).map Item.key, e.path < k := by
          intro k hk
          obtain ⟨it, hit, rfl⟩ := List.mem_map.1 hk
          exact leaf_lt_rest e.path _ hnone hV1 _ (ihm it hit).1
        refine ⟨?_, ?_⟩
        · simp only [List.map_cons, List.pairwise_cons]
          refine ⟨?_, hleaf, ihp⟩
          intro k hk
          rcases List.mem_cons.1 hk with rfl | hk
          · exact hdl
          · exact List.lt_trans hdl (hleaf k hk)
        · intro it hit
          rcases List.mem_cons.1 hit with rfl | hit
          · refine ⟨⟨dn ++ 47 :: b.path, ?_, keyE_append dn b.path h47⟩, h47⟩
            rw [hPL]; exact List.mem_append_left _ hbmem
          rcases List.mem_cons.1 hit with rfl | hit
          · refine ⟨⟨e.path, ?_, keyE_of_cut_none _ hnone⟩, hnone⟩
            rw [hPL]; exact List.mem_append_right _ List.mem_cons_self
          · obtain ⟨⟨q, hq, hk⟩, hi⟩ := ihm it hit
            exact ⟨⟨q, by rw [hPL]; exact List.mem_append_right _ (List.mem_cons_of_mem _ hq), hk⟩, hi⟩
    | some rest =>
      have hsome : (Bytes.cut1 47 e.path).2 = some rest := by rw [hc]
      have hn : (Bytes.cut1 47 e.path).1 = n := by rw [hc]
      have hpath : e.path = n ++ 47 :: rest := by
        have := cut1_some_eq e.path rest hsome
        rwa [hn] at this
      have h47n : (47 : UInt8) ∉ n := hn ▸ cut1_fst_no47 e.path
      have hnne : n ≠ [] := by
        rcases pathOK_cases e.path hoke with ⟨h1, _⟩ | ⟨r, h1, h2, _⟩
        · rw [hsome] at h1; cases h1
        · rwa [hn] at h2
      by_cases hd : dn = []
      · have hb := hdn0 hd
        subst hd; subst hb
        have hg : group [] [] (e :: es) = group n [⟨e.id, rest⟩] es := by
          simp [group, hc]
        have hPL : PL [] [] (e :: es) = PL n [⟨e.id, rest⟩] es := by
          simp [PL, pend, hnne, pre, hpath]
        rw [hg, hPL]
        rw [hPL] at hV
        exact ih n [⟨e.id, rest⟩] hV hok' (fun _ => by simp) (fun h => absurd h hnne) h47n
      · by_cases hdn' : dn = n
        · subst hdn'
          have hg : group dn buf (e :: es) = group dn (buf ++ [⟨e.id, rest⟩]) es := by
            simp [group, hc, hd]
          have hPL : PL dn buf (e :: es) = PL dn (buf ++ [⟨e.id, rest⟩]) es := by
            simp [PL, pend, hd, pre, hpath]
          rw [hg, hPL]
          rw [hPL] at hV
          exact ih dn (buf ++ [⟨e.id, rest⟩]) hV hok' (fun _ => by simp) (fun h => absurd h hd) h47
        · have hg : group dn buf (e :: es) = .dir dn buf :: group n [⟨e.id, rest⟩] es := by
            simp [group, hc, hd, hdn']
          have hPL : PL dn buf (e :: es) = (pre dn buf).map (·.path) ++ PL n [⟨e.id, rest⟩] es := by
            simp [PL, pend, hd, hnne, pre, hpath]
          have hPL2 : PL n [⟨e.id, rest⟩] es = (n ++ 47 :: rest) :: es.map (·.path) := by
            simp [PL, pend, hnne, pre]
          rw [hPL, List.pairwise_append] at hV
          obtain ⟨_, hV2, hV3⟩ := hV
          obtain ⟨ihp, ihm⟩ := ih n [⟨e.id, rest⟩] hV2 hok' (fun _ => by simp) (fun h => absurd h hnne) h47n
          rw [hg]
          obtain ⟨b, bs, hb⟩ := List.exists_cons_of_ne_nil (hdn hd)
          have hbmem : dn ++ 47 :: b.path ∈ (pre dn buf).map (·.path) := by simp [pre, hb]
          have hV2' := hV2
          rw [hPL2, List.pairwise_cons] at hV2'
          refine ⟨?_, ?_⟩
          · simp only [List.map_cons, List.pairwise_cons]
            refine ⟨?_, ihp⟩
            intro k hk
            obtain ⟨it, hit, rfl⟩ := List.mem_map.1 hk
            have hq := (ihm it hit).1
            rw [hPL2] at hq
            refine dir_lt_rest dn n rest (dn ++ 47 :: b.path) (es.map (·.path)) h47 h47n hdn' ?_ (keyE_append dn b.path h47) hV2'.1 _ hq
            have := hV3 _ hbmem (n ++ 47 :: rest) (by rw [hPL2]; exact List.mem_cons_self)
            exact this
          · intro it hit
            rcases List.mem_cons.1 hit with rfl | hit
            · refine ⟨⟨dn ++ 47 :: b.path, ?_, keyE_append dn b.path h47⟩, h47⟩
              rw [hPL]; exact List.mem_append_left _ hbmem
            · obtain ⟨⟨q, hq, hk⟩, hi⟩ := ihm it hit
              exact ⟨⟨q, by rw [hPL]; exact List.mem_append_right _ hq, hk⟩, hi⟩
