import GoitModel

/-! Helper lemmas about the byte-string library. -/

namespace Bytes

theorem cut1_append (b : UInt8) (s r : Bytes) (h : b ∉ s) : cut1 b (s ++ b :: r) = (s, some r) := by
  induction s with
  | nil => simp [cut1]
  | cons a as ih =>
    have ha : a ≠ b := fun e => h (by simp [e])
    have has : b ∉ as := fun m => h (List.mem_cons_of_mem _ m)
    simp [cut1, ha, ih has]

theorem cut1_none (b : UInt8) (s : Bytes) (h : b ∉ s) : cut1 b s = (s, none) := by
  induction s with
  | nil => simp [cut1]
  | cons a as ih =>
    have ha : a ≠ b := fun e => h (by simp [e])
    have has : b ∉ as := fun m => h (List.mem_cons_of_mem _ m)
    simp [cut1, ha, ih has]

theorem cut1_fst_not_mem (b : UInt8) (s : Bytes) : b ∉ (cut1 b s).1 := by
  induction s with
  | nil => simp [cut1]
  | cons a as ih =>
    by_cases h : a = b
    · simp [cut1, h]
    · simp only [cut1, h, if_false, List.mem_cons, not_or]
      exact ⟨fun e => h e.symm, ih⟩

/-- `cut1` splits the string at the separator: nothing is lost -/
theorem cut1_some_eq (b : UInt8) (s : Bytes) (r : Bytes) (h : (cut1 b s).2 = some r) :
    s = (cut1 b s).1 ++ b :: r := by
  induction s with
  | nil => simp [cut1] at h
  | cons a as ih =>
    by_cases hab : a = b
    · simp [cut1, hab] at h ⊢; exact h
    · simp only [cut1, hab, if_false] at h ⊢
      simp [← ih h]

theorem cut1_none_eq (b : UInt8) (s : Bytes) (h : (cut1 b s).2 = none) : (cut1 b s).1 = s := by
  induction s with
  | nil => simp [cut1]
  | cons a as ih =>
    by_cases hab : a = b
    · simp [cut1, hab] at h
    · simp only [cut1, hab, if_false] at h ⊢
      simp [ih h]

end Bytes

namespace Dec

theorem isDigit_iff (c : UInt8) : isDigit c = true ↔ 48 ≤ c ∧ c ≤ 57 := by
  simp [isDigit]

/-- the byte of a decimal digit -/
theorem digitByte_isDigit (n : Nat) (h : n < 10) : isDigit (48 + n.toUInt8) = true := by
  have : ∀ m : Fin 10, isDigit (48 + (m.val).toUInt8) = true := by decide
  exact this ⟨n, h⟩

theorem digitByte_val (n : Nat) (h : n < 10) : (48 + n.toUInt8).toNat - 48 = n := by
  have : ∀ m : Fin 10, (48 + (m.val).toUInt8).toNat - 48 = m.val := by decide
  exact this ⟨n, h⟩

theorem ofNat_ne_nil (n : Nat) : ofNat n ≠ [] := by
  rw [ofNat]; split <;> simp

theorem ofNat_all_digits (n : Nat) : ∀ c ∈ ofNat n, isDigit c = true := by
  induction n using Nat.strongRecOn with
  | _ n ih =>
    rw [ofNat]
    split
    · rename_i h
      intro c hc; simp at hc; subst hc; exact digitByte_isDigit n h
    · rename_i h
      intro c hc
      rcases List.mem_append.mp hc with hc | hc
      · exact ih (n / 10) (by omega) c hc
      · simp at hc; subst hc; exact digitByte_isDigit (n % 10) (by omega)

theorem value_append_digit (s : Bytes) (d : UInt8) : value (s ++ [d]) = value s * 10 + (d.toNat - 48) := by
  simp [value, List.foldl_append]

theorem value_ofNat (n : Nat) : value (ofNat n) = n := by
  induction n using Nat.strongRecOn with
  | _ n ih =>
    rw [ofNat]
    split
    · rename_i h
      have := digitByte_val n h
      simp only [value, List.foldl_cons, List.foldl_nil]; omega
    · rename_i h
      rw [value_append_digit, ih (n / 10) (by omega), digitByte_val (n % 10) (by omega)]
      omega

theorem not_mem_of_all_digits (s : Bytes) (h : ∀ c ∈ s, isDigit c = true) (b : UInt8)
    (hb : isDigit b = false) : b ∉ s := by
  intro hm
  have := h b hm
  rw [hb] at this; cases this

theorem takeWhile_all (s : Bytes) (h : ∀ c ∈ s, isDigit c = true) : s.takeWhile isDigit = s := by
  induction s with
  | nil => rfl
  | cons a as ih =>
    have ha := h a (List.mem_cons_self)
    simp [List.takeWhile, ha, ih (fun c hc => h c (List.mem_cons_of_mem _ hc))]

end Dec

namespace Fmt

theorem sscanfD_ofNat (n : Nat) (h : n ≤ int64Max) : sscanfD (Dec.ofNat n) = some (n : Int) := by
  have hne := Dec.ofNat_ne_nil n
  have hall := Dec.ofNat_all_digits n
  cases hs : Dec.ofNat n with
  | nil => exact absurd hs hne
  | cons c rest =>
    have hc : Dec.isDigit c = true := hall c (by rw [hs]; exact List.mem_cons_self)
    have hc' := (Dec.isDigit_iff c).mp hc
    have hnb : isScanBlank c = false := by
      have : c ≠ 32 ∧ c ≠ 9 ∧ c ≠ 11 ∧ c ≠ 12 ∧ c ≠ 13 := by
        refine ⟨?_, ?_, ?_, ?_, ?_⟩ <;> (intro e; subst e; revert hc'; decide)
      simp [isScanBlank, this]
    have h45 : c ≠ 45 := by intro e; subst e; revert hc'; decide
    have h43 : c ≠ 43 := by intro e; subst e; revert hc'; decide
    have hall' : ∀ x ∈ c :: rest, Dec.isDigit x = true := by rw [← hs]; exact hall
    have htw : (c :: rest).takeWhile Dec.isDigit = c :: rest := Dec.takeWhile_all _ hall'
    have hv : Dec.value (c :: rest) = n := by rw [← hs]; exact Dec.value_ofNat n
    simp only [sscanfD, skipBlanks, hnb]
    simp [h45, h43, htw, hv, h]

end Fmt
