import GoitProofs.Lemmas.World

/-! Field-by-field frame lemmas for the primitive updates of the whole-repository model (generated text:
    one lemma per primitive and field it cannot touch). -/

namespace W

/-- everything but the object store -/
def noObjs (w : World) : World := { w with objs := [] }
/-- everything but the working tree -/
def noWork (w : World) : World := { w with files := [], dirs := [] }

theorem putObj_noObjs (w : World) (id c : Bytes) : noObjs (putObj w id c) = noObjs w := by
  unfold putObj; split <;> rfl

theorem putObjs_noObjs (w : World) (os : List (Bytes × Bytes)) : noObjs (putObjs w os) = noObjs w := by
  unfold putObjs
  induction os generalizing w with
  | nil => rfl
  | cons o os ih => simp only [List.foldl_cons]; rw [ih, putObj_noObjs]

theorem putBlobs_noObjs (H : HashFn) (w : World) (ds : List Bytes) : noObjs (ds.foldl (putBlob H) w) = noObjs w := by
  induction ds generalizing w with
  | nil => rfl
  | cons d ds ih => simp only [List.foldl_cons]; rw [ih]; exact putObj_noObjs _ _ _

theorem writeFile_noWork (w : World) (p d : Bytes) : noWork (writeFile w p d) = noWork w := rfl

theorem writeEntries_noWork (H : HashFn) (w : World) (es : List Entry) : noWork (writeEntries H w es).2.2 = noWork w :=
  writeEntries_field H noWork writeFile_noWork w es

theorem restoreWorkP_noWork (H : HashFn) (idx : List Entry) (w : World) (args : List Bytes) :
    noWork (restoreWorkP H idx w args).1 = noWork w := restoreWorkP_field H noWork writeFile_noWork idx w args

theorem setIndexIfChanged_eq (w : World) (o n : List Entry) :
    setIndexIfChanged w o n = { w with index := (setIndexIfChanged w o n).index } := by
  rcases setIndexIfChanged_cases w o n with h | h <;> rw [h]

theorem putObj_inited' (w : World) (id c : Bytes) : (putObj w id c).inited = w.inited := by
  have h := congrArg World.inited (putObj_noObjs w id c); exact h
theorem putObjs_inited' (w : World) (os : List (Bytes × Bytes)) : (putObjs w os).inited = w.inited := by
  have h := congrArg World.inited (putObjs_noObjs w os); exact h
theorem putBlobs_inited' (H : HashFn) (w : World) (ds : List Bytes) : (List.foldl (putBlob H) w ds).inited = w.inited := by
  have h := congrArg World.inited (putBlobs_noObjs H w ds); exact h
theorem writeEntries_inited' (H : HashFn) (w : World) (es : List Entry) : (writeEntries H w es).2.2.inited = w.inited := by
  have h := congrArg World.inited (writeEntries_noWork H w es); exact h
theorem restoreWorkP_inited' (H : HashFn) (idx : List Entry) (w : World) (args : List Bytes) : (restoreWorkP H idx w args).1.inited = w.inited := by
  have h := congrArg World.inited (restoreWorkP_noWork H idx w args); exact h
theorem setIndexIfChanged_inited' (w : World) (o n : List Entry) : (setIndexIfChanged w o n).inited = w.inited := by
  rcases setIndexIfChanged_cases w o n with h | h <;> rw [h]
theorem writeEntries_objs' (H : HashFn) (w : World) (es : List Entry) : (writeEntries H w es).2.2.objs = w.objs := by
  have h := congrArg World.objs (writeEntries_noWork H w es); exact h
theorem restoreWorkP_objs' (H : HashFn) (idx : List Entry) (w : World) (args : List Bytes) : (restoreWorkP H idx w args).1.objs = w.objs := by
  have h := congrArg World.objs (restoreWorkP_noWork H idx w args); exact h
theorem setIndexIfChanged_objs' (w : World) (o n : List Entry) : (setIndexIfChanged w o n).objs = w.objs := by
  rcases setIndexIfChanged_cases w o n with h | h <;> rw [h]
theorem putObj_heads' (w : World) (id c : Bytes) : (putObj w id c).heads = w.heads := by
  have h := congrArg World.heads (putObj_noObjs w id c); exact h
theorem putObjs_heads' (w : World) (os : List (Bytes × Bytes)) : (putObjs w os).heads = w.heads := by
  have h := congrArg World.heads (putObjs_noObjs w os); exact h
theorem putBlobs_heads' (H : HashFn) (w : World) (ds : List Bytes) : (List.foldl (putBlob H) w ds).heads = w.heads := by
  have h := congrArg World.heads (putBlobs_noObjs H w ds); exact h
theorem writeEntries_heads' (H : HashFn) (w : World) (es : List Entry) : (writeEntries H w es).2.2.heads = w.heads := by
  have h := congrArg World.heads (writeEntries_noWork H w es); exact h
theorem restoreWorkP_heads' (H : HashFn) (idx : List Entry) (w : World) (args : List Bytes) : (restoreWorkP H idx w args).1.heads = w.heads := by
  have h := congrArg World.heads (restoreWorkP_noWork H idx w args); exact h
theorem setIndexIfChanged_heads' (w : World) (o n : List Entry) : (setIndexIfChanged w o n).heads = w.heads := by
  rcases setIndexIfChanged_cases w o n with h | h <;> rw [h]
theorem putObj_head' (w : World) (id c : Bytes) : (putObj w id c).head = w.head := by
  have h := congrArg World.head (putObj_noObjs w id c); exact h
theorem putObjs_head' (w : World) (os : List (Bytes × Bytes)) : (putObjs w os).head = w.head := by
  have h := congrArg World.head (putObjs_noObjs w os); exact h
theorem putBlobs_head' (H : HashFn) (w : World) (ds : List Bytes) : (List.foldl (putBlob H) w ds).head = w.head := by
  have h := congrArg World.head (putBlobs_noObjs H w ds); exact h
theorem writeEntries_head' (H : HashFn) (w : World) (es : List Entry) : (writeEntries H w es).2.2.head = w.head := by
  have h := congrArg World.head (writeEntries_noWork H w es); exact h
theorem restoreWorkP_head' (H : HashFn) (idx : List Entry) (w : World) (args : List Bytes) : (restoreWorkP H idx w args).1.head = w.head := by
  have h := congrArg World.head (restoreWorkP_noWork H idx w args); exact h
theorem setIndexIfChanged_head' (w : World) (o n : List Entry) : (setIndexIfChanged w o n).head = w.head := by
  rcases setIndexIfChanged_cases w o n with h | h <;> rw [h]
theorem putObj_index' (w : World) (id c : Bytes) : (putObj w id c).index = w.index := by
  have h := congrArg World.index (putObj_noObjs w id c); exact h
theorem putObjs_index' (w : World) (os : List (Bytes × Bytes)) : (putObjs w os).index = w.index := by
  have h := congrArg World.index (putObjs_noObjs w os); exact h
theorem putBlobs_index' (H : HashFn) (w : World) (ds : List Bytes) : (List.foldl (putBlob H) w ds).index = w.index := by
  have h := congrArg World.index (putBlobs_noObjs H w ds); exact h
theorem writeEntries_index' (H : HashFn) (w : World) (es : List Entry) : (writeEntries H w es).2.2.index = w.index := by
  have h := congrArg World.index (writeEntries_noWork H w es); exact h
theorem restoreWorkP_index' (H : HashFn) (idx : List Entry) (w : World) (args : List Bytes) : (restoreWorkP H idx w args).1.index = w.index := by
  have h := congrArg World.index (restoreWorkP_noWork H idx w args); exact h
theorem putObj_logHead' (w : World) (id c : Bytes) : (putObj w id c).logHead = w.logHead := by
  have h := congrArg World.logHead (putObj_noObjs w id c); exact h
theorem putObjs_logHead' (w : World) (os : List (Bytes × Bytes)) : (putObjs w os).logHead = w.logHead := by
  have h := congrArg World.logHead (putObjs_noObjs w os); exact h
theorem putBlobs_logHead' (H : HashFn) (w : World) (ds : List Bytes) : (List.foldl (putBlob H) w ds).logHead = w.logHead := by
  have h := congrArg World.logHead (putBlobs_noObjs H w ds); exact h
theorem writeEntries_logHead' (H : HashFn) (w : World) (es : List Entry) : (writeEntries H w es).2.2.logHead = w.logHead := by
  have h := congrArg World.logHead (writeEntries_noWork H w es); exact h
theorem restoreWorkP_logHead' (H : HashFn) (idx : List Entry) (w : World) (args : List Bytes) : (restoreWorkP H idx w args).1.logHead = w.logHead := by
  have h := congrArg World.logHead (restoreWorkP_noWork H idx w args); exact h
theorem setIndexIfChanged_logHead' (w : World) (o n : List Entry) : (setIndexIfChanged w o n).logHead = w.logHead := by
  rcases setIndexIfChanged_cases w o n with h | h <;> rw [h]
theorem putObj_logHeads' (w : World) (id c : Bytes) : (putObj w id c).logHeads = w.logHeads := by
  have h := congrArg World.logHeads (putObj_noObjs w id c); exact h
theorem putObjs_logHeads' (w : World) (os : List (Bytes × Bytes)) : (putObjs w os).logHeads = w.logHeads := by
  have h := congrArg World.logHeads (putObjs_noObjs w os); exact h
theorem putBlobs_logHeads' (H : HashFn) (w : World) (ds : List Bytes) : (List.foldl (putBlob H) w ds).logHeads = w.logHeads := by
  have h := congrArg World.logHeads (putBlobs_noObjs H w ds); exact h
theorem writeEntries_logHeads' (H : HashFn) (w : World) (es : List Entry) : (writeEntries H w es).2.2.logHeads = w.logHeads := by
  have h := congrArg World.logHeads (writeEntries_noWork H w es); exact h
theorem restoreWorkP_logHeads' (H : HashFn) (idx : List Entry) (w : World) (args : List Bytes) : (restoreWorkP H idx w args).1.logHeads = w.logHeads := by
  have h := congrArg World.logHeads (restoreWorkP_noWork H idx w args); exact h
theorem setIndexIfChanged_logHeads' (w : World) (o n : List Entry) : (setIndexIfChanged w o n).logHeads = w.logHeads := by
  rcases setIndexIfChanged_cases w o n with h | h <;> rw [h]
theorem putObj_cfgLocal' (w : World) (id c : Bytes) : (putObj w id c).cfgLocal = w.cfgLocal := by
  have h := congrArg World.cfgLocal (putObj_noObjs w id c); exact h
theorem putObjs_cfgLocal' (w : World) (os : List (Bytes × Bytes)) : (putObjs w os).cfgLocal = w.cfgLocal := by
  have h := congrArg World.cfgLocal (putObjs_noObjs w os); exact h
theorem putBlobs_cfgLocal' (H : HashFn) (w : World) (ds : List Bytes) : (List.foldl (putBlob H) w ds).cfgLocal = w.cfgLocal := by
  have h := congrArg World.cfgLocal (putBlobs_noObjs H w ds); exact h
theorem writeEntries_cfgLocal' (H : HashFn) (w : World) (es : List Entry) : (writeEntries H w es).2.2.cfgLocal = w.cfgLocal := by
  have h := congrArg World.cfgLocal (writeEntries_noWork H w es); exact h
theorem restoreWorkP_cfgLocal' (H : HashFn) (idx : List Entry) (w : World) (args : List Bytes) : (restoreWorkP H idx w args).1.cfgLocal = w.cfgLocal := by
  have h := congrArg World.cfgLocal (restoreWorkP_noWork H idx w args); exact h
theorem setIndexIfChanged_cfgLocal' (w : World) (o n : List Entry) : (setIndexIfChanged w o n).cfgLocal = w.cfgLocal := by
  rcases setIndexIfChanged_cases w o n with h | h <;> rw [h]
theorem putObj_cfgGlobal' (w : World) (id c : Bytes) : (putObj w id c).cfgGlobal = w.cfgGlobal := by
  have h := congrArg World.cfgGlobal (putObj_noObjs w id c); exact h
theorem putObjs_cfgGlobal' (w : World) (os : List (Bytes × Bytes)) : (putObjs w os).cfgGlobal = w.cfgGlobal := by
  have h := congrArg World.cfgGlobal (putObjs_noObjs w os); exact h
theorem putBlobs_cfgGlobal' (H : HashFn) (w : World) (ds : List Bytes) : (List.foldl (putBlob H) w ds).cfgGlobal = w.cfgGlobal := by
  have h := congrArg World.cfgGlobal (putBlobs_noObjs H w ds); exact h
theorem writeEntries_cfgGlobal' (H : HashFn) (w : World) (es : List Entry) : (writeEntries H w es).2.2.cfgGlobal = w.cfgGlobal := by
  have h := congrArg World.cfgGlobal (writeEntries_noWork H w es); exact h
theorem restoreWorkP_cfgGlobal' (H : HashFn) (idx : List Entry) (w : World) (args : List Bytes) : (restoreWorkP H idx w args).1.cfgGlobal = w.cfgGlobal := by
  have h := congrArg World.cfgGlobal (restoreWorkP_noWork H idx w args); exact h
theorem setIndexIfChanged_cfgGlobal' (w : World) (o n : List Entry) : (setIndexIfChanged w o n).cfgGlobal = w.cfgGlobal := by
  rcases setIndexIfChanged_cases w o n with h | h <;> rw [h]
theorem putObj_files' (w : World) (id c : Bytes) : (putObj w id c).files = w.files := by
  have h := congrArg World.files (putObj_noObjs w id c); exact h
theorem putObjs_files' (w : World) (os : List (Bytes × Bytes)) : (putObjs w os).files = w.files := by
  have h := congrArg World.files (putObjs_noObjs w os); exact h
theorem putBlobs_files' (H : HashFn) (w : World) (ds : List Bytes) : (List.foldl (putBlob H) w ds).files = w.files := by
  have h := congrArg World.files (putBlobs_noObjs H w ds); exact h
theorem setIndexIfChanged_files' (w : World) (o n : List Entry) : (setIndexIfChanged w o n).files = w.files := by
  rcases setIndexIfChanged_cases w o n with h | h <;> rw [h]
theorem putObj_dirs' (w : World) (id c : Bytes) : (putObj w id c).dirs = w.dirs := by
  have h := congrArg World.dirs (putObj_noObjs w id c); exact h
theorem putObjs_dirs' (w : World) (os : List (Bytes × Bytes)) : (putObjs w os).dirs = w.dirs := by
  have h := congrArg World.dirs (putObjs_noObjs w os); exact h
theorem putBlobs_dirs' (H : HashFn) (w : World) (ds : List Bytes) : (List.foldl (putBlob H) w ds).dirs = w.dirs := by
  have h := congrArg World.dirs (putBlobs_noObjs H w ds); exact h
theorem setIndexIfChanged_dirs' (w : World) (o n : List Entry) : (setIndexIfChanged w o n).dirs = w.dirs := by
  rcases setIndexIfChanged_cases w o n with h | h <;> rw [h]

end W
