import GoitModel.World

/-! The tree reader is monotone: with more objects in the store, or more nesting fuel, a tree that read back
    before reads back the same. -/

namespace TreeCodec

/-- `sub'` answers everything `sub` answers, identically -/
def SubLe (sub sub' : Bytes → Option (List Node)) : Prop := ∀ id ns, sub id = some ns → sub' id = some ns

theorem loop_mono (sub sub' : Bytes → Option (List Node)) (h : SubLe sub sub') :
    ∀ (fuel : Nat) (isDir : Bool) (name buf : Bytes) (ns : List Node),
      loop sub fuel isDir name buf = some ns → loop sub' fuel isDir name buf = some ns := by
  intro fuel
  induction fuel with
  | zero => intro isDir name buf ns hl; simp [loop] at hl
  | succ fuel ih =>
    intro isDir name buf ns hl
    unfold loop at hl ⊢
    by_cases hlen : buf.length < 20
    · simp [hlen] at hl
    · simp only [hlen, if_false] at hl ⊢
      cases hk : (if isDir = true then sub (List.take 20 buf) else some []) with
      | none => simp only [hk] at hl; cases hl
      | some kids =>
        have hk' : (if isDir = true then sub' (List.take 20 buf) else some []) = some kids := by
          cases isDir with
          | false => simpa using hk
          | true => simp only [if_true] at hk ⊢; exact h _ _ hk
        simp only [hk] at hl
        simp only [hk']
        by_cases he : (readCStr (List.drop 20 buf)).1 = []
        · simp only [he, if_true] at hl ⊢; exact hl
        · simp only [he, if_false] at hl ⊢
          cases hcut : Bytes.cut1 32 (readCStr (List.drop 20 buf)).1 with
          | mk m on =>
            cases on with
            | none => simp only [hcut] at hl; cases hl
            | some n =>
              simp only [hcut] at hl ⊢
              cases hr : loop sub fuel (m == modeDir) n (readCStr (List.drop 20 buf)).2 with
              | none => simp only [hr] at hl; cases hl
              | some nodes =>
                simp only [hr] at hl
                rw [ih _ _ _ _ hr]
                exact hl

/-- more objects (the readable ones unchanged) and at least as much nesting fuel: a tree that read back reads back the same -/
theorem walk_mono (H : HashFn) (st st' : Store)
    (hst : ∀ id kd, Store.get H st id = .ok kd → Store.get H st' id = .ok kd) :
    ∀ (d d' : Nat) (data : Bytes) (ns : List Node), d ≤ d' → walk H st d data = some ns → walk H st' d' data = some ns := by
  intro d
  induction d with
  | zero => intro d' data ns _ hw; simp [walk] at hw
  | succ d ih =>
    intro d' data ns hle hw
    cases d' with
    | zero => omega
    | succ e =>
      have hde : d ≤ e := by omega
      unfold walk at hw ⊢
      by_cases hd : data = []
      · simp only [hd, if_true] at hw ⊢; exact hw
      · simp only [hd, if_false] at hw ⊢
        cases hcut : Bytes.cut1 32 (readCStr data).1 with
        | mk m on =>
          cases on with
          | none => simp only [hcut] at hw; cases hw
          | some n =>
            simp only [hcut] at hw ⊢
            refine loop_mono _ _ ?_ _ _ _ _ _ hw
            intro id ns' hs
            cases hg : Store.get H st id with
            | crash => simp only [hg] at hs; cases hs
            | err => simp only [hg] at hs; cases hs
            | ok kd =>
              obtain ⟨k, sdata⟩ := kd
              simp only [hg] at hs
              show (match Store.get H st' id with
                | Res.ok (Kind.tree, sdata) => walk H st' e sdata
                | _ => none) = some ns'
              rw [hst id _ hg]
              cases k with
              | tree => simp only at hs ⊢; exact ih e sdata ns' hde hs
              | undefined => cases hs
              | blob => cases hs
              | commit => cases hs
              | tag => cases hs

end TreeCodec
