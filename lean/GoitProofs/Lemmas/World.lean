import GoitModel.World

/-! Projection lemmas for the primitive updates of the whole-repository model: which field each of them
    can touch. Everything the property theorems about `W.run` need is stated field by field here. -/

namespace W

@[simp] theorem setHead_objs (w : World) (b : Bytes) : (setHead w b).objs = w.objs := rfl
@[simp] theorem setHead_logHead (w : World) (b : Bytes) : (setHead w b).logHead = w.logHead := rfl
@[simp] theorem setHead_heads (w : World) (b : Bytes) : (setHead w b).heads = w.heads := rfl
@[simp] theorem setHead_index (w : World) (b : Bytes) : (setHead w b).index = w.index := rfl
@[simp] theorem setHead_files (w : World) (b : Bytes) : (setHead w b).files = w.files := rfl
@[simp] theorem setHead_logHeads (w : World) (b : Bytes) : (setHead w b).logHeads = w.logHeads := rfl

@[simp] theorem appendLogHead_objs (w : World) (l : Bytes) : (appendLogHead w l).objs = w.objs := rfl
@[simp] theorem appendLogHead_heads (w : World) (l : Bytes) : (appendLogHead w l).heads = w.heads := rfl
@[simp] theorem appendLogHead_head (w : World) (l : Bytes) : (appendLogHead w l).head = w.head := rfl
@[simp] theorem appendLogHead_index (w : World) (l : Bytes) : (appendLogHead w l).index = w.index := rfl
@[simp] theorem appendLogHead_files (w : World) (l : Bytes) : (appendLogHead w l).files = w.files := rfl
@[simp] theorem appendLogHead_logHead (w : World) (l : Bytes) :
    (appendLogHead w l).logHead = some (w.logHead.getD [] ++ l) := rfl

@[simp] theorem appendLogBranch_objs (w : World) (b l : Bytes) : (appendLogBranch w b l).objs = w.objs := rfl
@[simp] theorem appendLogBranch_heads (w : World) (b l : Bytes) : (appendLogBranch w b l).heads = w.heads := rfl
@[simp] theorem appendLogBranch_head (w : World) (b l : Bytes) : (appendLogBranch w b l).head = w.head := rfl
@[simp] theorem appendLogBranch_index (w : World) (b l : Bytes) : (appendLogBranch w b l).index = w.index := rfl
@[simp] theorem appendLogBranch_files (w : World) (b l : Bytes) : (appendLogBranch w b l).files = w.files := rfl
@[simp] theorem appendLogBranch_logHead (w : World) (b l : Bytes) : (appendLogBranch w b l).logHead = w.logHead := rfl

@[simp] theorem writeFile_objs (w : World) (p d : Bytes) : (writeFile w p d).objs = w.objs := rfl
@[simp] theorem writeFile_logHead (w : World) (p d : Bytes) : (writeFile w p d).logHead = w.logHead := rfl
@[simp] theorem writeFile_heads (w : World) (p d : Bytes) : (writeFile w p d).heads = w.heads := rfl
@[simp] theorem writeFile_head (w : World) (p d : Bytes) : (writeFile w p d).head = w.head := rfl
@[simp] theorem writeFile_index (w : World) (p d : Bytes) : (writeFile w p d).index = w.index := rfl
@[simp] theorem writeFile_logHeads (w : World) (p d : Bytes) : (writeFile w p d).logHeads = w.logHeads := rfl

theorem setIndexIfChanged_cases (w : World) (o n : List Entry) :
    setIndexIfChanged w o n = w ∨ setIndexIfChanged w o n = { w with index := some n } := by
  unfold setIndexIfChanged; split <;> simp

@[simp] theorem setIndexIfChanged_objs (w : World) (o n : List Entry) : (setIndexIfChanged w o n).objs = w.objs := by
  rcases setIndexIfChanged_cases w o n with h | h <;> rw [h]
@[simp] theorem setIndexIfChanged_logHead (w : World) (o n : List Entry) : (setIndexIfChanged w o n).logHead = w.logHead := by
  rcases setIndexIfChanged_cases w o n with h | h <;> rw [h]
@[simp] theorem setIndexIfChanged_heads (w : World) (o n : List Entry) : (setIndexIfChanged w o n).heads = w.heads := by
  rcases setIndexIfChanged_cases w o n with h | h <;> rw [h]
@[simp] theorem setIndexIfChanged_head (w : World) (o n : List Entry) : (setIndexIfChanged w o n).head = w.head := by
  rcases setIndexIfChanged_cases w o n with h | h <;> rw [h]
@[simp] theorem setIndexIfChanged_files (w : World) (o n : List Entry) : (setIndexIfChanged w o n).files = w.files := by
  rcases setIndexIfChanged_cases w o n with h | h <;> rw [h]
@[simp] theorem setIndexIfChanged_logHeads (w : World) (o n : List Entry) : (setIndexIfChanged w o n).logHeads = w.logHeads := by
  rcases setIndexIfChanged_cases w o n with h | h <;> rw [h]

/-! ### the object store only grows -/

/-- every object of `w` is still there, with the same content, in `w'` -/
def ObjsLe (w w' : World) : Prop := ∀ id c, aget w.objs id = some c → aget w'.objs id = some c

theorem ObjsLe.refl (w : World) : ObjsLe w w := fun _ _ h => h
theorem ObjsLe.trans {a b c : World} (h1 : ObjsLe a b) (h2 : ObjsLe b c) : ObjsLe a c := fun i x h => h2 i x (h1 i x h)
theorem ObjsLe.of_eq {w w' : World} (h : w'.objs = w.objs) : ObjsLe w w' := by
  intro i c hc; rw [h]; exact hc

theorem aget_cons (l : List (Bytes × Bytes)) (k v x : Bytes) :
    aget ((k, v) :: l) x = if k == x then some v else aget l x := by
  unfold aget; simp only [List.find?_cons]; split <;> simp_all

theorem putObj_le (w : World) (id c : Bytes) : ObjsLe w (putObj w id c) := by
  intro i x h
  unfold putObj
  split
  · exact h
  · rename_i hn
    simp only [aget_cons]
    split
    · rename_i he
      have : id = i := by simpa using he
      subst this
      rw [h] at hn; simp at hn
    · exact h

@[simp] theorem putObj_logHead (w : World) (id c : Bytes) : (putObj w id c).logHead = w.logHead := by
  unfold putObj; split <;> rfl
@[simp] theorem putObj_heads (w : World) (id c : Bytes) : (putObj w id c).heads = w.heads := by
  unfold putObj; split <;> rfl
@[simp] theorem putObj_head (w : World) (id c : Bytes) : (putObj w id c).head = w.head := by
  unfold putObj; split <;> rfl
@[simp] theorem putObj_index (w : World) (id c : Bytes) : (putObj w id c).index = w.index := by
  unfold putObj; split <;> rfl
@[simp] theorem putObj_files (w : World) (id c : Bytes) : (putObj w id c).files = w.files := by
  unfold putObj; split <;> rfl
@[simp] theorem putObj_logHeads (w : World) (id c : Bytes) : (putObj w id c).logHeads = w.logHeads := by
  unfold putObj; split <;> rfl

theorem putObjs_le (w : World) (os : List (Bytes × Bytes)) : ObjsLe w (putObjs w os) := by
  unfold putObjs
  induction os generalizing w with
  | nil => exact ObjsLe.refl w
  | cons o os ih => simp only [List.foldl_cons]; exact (putObj_le w o.1 o.2).trans (ih _)

theorem putObjs_field {α} (f : World → α) (hf : ∀ w id c, f (putObj w id c) = f w) (w : World) (os : List (Bytes × Bytes)) :
    f (putObjs w os) = f w := by
  unfold putObjs
  induction os generalizing w with
  | nil => rfl
  | cons o os ih => simp only [List.foldl_cons]; rw [ih, hf]

@[simp] theorem putObjs_logHead (w : World) (os) : (putObjs w os).logHead = w.logHead := putObjs_field _ putObj_logHead w os
@[simp] theorem putObjs_heads (w : World) (os) : (putObjs w os).heads = w.heads := putObjs_field _ putObj_heads w os
@[simp] theorem putObjs_head (w : World) (os) : (putObjs w os).head = w.head := putObjs_field _ putObj_head w os
@[simp] theorem putObjs_index (w : World) (os) : (putObjs w os).index = w.index := putObjs_field _ putObj_index w os
@[simp] theorem putObjs_files (w : World) (os) : (putObjs w os).files = w.files := putObjs_field _ putObj_files w os
@[simp] theorem putObjs_logHeads (w : World) (os) : (putObjs w os).logHeads = w.logHeads := putObjs_field _ putObj_logHeads w os

theorem putBlob_le (H : HashFn) (w : World) (d : Bytes) : ObjsLe w (putBlob H w d) := putObj_le _ _ _

theorem putBlobs_le (H : HashFn) (w : World) (ds : List Bytes) : ObjsLe w (ds.foldl (putBlob H) w) := by
  induction ds generalizing w with
  | nil => exact ObjsLe.refl w
  | cons d ds ih => simp only [List.foldl_cons]; exact (putBlob_le H w d).trans (ih _)

theorem putBlobs_field {α} (H : HashFn) (f : World → α) (hf : ∀ w id c, f (putObj w id c) = f w) (w : World) (ds : List Bytes) :
    f (ds.foldl (putBlob H) w) = f w := by
  induction ds generalizing w with
  | nil => rfl
  | cons d ds ih => simp only [List.foldl_cons]; rw [ih]; exact hf _ _ _

@[simp] theorem putBlobs_logHead (H : HashFn) (w : World) (ds) : (List.foldl (putBlob H) w ds).logHead = w.logHead :=
  putBlobs_field H _ putObj_logHead w ds
@[simp] theorem putBlobs_heads (H : HashFn) (w : World) (ds) : (List.foldl (putBlob H) w ds).heads = w.heads :=
  putBlobs_field H _ putObj_heads w ds
@[simp] theorem putBlobs_head (H : HashFn) (w : World) (ds) : (List.foldl (putBlob H) w ds).head = w.head :=
  putBlobs_field H _ putObj_head w ds
@[simp] theorem putBlobs_logHeads (H : HashFn) (w : World) (ds) : (List.foldl (putBlob H) w ds).logHeads = w.logHeads :=
  putBlobs_field H _ putObj_logHeads w ds

/-! ### writing staged blobs into the working tree touches the working tree only -/

theorem writeEntries_field {α} (H : HashFn) (f : World → α) (hf : ∀ w p d, f (writeFile w p d) = f w) (w : World) (es : List Entry) :
    f (writeEntries H w es).2.2 = f w := by
  induction es generalizing w with
  | nil => rfl
  | cons e es ih =>
    unfold writeEntries
    split
    · split
      · rw [ih, hf]
      · rfl
    · rfl

@[simp] theorem writeEntries_objs (H : HashFn) (w : World) (es) : (writeEntries H w es).2.2.objs = w.objs :=
  writeEntries_field H _ writeFile_objs w es
@[simp] theorem writeEntries_logHead (H : HashFn) (w : World) (es) : (writeEntries H w es).2.2.logHead = w.logHead :=
  writeEntries_field H _ writeFile_logHead w es
@[simp] theorem writeEntries_heads (H : HashFn) (w : World) (es) : (writeEntries H w es).2.2.heads = w.heads :=
  writeEntries_field H _ writeFile_heads w es
@[simp] theorem writeEntries_head (H : HashFn) (w : World) (es) : (writeEntries H w es).2.2.head = w.head :=
  writeEntries_field H _ writeFile_head w es
@[simp] theorem writeEntries_index (H : HashFn) (w : World) (es) : (writeEntries H w es).2.2.index = w.index :=
  writeEntries_field H _ writeFile_index w es
@[simp] theorem writeEntries_logHeads (H : HashFn) (w : World) (es) : (writeEntries H w es).2.2.logHeads = w.logHeads :=
  writeEntries_field H _ writeFile_logHeads w es

theorem restoreWorkP_field {α} (H : HashFn) (f : World → α) (hf : ∀ w p d, f (writeFile w p d) = f w)
    (idx : List Entry) (w : World) (args : List Bytes) : f (restoreWorkP H idx w args).1 = f w := by
  induction args generalizing w with
  | nil => rfl
  | cons a rest ih =>
    unfold restoreWorkP
    simp only
    split
    · rfl
    · have hw := writeEntries_field H f hf w
        (if IndexOps.isDir idx (Cmds.cleanPath a) = true then IndexOps.byDir idx (Cmds.cleanPath a)
         else List.filter (fun e => e.path == Cmds.cleanPath a) idx)
      split
      · rename_i h; rw [ih]; rw [h] at hw; exact hw
      · rename_i h; rw [h] at hw; exact hw
      · rename_i h; rw [h] at hw; exact hw

end W
