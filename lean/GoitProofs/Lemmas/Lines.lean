import GoitProofs.Lemmas.Bytes

/-! `bufio.Scanner` line splitting on a text made of newline-terminated lines. -/

namespace Bytes

theorem split1_append (b : UInt8) (l rest : Bytes) (h : b ∉ l) :
    split1 b (l ++ b :: rest) = l :: split1 b rest := by
  induction l with
  | nil => simp [split1]
  | cons a as ih =>
    have ha : a ≠ b := fun e => h (by simp [e])
    have has : b ∉ as := fun m => h (List.mem_cons_of_mem _ m)
    simp [split1, ha, ih has]

/-- the text of newline-terminated lines -/
def unlines (ls : List Bytes) : Bytes := (ls.map (· ++ [10])).flatten

theorem split1_unlines (ls : List Bytes) (h : ∀ l ∈ ls, (10 : UInt8) ∉ l) :
    split1 10 (unlines ls) = ls ++ [[]] := by
  induction ls with
  | nil => simp [unlines, split1]
  | cons l ls ih =>
    have hl := h l (List.mem_cons_self)
    have ih' := ih (fun x hx => h x (List.mem_cons_of_mem _ hx))
    have : unlines (l :: ls) = l ++ 10 :: unlines ls := by simp [unlines]
    rw [this, split1_append 10 l _ hl, ih']
    simp

theorem rawLines_unlines (ls : List Bytes) (h : ∀ l ∈ ls, (10 : UInt8) ∉ l) : rawLines (unlines ls) = ls := by
  cases ls with
  | nil => simp [unlines, rawLines]
  | cons l ls =>
    have hs := split1_unlines (l :: ls) h
    have hne : unlines (l :: ls) ≠ [] := by simp [unlines]
    cases hu : unlines (l :: ls) with
    | nil => exact absurd hu hne
    | cons c cs =>
      rw [hu] at hs
      simp only [rawLines, hs]
      have hr : (l :: ls ++ [[]]).reverse = [] :: (l :: ls).reverse := by simp
      rw [hr]
      show ((l :: ls).reverse).reverse = l :: ls
      exact List.reverse_reverse _

/-- a line the scanner delivers unchanged: no newline, shorter than the token limit, not ending in `\r` -/
def LineOK (l : Bytes) : Prop := (10 : UInt8) ∉ l ∧ l.length < maxToken ∧ l.getLast? ≠ some 13

theorem dropCR_ok (l : Bytes) (h : l.getLast? ≠ some 13) : dropCR l = l := by
  unfold dropCR
  cases hr : l.reverse with
  | nil => rfl
  | cons a as =>
    have : l.getLast? = some a := by
      rw [List.getLast?_eq_head?_reverse, hr]; rfl
    by_cases ha : a = 13
    · subst ha; exact absurd this h
    · split
      · rename_i heq; cases heq; exact absurd rfl ha
      · rfl

theorem takeWhile_short (ls : List Bytes) (h : ∀ l ∈ ls, l.length < maxToken) :
    ls.takeWhile (fun l => decide (l.length < maxToken)) = ls := by
  induction ls with
  | nil => rfl
  | cons a as ih =>
    have ha := h a (List.mem_cons_self)
    simp [List.takeWhile, ha, ih (fun x hx => h x (List.mem_cons_of_mem _ hx))]

theorem map_dropCR (ls : List Bytes) (h : ∀ l ∈ ls, l.getLast? ≠ some 13) : ls.map dropCR = ls := by
  induction ls with
  | nil => rfl
  | cons a as ih =>
    simp only [List.map_cons]
    rw [dropCR_ok a (h a (List.mem_cons_self)), ih (fun x hx => h x (List.mem_cons_of_mem _ hx))]

/-- **the scanner returns exactly the lines written** -/
theorem scanLines_unlines (ls : List Bytes) (h : ∀ l ∈ ls, LineOK l) : scanLines (unlines ls) = ls := by
  unfold scanLines
  rw [rawLines_unlines ls (fun l hl => (h l hl).1), takeWhile_short ls (fun l hl => (h l hl).2.1),
    map_dropCR ls (fun l hl => (h l hl).2.2)]

end Bytes
