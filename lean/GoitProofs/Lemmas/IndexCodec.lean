import GoitModel

namespace IndexFile

theorem ofNat_toNat (x : Nat) : (UInt8.ofNat x).toNat = x % 256 := by
  simp [UInt8.toNat_ofNat']

theorem rd16_be16 (n : Nat) (h : n < 65536) : rd16 (be16 n) = n := by
  simp only [be16, rd16, ofNat_toNat]; omega

theorem rd32_be32 (n : Nat) (h : n < 4294967296) : rd32 (be32 n) = n := by
  simp only [be32, rd32, ofNat_toNat]; omega

theorem be16_length (n : Nat) : (be16 n).length = 2 := rfl
theorem be32_length (n : Nat) : (be32 n).length = 4 := rfl

/-- an entry the file format can carry -/
def EntryOK (e : Entry) : Prop := e.id.length = 20 ∧ e.path.length < 65536

theorem decodeEntries_encode (es : List Entry) (rest : Bytes) (h : ∀ e ∈ es, EntryOK e) :
    decodeEntries es.length ((es.map encodeEntry).flatten ++ rest) = some es := by
  induction es with
  | nil => simp [decodeEntries]
  | cons e es ih =>
    obtain ⟨hid, hp⟩ := h e (List.mem_cons_self)
    have ih' := ih (fun x hx => h x (List.mem_cons_of_mem _ hx))
    have hmod : e.path.length % 65536 = e.path.length := Nat.mod_eq_of_lt hp
    -- shape of the buffer
    have e1 : ((e :: es).map encodeEntry).flatten ++ rest =
        e.id ++ (be16 e.path.length ++ (e.path ++ ((es.map encodeEntry).flatten ++ rest))) := by
      simp [encodeEntry, hmod, List.append_assoc]
    rw [List.length_cons, decodeEntries, e1]
    have t1 : (e.id ++ (be16 e.path.length ++ (e.path ++ ((es.map encodeEntry).flatten ++ rest)))).take 20 = e.id :=
      List.take_left' hid
    have d1 : (e.id ++ (be16 e.path.length ++ (e.path ++ ((es.map encodeEntry).flatten ++ rest)))).drop 20 =
        be16 e.path.length ++ (e.path ++ ((es.map encodeEntry).flatten ++ rest)) := List.drop_left' hid
    have t2 : (be16 e.path.length ++ (e.path ++ ((es.map encodeEntry).flatten ++ rest))).take 2 = be16 e.path.length :=
      List.take_left' (be16_length _)
    have d2 : (be16 e.path.length ++ (e.path ++ ((es.map encodeEntry).flatten ++ rest))).drop 2 =
        e.path ++ ((es.map encodeEntry).flatten ++ rest) := List.drop_left' (be16_length _)
    have l1 : ¬ (e.id ++ (be16 e.path.length ++ (e.path ++ ((es.map encodeEntry).flatten ++ rest)))).length < 20 := by
      simp [hid]
    have l2 : ¬ (be16 e.path.length ++ (e.path ++ ((es.map encodeEntry).flatten ++ rest))).length < 2 := by
      simp [be16_length]
    simp only [l1, if_false, t1, d1, l2, t2, d2, rd16_be16 _ hp]
    have l3 : ¬ (e.path ++ ((es.map encodeEntry).flatten ++ rest)).length < e.path.length := by simp
    have t3 : (e.path ++ ((es.map encodeEntry).flatten ++ rest)).take e.path.length = e.path := List.take_left' rfl
    have d3 : (e.path ++ ((es.map encodeEntry).flatten ++ rest)).drop e.path.length =
        (es.map encodeEntry).flatten ++ rest := List.drop_left' rfl
    simp only [l3, if_false, t3, d3, ih']

end IndexFile
