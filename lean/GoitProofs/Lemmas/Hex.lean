import GoitModel

namespace Hex

theorem byte_roundtrip (b : UInt8) :
    val? (digit (b >>> 4)) = some (b >>> 4) ∧ val? (digit (b &&& 15)) = some (b &&& 15) ∧
    ((b >>> 4) <<< 4 ||| (b &&& 15)) = b ∧ isLowerHex (digit (b >>> 4)) = true ∧ isLowerHex (digit (b &&& 15)) = true ∧
    digit (b >>> 4) ≠ 32 ∧ digit (b &&& 15) ≠ 32 ∧ digit (b >>> 4) ≠ 9 ∧ digit (b &&& 15) ≠ 9 := by
  have : ∀ n : Fin 256,
      val? (digit ((UInt8.ofNat n.val) >>> 4)) = some ((UInt8.ofNat n.val) >>> 4) ∧
      val? (digit ((UInt8.ofNat n.val) &&& 15)) = some ((UInt8.ofNat n.val) &&& 15) ∧
      (((UInt8.ofNat n.val) >>> 4) <<< 4 ||| ((UInt8.ofNat n.val) &&& 15)) = UInt8.ofNat n.val ∧
      isLowerHex (digit ((UInt8.ofNat n.val) >>> 4)) = true ∧ isLowerHex (digit ((UInt8.ofNat n.val) &&& 15)) = true ∧
      digit ((UInt8.ofNat n.val) >>> 4) ≠ 32 ∧ digit ((UInt8.ofNat n.val) &&& 15) ≠ 32 ∧
      digit ((UInt8.ofNat n.val) >>> 4) ≠ 9 ∧ digit ((UInt8.ofNat n.val) &&& 15) ≠ 9 := by decide +kernel
  have h := this ⟨b.toNat, b.toNat_lt⟩
  simpa using h

theorem decode_encode (b : Bytes) : decode? (encode b) = some b := by
  induction b with
  | nil => rfl
  | cons x xs ih =>
    obtain ⟨h1, h2, h3, -⟩ := byte_roundtrip x
    simp [encode, decode?, h1, h2, ih, h3]

theorem encode_length (b : Bytes) : (encode b).length = 2 * b.length := by
  induction b with
  | nil => rfl
  | cons x xs ih => simp [encode, ih]; omega

theorem encode_all_lower (b : Bytes) : ∀ c ∈ encode b, isLowerHex c = true := by
  induction b with
  | nil => simp [encode]
  | cons x xs ih =>
    obtain ⟨-, -, -, h4, h5, -⟩ := byte_roundtrip x
    intro c hc
    simp only [encode, List.mem_cons] at hc
    rcases hc with rfl | rfl | hc
    · exact h4
    · exact h5
    · exact ih c hc

theorem encode_no_space (b : Bytes) : (32 : UInt8) ∉ encode b := by
  intro h
  have := encode_all_lower b 32 h
  revert this; decide

theorem encode_no_tab (b : Bytes) : (9 : UInt8) ∉ encode b := by
  intro h
  have := encode_all_lower b 9 h
  revert this; decide

end Hex

theorem hasLowerHexRun_all (need run : Nat) (s : Bytes) (h : ∀ c ∈ s, Hex.isLowerHex c = true)
    (hl : need ≤ run + s.length) : hasLowerHexRun need run s = true := by
  induction s generalizing run with
  | nil => simp [hasLowerHexRun]; simpa using hl
  | cons c cs ih =>
    simp only [hasLowerHexRun]
    by_cases hr : need ≤ run
    · simp [hr]
    · simp only [hr, if_false, h c (List.mem_cons_self), if_true]
      exact ih (run + 1) (fun x hx => h x (List.mem_cons_of_mem _ hx)) (by simp at hl; omega)

/-- a 20-byte id written as 40 hex digits reads back as that id -/
theorem readHash_hashStr (id : Bytes) (h : id.length = 20) : readHash (hashStr id) = some id := by
  have hl : (Hex.encode id).length = 40 := by rw [Hex.encode_length, h]
  simp [readHash, hashStr, hasLowerHexRun_all 40 0 _ (Hex.encode_all_lower id) (by omega), Hex.decode_encode]
