import GoitProofs.Lemmas.Bytes

/-! The recursion of `writeTreeObject` at the structure level, and its inverse `getEntriesFromTree`. -/

namespace TreeBuild

/-- every `/`-separated component of the path is non-empty (no leading, trailing or double slash) -/
def PathOK : Bytes → Prop := fun p => ∀ c ∈ Bytes.split1 47 p, c ≠ []

def AllOK (es : List Entry) : Prop := ∀ e ∈ es, PathOK e.path

theorem split1_ne_nil (b : UInt8) (s : Bytes) : Bytes.split1 b s ≠ [] := by
  induction s with
  | nil => simp [Bytes.split1]
  | cons a as ih =>
    simp only [Bytes.split1]
    split
    · simp
    · split <;> simp

theorem split1_of_cut_none (s : Bytes) (h : (Bytes.cut1 47 s).2 = none) : Bytes.split1 47 s = [s] := by
  induction s with
  | nil => simp [Bytes.split1]
  | cons a as ih =>
    by_cases ha : a = 47
    · simp [Bytes.cut1, ha] at h
    · simp only [Bytes.cut1, ha, if_false] at h
      have := ih h
      simp [Bytes.split1, ha, this]

theorem split1_of_cut_some (s r : Bytes) (h : (Bytes.cut1 47 s).2 = some r) :
    Bytes.split1 47 s = (Bytes.cut1 47 s).1 :: Bytes.split1 47 r := by
  induction s with
  | nil => simp [Bytes.cut1] at h
  | cons a as ih =>
    by_cases ha : a = 47
    · simp [Bytes.cut1, ha] at h ⊢
      subst h
      simp [Bytes.split1]
    · simp only [Bytes.cut1, ha, if_false] at h ⊢
      have := ih h
      simp [Bytes.split1, ha, this]

/-- a valid path either has no slash, or splits into a non-empty first component and a valid rest -/
theorem pathOK_cases (p : Bytes) (h : PathOK p) :
    ((Bytes.cut1 47 p).2 = none ∧ p ≠ []) ∨
    (∃ r, (Bytes.cut1 47 p).2 = some r ∧ (Bytes.cut1 47 p).1 ≠ [] ∧ PathOK r ∧
          p = (Bytes.cut1 47 p).1 ++ 47 :: r) := by
  cases hc : (Bytes.cut1 47 p).2 with
  | none =>
    left
    refine ⟨rfl, ?_⟩
    have := split1_of_cut_none p hc
    exact h p (by rw [this]; simp)
  | some r =>
    right
    have hs := split1_of_cut_some p r hc
    refine ⟨r, rfl, ?_, ?_, Bytes.cut1_some_eq 47 p r hc⟩
    · exact h _ (by rw [hs]; simp)
    · intro c hcm; exact h c (by rw [hs]; exact List.mem_cons_of_mem _ hcm)

/-- the entries an item stands for -/
def Item.entries : Item → List Entry
  | .leaf n i => [⟨i, n⟩]
  | .dir d sub => sub.map fun e => ⟨e.id, d ++ 47 :: e.path⟩

def pre (d : Bytes) (buf : List Entry) : List Entry := buf.map fun e => ⟨e.id, d ++ 47 :: e.path⟩

/-- the single pass loses nothing and keeps the order: the items, expanded, are the pending
    directory's entries followed by the remaining input -/
theorem group_flat (dn : Bytes) (buf es : List Entry) (hok : AllOK es) (hbuf : dn = [] → buf = []) :
    ((group dn buf es).map Item.entries).flatten = (if dn ≠ [] then pre dn buf else []) ++ es := by
  induction es generalizing dn buf with
  | nil =>
    by_cases hd : dn = []
    · simp [group, hd]
    · simp [group, hd, Item.entries, pre]
  | cons e es ih =>
    have hok' : AllOK es := fun x hx => hok x (List.mem_cons_of_mem _ hx)
    have he := hok e (List.mem_cons_self)
    rcases pathOK_cases e.path he with ⟨hnone, -⟩ | ⟨r, hsome, hne, -, heq⟩
    · -- a file directly in this tree
      have hcut : Bytes.cut1 47 e.path = ((Bytes.cut1 47 e.path).1, none) := by
        rw [← hnone]
      by_cases hd : dn = []
      · have hb := hbuf hd
        subst hd; subst hb
        rw [group, hcut]
        simp [ih [] [] hok' (fun _ => rfl), Item.entries]
      · rw [group, hcut]
        simp [hd, ih [] [] hok' (fun _ => rfl), Item.entries, pre]
    · have hcut : Bytes.cut1 47 e.path = ((Bytes.cut1 47 e.path).1, some r) := by
        rw [← hsome]
      have hent : (⟨e.id, (Bytes.cut1 47 e.path).1 ++ 47 :: r⟩ : Entry) = e := by
        rw [← heq]
      by_cases hd : dn = []
      · have hb := hbuf hd
        subst hd; subst hb
        rw [group, hcut]
        simp only [if_true, List.nil_append]
        rw [ih _ _ hok' (fun h => absurd h hne)]
        simp [hne, pre, hent]
      · by_cases hsame : dn = (Bytes.cut1 47 e.path).1
        · subst hsame
          rw [group, hcut]
          simp only [hne, if_false, if_true]
          rw [ih _ _ hok' (fun h => absurd h hne)]
          simp [hne, pre, hent]
        · rw [group, hcut]
          simp only [hd, if_false, hsame]
          simp only [List.map_cons, List.flatten_cons]
          rw [ih _ _ hok' (fun h => absurd h hne)]
          simp [hne, hd, pre, Item.entries, hent]

/-- total length of the paths: the measure that decreases into sub-trees -/
def size (es : List Entry) : Nat := (es.map (fun e => e.path.length)).sum

@[simp] theorem size_nil : size [] = 0 := rfl
@[simp] theorem size_cons (e : Entry) (es : List Entry) : size (e :: es) = e.path.length + size es := by
  simp [size]
@[simp] theorem size_append (a b : List Entry) : size (a ++ b) = size a + size b := by
  simp [size]

/-- what the sub-lists handed to directories satisfy: non-empty, valid paths, strictly smaller -/
theorem group_dir (dn : Bytes) (buf es : List Entry) (hok : AllOK es) (hbok : AllOK buf)
    (hbuf : dn ≠ [] → buf ≠ []) :
    ∀ d sub, Item.dir d sub ∈ group dn buf es →
      sub ≠ [] ∧ AllOK sub ∧ d ≠ [] ∧ size sub + sub.length ≤ size buf + buf.length + size es := by
  induction es generalizing dn buf with
  | nil =>
    intro d sub hm
    by_cases hd : dn = []
    · simp [group, hd] at hm
    · simp [group, hd] at hm
      obtain ⟨rfl, rfl⟩ := hm
      exact ⟨hbuf hd, hbok, hd, by simp⟩
  | cons e es ih =>
    have hok' : AllOK es := fun x hx => hok x (List.mem_cons_of_mem _ hx)
    have he := hok e (List.mem_cons_self)
    intro d sub hm
    rcases pathOK_cases e.path he with ⟨hnone, -⟩ | ⟨r, hsome, hne, hrok, heq⟩
    · have hcut : Bytes.cut1 47 e.path = ((Bytes.cut1 47 e.path).1, none) := by rw [← hnone]
      rw [group, hcut] at hm
      by_cases hd : dn = []
      · simp only [hd, ne_eq, not_true_eq_false, if_false, List.mem_cons] at hm
        rcases hm with hm | hm
        · cases hm
        · subst hd
          have := ih [] buf hok' hbok (fun h => absurd rfl h) d sub hm
          obtain ⟨a, b, c, dd⟩ := this
          exact ⟨a, b, c, by first | (simp; omega) | simp⟩
      · simp only [hd, ne_eq, not_false_eq_true, if_true, List.mem_cons] at hm
        rcases hm with hm | hm | hm
        · cases hm; exact ⟨hbuf hd, hbok, hd, by first | (simp; omega) | simp⟩
        · cases hm
        · have := ih [] [] hok' (by intro x hx; simp at hx) (fun h => absurd rfl h) d sub hm
          obtain ⟨a, b, c, dd⟩ := this
          exact ⟨a, b, c, by first | (simp at dd ⊢; omega) | (simp at dd ⊢) | omega⟩
    · have hcut : Bytes.cut1 47 e.path = ((Bytes.cut1 47 e.path).1, some r) := by rw [← hsome]
      have hlen : e.path.length = (Bytes.cut1 47 e.path).1.length + 1 + r.length := by
        conv => lhs; rw [heq]
        simp; omega
      have hnew : AllOK [(⟨e.id, r⟩ : Entry)] := by intro x hx; simp at hx; subst hx; exact hrok
      rw [group, hcut] at hm
      by_cases hd : dn = []
      · simp only [hd, if_true] at hm
        have hb' : AllOK (buf ++ [⟨e.id, r⟩]) := by
          intro x hx; rcases List.mem_append.mp hx with hx | hx
          · exact hbok x hx
          · exact hnew x hx
        have := ih _ _ hok' hb' (fun _ => by simp) d sub hm
        obtain ⟨a, b, c, dd⟩ := this
        exact ⟨a, b, c, by first | (simp at dd ⊢; omega) | (simp at dd ⊢) | omega⟩
      · by_cases hsame : dn = (Bytes.cut1 47 e.path).1
        · subst hsame
          simp only [hne, if_false, if_true] at hm
          have hb' : AllOK (buf ++ [⟨e.id, r⟩]) := by
            intro x hx; rcases List.mem_append.mp hx with hx | hx
            · exact hbok x hx
            · exact hnew x hx
          have := ih _ _ hok' hb' (fun _ => by simp) d sub hm
          obtain ⟨a, b, c, dd⟩ := this
          exact ⟨a, b, c, by first | (simp at dd ⊢; omega) | (simp at dd ⊢) | omega⟩
        · simp only [hd, if_false, hsame, List.mem_cons] at hm
          rcases hm with hm | hm
          · cases hm; exact ⟨hbuf hd, hbok, hd, by first | (simp; omega) | simp⟩
          · have := ih _ _ hok' hnew (fun _ => by simp) d sub hm
            obtain ⟨a, b, c, dd⟩ := this
            exact ⟨a, b, c, by first | (simp at dd ⊢; omega) | (simp at dd ⊢) | omega⟩

end TreeBuild

namespace TreeBuild

/-- how `getEntriesFromTree(rootName, …)` prefixes a name -/
def addRoot (root : Bytes) (e : Entry) : Entry :=
  ⟨e.id, if root = [] then e.path else root ++ 47 :: e.path⟩

theorem addRoot_nil (es : List Entry) : es.map (addRoot []) = es := by
  induction es with
  | nil => rfl
  | cons e es ih => simp [addRoot, ih]

def toNode (H : HashFn) (f : Nat) : Item → Node
  | .leaf n i => Node.mk n i []
  | .dir d sub => Node.mk d (write H f sub).id (build H f sub)

theorem build_succ (H : HashFn) (f : Nat) (es : List Entry) :
    build H (f + 1) es = (group [] [] es).map (toNode H f) := by
  simp only [build]
  congr 1

theorem flattenList_items (H : HashFn) (f : Nat) (root : Bytes) (items : List Item)
    (hrec : ∀ d sub, Item.dir d sub ∈ items → d ≠ [] ∧ build H f sub ≠ [] ∧
        ∀ r, Node.flattenList r (build H f sub) = sub.map (addRoot r)) :
    Node.flattenList root (items.map (toNode H f)) = ((items.map Item.entries).flatten).map (addRoot root) := by
  induction items with
  | nil => simp [Node.flattenList]
  | cons it rest ih =>
    have ih' := ih (fun d sub hm => hrec d sub (List.mem_cons_of_mem _ hm))
    cases it with
    | leaf n i =>
      simp only [List.map_cons, Node.flattenList, toNode, Node.flatten, List.isEmpty_nil, if_true, ih',
        Item.entries, List.flatten_cons, List.map_append, List.map_nil, List.cons_append, List.nil_append]
      by_cases hr : root = [] <;> simp [addRoot, hr]
    | dir d sub =>
      obtain ⟨hd, hne, hfl⟩ := hrec d sub (List.mem_cons_self)
      have hemp : (build H f sub).isEmpty = false := by
        cases hb : build H f sub with
        | nil => exact absurd hb hne
        | cons _ _ => rfl
      simp only [List.map_cons, Node.flattenList, toNode, Node.flatten, hemp, Bool.false_eq_true, if_false, ih',
        Item.entries, List.flatten_cons, List.map_append, hfl, List.map_map]
      congr 1
      apply List.map_congr_left
      intro e _
      by_cases hr : root = []
      · simp [addRoot, hr, hd]
      · simp [addRoot, hr]

theorem group_ne_nil (es : List Entry) (hok : AllOK es) (hne : es ≠ []) : group [] [] es ≠ [] := by
  intro h
  have := group_flat [] [] es hok (fun _ => rfl)
  rw [h] at this
  simp at this
  exact hne this

/-- **`getEntriesFromTree ∘ writeTreeObject = id`** at the structure level, for every entry list with
    valid paths — sorted or not — given the fuel `writeTree` uses. -/
theorem flatten_build (H : HashFn) (f : Nat) (es : List Entry) (hok : AllOK es) (hf : size es < f) :
    (es ≠ [] → build H f es ≠ []) ∧ ∀ root, Node.flattenList root (build H f es) = es.map (addRoot root) := by
  induction f generalizing es with
  | zero => omega
  | succ f ih =>
    have hrec : ∀ d sub, Item.dir d sub ∈ group [] [] es → d ≠ [] ∧ build H f sub ≠ [] ∧
        ∀ r, Node.flattenList r (build H f sub) = sub.map (addRoot r) := by
      intro d sub hm
      obtain ⟨hsne, hsok, hd, hsz⟩ := group_dir [] [] es hok (by intro x hx; simp at hx) (fun h => absurd rfl h) d sub hm
      have hlen : 0 < sub.length := List.length_pos_iff.mpr hsne
      simp at hsz
      obtain ⟨h1, h2⟩ := ih sub hsok (by omega)
      exact ⟨hd, h1 hsne, h2⟩
    refine ⟨?_, ?_⟩
    · intro hne
      rw [build_succ]
      simp [group_ne_nil es hok hne]
    · intro root
      rw [build_succ, flattenList_items H f root _ hrec, group_flat [] [] es hok (fun _ => rfl)]
      simp

end TreeBuild
