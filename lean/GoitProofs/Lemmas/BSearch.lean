import GoitModel

/-! The hand-written binary search of `Index.GetEntry` / `Refs.getBranchPos`: correctness on strictly
    sorted keys, and the fact that it never indexes out of range. -/

def SortedKeys (keys : List Bytes) : Prop := keys.Pairwise (· < ·)

theorem sorted_get_lt {keys : List Bytes} (hs : SortedKeys keys) {i j : Nat} (hij : i < j)
    (hj : j < keys.length) : keys[i]'(by omega) < keys[j] := by
  exact List.pairwise_iff_getElem.mp hs i j (by omega) hj hij

theorem lt_irrefl' (a : Bytes) : ¬ a < a := List.lt_irrefl a
theorem lt_trans' {a b c : Bytes} : a < b → b < c → a < c := List.lt_trans
theorem lt_asymm' {a b : Bytes} : a < b → ¬ b < a := List.lt_asymm

/-- Invariant-style spec: if x occurs at index i, then left ≤ i < right is maintained. -/
theorem bsearch_spec (keys : List Bytes) (hs : SortedKeys keys) (x : Bytes) (left right : Nat)
    (hr : right ≤ keys.length) :
    (∀ i, (h : i < keys.length) → keys[i] = x → left ≤ i → i < right → bsearch keys x left right = .found i) ∧
    (∀ i, bsearch keys x left right = .found i → ∃ h : i < keys.length, keys[i] = x) ∧
    bsearch keys x left right ≠ .crash := by
  induction left, right using bsearch.induct keys x with
  | case1 left right hlt hnone =>
    have hnone' : keys[(left + right) / 2]? = none := hnone
    rw [List.getElem?_eq_none_iff] at hnone'
    omega
  | case2 left right hlt hsome =>
    have hk : keys[(left + right) / 2]? = some x := hsome
    have hm : (left + right) / 2 < keys.length := by omega
    have hkm : keys[(left + right) / 2] = x := (List.getElem?_eq_some_iff.mp hk).2
    refine ⟨?_, ?_, ?_⟩
    · intro i hi hix hl hri
      rw [bsearch]; simp only [hlt, dif_pos, hk, if_true]
      congr 1
      rcases Nat.lt_trichotomy ((left + right) / 2) i with h | h | h
      · have := sorted_get_lt hs h hi
        rw [hkm, hix] at this; exact absurd this (lt_irrefl' _)
      · exact h
      · have := sorted_get_lt hs h hm
        rw [hkm, hix] at this; exact absurd this (lt_irrefl' _)
    · intro i hfi
      rw [bsearch] at hfi; simp only [hlt, dif_pos, hk, if_true] at hfi
      cases hfi; exact ⟨hm, hkm⟩
    · rw [bsearch]; simp [hlt, hk]
  | case3 left right hlt k hk hne hklt ih =>
    have hk' : keys[(left + right) / 2]? = some k := hk
    have hm : (left + right) / 2 < keys.length := by omega
    have hkm : keys[(left + right) / 2] = k := (List.getElem?_eq_some_iff.mp hk').2
    obtain ⟨ih1, ih2, ih3⟩ := ih hr
    refine ⟨?_, ?_, ?_⟩
    · intro i hi hix hl hri
      rw [bsearch]; simp only [hlt, dif_pos, hk', hne, if_false, hklt, if_true]
      apply ih1 i hi hix _ hri
      rcases Nat.lt_trichotomy ((left + right) / 2) i with h | h | h
      · omega
      · subst h; rw [hkm] at hix; exact absurd hix hne
      · have := sorted_get_lt hs h hm
        rw [hkm, hix] at this; exact absurd this (lt_asymm' hklt)
    · intro i hfi
      rw [bsearch] at hfi; simp only [hlt, dif_pos, hk', hne, if_false, hklt, if_true] at hfi
      exact ih2 i hfi
    · rw [bsearch]; simp only [hlt, dif_pos, hk', hne, if_false, hklt, if_true]; exact ih3
  | case4 left right hlt k hk hne hnlt ih =>
    have hk' : keys[(left + right) / 2]? = some k := hk
    have hm : (left + right) / 2 < keys.length := by omega
    have hkm : keys[(left + right) / 2] = k := (List.getElem?_eq_some_iff.mp hk').2
    obtain ⟨ih1, ih2, ih3⟩ := ih (by omega)
    refine ⟨?_, ?_, ?_⟩
    · intro i hi hix hl hri
      rw [bsearch]; simp only [hlt, dif_pos, hk', hne, if_false, hnlt]
      apply ih1 i hi hix hl
      rcases Nat.lt_trichotomy ((left + right) / 2) i with h | h | h
      · have := sorted_get_lt hs h hi
        rw [hkm, hix] at this; exact absurd this hnlt
      · subst h; rw [hkm] at hix; exact absurd hix hne
      · exact h
    · intro i hfi
      rw [bsearch] at hfi; simp only [hlt, dif_pos, hk', hne, if_false, hnlt] at hfi
      exact ih2 i hfi
    · rw [bsearch]; simp only [hlt, dif_pos, hk', hne, if_false, hnlt]; exact ih3
  | case5 left right hnlt =>
    refine ⟨?_, ?_, ?_⟩
    · intro i hi hix hl hri; omega
    · intro i hfi; rw [bsearch] at hfi; simp [hnlt] at hfi
    · rw [bsearch]; simp [hnlt]

/-- Every tracked path is addressable; an untracked path is never "found". -/
theorem bsearchTop_correct (keys : List Bytes) (hs : SortedKeys keys) (x : Bytes) :
    (∀ i, (h : i < keys.length) → keys[i] = x → bsearchTop keys x = .found i) ∧
    (x ∉ keys → bsearchTop keys x = .notFound) ∧ bsearchTop keys x ≠ .crash := by
  unfold bsearchTop
  by_cases h0 : keys.length = 0
  · have : keys = [] := List.eq_nil_of_length_eq_zero h0
    subst this; simp
  · simp only [h0, if_false]
    obtain ⟨h1, h2, h3⟩ := bsearch_spec keys hs x 0 keys.length (Nat.le_refl _)
    refine ⟨fun i hi hix => h1 i hi hix (Nat.zero_le _) hi, ?_, h3⟩
    intro hx
    cases hres : bsearch keys x 0 keys.length with
    | found i =>
      obtain ⟨hi, hix⟩ := h2 i hres
      exact absurd (hix ▸ List.getElem_mem hi) hx
    | notFound => rfl
    | crash => exact absurd hres h3

