import GoitProofs
import Lean

/-! Prints the axioms every property theorem (every theorem in a namespace `C01` … `C20`) depends on.
    `bin/check` parses this output: an obligation is discharged only if its theorem is listed here and
    its axioms are within {propext, Classical.choice, Quot.sound}. -/

open Lean Elab Command in
#eval show CommandElabM Unit from do
  let env ← getEnv
  let mut names : Array Name := #[]
  for (n, ci) in env.constants.toList do
    if let .thmInfo _ := ci then
      match n.components with
      | ns :: _ :: _ =>
        let s := ns.toString
        if s.length == 3 && s.startsWith "C" && (s.drop 1).all Char.isDigit && !n.isInternal then
          names := names.push n
      | _ => pure ()
  for n in names.qsort (fun a b => a.toString < b.toString) do
    let ax ← liftCoreM (collectAxioms n)
    if ax.isEmpty then
      logInfo m!"'{n}' does not depend on any axioms"
    else
      logInfo m!"'{n}' depends on axioms: {ax.toList.map (·.toString)}"
