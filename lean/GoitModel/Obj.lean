import GoitModel.Fmt
import GoitModel.Sha1

/-! `internal/object/object.go`, `object_type.go`, `internal/sha/sha.go`:
    object header codec, the object store, hash strings. zlib is outside the model: the store maps
    an id to the *decompressed* content of its file. -/

/-- three-valued outcome: Go panics are explicit -/
inductive Res (α : Type) where
  | ok (a : α)
  | err
  | crash
deriving DecidableEq, Repr

namespace Res
def map {α β} (f : α → β) : Res α → Res β
  | ok a => ok (f a) | err => err | crash => crash
def bind {α β} (r : Res α) (f : α → Res β) : Res β :=
  match r with | ok a => f a | err => err | crash => crash
def isOk {α} : Res α → Bool | ok _ => true | _ => false
def ofOption {α} : Option α → Res α | some a => ok a | none => err
instance : Monad Res where
  pure := ok
  bind := bind
end Res

inductive Kind where
  | undefined | blob | tree | commit | tag
deriving DecidableEq, Repr

namespace Kind
/-- `Type.String` -/
def str : Kind → Bytes
  | blob => asc "blob" | tree => asc "tree" | commit => asc "commit" | tag => asc "tag"
  | undefined => asc "undefined"
/-- `NewType` (strict table; "undefined" is rejected) -/
def parse (s : Bytes) : Option Kind :=
  if s = asc "blob" then some blob
  else if s = asc "tree" then some tree
  else if s = asc "commit" then some commit
  else if s = asc "tag" then some tag
  else none
end Kind

namespace Obj

/-- `Object.Header`: `"<kind> <size>\0"` -/
def header (k : Kind) (size : Nat) : Bytes := k.str ++ [32] ++ Dec.ofNat size ++ [0]

/-- the bytes that are hashed and (compressed) stored: `Sprintf("%s %d\x00%s", type, size, data)` -/
def encode (k : Kind) (data : Bytes) : Bytes := header k data.length ++ data

/-- `NewObject(...).Hash` -/
def id (H : HashFn) (k : Kind) (data : Bytes) : Bytes := H.sha (encode k data)

/-- `readHeader` + `io.ReadAll` + the size check of `GetObject`, on decompressed content -/
def decode (content : Bytes) : Option (Kind × Bytes) :=
  -- ReadNullTerminatedString: bytes up to the first NUL or EOF
  let (hdr, rest?) := Bytes.cut1 0 content
  let data := rest?.getD []
  -- strings.SplitN(header, " ", 2)
  match Bytes.cut1 32 hdr with
  | (_, none) => none
  | (ks, some sz) =>
    match Kind.parse ks with
    | none => none
    | some k =>
      match Fmt.sscanfD sz with
      | none => none
      | some n => if (data.length : Int) = n then some (k, data) else none

end Obj

/-- `sha.ReadHash`: the regexp `[0-9a-f]{40}` is **unanchored**, then `hex.DecodeString` of the
    whole string (which accepts upper case and needs even length and only hex digits). -/
def hasLowerHexRun : Nat → Nat → Bytes → Bool
  | need, run, [] => decide (need ≤ run)
  | need, run, c :: cs =>
    if need ≤ run then true
    else if Hex.isLowerHex c then hasLowerHexRun need (run + 1) cs
    else hasLowerHexRun need 0 cs

def readHash (s : Bytes) : Option Bytes :=
  if hasLowerHexRun 40 0 s then Hex.decode? s else none

/-- `SHA1.String` -/
abbrev hashStr (id : Bytes) : Bytes := Hex.encode id

/-! ### the object store -/

/-- id (raw bytes of the file name) → decompressed content of that file -/
abbrev Store := Bytes → Option Bytes

namespace Store

def empty : Store := fun _ => none

/-- `Object.Write`: (over)writes the file named by the object's own hash -/
def put (H : HashFn) (s : Store) (k : Kind) (data : Bytes) : Store :=
  fun i => if i = Obj.id H k data then some (Obj.encode k data) else s i

/-- raw insertion used by the driver to mirror an arbitrary on-disk store -/
def putRaw (s : Store) (id content : Bytes) : Store :=
  fun i => if i = id then some content else s i

/-- `GetObject` (repaired: the computed checksum is compared with the requested id).
    `hash.String()[:2]` panics for an empty id. -/
def get (H : HashFn) (s : Store) (id : Bytes) : Res (Kind × Bytes) :=
  if id = [] then .crash
  else
    match s id with
    | none => .err
    | some content =>
      match Obj.decode content with
      | none => .err
      | some kd => if H.sha content = id then .ok kd else .err

end Store
