import GoitModel.Commit

/-! `internal/store/config.go` and `internal/store/ignore.go`. -/

namespace Config

abbrev KV := List (Bytes × Bytes)
/-- one file's sections; association lists with map semantics (first occurrence wins, updates in place) -/
abbrev Sections := List (Bytes × KV)

def kvSet (k v : Bytes) : KV → KV
  | [] => [(k, v)]
  | (k', v') :: t => if k' = k then (k, v) :: t else (k', v') :: kvSet k v t

def kvGet (k : Bytes) : KV → Option Bytes
  | [] => none
  | (k', v') :: t => if k' = k then some v' else kvGet k t

def secGet (s : Bytes) : Sections → Option KV
  | [] => none
  | (s', kv) :: t => if s' = s then some kv else secGet s t

def secSet (s : Bytes) (kv : KV) : Sections → Sections
  | [] => [(s, kv)]
  | (s', kv') :: t => if s' = s then (s, kv) :: t else (s', kv') :: secSet s kv t

def get (c : Sections) (s k : Bytes) : Option Bytes := (secGet s c).bind (kvGet k)

/-- `identRegexp = ^\[.*\]$` -/
def isIdentLine (l : Bytes) : Bool :=
  match l with
  | 91 :: _ => decide (2 ≤ l.length) && l.getLast? == some 93
  | _ => false

/-- `Config.load` line loop (repaired: `SplitN(…, "=", 2)`; a blank line is skipped; a line without
    `=` or a key line outside any section is an error instead of a panic) -/
def loadLines : Sections → Option Bytes → List Bytes → Option Sections
  | c, _, [] => some c
  | c, ident, l :: ls =>
    if isIdentLine l then
      if l.length ≤ 2 then none
      else
        let id := (l.drop 1).dropLast
        loadLines (secSet id [] c) (some id) ls      -- a repeated header starts the section afresh
    else
      let t := Bytes.removeByte 9 l
      if Bytes.trimSpace t = [] then loadLines c ident ls
      else
        match Bytes.cut1 61 t with
        | (_, none) => none
        | (k, some v) =>
          match ident with
          | none => none
          | some id =>
            match secGet id c with
            | none => none
            | some kv => loadLines (secSet id (kvSet (Bytes.trimSpace k) (Bytes.trimSpace v) kv) c) ident ls

def parse (file : Bytes) : Option Sections := loadLines [] none (Bytes.scanLines file)

/-- `Config.Write` for one file (map iteration order is unspecified in Go; files are compared as maps) -/
def render (c : Sections) : Bytes :=
  (c.map fun (s, kv) =>
    [91] ++ s ++ [93, 10] ++ (kv.map fun (k, v) => [9] ++ k ++ asc " = " ++ v ++ [10]).flatten).flatten

/-- `Config.Add` -/
def add (c : Sections) (s k v : Bytes) : Sections :=
  match secGet s c with
  | some kv => secSet s (kvSet k v kv) c
  | none => secSet s [(k, v)] c

/-- `GetUserName` / `GetEmail`: local first, then global, else "" -/
def userField (loc glob : Sections) (k : Bytes) : Bytes :=
  match get loc (asc "user") k with
  | some v => v
  | none => (get glob (asc "user") k).getD []

/-- `IsUserSet` -/
def isUserSet (loc glob : Sections) : Bool :=
  let has (k : Bytes) := (get loc (asc "user") k).isSome || (get glob (asc "user") k).isSome
  ((secGet (asc "user") loc).isSome || (secGet (asc "user") glob).isSome) && has (asc "name") && has (asc "email")

/-- `config <section>.<key>`: exactly one dot -/
def splitKey (a : Bytes) : Option (Bytes × Bytes) :=
  match Bytes.split1 46 a with
  | [s, k] => some (s, k)
  | _ => none

end Config

namespace Ignore

inductive Tok where
  | lit (c : UInt8)
  | any                 -- `.`
  | star                -- `.*`
deriving DecidableEq, Repr

/-- leftmost-anywhere search is `search`; this is the anchored-at-start matcher -/
def matchHere : List Tok → Bytes → Bool
  | [], _ => true
  | .lit c :: ts, x :: xs => x == c && matchHere ts xs
  | .any :: ts, x :: xs => x != 10 && matchHere ts xs
  | .star :: ts, [] => matchHere ts []
  | .star :: ts, x :: xs => matchHere ts (x :: xs) || (x != 10 && matchHere (.star :: ts) xs)
  | _ :: _, [] => false
termination_by ts s => ts.length + s.length

def search (pat : List Tok) : Bytes → Bool
  | [] => matchHere pat []
  | s@(_ :: t) => matchHere pat s || search pat t

/-- the line is in the modelled domain: printable ASCII (the pattern is quoted, so every character
    except `*` in a non-directory line is literal) -/
def lineOK (l : Bytes) : Bool := l.all (fun c => 32 ≤ c && c ≤ 126)

/-- `Ignore.load` per line (repaired: the text is quoted with `regexp.QuoteMeta`): a line containing
    `/` becomes `<literal line>.*`; otherwise every `*` becomes `.*` and the rest is literal -/
def compile (l : Bytes) : List Tok :=
  if List.elem (47 : UInt8) l then l.map (fun c => Tok.lit c) ++ [.star]
  else l.map (fun c => if c = 42 then .star else .lit c)

def metaPrefix : Bytes := asc ".goit/"

/-- built-in entry (repaired: anchored at the start of the path) -/
def isMeta (target : Bytes) : Bool := Bytes.hasPrefix target metaPrefix

/-- `Ignore.IsIncluded` once the target string (with or without trailing `/`) is known -/
def matchesTarget (lines : List Bytes) (target : Bytes) : Bool :=
  isMeta target || lines.any (fun l => search (compile l) target)

/-- the target string: a trailing `/` is added for an existing directory whose path has no `/`,
    or for a missing path that is a tracked directory -/
def target (path : Bytes) (existsOnDisk isDirOnDisk trackedDir : Bool) : Bytes :=
  if !existsOnDisk then (if trackedDir then path ++ [47] else path)
  else if isDirOnDisk && !List.elem (47 : UInt8) path then path ++ [47] else path

/-- (repaired: a blank line is not an entry) -/
def lines (file : Option Bytes) : List Bytes :=
  match file with | none => [] | some f => (Bytes.scanLines f).filter (fun l => l ≠ [])

end Ignore
