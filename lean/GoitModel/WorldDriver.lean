import GoitModel.World

/-! Line protocol for the whole-repository model (`GoitModel/World.lean`): `w.reset`, `w.load`, `w.work`,
    `w.x`, `w.full`. The model keeps its own `World` between lines. Not mentioned by any theorem. -/

namespace WorldDriver

open W

def hexStr (b : Bytes) : String := String.ofList ((Hex.encode b).map (fun c => Char.ofNat c.toNat))
def hexOut (b : Bytes) : String := if b.isEmpty then "-" else hexStr b
def unhex (s : String) : Bytes := if s == "-" then [] else (Hex.decode? (asc s)).getD []
def listOut (xs : List String) : String := if xs.isEmpty then "-" else ",".intercalate xs
def splitList (s : String) : List String := if s == "-" then [] else s.splitOn ","
def optOut : Option Bytes → String | none => "none" | some b => hexOut b
def optIn (s : String) : Option Bytes := if s == "none" then none else some (unhex s)

def pairIn (s : String) : Bytes × Bytes :=
  match s.splitOn ":" with
  | [a, b] => (unhex a, unhex b)
  | _ => ([], [])
def pairsIn (s : String) : List (Bytes × Bytes) := (splitList s).map pairIn

def sortPairs (ps : List (Bytes × Bytes)) : List (Bytes × Bytes) := ps.mergeSort (fun a b => decide (a.1 ≤ b.1))
def sortB (l : List Bytes) : List Bytes := (l.mergeSort (fun a b => decide (a ≤ b))).eraseDups
def pairsOut (ps : List (Bytes × Bytes)) : String := listOut ((sortPairs ps).map fun p => hexOut p.1 ++ ":" ++ hexOut p.2)

def sectionsOut (c : Config.Sections) : String :=
  listOut ((c.mergeSort (fun a b => decide (a.1 ≤ b.1))).map fun (s, kv) =>
    hexOut s ++ "=" ++ "+".intercalate ((sortPairs kv).map fun (k, v) => hexOut k ++ ":" ++ hexOut v))

/-- order-insensitive reading of a configuration file (`Config.Write` emits sections and keys in Go's map order):
    the non-empty lines are grouped into blocks, each opened by a line that starts with `[`; the lines of a block are
    sorted, the blocks are sorted; both sides of the comparison compute this same function of the raw bytes -/
def cfgBlocks (raw : Bytes) : List (Bytes × List Bytes) :=
  let step (acc : List (Bytes × List Bytes)) (l : Bytes) : List (Bytes × List Bytes) :=
    if l.head? == some 91 then (l, []) :: acc
    else match acc with
      | (h, ls) :: rest => (h, l :: ls) :: rest
      | [] => [([], [l])]
  (((Bytes.split1 10 raw).filter (· ≠ [])).foldl step []).map fun (h, ls) => (h, ls.mergeSort (fun a b => decide (a ≤ b)))

def cfgOut : Option Bytes → String
  | none => "none"
  | some raw =>
    listOut (((cfgBlocks raw).mergeSort (fun a b => decide (a.1 ≤ b.1 ∧ (a.1 = b.1 → a.2 ≤ b.2)))).map fun (h, ls) =>
      hexOut h ++ "=" ++ "+".intercalate (ls.map hexOut))

def entryIn (s : String) : Entry :=
  match s.splitOn ":" with
  | [a, b] => ⟨unhex a, unhex b⟩
  | _ => ⟨[], []⟩

/-- the fields of the canonical dump -/
def fields (w : World) : List (String × String) :=
  [("N", if w.inited then "1" else "0"),
   ("H", optOut w.head),
   ("B", pairsOut w.heads),
   ("I", match w.index with | none => "none" | some es => hexOut (IndexFile.encode { entries := es })),
   ("J", listOut ((sortB (w.objs.map (·.1))).map hexStr)),
   ("LH", optOut w.logHead),
   ("LB", pairsOut w.logHeads),
   ("CL", cfgOut w.cfgLocal),
   ("CG", cfgOut w.cfgGlobal),
   ("F", pairsOut w.files),
   ("D", listOut ((sortB w.dirs).map hexOut))]

/-- long values are replaced by their SHA-1 (the harness does the same); `w.full` prints them in full -/
def squash (v : String) : String :=
  if v.length > 64 then "#" ++ hexStr (sha1Fn.sha v.toUTF8.toList) else v

def dump (full : Bool) (w : World) : String :=
  " ".intercalate ((fields w).map fun (k, v) => k ++ "=" ++ (if full then v else squash v))

def outStr : Out → String
  | .ok none => "R=ok O=none"
  | .ok (some b) => "R=ok O=" ++ squash (hexOut b)
  | .err => "R=error O=none"
  | .crash => "R=crash O=none"
  | .unsupported => "R=unsupported O=none"

/-! ### argv → `Cmd` (the flag spellings the generator uses; anything else is `none` = unsupported) -/

def isFlag (a : Bytes) : Bool := a.head? == some 45

def plainInt (s : Bytes) : Option Int :=
  let (neg, ds) := match s with | 45 :: r => (true, r) | 43 :: r => (false, r) | r => (false, r)
  if ds.isEmpty || !ds.all Dec.isDigit || (ds.length > 1 && ds.head? == some 48) || ds.length > 18 then none
  else some (if neg then -(Dec.value ds : Int) else (Dec.value ds : Int))

structure Parsed where
  pos   : List Bytes := []
  flags : List Bytes := []                 -- boolean flags seen
  vals  : List (Bytes × Bytes) := []       -- valued flags seen

/-- scan with the given boolean and valued flag names (each with its aliases mapped to one name) -/
def scan (bools : List (Bytes × Bytes)) (valued : List (Bytes × Bytes)) : List Bytes → Parsed → Option Parsed
  | [], p => some p
  | a :: rest, p =>
    if isFlag a then
      match aget bools a, aget valued a with
      | some n, _ => scan bools valued rest { p with flags := n :: p.flags }
      | none, some n =>
        match rest with
        | v :: rest' => scan bools valued rest' { p with vals := (n, v) :: p.vals }
        | [] => none
      | none, none => none
    else scan bools valued rest { p with pos := p.pos ++ [a] }

def Parsed.has (p : Parsed) (n : String) : Bool := p.flags.contains (asc n)
def Parsed.val (p : Parsed) (n : String) : Bytes := (aget p.vals (asc n)).getD []

def al (xs : List (String × String)) : List (Bytes × Bytes) := xs.map fun (a, b) => (asc a, asc b)

def parseArgv : List Bytes → Option Cmd
  | [] => none
  | c :: rest =>
    let name := String.ofList (c.map fun b => Char.ofNat b.toNat)
    let plain (k : List Bytes → Cmd) : Option Cmd := if rest.any isFlag then none else some (k rest)
    let none0 (k : Cmd) : Option Cmd := if rest.isEmpty then some k else none
    match name with
    | "init" => none0 .init
    | "add" => plain .add
    | "rm" => plain .rm
    | "update-ref" => plain .updateRef
    | "hash-object" => plain .hashObject
    | "rev-parse" => plain .revParse
    | "status" => none0 .status
    | "reflog" => none0 .reflog
    | "write-tree" => none0 .writeTree
    | "commit" =>
      match rest with
      | [] => some (.commit [])
      | [f, m] => if f == asc "-m" || f == asc "--message" then some (.commit m) else none
      | _ => none
    | "log" =>
      match rest with
      | [] => some (.log 5)
      | [f, k] => if f == asc "-n" || f == asc "--max-count" then (plainInt k).map .log else none
      | _ => none
    | "ls-files" =>
      match rest with
      | [] => some (.lsFiles false)
      | [f] => if f == asc "-s" || f == asc "--staged" then some (.lsFiles true) else none
      | _ => none
    | "branch" =>
      (scan (al [("-l", "l"), ("--list", "l")]) (al [("-r", "r"), ("--rename", "r"), ("-d", "d"), ("--delete", "d")]) rest {}).bind fun p =>
        if p.vals.length > 1 && (p.vals.map (·.1)).eraseDups.length != p.vals.length then none
        else some (.branch p.pos (p.has "l") (p.val "r") (p.val "d"))
    | "switch" =>
      (scan [] (al [("-c", "c"), ("--create", "c")]) rest {}).bind fun p =>
        if p.vals.length > 1 then none else some (.switch p.pos (p.val "c"))
    | "reset" =>
      (scan (al [("--soft", "s"), ("--mixed", "m"), ("--hard", "h")]) [] rest {}).map fun p =>
        .reset (p.has "s") true (p.has "h") p.pos
    | "restore" =>
      (scan (al [("--staged", "s")]) [] rest {}).map fun p => .restore (p.has "s") p.pos
    | "config" =>
      (scan (al [("--global", "g")]) [] rest {}).map fun p => .config (p.has "g") p.pos
    | "cat-file" =>
      (scan (al [("-t", "t"), ("--type", "t"), ("-p", "p"), ("--print", "p")]) [] rest {}).map fun p =>
        .catFile (p.has "t") (p.has "p") p.pos
    | _ => none

structure St where
  world : World := {}
  known : List (Bytes × Bytes) := []     -- every object content the harness has sent or the model has produced

/-- Goit's own files only (the working tree is handed over before every invocation anyway) -/
def goitDump (w : World) : String :=
  " ".intercalate (((fields w).filter fun (k, _) => k != "F" && k != "D").map fun (k, v) => k ++ "=" ++ squash v)

def argIn (s : String) : Bytes := unhex (if s.startsWith "x" then (s.drop 1).toString else s)

def H := sha1Fn

def step (s : St) (line : String) : St × String :=
  match line.trimAscii.toString.splitOn " " with
  | ["w.reset"] => ({ world := {}, known := [] }, "ok")
  | ["w.sync", n, h, b, ix, jids, jnew, lh, lb, cl, cg] =>
    -- the observed state before the next invocation: kept aside when the model's own state already agrees
    let fresh : List (Bytes × Bytes) := (if jnew == "-" then [] else jnew.splitOn ";").filterMap fun x =>
      match x.splitOn "=" with
      | [i, c] => some (unhex i, unhex c)
      | _ => none
    let known := fresh ++ s.world.objs ++ s.known
    let objs : List (Bytes × Bytes) := (splitList jids).filterMap fun i => (aget known (unhex i)).map fun c => (unhex i, c)
    let cand : World := { s.world with
      inited := n == "1", head := optIn h, heads := pairsIn b,
      index := if ix == "none" then none else some ((splitList ix).map entryIn),
      objs := objs, logHead := optIn lh, logHeads := pairsIn lb, cfgLocal := optIn cl, cfgGlobal := optIn cg }
    if goitDump cand == goitDump s.world then ({ s with known := fresh ++ s.known }, "carried")
    else ({ world := cand, known := known.eraseDups }, "loaded")
  | ["w.load", n, h, b, ix, j, lh, lb, cl, cg] =>
    let objs : List (Bytes × Bytes) := (if j == "-" then [] else j.splitOn ";").filterMap fun x =>
      match x.splitOn "=" with
      | [i, c] => some (unhex i, unhex c)
      | _ => none
    let w : World := { s.world with
      inited := n == "1", head := optIn h, heads := pairsIn b,
      index := if ix == "none" then none else some ((splitList ix).map entryIn),
      objs := objs, logHead := optIn lh, logHeads := pairsIn lb, cfgLocal := optIn cl, cfgGlobal := optIn cg }
    ({ s with world := w }, "ok")
  | ["w.work", f, d] => ({ s with world := { s.world with files := pairsIn f, dirs := (splitList d).map unhex } }, "ok")
  | ["w.x", tz, ts, args] =>
    match parseArgv ((splitList args).map argIn) with
    | none => (s, "R=unsupported O=none " ++ dump false s.world)
    | some cmd =>
      let inv : Inv := ⟨cmd, tz.toInt?.getD 0, (splitList ts).map fun t => t.toInt?.getD 0⟩
      let (w', out) := run H s.world inv
      ({ s with world := w' }, outStr out ++ " " ++ dump false w')
  | ["w.full"] => (s, dump true s.world)
  | _ => (s, "bad-op")

end WorldDriver
