import GoitModel.Cmds
import GoitModel.CmdsConfig

/-! The whole repository as one value, and one `goit` invocation as one function on it.

    `World` is what the independent observer sees: the object store, every file under `refs/heads`, `HEAD`,
    the staging area, the logs, the two configuration files and the working tree. `run` composes the
    function-level and command-level models (`Refs`, `Head`, `Reflog`, `Config`, `IndexOps`, `TreeBuild`,
    `Commit`, `Cmds.*`) into the complete effect of every sub-command of `cmd/*.go`, including the start-up
    load of `cmd/root.go` and the effects that remain when a command fails half-way. The model carries its
    own state from one invocation to the next; the harness compares the full state after every step of
    every generated history (`w.x` lines of the driver).

    Outside the modelled domain (answered `unsupported`, counted in the evidence, and the model state is
    re-synchronised from the observation): tracked paths occupied by directories, work-tree conflicts
    between a file and a directory of one name during `restore`/`reset --hard`, `.goitignore` lines with
    non-printable bytes, flag spellings other than the ones listed in `parseArgv`, invocations before `init`
    in a directory that holds files named like Goit's own, configuration files holding Unicode white space (Go's
    `TrimSpace` is modelled for ASCII). The clock is an input (`ts`). -/

namespace W

/-! ### association lists -/

def aget (l : List (Bytes × Bytes)) (k : Bytes) : Option Bytes := (l.find? (fun p => p.1 == k)).map (·.2)
def adel (l : List (Bytes × Bytes)) (k : Bytes) : List (Bytes × Bytes) := l.filter (fun p => p.1 != k)
def aset (l : List (Bytes × Bytes)) (k v : Bytes) : List (Bytes × Bytes) := (k, v) :: adel l k

structure World where
  inited    : Bool := false
  objs      : List (Bytes × Bytes) := []      -- object id → decompressed content of the file
  heads     : List (Bytes × Bytes) := []      -- refs/heads/<name> → raw content
  head      : Option Bytes := none            -- HEAD, raw
  index     : Option (List Entry) := none     -- the staging file (`none`: no file yet)
  logHead   : Option Bytes := none            -- logs/HEAD
  logHeads  : List (Bytes × Bytes) := []      -- logs/refs/heads/<name>
  cfgLocal  : Option Bytes := none
  cfgGlobal : Option Bytes := none
  files     : List (Bytes × Bytes) := []      -- working tree (outside .goit): path → bytes
  dirs      : List Bytes := []                -- working-tree directories
deriving Repr

inductive Out where
  | ok (stdout : Option Bytes)   -- `some` when the text is compared with the real command's
  | err
  | crash
  | unsupported
deriving Repr, DecidableEq

inductive Cmd where
  | init
  | add (args : List Bytes)
  | rm (args : List Bytes)
  | commit (msg : Bytes)
  | branch (args : List Bytes) (list : Bool) (ren del : Bytes)      -- `[]` = option absent
  | switch (args : List Bytes) (create : Bytes)
  | reset (soft mixed hard : Bool) (args : List Bytes)
  | restore (staged : Bool) (args : List Bytes)
  | updateRef (args : List Bytes)
  | config (global : Bool) (args : List Bytes)
  | status | log (n : Int) | reflog
  | lsFiles (staged : Bool)
  | catFile (t p : Bool) (args : List Bytes)
  | hashObject (args : List Bytes)
  | revParse (args : List Bytes)
  | writeTree
deriving Repr

/-- one process run: the command, the zone offset (seconds east), the readings of the clock in the order
    the command takes them -/
structure Inv where
  cmd : Cmd
  tz  : Int := 0
  ts  : List Int := []

def store (w : World) : Store := fun i => aget w.objs i

/-- `Object.Write`: an object that is already stored is not touched -/
def putObj (w : World) (id content : Bytes) : World :=
  if (aget w.objs id).isSome then w else { w with objs := (id, content) :: w.objs }

def putObjs (w : World) (os : List (Bytes × Bytes)) : World := os.foldl (fun w o => putObj w o.1 o.2) w

def putBlob (H : HashFn) (w : World) (data : Bytes) : World := putObj w (Obj.id H .blob data) (Obj.encode .blob data)

def treeDepth : Nat := 18446744073709551616   -- 2^64: nesting is bounded by the address space, not by the model

/-- a stored commit, read the way `getHeadCommit` / `Head.Reset` read it -/
def commitAt (H : HashFn) (w : World) (id : Bytes) : Option Commit :=
  match Store.get H (store w) id with
  | .ok (.commit, d) => Commit.parse d
  | _ => none

/-- the entries of a stored tree (`GetObject`, `NewTree`, `getEntriesFromTree`) -/
def treeEntries (H : HashFn) (w : World) (t : Bytes) : Option (List Entry) :=
  match Store.get H (store w) t with
  | .ok (k, d) => (TreeCodec.newTree H (store w) treeDepth k d).map flattenTree
  | _ => none

/-! ### start-up (`cmd/root.go`) -/

structure Loaded where
  loc  : Config.Sections
  glob : Config.Sections
  idx  : List Entry
  ref  : Bytes                          -- `Head.Reference`
  headCommit : Option (Bytes × Commit)  -- `Head.Commit`
  refs : Refs.Heads

/-- `NewHead` -/
def loadHead (H : HashFn) (w : World) : Option (Bytes × Option (Bytes × Commit)) :=
  match w.head with
  | none => some ([], none)
  | some h =>
    match Head.parse h with
    | none => none
    | some b =>
      if List.elem (0 : UInt8) b then none else      -- a NUL in the path: `os.Stat` fails with EINVAL, the branch cannot be read
      match aget w.heads b with
      | none =>
        -- a name with `/` below an existing branch *file*: `os.Stat` fails with ENOTDIR, which is not "does not exist"
        if (Cmds.dirPrefixes b).any (fun p => (aget w.heads p).isSome) then none else some (b, none)
      | some raw =>
        match readHash raw with
        | none => none
        | some id => (commitAt H w id).map fun c => (b, some (id, c))

def load (H : HashFn) (w : World) : Option Loaded :=
  match Cmds.cfgOf w.cfgLocal, Cmds.cfgOf w.cfgGlobal, loadHead H w, Refs.load w.heads with
  | some loc, some glob, some (b, hc), some refs => some ⟨loc, glob, w.index.getD [], b, hc, refs⟩
  | _, _, _, _ => none

def userName (l : Loaded) : Bytes := Config.userField l.loc l.glob (asc "name")
def userEmail (l : Loaded) : Bytes := Config.userField l.loc l.glob (asc "email")

/-- one reflog line as the commands write it -/
def recLine (l : Loaded) (kind : Reflog.RecKind) (frm to : Option Bytes) (t tz : Int) (msg : Bytes) : Bytes :=
  Reflog.format ⟨kind, frm, to, userName l, userEmail l, t, tz, msg⟩

def appendLogHead (w : World) (line : Bytes) : World := { w with logHead := some (w.logHead.getD [] ++ line) }
def appendLogBranch (w : World) (b line : Bytes) : World :=
  { w with logHeads := aset w.logHeads b ((aget w.logHeads b).getD [] ++ line) }

def clock (ts : List Int) (i : Nat) : Int := ts.getD i 0

/-! ### the working tree -/

def ignoreFile (w : World) : Option Bytes := aget w.files (asc ".goitignore")

/-- the `.goitignore` in force is inside the modelled language -/
def ignoreOK (w : World) : Bool :=
  (Ignore.lines (ignoreFile w)).all Ignore.lineOK && !w.dirs.contains (asc ".goitignore")

def ws (w : World) (l : Loaded) (snap : List Entry) : Cmds.WS :=
  ⟨l.idx, w.files, w.dirs, ignoreFile w, snap, l.headCommit.isSome⟩

/-- a file can be created at `p`: `p` is not a directory and no parent of `p` is a file -/
def writable (w : World) (p : Bytes) : Bool :=
  !w.dirs.contains p && (Cmds.dirPrefixes p).all (fun d => (aget w.files d).isNone)

def addDirs (ds : List Bytes) (new : List Bytes) : List Bytes := new.foldl (fun acc d => if acc.contains d then acc else acc ++ [d]) ds

/-- `MkdirAll(parent)`, `Create`, `Write` -/
def writeFile (w : World) (p data : Bytes) : World :=
  { w with files := aset w.files p data, dirs := addDirs w.dirs (Cmds.dirPrefixes p) }

/-- write the staged blobs of `es` into the working tree, stopping at the first one that cannot be
    written: `(all written?, inside the model?, world)` -/
def writeEntries (H : HashFn) : World → List Entry → Bool × Bool × World
  | w, [] => (true, true, w)
  | w, e :: es =>
    match Store.get H (store w) e.id with
    | .ok (_, data) => if writable w e.path then writeEntries H (writeFile w e.path data) es else (false, false, w)
    | _ => (false, true, w)

/-! ### `add` -/

structure AddR where
  ok    : Bool
  crash : Bool := false
  idx   : List Entry
  blobs : List Bytes          -- contents handed to `add()`, in order

/-- the loop of `goit add` with what it leaves behind when it stops at an argument
    (mirrors `Cmds.addArgs`, which keeps only the successful result) -/
def addArgsP (H : HashFn) (w : Cmds.WS) : List Bytes → List Entry → List Bytes → AddR
  | [], idx, bs => ⟨true, false, idx, bs⟩
  | a :: rest, idx, bs =>
    let p := Cmds.cleanPath a
    if Cmds.ignored { w with index := idx } p then addArgsP H w rest idx bs
    else if !Cmds.existsOnDisk w p then
      match IndexOps.delete idx p with
      | .ok idx' => addArgsP H w rest idx' bs
      | .err => ⟨false, false, idx, bs⟩
      | .crash => ⟨false, true, idx, bs⟩
    else if Cmds.isDirOnDisk w p then
      let fs := (Cmds.filesUnder w p).filter fun f => !Cmds.ignored { w with index := idx } f.1
      match fs.foldl (fun (acc : Res (List Entry)) f => acc.bind fun i => Cmds.addOne H i f.1 f.2) (Res.ok idx) with
      | .ok idx' => addArgsP H w rest idx' (bs ++ fs.map (·.2))
      | .err => ⟨false, false, idx, bs⟩
      | .crash => ⟨false, true, idx, bs⟩
    else
      match Cmds.fileAt w p with
      | some data =>
        match Cmds.addOne H idx p data with
        | .ok idx' => addArgsP H w rest idx' (bs ++ [data])
        | .err => ⟨false, false, idx, bs⟩
        | .crash => ⟨false, true, idx, bs⟩
      | none => ⟨false, false, idx, bs⟩

def setIndexIfChanged (w : World) (old new : List Entry) : World :=
  if new = old then w else { w with index := some new }

def addCmd (H : HashFn) (w : World) (l : Loaded) (args : List Bytes) : World × Out :=
  if !ignoreOK w then (w, .unsupported) else
  let s := ws w l []
  if args.isEmpty then (w, .err)
  else if !(args.all fun a => Cmds.existsOnDisk s (Cmds.cleanPath a) || IndexOps.found l.idx (Cmds.cleanPath a)) then (w, .err)
  else
    let r := addArgsP H s args l.idx []
    let w1 := r.blobs.foldl (putBlob H) w
    let w2 := setIndexIfChanged w1 l.idx r.idx
    (w2, if r.crash then .crash else if r.ok then .ok none else .err)

/-! ### `rm` -/

/-- the loop of `goit rm`: `(completed?, staging area, paths removed from the working tree)` -/
def rmArgsP : List Bytes → List Entry → List Bytes → Bool × List Entry × List Bytes
  | [], idx, removed => (true, idx, removed)
  | a :: rest, idx, removed =>
    let p := Cmds.cleanPath a
    let wasDir := IndexOps.isDir idx p
    let beneath := if wasDir then (IndexOps.byDir idx p).map (·.path) else []
    let idx1 := idx.filter fun e => !beneath.contains e.path
    let reg := IndexOps.found idx1 p
    if !reg && !wasDir then (false, idx1, removed ++ beneath)
    else
      let idx2 := if reg then idx1.filter (fun e => e.path != p) else idx1
      rmArgsP rest idx2 (removed ++ beneath ++ (if reg then [p] else []))

def rmCmd (w : World) (l : Loaded) (args : List Bytes) : World × Out :=
  if !(args.all fun a => IndexOps.found l.idx (Cmds.cleanPath a) || IndexOps.isDir l.idx (Cmds.cleanPath a)) then (w, .err)
  else
    let (ok, idx', removed) := rmArgsP args l.idx []
    -- `os.Remove` of a path that is a directory now: outside the model
    if removed.any (fun p => w.dirs.contains p) then (w, .unsupported)
    else
      let w1 := { w with files := w.files.filter (fun f => !removed.contains f.1) }
      (setIndexIfChanged w1 l.idx idx', if ok then .ok none else .err)

/-! ### `restore` -/

/-- working-tree form: one argument after the other; an unknown argument stops the command and keeps
    what the earlier ones did -/
def restoreWorkP (H : HashFn) (idx : List Entry) : World → List Bytes → World × Out
  | w, [] => (w, .ok none)
  | w, a :: rest =>
    let p := Cmds.cleanPath a
    let reg := IndexOps.found idx p
    let asDir := IndexOps.isDir idx p
    if !(reg || asDir) then (w, .err)
    else
      let here := if asDir then IndexOps.byDir idx p else idx.filter (fun e => e.path == p)
      match writeEntries H w here with
      | (true, _, w') => restoreWorkP H idx w' rest
      | (false, true, w') => (w', .err)
      | (false, false, w') => (w', .unsupported)

def headSnap (H : HashFn) (w : World) (l : Loaded) : Res (List Entry) :=
  match l.headCommit with
  | none => .err
  | some (_, c) =>
    match c.tree with
    | none => .crash
    | some t => Res.ofOption (treeEntries H w t)

def restoreCmd (H : HashFn) (w : World) (l : Loaded) (staged : Bool) (args : List Bytes) : World × Out :=
  if args.isEmpty then (w, .err)
  else if !staged then restoreWorkP H l.idx w args
  else if (aget w.heads l.ref).isNone then (w, .err)
  else
    match headSnap H w l with
    | .crash => (w, .unsupported)
    | .err => (w, .err)
    | .ok snap =>
      let r := Cmds.restoreStagedArgs snap args l.idx
      (setIndexIfChanged w l.idx r.2, if r.1 then .ok none else .err)

/-! ### `commit` -/

def commitIn (w : World) (l : Loaded) (snap : Option (List Entry)) (msg : Bytes) (tz t : Int) : Cmds.CommitIn :=
  ⟨l.idx, snap, aget w.heads l.ref, !w.heads.isEmpty, w.cfgLocal, w.cfgGlobal, t, tz, msg⟩

/-- `commit()` was entered (the trees are written even when the commit object is then rejected) -/
def commitReached (H : HashFn) (ci : Cmds.CommitIn) (l : Loaded) : Bool :=
  Config.isUserSet l.loc l.glob &&
    (if !ci.anyBranches then !ci.index.isEmpty
     else match ci.snap with
       | none => false
       | some sn =>
         match IndexOps.diffWithTree ci.index (TreeBuild.build H (TreeBuild.fuelFor sn) sn) with
         | .ok [] => false
         | .ok _ => true
         | _ => false)

def setHead (w : World) (b : Bytes) : World := { w with head := some (Head.render b) }

/-- what `commit()` writes once the commit object `(id, data)` is made: the trees, the object, the branch, the logs, HEAD -/
def commitWrite (H : HashFn) (w : World) (l : Loaded) (id data msg : Bytes) (tz : Int) (ts : List Int) : World × Out :=
  let w1 := putObj (putObjs w (TreeBuild.writeTree H l.idx).writes.reverse) id (Obj.encode .commit data)
  let exists_ := Refs.exists_ l.refs l.ref
  if !exists_ && !Refs.validName l.ref then (w1, .err)
  else
    let frm := if exists_ then l.headCommit.map (·.1) else none
    let w2 := { w1 with heads := aset w1.heads l.ref (hashStr id) }
    let line := recLine l .commit frm (some id) (clock ts 1) tz msg
    let w3 := appendLogBranch (appendLogHead w2 line) l.ref line
    if w.head.isNone then (w3, .err) else (setHead w3 l.ref, .ok none)      -- `Head.Update` needs the HEAD file (w3.head = w.head)

def commitCmd (H : HashFn) (w : World) (l : Loaded) (msg : Bytes) (tz : Int) (ts : List Int) : World × Out :=
  let snapR : Res (Option (List Entry)) :=
    if l.headCommit.isNone then .ok none else (headSnap H w l).map some
  match snapR with
  | .crash => (w, .unsupported)
  | .err => if !Config.isUserSet l.loc l.glob || w.heads.isEmpty then (w, .unsupported) else (w, .err)
  | .ok snap =>
    let ci := commitIn w l snap msg tz (clock ts 0)
    match Cmds.commitCmd H ci with
    | .crash => (w, .crash)
    | .err => if commitReached H ci l then (putObjs w (TreeBuild.writeTree H l.idx).writes.reverse, .err) else (w, .err)
    | .ok (id, data) => commitWrite H w l id data msg tz ts

/-! ### `branch`, `switch`, `update-ref` -/

/-- `branch <n>`: a new branch at HEAD's commit -/
def branchCreate (w : World) (l : Loaded) (n : Bytes) (tz : Int) (ts : List Int) : World × Out :=
  match l.headCommit with
  | none => (w, .err)
  | some (id, _) =>
    match Refs.add l.refs n id with
    | .err => (w, .err)
    | .crash => (w, .crash)
    | .ok _ =>
      let w1 := { w with heads := aset w.heads n (hashStr id) }
      (appendLogBranch w1 n (recLine l .branch none (some id) (clock ts 0) tz (asc "Created from " ++ l.ref)), .ok none)

/-- `branch -r <new>`: the current branch under a new name (new file, HEAD, old file removed, logs) -/
def branchRename (w : World) (l : Loaded) (ren : Bytes) (tz : Int) (ts : List Int) : World × Out :=
  match Refs.rename l.refs l.ref ren, l.headCommit with
  | .err, _ => (w, .err)
  | .crash, _ => (w, .crash)
  | .ok _, none => (w, .unsupported)
  | .ok _, some (id, _) =>
    if w.head.isNone || (aget w.logHeads l.ref).isNone then (w, .unsupported) else
    let w1 := setHead { w with heads := adel (aset w.heads ren (hashStr id)) l.ref } ren
    let m1 := asc "renamed refs/heads/" ++ l.ref ++ asc " to refs/heads/" ++ ren
    let w2 := appendLogHead (appendLogHead w1 (recLine l .branch (some id) none (clock ts 0) tz m1))
                (recLine l .branch none (some id) (clock ts 1) tz m1)
    let w3 := { w2 with logHeads := adel w2.logHeads l.ref }
    let w4 := appendLogBranch w3 ren (recLine l .branch none (some id) (clock ts 2) tz (asc "Created from " ++ l.ref))
    (appendLogBranch w4 ren (recLine l .branch (some id) (some id) (clock ts 3) tz
        (asc "renamed refs/heads/" ++ l.ref ++ asc " refs/heads/" ++ ren)), .ok none)

/-- `branch -d <name>` -/
def branchDelete (w : World) (l : Loaded) (del : Bytes) : World × Out :=
  match Refs.delete l.refs l.ref del with
  | .err => (w, .err)
  | .crash => (w, .crash)
  | .ok _ =>
    if (aget w.logHeads del).isNone then (w, .unsupported)
    else ({ w with heads := adel w.heads del, logHeads := adel w.logHeads del }, .ok none)

def branchCmd (w : World) (l : Loaded) (args : List Bytes) (list : Bool) (ren del : Bytes) (tz : Int) (ts : List Int) : World × Out :=
  let valid := (args.length == 1 && !list && ren.isEmpty && del.isEmpty) || (args.isEmpty && list && ren.isEmpty && del.isEmpty) ||
    (args.isEmpty && !list && !ren.isEmpty && del.isEmpty) || (args.isEmpty && !list && ren.isEmpty && !del.isEmpty)
  if !valid then (w, .err)
  else
    match args with
    | [n] => branchCreate w l n tz ts
    | _ =>
      if list then
        (w, .ok (some ((l.refs.map fun b => (if b.1 == l.ref then asc "* " else []) ++ b.1 ++ [10]).flatten)))
      else if !ren.isEmpty then branchRename w l ren tz ts
      else branchDelete w l del

/-- `switch <n>` -/
def switchTo (H : HashFn) (w : World) (l : Loaded) (n : Bytes) (tz : Int) (ts : List Int) : World × Out :=
  if !Refs.exists_ l.refs n || w.head.isNone then (w, .err)
  else
    match (Refs.lookup l.refs n).bind fun id => (commitAt H w id).map fun _ => id with
    | none => (w, .unsupported)
    | some id =>
      (appendLogHead (setHead w n) (recLine l .checkout (some id) (some id) (clock ts 0) tz
        (asc "moving from " ++ l.ref ++ asc " to " ++ n)), .ok none)

/-- `switch -c <n>` -/
def switchCreate (w : World) (l : Loaded) (create : Bytes) (tz : Int) (ts : List Int) : World × Out :=
  match l.headCommit with
  | none => (w, .err)
  | some (id, _) =>
    match Refs.add l.refs create id with
    | .err => (w, .err)
    | .crash => (w, .crash)
    | .ok _ =>
      if w.head.isNone then (w, .unsupported) else
      let w1 := setHead { w with heads := aset w.heads create (hashStr id) } create
      let w2 := appendLogHead w1 (recLine l .checkout (some id) (some id) (clock ts 0) tz (asc "moving from " ++ l.ref ++ asc " to " ++ create))
      (appendLogBranch w2 create (recLine l .branch none (some id) (clock ts 1) tz (asc "Created from " ++ l.ref)), .ok none)

def switchCmd (H : HashFn) (w : World) (l : Loaded) (args : List Bytes) (create : Bytes) (tz : Int) (ts : List Int) : World × Out :=
  if args.length ≥ 2 then (w, .err)
  else if create.isEmpty && args.isEmpty then (w, .err)
  else if !create.isEmpty && !args.isEmpty then (w, .err)
  else
    match args with
    | [n] => switchTo H w l n tz ts
    | _ => switchCreate w l create tz ts

/-- `branchRegexp = "refs/heads/.+"`, unanchored -/
def isBranchPath (a : Bytes) : Bool :=
  match Bytes.indexOf (asc "refs/heads/") a with
  | none => false
  | some i => match a.drop (i + 11) with | c :: _ => c != 10 | [] => false

/-- `update-ref` once the id is known to name a stored commit object with data `d` -/
def updateRefTo (w : World) (l : Loaded) (b id d : Bytes) : World × Out :=
  if !Refs.exists_ l.refs b then (w, .err)
  else if w.head.isNone then ({ w with heads := aset w.heads b (hashStr id) }, .err)
  else if (Commit.parse d).isNone then (w, .unsupported)
  else (setHead { w with heads := aset w.heads b (hashStr id) } b, .ok none)

def updateRefCmd (H : HashFn) (w : World) (l : Loaded) (args : List Bytes) : World × Out :=
  match args with
  | [path, hs] =>
    if !isBranchPath path then (w, .err)
    else if hs.length != 40 then (w, .err)
    else
      match readHash hs with
      | none => (w, .err)
      | some id =>
        if hs != hashStr id then (w, .unsupported) else      -- upper-case digits name another file
        match Store.get H (store w) id with
        | .ok (.commit, d) => updateRefTo w l ((Bytes.split1 47 path).getLast?.getD []) id d
        | _ => (w, .err)
  | _ => (w, .err)

/-! ### `reset` -/

/-- `reset` once the target `t` is known: the branch, the logs, then (mixed, hard) the staging area, then (hard) the files -/
def resetTo (H : HashFn) (w : World) (l : Loaded) (s h : Bool) (arg t prev : Bytes) (tz : Int) (ts : List Int) : World × Out :=
  match commitAt H w t with
  | none => (w, .unsupported)
  | some _ =>
    let w1 := { w with heads := aset w.heads l.ref (hashStr t) }
    let line := recLine l .reset (some prev) (some t) (clock ts 0) tz (asc "moving to " ++ arg)
    let w2 := appendLogBranch (appendLogHead w1 line) l.ref line
    if s then (w2, .ok none)
    else
      match Cmds.resetEntries H (store w2) treeDepth t with
      | .ok es =>
        let w3 := { w2 with index := some es }
        if !h then (w3, .ok none)
        else
          let r := writeEntries H w3 es
          (r.2.2, if r.1 then .ok none else if r.2.1 then .err else .unsupported)
      | _ => (w2, .unsupported)

def resetCmd (H : HashFn) (w : World) (l : Loaded) (soft mixed hard : Bool) (args : List Bytes) (tz : Int) (ts : List Int) : World × Out :=
  match Cmds.modeOf soft mixed hard, args with
  | some (s, _, h), [arg] =>
    match Reflog.parseResetArg arg, w.logHead with
    | some n, some lg =>
      match Reflog.parse lg with
      | none => (w, .err)
      | some rs =>
        match Reflog.get rs n with
        | some ⟨some t, _, _⟩ =>
          match l.headCommit with
          | none => (w, .err)
          | some (prev, _) =>
            if !Refs.exists_ l.refs l.ref then (w, .err) else resetTo H w l s h arg t prev tz ts
        | _ => (w, .err)
    | _, _ => (w, .err)
  | _, _ => (w, .err)

/-! ### `config`, `init` -/

def configCmd (w : World) (global : Bool) (args : List Bytes) : World × Out :=
  match args with
  | [key, value] =>
    match Cmds.configCmd (if global then w.cfgGlobal else w.cfgLocal) key value with
    | .ok c =>
      let w1 := if w.cfgLocal.isNone then { w with cfgLocal := some [] } else w
      (if global then { w1 with cfgGlobal := some (Config.render c) } else { w1 with cfgLocal := some (Config.render c) }, .ok none)
    | .err => (w, .err)
    | .crash => (w, .crash)
  | _ => (w, .err)

/-- names in the current directory that a not-yet-initialised `goit` would read as its own -/
def shadowNames : List Bytes := [asc "config", asc "index", asc "HEAD", asc "refs", asc ".goit.tmp", asc ".goitignore"]

def initCmd (w : World) : World × Out :=
  if shadowNames.any (fun n => (aget w.files n).isSome || w.dirs.contains n) then (w, .unsupported)
  else if (Cmds.cfgOf w.cfgGlobal).isNone then (w, .err)
  else ({ w with inited := true, head := some (asc "ref: refs/heads/main"), cfgLocal := some [] }, .ok none)

/-! ### read-only commands -/

def catFileCmd (H : HashFn) (w : World) (t p : Bool) (args : List Bytes) : Out :=
  match args with
  | [a] =>
    if t && p then .err else
    match readHash a with
    | none => .err
    | some id =>
      if a != hashStr id then .unsupported else
      match Store.get H (store w) id with
      | .ok (k, d) =>
        let tOut := if t then k.str ++ [10] else []
        if !p then .ok (some tOut)
        else if k == .tree then
          match TreeCodec.newTree H (store w) treeDepth k d with
          | some ns => .ok (some (tOut ++ TreeCodec.render ns ++ [10]))
          | none => .err
        else .ok (some (tOut ++ d ++ [10]))
      | .crash => .crash
      | .err => .err
  | _ => .err

/-- `hash-object`: prints the ids of the leading arguments that are files, fails at the first that is not -/
def hashObjectCmd (H : HashFn) (w : World) : List Bytes → Bytes → Out
  | [], acc => .ok (some acc)
  | a :: rest, acc =>
    -- `os.Stat` of the raw argument: a trailing `/` or `/.` demands a directory
    if a.getLast? == some 47 || (a.reverse.take 2 == [46, 47]) then
      (if Bytes.hasPrefix (Cmds.cleanPath a) (asc ".goit") then .unsupported else .err)
    else
    match aget w.files (Cmds.cleanPath a) with
    | some data => hashObjectCmd H w rest (acc ++ hashStr (Obj.id H .blob data) ++ [10])
    | none => if Bytes.hasPrefix (Cmds.cleanPath a) (asc ".goit") then .unsupported else .err

def revParseCmd (w : World) (l : Loaded) : List Bytes → Bytes → Out
  | [], acc => .ok (some acc)
  | a :: rest, acc =>
    if List.elem (47 : UInt8) a || a == asc "." || a == asc ".." || a.isEmpty then .unsupported else
    match aget w.heads (if a == asc "HEAD" then l.ref else a) with
    | some raw => revParseCmd w l rest (acc ++ raw ++ [10])
    | none => .err

/-! ### one invocation -/

/-- path arguments inside the modelled domain: relative, no `..` component, no backslash, not inside Goit's
    own directory (whose content the command models know only as "exists") -/
def pathArgOK (a : Bytes) : Bool :=
  a.head? != some 47 && !(Bytes.split1 47 a).contains (asc "..") && !List.elem (92 : UInt8) a &&
    Cmds.cleanPath a != asc ".goit" && !Bytes.hasPrefix (Cmds.cleanPath a) (asc ".goit/")

def pathArgs : Cmd → List Bytes
  | .add args | .rm args | .restore _ args | .hashObject args => args
  | _ => []

def run (H : HashFn) (w : World) (i : Inv) : World × Out :=
  if !w.inited then
    match i.cmd with
    | .init => initCmd w
    | _ => if shadowNames.any (fun n => (aget w.files n).isSome || w.dirs.contains n) then (w, .unsupported)
           else (w, .err)
  else
    if !(pathArgs i.cmd).all pathArgOK then (w, .unsupported) else
    match load H w with
    | none => (w, .err)
    | some l =>
      match i.cmd with
      | .init => (w, .err)
      | .add args => addCmd H w l args
      | .rm args => rmCmd w l args
      | .commit msg => commitCmd H w l msg i.tz i.ts
      | .branch args list ren del => branchCmd w l args list ren del i.tz i.ts
      | .switch args create => switchCmd H w l args create i.tz i.ts
      | .reset s m h args => resetCmd H w l s m h args i.tz i.ts
      | .restore staged args => restoreCmd H w l staged args
      | .updateRef args => updateRefCmd H w l args
      | .config g args => configCmd w g args
      | .status =>
        if !ignoreOK w then (w, .unsupported) else
        (match l.headCommit with
         | none => (w, match Cmds.status H (ws w l []) with | .ok _ => .ok none | .err => .err | .crash => .crash)
         | some _ =>
           match headSnap H w l with
           | .ok snap => (w, match Cmds.status H (ws w l snap) with | .ok _ => .ok none | .err => .err | .crash => .crash)
           | .err => (w, .err)
           | .crash => (w, .unsupported))
      | .log n =>
        (w, match Cmds.logCmd H (store w) (!w.heads.isEmpty) ((l.headCommit.map (·.1)).getD []) n with
            | .ok _ => if l.headCommit.isNone then .err else .ok none
            | .err => .err
            | .crash => if l.headCommit.isNone then .err else .crash)
      | .reflog =>
        (w, match w.logHead with
            | none => .err
            | some lg => if (Reflog.parse lg).isSome then .ok none else .err)
      | .lsFiles staged =>
        (w, .ok (some ((l.idx.map fun e => (if staged then hashStr e.id ++ asc "    " else []) ++ e.path ++ [10]).flatten)))
      | .catFile t p args => (w, catFileCmd H w t p args)
      | .hashObject args => (w, hashObjectCmd H w args [])
      | .revParse args => (w, revParseCmd w l args [])
      | .writeTree =>
        let o := TreeBuild.writeTree H l.idx
        (putObjs w o.writes.reverse, .ok (some (hashStr o.id ++ [10])))

def runAll (H : HashFn) (w : World) (is : List Inv) : World := is.foldl (fun w i => (run H w i).1) w

end W
