import GoitModel.Config

/-! The order of file-system modifications of the modifying commands (what `strace` sees), abstracted
    to roles. A crash "between two modifications" is a prefix of the list; a single I/O fault aborts the
    command at that operation (every error is propagated), so its effect is a prefix too. -/

namespace Eff

inductive Role where
  | object (id : Bytes)          -- .goit/objects/xx/yyyy
  | branch (name : Bytes)        -- .goit/refs/heads/<name>
  | head | index | config
  | tmp (of : String)            -- .goit/tmp-branch, tmp-HEAD, tmp-index, config.tmp
  | logHead | logBranch (name : Bytes)
  | work (path : Bytes)
  | repoDir                      -- the directory `.goit` itself (the target of `init`'s final rename)
deriving DecidableEq, Repr

inductive E where
  | create (r : Role)                 -- create a new, empty file (objects, temporary files, work files)
  | write (r : Role) (data : Bytes)   -- write to the file just created
  | append (r : Role) (data : Bytes)  -- O_APPEND write (logs): the old content stays
  | rename (src dst : Role)           -- atomic replacement
  | remove (r : Role)
deriving DecidableEq, Repr

/-- a new object: `Object.Write` (an object that is already stored is not touched at all) -/
def putObject (id content : Bytes) : List E := [.create (.object id), .write (.object id) content]

/-- `fsutil.WriteFileAtomic(path, tmp, data)` -/
def replace (tmp : String) (dst : Role) (data : Bytes) : List E :=
  [.create (.tmp tmp), .write (.tmp tmp) data, .rename (.tmp tmp) dst]

def setBranch (b id : Bytes) : List E := replace "branch" (.branch b) (hashStr id)
def setHead (b : Bytes) : List E := replace "HEAD" .head (Head.render b)
def setIndex (file : Bytes) : List E := replace "index" .index file

/-- `cmd.commit`: new trees and the commit object, then the branch, then the logs, HEAD last -/
def commit (objs : List (Bytes × Bytes)) (b commitId logLine : Bytes) : List E :=
  (objs.map fun o => putObject o.1 o.2).flatten ++ setBranch b commitId ++
    [.append .logHead logLine, .append (.logBranch b) logLine] ++ setHead b

/-- `cmd.add` for one file whose content changed: the blob first, then the index -/
def addFile (blobId blob indexFile : Bytes) : List E := putObject blobId blob ++ setIndex indexFile

def branchCreate (n id logLine : Bytes) : List E := setBranch n id ++ [.append (.logBranch n) logLine]
def switchTo (b logLine : Bytes) : List E := setHead b ++ [.append .logHead logLine]
def switchCreate (n id l1 l2 : Bytes) : List E :=
  setBranch n id ++ setHead n ++ [.append .logHead l1, .append (.logBranch n) l2]
def updateRef (b id : Bytes) : List E := setBranch b id ++ setHead b
/-- `reset`: branch, logs, then (mixed/hard) the index, then (hard) the work files -/
def reset (b id logLine : Bytes) (indexFile : Option Bytes) (files : List (Bytes × Bytes)) : List E :=
  setBranch b id ++ [.append .logHead logLine, .append (.logBranch b) logLine] ++
    (match indexFile with | some f => setIndex f | none => []) ++
    (files.map fun f => [E.create (.work f.1), .write (.work f.1) f.2]).flatten
/-- `branch -r`: the new name is written first, HEAD follows, the old name is removed last -/
def branchRename (old new id : Bytes) (logs : List E) : List E :=
  setBranch new id ++ setHead new ++ [.remove (.branch old)] ++ logs

/-- `branch -d`: the ref file, then its log -/
def branchDelete (old : Bytes) : List E := [.remove (.branch old), .remove (.logBranch old)]
/-- `rm`: for every removed tracked file (present on disk) the work file is removed, then the index rewritten -/
def rmFiles (paths : List (Bytes × Bytes)) : List E := (paths.map fun p => E.remove (.work p.1) :: setIndex p.2).flatten
/-- `restore --staged`: one index rewrite per entry that changes -/
def restoreStaged (indexFiles : List Bytes) : List E := (indexFiles.map setIndex).flatten
/-- `init`: everything is built inside `.goit.tmp` (work-side paths), the rename to `.goit` comes last -/
def init : List E :=
  [.create (.work (asc ".goit.tmp/config")), .create (.work (asc ".goit.tmp/HEAD")),
   .write (.work (asc ".goit.tmp/HEAD")) (asc "ref: refs/heads/main"), .rename (.work (asc ".goit.tmp")) .repoDir]

/-! ### a file-level state on which prefixes are interpreted -/

abbrev FS := Role → Option Bytes

def apply (s : FS) : E → FS
  | .create r => fun x => if x = r then some [] else s x
  | .write r d => fun x => if x = r then some ((s r).getD [] ++ d) else s x
  | .append r d => fun x => if x = r then some ((s r).getD [] ++ d) else s x
  | .rename a b => fun x => if x = b then s a else if x = a then none else s x
  | .remove r => fun x => if x = r then none else s x

def run (s : FS) (es : List E) : FS := es.foldl apply s

/-- the state after a crash between modification `k` and `k+1` -/
def crash (s : FS) (es : List E) (k : Nat) : FS := run s (es.take k)

/-- a single fault at operation `k` (the operation fails, the command aborts): same prefix, error exit -/
def fault (s : FS) (es : List E) (k : Option Nat) : Bool × FS :=
  match k with
  | none => (true, run s es)
  | some k => if k < es.length then (false, run s (es.take k)) else (true, run s es)

/-- canonical shape compared with the traced system calls (mkdirs dropped, payloads dropped) -/
def roleName : Role → String
  | .object _ => "object" | .branch _ => "branch" | .head => "HEAD" | .index => "index" | .config => "config"
  | .tmp t => "tmp-" ++ t | .logHead => "logHEAD" | .logBranch _ => "logbranch" | .work _ => "work" | .repoDir => ".goit"

def shape1 : E → String
  | .create r => "create:" ++ roleName r
  | .write r _ => "write:" ++ roleName r
  | .append r _ => "append:" ++ roleName r
  | .rename a b => "rename:" ++ roleName a ++ ">" ++ roleName b
  | .remove r => "remove:" ++ roleName r

def shape (es : List E) : List String := es.map shape1

end Eff
