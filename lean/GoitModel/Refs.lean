import GoitModel.Index

/-! `internal/store/refs.go`, `head.go`, `reflog.go`, `internal/log/logger.go`, the `HEAD@{n}`
    argument of `cmd/reset.go`. -/

namespace Refs

/-- `Refs.Heads`: (name, id) sorted by name -/
abbrev Heads := List (Bytes × Bytes)

def names (h : Heads) : List Bytes := h.map (·.1)

/-- `Refs.getBranchPos` -/
def getBranchPos (h : Heads) (n : Bytes) : SR := bsearchTop (names h) n

def exists_ (h : Heads) (n : Bytes) : Bool :=
  match getBranchPos h n with | .found _ => true | _ => false

def leHead (a b : Bytes × Bytes) : Bool := decide (a.1 ≤ b.1)
def sortHeads (h : Heads) : Heads := h.mergeSort leHead

/-- a branch name that stays inside `refs/heads` (repaired `AddBranch`/`RenameBranch`) -/
def validName (n : Bytes) : Bool :=
  n ≠ [] && !List.elem (47 : UInt8) n && !List.elem (92 : UInt8) n && !List.elem (0 : UInt8) n && !List.elem (10 : UInt8) n && !List.elem (13 : UInt8) n && n ≠ asc "." && n ≠ asc ".."

/-- `NewRefs`: one file per branch, each must hold a hash; sorted by name -/
def load (files : List (Bytes × Bytes)) : Option Heads :=
  (files.mapM fun (p : Bytes × Bytes) => (readHash p.2).map fun h => (p.1, h)).map sortHeads

/-- `Refs.AddBranch` (in-memory part) -/
def add (h : Heads) (n id : Bytes) : Res Heads :=
  if !validName n then .err else
  match getBranchPos h n with
  | .crash => .crash
  | .found _ => .err
  | .notFound => .ok (sortHeads (h ++ [(n, id)]))

/-- `Refs.RenameBranch` (in-memory part) -/
def rename (h : Heads) (cur new : Bytes) : Res Heads :=
  if !validName new then .err else
  match getBranchPos h new with
  | .crash => .crash
  | .found _ => .err
  | .notFound =>
    match getBranchPos h cur with
    | .crash => .crash
    | .notFound => .err
    | .found i => .ok (sortHeads (h.modify i (fun p => (new, p.2))))

/-- `Refs.DeleteBranch` (in-memory part) -/
def delete (h : Heads) (headBranch del : Bytes) : Res Heads :=
  if del = headBranch then .err else
  match getBranchPos h del with
  | .crash => .crash
  | .notFound => .err
  | .found i => .ok (h.eraseIdx i)

/-- `Refs.UpdateBranchHash` (in-memory part) -/
def update (h : Heads) (n id : Bytes) : Res Heads :=
  match getBranchPos h n with
  | .crash => .crash
  | .notFound => .err
  | .found i => .ok (h.modify i (fun p => (p.1, id)))

def lookup (h : Heads) (n : Bytes) : Option Bytes := (h.find? (fun p => p.1 == n)).map (·.2)

end Refs

namespace Head

def refPrefix : Bytes := asc "ref: refs/heads/"

/-- `headRegexp = "ref: refs/heads/.+"` (unanchored; `.` excludes newline) -/
def matchesAt : Bytes → Bool
  | s => Bytes.hasPrefix s refPrefix &&
      (match s.drop refPrefix.length with | c :: _ => c != 10 | [] => false)

def isRef : Bytes → Bool
  | [] => false
  | s@(_ :: t) => matchesAt s || isRef t

/-- text after the first occurrence of `ref: refs/heads/` -/
def afterPrefix : Bytes → Option Bytes
  | [] => none
  | s@(_ :: t) => if Bytes.hasPrefix s refPrefix then some (s.drop refPrefix.length) else afterPrefix t

/-- `NewHead` (repaired): the branch name is everything after `ref: refs/heads/` (it may contain `": "`) -/
def parse (content : Bytes) : Option Bytes :=
  if isRef content then afterPrefix content else none

/-- `Head.Update` writes this -/
def render (branch : Bytes) : Bytes := refPrefix ++ branch

end Head

namespace Reflog

inductive RecKind where | undefined | commit | checkout | branch | reset
deriving DecidableEq, Repr

def RecKind.str : RecKind → Bytes
  | .commit => asc "commit" | .checkout => asc "checkout" | .branch => asc "branch"
  | .reset => asc "reset" | .undefined => asc "undefined"

def RecKind.parse (s : Bytes) : RecKind :=
  if s = asc "commit" then .commit else if s = asc "checkout" then .checkout
  else if s = asc "branch" then .branch else if s = asc "reset" then .reset else .undefined

def zeros40 : Bytes := List.replicate 40 48

/-- what `log.NewRecord` is given -/
structure Rec where
  kind   : RecKind
  frm    : Option Bytes     -- nil hash = none
  to     : Option Bytes
  name   : Bytes
  email  : Bytes
  unix   : Int
  offset : Int              -- seconds east of UTC
  msg    : Bytes
deriving Repr

/-- `timeDiff` of `log.NewRecord`: `Sprintf("%+03d%02d", m/60, m%60)` with `m = offset/60`
    (Go `/` and `%` truncate toward zero; the minutes of a negative offset keep their own sign,
    e.g. `-03-30`). The reflog reader never parses this field. -/
def zone (offset : Int) : Bytes :=
  let m := Int.tdiv offset 60
  Dec.plus03 (Int.tdiv m 60) ++ Dec.pad2 (Int.tmod m 60)

/-- first line of a message (repaired writer: a reflog record is one line) -/
def firstLine (m : Bytes) : Bytes := (Bytes.cut1 10 m).1

def hashOrZeros : Option Bytes → Bytes
  | none => zeros40
  | some h => hashStr h

/-- `record.String` -/
def format (r : Rec) : Bytes :=
  hashOrZeros r.frm ++ [32] ++ hashOrZeros r.to ++ [32] ++ r.name ++ asc " <" ++ r.email ++ asc "> "
    ++ Dec.ofInt r.unix ++ [32] ++ zone r.offset ++ [9] ++ r.kind.str ++ asc ": " ++ firstLine r.msg ++ [10]

/-- `LogRecord` as loaded -/
structure Loaded where
  hash : Option Bytes
  kind : RecKind
  msg  : Bytes
deriving DecidableEq, Repr

inductive LineRes where
  | record (r : Loaded)
  | skip
  | fail        -- the whole load fails
deriving DecidableEq, Repr

/-- one line of `Reflog.load` (repaired: `SplitN` on the tab and on `": "`) -/
def parseLine (text : Bytes) : LineRes :=
  match Bytes.cut1 32 text with
  | (_, none) => .skip
  | (_, some r1) =>
    match Bytes.cut1 32 r1 with
    | (_, none) => .skip
    | (to, some rest) =>
      let hash? : Option (Option Bytes) :=
        if to = zeros40 then some none else (readHash to).map some
      match hash? with
      | none => .fail
      | some h =>
        match Bytes.cut1 9 rest with
        | (_, none) => .skip
        | (_, some tail) =>
          match Bytes.cutSeq (asc ": ") tail with
          | (_, none) => .skip
          | (k, some m) =>
            if RecKind.parse k = .undefined then .skip else .record ⟨h, RecKind.parse k, m⟩

def parseLines : List Bytes → Option (List Loaded)
  | [] => some []
  | l :: ls =>
    match parseLine l with
    | .fail => none
    | .skip => parseLines ls
    | .record r => (parseLines ls).map (r :: ·)

/-- `Reflog.load` on the bytes of `logs/HEAD` -/
def parse (file : Bytes) : Option (List Loaded) := (Bytes.scanLinesE file).bind parseLines

/-- `Reflog.GetRecord` -/
def get (rs : List Loaded) (n : Nat) : Option Loaded :=
  if n ≥ rs.length then none else rs[rs.length - 1 - n]?

/-- the listing of `Reflog.Show` without decoration: position, 7 hex digits, kind, message -/
def show7 : Option Bytes → Bytes
  | none => List.replicate 7 48
  | some h => (hashStr h).take 7

def listing (rs : List Loaded) : List (Nat × Bytes × RecKind × Bytes) :=
  (List.range rs.length).map fun i =>
    match rs[rs.length - 1 - i]? with
    | some r => (i, show7 r.hash, r.kind, r.msg)
    | none => (i, [], .undefined, [])

/-- argument of `reset`: `^HEAD@\{\d+\}$` then `Atoi` (repaired: anchored, several digits) -/
def parseResetArg (a : Bytes) : Option Nat :=
  let pre := asc "HEAD@{"
  if Bytes.hasPrefix a pre then
    let body := a.drop pre.length
    match body.reverse with
    | 125 :: rd =>
      let ds := rd.reverse
      if ds ≠ [] ∧ ds.all Dec.isDigit then
        match Fmt.parseInt ds with
        | some v => some v.toNat
        | none => none
      else none
    | _ => none
  else none

end Reflog
