import GoitModel.Bytes

/-! Executable SHA-1 (FIPS 180-4) over byte lists. Used by the driver to instantiate `HashFn`;
    theorems never unfold it. Validated against crypto/sha1 on every correspondence run. -/

namespace Sha1

@[inline] def rotl (x : UInt32) (n : UInt32) : UInt32 := (x <<< n) ||| (x >>> (32 - n))

def be32 (a b c d : UInt8) : UInt32 :=
  (a.toUInt32 <<< 24) ||| (b.toUInt32 <<< 16) ||| (c.toUInt32 <<< 8) ||| d.toUInt32

def words : Bytes → List UInt32
  | a :: b :: c :: d :: rest => be32 a b c d :: words rest
  | _ => []

def u64be (n : Nat) : Bytes :=
  (List.range 8).reverse.map (fun i => UInt8.ofNat ((n >>> (8*i)) % 256))

def pad (msg : Bytes) : Bytes :=
  let l := msg.length
  let k := (119 - l % 64) % 64
  msg ++ [0x80] ++ List.replicate k 0 ++ u64be (l * 8)

structure St where
  a : UInt32
  b : UInt32
  c : UInt32
  d : UInt32
  e : UInt32

def init : St := ⟨0x67452301, 0xEFCDAB89, 0x98BADCFE, 0x10325476, 0xC3D2E1F0⟩

/-- message schedule as array of 80 words -/
def schedule (w16 : List UInt32) : Array UInt32 := Id.run do
  let mut w : Array UInt32 := w16.toArray
  for t in [16:80] do
    w := w.push (rotl (w[t-3]! ^^^ w[t-8]! ^^^ w[t-14]! ^^^ w[t-16]!) 1)
  return w

def block (s : St) (w16 : List UInt32) : St := Id.run do
  let w := schedule w16
  let mut a := s.a; let mut b := s.b; let mut c := s.c; let mut d := s.d; let mut e := s.e
  for t in [0:80] do
    let (f, k) :=
      if t < 20 then ((b &&& c) ||| ((~~~ b) &&& d), (0x5A827999 : UInt32))
      else if t < 40 then (b ^^^ c ^^^ d, 0x6ED9EBA1)
      else if t < 60 then ((b &&& c) ||| (b &&& d) ||| (c &&& d), 0x8F1BBCDC)
      else (b ^^^ c ^^^ d, 0xCA62C1D6)
    let tmp := rotl a 5 + f + e + k + w[t]!
    e := d; d := c; c := rotl b 30; b := a; a := tmp
  return ⟨s.a + a, s.b + b, s.c + c, s.d + d, s.e + e⟩

def blocks : Nat → St → List UInt32 → St
  | 0, s, _ => s
  | n+1, s, ws => blocks n (block s (ws.take 16)) (ws.drop 16)

def out32 (x : UInt32) : Bytes :=
  [(x >>> 24).toUInt8, (x >>> 16).toUInt8, (x >>> 8).toUInt8, x.toUInt8]

def sha1 (msg : Bytes) : Bytes :=
  let p := pad msg
  let s := blocks (p.length / 64) init (words p)
  out32 s.a ++ out32 s.b ++ out32 s.c ++ out32 s.d ++ out32 s.e

end Sha1

/-- A 20-byte hash function; theorems are stated for an arbitrary one. -/
structure HashFn where
  sha   : Bytes → Bytes
  len20 : ∀ b, (sha b).length = 20

/-- the property theorems need instead of (false) global injectivity -/
def CollisionFreeOn (H : HashFn) (U : Bytes → Prop) : Prop :=
  ∀ a b, U a → U b → H.sha a = H.sha b → a = b

namespace Sha1

theorem out32_length (x : UInt32) : (out32 x).length = 4 := rfl

theorem sha1_length (m : Bytes) : (sha1 m).length = 20 := by
  simp [sha1, out32_length]

end Sha1

def sha1Fn : HashFn := ⟨Sha1.sha1, Sha1.sha1_length⟩
