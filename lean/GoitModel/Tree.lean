import GoitModel.Obj

/-! `internal/object/tree.go` (reader, printer, path lookup), `cmd/writeTree.go` (writer) and
    `getEntriesFromTree` of `internal/store/index.go` (flattening). -/

/-- index entry / flattened snapshot entry -/
structure Entry where
  id   : Bytes
  path : Bytes
deriving DecidableEq, Repr

/-- `object.Node`: a node is treated as a directory iff it has children -/
inductive Node where
  | mk (name : Bytes) (id : Bytes) (kids : List Node)
deriving Repr

namespace Node
def name : Node → Bytes | mk n _ _ => n
def id : Node → Bytes | mk _ i _ => i
def kids : Node → List Node | mk _ _ k => k
end Node

mutual
  def Node.beq : Node → Node → Bool
    | .mk n i k, .mk n' i' k' => n == n' && i == i' && Node.beqList k k'
  def Node.beqList : List Node → List Node → Bool
    | [], [] => true
    | a :: as, b :: bs => Node.beq a b && Node.beqList as bs
    | _, _ => false
end

namespace TreeCodec

def modeFile : Bytes := asc "100644"
def modeDir  : Bytes := asc "040000"

/-- `binary.ReadNullTerminatedString` on a `bytes.Reader`: (string before NUL, rest after it);
    without a NUL: (everything, []) -/
def readCStr : Bytes → Bytes × Bytes
  | [] => ([], [])
  | b :: bs => if b = 0 then ([], bs) else
      let r := readCStr bs
      (b :: r.1, r.2)

/-- one serialized entry as `writeTreeObject` lays it out -/
def encodeEntry (mode name id : Bytes) : Bytes := mode ++ [32] ++ name ++ [0] ++ id

/-- The "else" branch of `walkTree`'s loop: the pending entry's (isDir, name) is known, 20 id bytes
    follow, then the next `mode name\0` line or the end. `sub` resolves a sub-tree id to its children
    (through the store). Repaired code: `SplitN(line, " ", 2)` and a length guard. -/
def loop (sub : Bytes → Option (List Node)) : Nat → Bool → Bytes → Bytes → Option (List Node)
  | 0, _, _, _ => none
  | fuel + 1, isDir, name, buf =>
    if buf.length < 20 then none else
    let id := buf.take 20
    let rest := buf.drop 20
    let r := readCStr rest
    let kids? : Option (List Node) := if isDir then sub id else some []
    match kids? with
    | none => none
    | some kids =>
      let here := Node.mk name id kids
      if r.1 = [] then some [here]
      else
        match Bytes.cut1 32 r.1 with
        | (_, none) => none
        | (m, some n) =>
          match loop sub fuel (m == modeDir) n r.2 with
          | some nodes => some (here :: nodes)
          | none => none

/-- `walkTree` on the data of a tree object; `d` bounds the nesting depth (fuel). Repaired code:
    empty data is the empty tree; a first line without a space is an error, not a panic. -/
def walk (H : HashFn) (st : Store) : Nat → Bytes → Option (List Node)
  | 0, _ => none
  | d + 1, data =>
    if data = [] then some [] else
    let r := readCStr data
    match Bytes.cut1 32 r.1 with
    | (_, none) => none
    | (m, some n) =>
      loop (fun id =>
          match Store.get H st id with
          | .ok (.tree, sdata) => walk H st d sdata
          | _ => none)
        (data.length + 1) (m == modeDir) n r.2

/-- `NewTree`: object must be of kind tree -/
def newTree (H : HashFn) (st : Store) (d : Nat) (k : Kind) (data : Bytes) : Option (List Node) :=
  if k = .tree then walk H st d data else none

/-- `Tree.String` -/
def render (children : List Node) : Bytes :=
  Bytes.join [10] (children.map fun c =>
    (if c.kids.isEmpty then asc "100644 blob " else asc "040000 tree ")
      ++ hashStr c.id ++ [9] ++ c.name)

end TreeCodec

/-! ### flattening (`getEntriesFromTree`) and `Node.GetPaths` -/

mutual
  def Node.flatten (root : Bytes) : Node → List Entry
    | .mk n i kids =>
      let p := if root = [] then n else root ++ [47] ++ n
      if kids.isEmpty then [⟨i, p⟩] else Node.flattenList p kids
  def Node.flattenList (root : Bytes) : List Node → List Entry
    | [] => []
    | c :: cs => Node.flatten root c ++ Node.flattenList root cs
end

/-- `getEntriesFromTree("", nodes)` -/
def flattenTree (nodes : List Node) : List Entry := Node.flattenList [] nodes

mutual
  /-- `Node.getPaths(parentDir)` -/
  def Node.pathsUnder (parent : Bytes) : Node → List Bytes
    | .mk n _ kids =>
      if kids.isEmpty then [parent ++ [47] ++ n] else Node.pathsUnderList (parent ++ [47] ++ n) kids
  def Node.pathsUnderList (parent : Bytes) : List Node → List Bytes
    | [] => []
    | c :: cs => Node.pathsUnder parent c ++ Node.pathsUnderList parent cs
end

/-- `Node.GetPaths` -/
def Node.getPaths : Node → List Bytes
  | .mk n _ kids => if kids.isEmpty then [n] else Node.pathsUnderList n kids

/-! ### lookup (`GetNode`, repaired: linear scan by name; a leaf with components left is skipped) -/

def getNodeAux : Nat → List Node → Bytes → Option Node
  | 0, _, _ => none
  | fuel + 1, children, path =>
    let sp := Bytes.cut1 47 path
    match sp.2 with
    | none => children.find? (fun c => c.name == sp.1)
    | some rest =>
      -- a file of that name cannot contain the rest of the path: the first *directory* of that name is entered
      match children.find? (fun c => c.name == sp.1 && !c.kids.isEmpty) with
      | none => none
      | some node => getNodeAux fuel node.kids rest

def getNode (children : List Node) (path : Bytes) : Option Node :=
  getNodeAux (path.length + 1) children path

/-! ### writer (`writeTreeObject`) -/

namespace TreeBuild

inductive Item where
  | leaf (name id : Bytes)
  | dir (name : Bytes) (sub : List Entry)
deriving Repr

/-- the single pass of `writeTreeObject` over the entries with its `(dirName, entryBuf)` state;
    `dirName = ""` is the "no open directory" sentinel exactly as in the Go code -/
def group : Bytes → List Entry → List Entry → List Item
  | dirName, buf, [] => if dirName ≠ [] then [.dir dirName buf] else []
  | dirName, buf, e :: es =>
    match Bytes.cut1 47 e.path with
    | (_, none) =>
      if dirName ≠ [] then .dir dirName buf :: .leaf e.path e.id :: group [] [] es
      else .leaf e.path e.id :: group dirName buf es
    | (n, some rest) =>
      if dirName = [] then group n (buf ++ [⟨e.id, rest⟩]) es
      else if dirName = n then group dirName (buf ++ [⟨e.id, rest⟩]) es
      else .dir dirName buf :: group n [⟨e.id, rest⟩] es

structure Out where
  writes : List (Bytes × Bytes)   -- (id, content) in the order the objects are written
  id     : Bytes                  -- id of this tree

/-- what one item contributes: the objects written for it (none for a file) and its serialized entry;
    `rec` is the recursive call for a sub-directory -/
def part (rec : List Entry → Out) : Item → List (Bytes × Bytes) × Bytes
  | .leaf n i => ([], TreeCodec.encodeEntry TreeCodec.modeFile n i)
  | .dir d sub => ((rec sub).writes, TreeCodec.encodeEntry TreeCodec.modeDir d (rec sub).id)

/-- `writeTreeObject`: sub-trees are written when their run closes, the parent last -/
def write (H : HashFn) : Nat → List Entry → Out
  | 0, _ => ⟨[], []⟩
  | fuel + 1, es =>
    let parts := (group [] [] es).map (part (write H fuel))
    let data := (parts.map (·.2)).flatten
    let content := Obj.encode .tree data
    ⟨(parts.map (·.1)).flatten ++ [(H.sha content, content)], H.sha content⟩

/-- the node structure `writeTreeObject` produces (same grouping, same ids): what `walkTree` reads back
    from the store afterwards (proved: `C05.walk_write`) -/
def build (H : HashFn) : Nat → List Entry → List Node
  | 0, _ => []
  | f + 1, es => (group [] [] es).map fun
      | .leaf n i => Node.mk n i []
      | .dir d sub => Node.mk d (write H f sub).id (build H f sub)

/-- enough fuel for every entry list: one level per path byte -/
def fuelFor (es : List Entry) : Nat := (es.map (fun e => e.path.length)).sum + 1

def writeTree (H : HashFn) (es : List Entry) : Out := write H (fuelFor es) es

end TreeBuild
