import GoitModel.Cmds

/-! `goit config [--global] <section>.<key> <value>` (`cmd/config.go`, repaired: an empty section name and
    settings containing a line break are refused): the configuration that is written -/

namespace Cmds

/-- the arguments `config` accepts: exactly one dot, a section name, no line break anywhere -/
def configArgsOK (key value : Bytes) : Option (Bytes × Bytes) :=
  match Bytes.split1 46 key with
  | [sec, k] => if sec = [] || (key ++ value).any (fun c => c = 10 || c = 13) then none else some (sec, k)
  | _ => none

/-- the sections of the file `config` rewrites (local or global, whichever the flag selects), after the command -/
def configCmd (file : Option Bytes) (key value : Bytes) : Res Config.Sections :=
  match configArgsOK key value with
  | none => .err
  | some (sec, k) =>
    match cfgOf file with
    | none => .err                    -- a configuration that does not load makes every command fail
    | some c => .ok (Config.add c sec k value)

end Cmds
