import GoitModel.Tree

/-! `internal/store/index.go`: the binary index file, the sorted entry slice with its hand-written
    binary search, directory selection, update/delete, diff against a tree. -/

/-- result of the hand-written binary searches -/
inductive SR where
  | found (i : Nat)
  | notFound
  | crash            -- index out of range (cannot happen when right ≤ length; proved)
deriving DecidableEq, Repr

/-- The loop of `Index.GetEntry` / `Refs.getBranchPos` as written: do-while with exit
    `right-left < 1`, entered only when the slice is non-empty ≡ `while left < right`.
    The termination proof is the "never hangs" obligation. -/
def bsearch (keys : List Bytes) (x : Bytes) (left right : Nat) : SR :=
  if _h : left < right then
    match keys[(left + right) / 2]? with
    | none => .crash
    | some k =>
      if k = x then .found ((left + right) / 2)
      else if k < x then bsearch keys x ((left + right) / 2 + 1) right
      else bsearch keys x left ((left + right) / 2)
  else .notFound
termination_by right - left
decreasing_by all_goals omega

def bsearchTop (keys : List Bytes) (x : Bytes) : SR :=
  if keys.length = 0 then .notFound else bsearch keys x 0 keys.length

namespace IndexFile

def be16 (n : Nat) : Bytes := [UInt8.ofNat (n / 256 % 256), UInt8.ofNat (n % 256)]
def be32 (n : Nat) : Bytes :=
  [UInt8.ofNat (n / 16777216 % 256), UInt8.ofNat (n / 65536 % 256), UInt8.ofNat (n / 256 % 256), UInt8.ofNat (n % 256)]
def rd16 : Bytes → Nat
  | [a, b] => a.toNat * 256 + b.toNat
  | _ => 0
def rd32 : Bytes → Nat
  | [a, b, c, d] => a.toNat * 16777216 + b.toNat * 65536 + c.toNat * 256 + d.toNat
  | _ => 0

/-- in-memory `Index`: the header fields are whatever was read from the file (the signature and
    version are never validated) -/
structure Idx where
  sig     : Bytes := asc "DIRC"
  version : Nat := 1
  entries : List Entry := []
deriving Repr

def encodeEntry (e : Entry) : Bytes := e.id ++ be16 (e.path.length % 65536) ++ e.path

/-- `Index.write`: header (signature, version, EntryNum = len) then the entries -/
def encode (ix : Idx) : Bytes :=
  ix.sig ++ be32 ix.version ++ be32 (ix.entries.length % 4294967296) ++ (ix.entries.map encodeEntry).flatten

/-- the entry loop of `Index.read`: `n` entries, each 20 + 2 + len bytes; a short read is an error -/
def decodeEntries : Nat → Bytes → Option (List Entry)
  | 0, _ => some []
  | n + 1, buf =>
    if buf.length < 20 then none else
    let id := buf.take 20
    let r1 := buf.drop 20
    if r1.length < 2 then none else
    let len := rd16 (r1.take 2)
    let r2 := r1.drop 2
    if r2.length < len then none else
    match decodeEntries n (r2.drop len) with
    | some es => some (⟨id, r2.take len⟩ :: es)
    | none => none

/-- `Index.read`: 12-byte header, then `EntryNum` entries; trailing bytes are ignored -/
def decode (b : Bytes) : Option Idx :=
  if b.length < 12 then none else
  let sig := b.take 4
  let ver := rd32 ((b.drop 4).take 4)
  let num := rd32 ((b.drop 8).take 4)
  match decodeEntries num (b.drop 12) with
  | some es => some ⟨sig, ver, es⟩
  | none => none

/-- `NewIndex`: a missing file is the empty index -/
def load : Option Bytes → Option Idx
  | none => some {}
  | some b => decode b

end IndexFile

namespace IndexOps

def paths (es : List Entry) : List Bytes := es.map (·.path)

/-- `Index.GetEntry` -/
def getEntry (es : List Entry) (p : Bytes) : SR := bsearchTop (paths es) p

def found (es : List Entry) (p : Bytes) : Bool :=
  match getEntry es p with | .found _ => true | _ => false

/-- `Index.GetEntriesByDirectory` (repaired: literal prefix `name/` followed by at least one byte) -/
def under (dir : Bytes) (p : Bytes) : Bool :=
  Bytes.hasPrefix p (dir ++ [47]) && decide ((dir ++ [47]).length < p.length)

def byDir (es : List Entry) (dir : Bytes) : List Entry := es.filter (fun e => under dir e.path)

/-- `Index.IsRegisteredAsDirectory` (repaired: some entry lies beneath `name/`) -/
def isDir (es : List Entry) (dir : Bytes) : Bool := es.any (fun e => under dir e.path)

def leEntry (a b : Entry) : Bool := decide (a.path ≤ b.path)

/-- `sort.Slice(entries, path <)`; modelled by a (stable) merge sort — on duplicate-free input every
    correct sort gives the same list -/
def sortEntries (es : List Entry) : List Entry := es.mergeSort leEntry

/-- `Index.Update`: `(changed?, new entries)`; crash only if the search runs out of range -/
def update (es : List Entry) (id p : Bytes) : Res (Bool × List Entry) :=
  match getEntry es p with
  | .crash => .crash
  | .found i =>
    match es[i]? with
    | none => .crash
    | some e =>
      if e.id = id ∧ e.path = p then .ok (false, es)
      else .ok (true, sortEntries (es.eraseIdx i ++ [⟨id, p⟩]))
  | .notFound => .ok (true, sortEntries (es ++ [⟨id, p⟩]))

/-- `Index.DeleteEntry`: `err` when the path is not registered -/
def delete (es : List Entry) (p : Bytes) : Res (List Entry) :=
  match getEntry es p with
  | .crash => .crash
  | .found i => .ok (es.eraseIdx i)
  | .notFound => .err

inductive DiffKind where | deleted | new | modified
deriving DecidableEq, Repr

structure DiffEntry where
  kind : DiffKind
  id   : Bytes
  path : Bytes
deriving DecidableEq, Repr

/-- one iteration of the first loop of `DiffWithTree`: a tree entry that is not staged is `deleted`,
    one staged with another id is `modified` -/
def diffStep (es : List Entry) (acc : Res (List DiffEntry)) (t : Entry) : Res (List DiffEntry) :=
  acc.bind fun l =>
    match getEntry es t.path with
    | .crash => .crash
    | .notFound => .ok (l ++ [⟨.deleted, t.id, t.path⟩])
    | .found i =>
      match es[i]? with
      | none => .crash
      | some e => if e.id = t.id then .ok l else .ok (l ++ [⟨.modified, e.id, e.path⟩])

/-- the second loop: an index entry is `new` when the tree has no *file* at that path -/
def isNew (tree : List Node) (e : Entry) : Bool :=
  match getNode tree e.path with
  | some n => !n.kids.isEmpty
  | none => true

/-- `Index.DiffWithTree` (repaired `GetNode`; an index path that names a *directory* of the tree is a
    new file): first the tree's entries (deleted / modified), then the index's (new) -/
def diffWithTree (es : List Entry) (tree : List Node) : Res (List DiffEntry) :=
  ((flattenTree tree).foldl (diffStep es) (.ok [])).map fun l =>
    l ++ (es.filter (isNew tree)).map fun e => ⟨.new, e.id, e.path⟩

end IndexOps
