/-! Byte strings and the string helpers of the Go standard library that Goit relies on.
    Everything here is core Lean, total and executable. -/

abbrev Bytes := List UInt8

/-- ASCII literal → bytes (reduces by `decide`/`rfl` on literals). -/
def asc (s : String) : Bytes := s.toList.map (fun c => c.toNat.toUInt8)

namespace Bytes

/-- `strings.HasPrefix` -/
def hasPrefix : Bytes → Bytes → Bool
  | _, [] => true
  | [], _ :: _ => false
  | a :: as, b :: bs => a == b && hasPrefix as bs

/-- first position at which `pat` occurs in `s` (`strings.Index`), `none` if absent -/
def indexOf (pat : Bytes) : Bytes → Option Nat
  | [] => if pat = [] then some 0 else none
  | a :: as =>
    if hasPrefix (a :: as) pat then some 0
    else (indexOf pat as).map (· + 1)

/-- `strings.Contains` -/
def contains (s pat : Bytes) : Bool := (indexOf pat s).isSome

/-- split at the first occurrence of byte `b`: `(before, some after)` or `(all, none)`.
    This is `strings.SplitN(s, string(b), 2)` and `strings.Cut`. -/
def cut1 (b : UInt8) : Bytes → Bytes × Option Bytes
  | [] => ([], none)
  | a :: as =>
    if a = b then ([], some as)
    else
      let r := cut1 b as
      (a :: r.1, r.2)

/-- `strings.Split(s, string(b))` for a one-byte separator: always at least one field -/
def split1 (b : UInt8) : Bytes → List Bytes
  | [] => [[]]
  | a :: as =>
    if a = b then [] :: split1 b as
    else
      match split1 b as with
      | [] => [[a]]          -- unreachable: split1 never returns []
      | f :: fs => (a :: f) :: fs

/-- split at the first occurrence of the sequence `pat` (non-empty) -/
def cutSeq (pat : Bytes) (s : Bytes) : Bytes × Option Bytes :=
  match indexOf pat s with
  | none => (s, none)
  | some i => (s.take i, some (s.drop (i + pat.length)))

/-- `strings.Split(s, pat)` for a non-empty multi-byte separator (fuel = length bound) -/
def splitSeqAux (pat : Bytes) : Nat → Bytes → List Bytes
  | 0, s => [s]
  | fuel + 1, s =>
    match cutSeq pat s with
    | (a, none) => [a]
    | (a, some r) => a :: splitSeqAux pat fuel r

def splitSeq (pat s : Bytes) : List Bytes := splitSeqAux pat (s.length + 1) s

/-- `strings.Join` -/
def join (sep : Bytes) : List Bytes → Bytes
  | [] => []
  | [a] => a
  | a :: b :: rest => a ++ sep ++ join sep (b :: rest)

def isAsciiSpace (b : UInt8) : Bool :=
  b = 32 || b = 9 || b = 10 || b = 11 || b = 12 || b = 13

/-- `strings.TrimSpace` restricted to ASCII white space (the non-ASCII Unicode spaces U+0085,
    U+00A0, U+1680, U+2000.. are not modelled; generators avoid them) -/
def trimLeft : Bytes → Bytes
  | [] => []
  | a :: as => if isAsciiSpace a then trimLeft as else a :: as

def trimSpace (s : Bytes) : Bytes := (trimLeft (trimLeft s).reverse).reverse

/-- `strings.ReplaceAll(s, string(b), "")` -/
def removeByte (b : UInt8) (s : Bytes) : Bytes := s.filter (· != b)

/-- `strings.ToLower` on ASCII -/
def toLowerAscii (s : Bytes) : Bytes := s.map fun b => if 65 ≤ b ∧ b ≤ 90 then b + 32 else b

/-- `bufio.Scanner` with `ScanLines`: split on `\n`, drop one trailing `\r` per line, no final
    empty token. The 64 KiB token limit is modelled by `scanLines` below. -/
def rawLines : Bytes → List Bytes
  | [] => []
  | s@(_ :: _) =>
    let parts := split1 10 s
    -- a final empty field (text ended in '\n') is not a token
    match parts.reverse with
    | [] :: rest => rest.reverse
    | _ => parts

def dropCR (l : Bytes) : Bytes :=
  match l.reverse with
  | 13 :: r => r.reverse
  | _ => l

/-- `bufio.MaxScanTokenSize` -/
def maxToken : Nat := 65536

/-- Tokens the scanner delivers: scanning stops silently (Err = ErrTooLong, never inspected by
    Goit) at the first line whose raw length (with its `\r`, without `\n`) is ≥ 64 KiB. -/
def scanLines (s : Bytes) : List Bytes :=
  ((rawLines s).takeWhile (fun l => l.length < maxToken)).map dropCR

/-- the same scan when the caller checks `scanner.Err()` afterwards (repaired `Reflog.load`,
    `Ignore.load`): a line of 64 KiB or more is `ErrTooLong`, an error instead of a silent stop -/
def scanLinesE (s : Bytes) : Option (List Bytes) :=
  if (rawLines s).all (fun l => decide (l.length < maxToken)) then some ((rawLines s).map dropCR) else none

end Bytes

/-! ### hexadecimal and decimal -/

namespace Hex

def digit (n : UInt8) : UInt8 := if n < 10 then 48 + n else 87 + n

/-- `hex.EncodeToString` -/
def encode : Bytes → Bytes
  | [] => []
  | b :: bs => digit (b >>> 4) :: digit (b &&& 15) :: encode bs

def val? (c : UInt8) : Option UInt8 :=
  if 48 ≤ c ∧ c ≤ 57 then some (c - 48)
  else if 97 ≤ c ∧ c ≤ 102 then some (c - 87)
  else if 65 ≤ c ∧ c ≤ 70 then some (c - 55)
  else none

/-- `hex.DecodeString` (accepts upper and lower case; odd length or a non-digit is an error) -/
def decode? : Bytes → Option Bytes
  | [] => some []
  | [_] => none
  | a :: b :: rest =>
    match val? a, val? b, decode? rest with
    | some x, some y, some r => some ((x <<< 4 ||| y) :: r)
    | _, _, _ => none

def isLowerHex (c : UInt8) : Bool := (48 ≤ c && c ≤ 57) || (97 ≤ c && c ≤ 102)

end Hex

namespace Dec

/-- `%d` of a natural number -/
def ofNat (n : Nat) : Bytes :=
  if h : n < 10 then [48 + n.toUInt8] else ofNat (n / 10) ++ [48 + (n % 10).toUInt8]
termination_by n
decreasing_by omega

/-- `%d` of an integer -/
def ofInt (i : Int) : Bytes :=
  if i < 0 then 45 :: ofNat i.natAbs else ofNat i.natAbs

def isDigit (c : UInt8) : Bool := 48 ≤ c && c ≤ 57

/-- value of a digit string (no validation) -/
def value (s : Bytes) : Nat := s.foldl (fun acc d => acc * 10 + (d.toNat - 48)) 0

/-- `%02d`: at least two digits, zero padded; the sign of a negative number counts as width -/
def pad2 (i : Int) : Bytes :=
  let s := ofInt i
  if s.length < 2 then 48 :: s else s

/-- `%+03d`: explicit sign, zero padded to width 3 (sign included) -/
def plus03 (i : Int) : Bytes :=
  let sign : UInt8 := if i < 0 then 45 else 43
  let d := ofNat i.natAbs
  sign :: (List.replicate (2 - d.length) 48 ++ d)

end Dec
