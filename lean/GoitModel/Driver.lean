import GoitModel.Cmds
import GoitModel.CmdsConfig
import GoitModel.Abstract
import GoitModel.WorldDriver

/-! Line protocol of the model driver (function-level operations).
    One operation per input line, one canonical answer line per operation. Byte strings are
    hex-encoded (`-` = empty). Not mentioned by any theorem. -/

namespace Driver

def hexOut (b : Bytes) : String :=
  if b.isEmpty then "-" else String.ofList ((Hex.encode b).map (fun c => Char.ofNat c.toNat))

def unhex (s : String) : Bytes :=
  if s == "-" then [] else (Hex.decode? (asc s)).getD []

def natOf (s : String) : Nat := s.toNat?.getD 0
def intOf (s : String) : Int := s.toInt?.getD 0

def listOut (xs : List String) : String := if xs.isEmpty then "-" else ",".intercalate xs

def splitList (s : String) : List String := if s == "-" then [] else s.splitOn ","

def entryOut (e : Entry) : String := hexOut e.id ++ ":" ++ hexOut e.path
def entriesOut (es : List Entry) : String := listOut (es.map entryOut)
def entryIn (s : String) : Entry :=
  match s.splitOn ":" with
  | [a, b] => ⟨unhex a, unhex b⟩
  | _ => ⟨[], []⟩
def entriesIn (s : String) : List Entry := (splitList s).map entryIn

def pairsIn (s : String) : List (Bytes × Bytes) := (entriesIn s).map fun e => (e.id, e.path)
def pairsOut (ps : List (Bytes × Bytes)) : String := listOut (ps.map fun p => hexOut p.1 ++ ":" ++ hexOut p.2)

mutual
  partial def nodeOut : Node → String
    | .mk n i kids => hexOut n ++ "/" ++ hexOut i ++ "{" ++ nodesOut kids ++ "}"
  partial def nodesOut (ns : List Node) : String := ";".intercalate (ns.map nodeOut)
end

def kindOf (s : String) : Kind :=
  match s with
  | "blob" => .blob | "tree" => .tree | "commit" => .commit | "tag" => .tag | _ => .undefined

def kindOut (k : Kind) : String := String.ofList (k.str.map (fun c => Char.ofNat c.toNat))

def H := sha1Fn
def depth : Nat := 64

structure St where
  store : List (Bytes × Bytes) := []
  ws : WorldDriver.St := {}

def St.fn (s : St) : Store := fun i => (s.store.find? (fun p => p.1 == i)).map (·.2)

def treeOf (s : St) (id : Bytes) : Option (List Node) :=
  match Store.get H s.fn id with
  | .ok (k, d) => TreeCodec.newTree H s.fn depth k d
  | _ => none

def resOut {α} (f : α → String) : Res α → String
  | .ok a => "ok " ++ f a
  | .err => "err"
  | .crash => "crash"

def srOut : SR → String
  | .found i => s!"found {i}"
  | .notFound => "notfound"
  | .crash => "crash"

def recKindOut (k : Reflog.RecKind) : String := String.ofList (k.str.map (fun c => Char.ofNat c.toNat))

def loadedOut (r : Reflog.Loaded) : String :=
  (match r.hash with | none => "nil" | some h => hexOut h) ++ "|" ++ recKindOut r.kind ++ "|" ++ hexOut r.msg

def signOut (s : Sign) : String := s!"{hexOut s.name} {hexOut s.email} {s.unix} {s.offset}"
def osignOut : Option Sign → String
  | none => "nosign"
  | some s => signOut s

def sortPairs (ps : List (Bytes × Bytes)) : List (Bytes × Bytes) :=
  ps.mergeSort (fun a b => decide (a.1 ≤ b.1))

def sectionsOut (c : Config.Sections) : String :=
  listOut ((c.mergeSort (fun a b => decide (a.1 ≤ b.1))).map fun (s, kv) =>
    hexOut s ++ "=" ++ "+".intercalate ((sortPairs kv).map fun (k, v) => hexOut k ++ ":" ++ hexOut v))

def diffOut (d : IndexOps.DiffEntry) : String :=
  (match d.kind with | .deleted => "D" | .new => "N" | .modified => "M") ++ ":" ++ hexOut d.id ++ ":" ++ hexOut d.path

def step (s : St) (line : String) : St × String :=
  if line.startsWith "w." then
    let (ws', o) := WorldDriver.step s.ws line
    ({ s with ws := ws' }, o)
  else
  match line.trimAscii.toString.splitOn " " with
  | ["st.clear"] => ({ s with store := [] }, "ok")
  | ["st.put", i, c] => ({ s with store := (unhex i, unhex c) :: s.store }, "ok")
  | ["sha", d] => (s, hexOut (H.sha (unhex d)))
  | ["obj.new", k, d] =>
    let data := unhex d
    let i := Obj.id H (kindOf k) data
    ({ s with store := (i, Obj.encode (kindOf k) data) :: s.store }, hexOut i ++ " " ++ hexOut (Obj.encode (kindOf k) data))
  | ["obj.big", k, pat, n] =>
    -- a large periodic payload: id, kind, length and SHA-1 of the bytes `Store.get` gives back
    let data := (List.replicate (natOf n) (unhex pat)).flatten
    let i := Obj.id H (kindOf k) data
    let st : Store := Store.put H Store.empty (kindOf k) data
    (s, match Store.get H st i with
        | .ok (k', d) => hexOut i ++ " " ++ kindOut k' ++ s!" {d.length} " ++ hexOut (H.sha d)
        | _ => hexOut i ++ " get-err")
  | ["obj.heal", k, d] =>
    -- an empty file under the id is not a stored object: `Object.Write` writes it (it skips only a non-empty file)
    let data := unhex d
    let st : Store := Store.put H (Store.putRaw Store.empty (Obj.id H (kindOf k) data) []) (kindOf k) data
    (s, match Store.get H st (Obj.id H (kindOf k) data) with
        | .ok (k', d') => "ok " ++ kindOut k' ++ " " ++ hexOut d'
        | _ => "stored-but-unreadable")
  | ["obj.get", i] =>
    (s, resOut (fun kd => kindOut kd.1 ++ " " ++ hexOut kd.2) (Store.get H s.fn (unhex i)))
  | ["readhash", h] => (s, match readHash (unhex h) with | some b => "ok " ++ hexOut b | none => "err")
  | ["tree.walk", i] => (s, match treeOf s (unhex i) with | some ns => "ok " ++ nodesOut ns | none => "err")
  | ["tree.render", i] =>
    (s, match treeOf s (unhex i) with | some ns => "ok " ++ hexOut (TreeCodec.render ns) | none => "err")
  | ["tree.flatten", i] =>
    (s, match treeOf s (unhex i) with | some ns => "ok " ++ entriesOut (flattenTree ns) | none => "err")
  | ["tree.getnode", i, p] =>
    (s, match treeOf s (unhex i) with
        | some ns =>
          match getNode ns (unhex p) with
          | some n => s!"ok some {hexOut n.name} {hexOut n.id} {n.kids.length} " ++ listOut (n.getPaths.map hexOut)
          | none => "ok none"
        | none => "err")
  | ["tree.write", es] =>
    let o := TreeBuild.writeTree H (entriesIn es)
    ({ s with store := o.writes ++ s.store }, hexOut o.id ++ " " ++ pairsOut (sortPairs o.writes).eraseDups)
  | ["idx.dec", f] =>
    (s, match IndexFile.decode (unhex f) with
        | some ix => s!"ok {hexOut ix.sig} {ix.version} " ++ entriesOut ix.entries
        | none => "err")
  | ["idx.enc", es] => (s, hexOut (IndexFile.encode { entries := entriesIn es }))
  | ["idx.get", es, p] => (s, srOut (IndexOps.getEntry (entriesIn es) (unhex p)))
  | ["idx.bydir", es, d] => (s, entriesOut (IndexOps.byDir (entriesIn es) (unhex d)))
  | ["idx.isdir", es, d] => (s, toString (IndexOps.isDir (entriesIn es) (unhex d)))
  | ["idx.update", es, i, p] =>
    (s, resOut (fun r => s!"{r.1} " ++ entriesOut r.2) (IndexOps.update (entriesIn es) (unhex i) (unhex p)))
  | ["idx.delete", es, p] => (s, resOut entriesOut (IndexOps.delete (entriesIn es) (unhex p)))
  | ["idx.diff", es, t] =>
    (s, match treeOf s (unhex t) with
        | some ns => resOut (fun l => listOut (l.map diffOut)) (IndexOps.diffWithTree (entriesIn es) ns)
        | none => "err")
  | ["refs.load", fs] => (s, match Refs.load (pairsIn fs) with | some h => "ok " ++ pairsOut h | none => "err")
  | ["refs.add", h, n, i] => (s, resOut pairsOut (Refs.add (pairsIn h) (unhex n) (unhex i)))
  | ["refs.rename", h, c, n] => (s, resOut pairsOut (Refs.rename (pairsIn h) (unhex c) (unhex n)))
  | ["refs.delete", h, hb, d] => (s, resOut pairsOut (Refs.delete (pairsIn h) (unhex hb) (unhex d)))
  | ["refs.update", h, n, i] => (s, resOut pairsOut (Refs.update (pairsIn h) (unhex n) (unhex i)))
  | ["refs.exists", h, n] => (s, toString (Refs.exists_ (pairsIn h) (unhex n)))
  | ["head.parse", c] => (s, match Head.parse (unhex c) with | some b => "ok " ++ hexOut b | none => "err")
  | ["reflog.fmt", k, f, t, n, e, u, o, m] =>
    let oh (x : String) : Option Bytes := if x == "nil" then none else some (unhex x)
    (s, hexOut (Reflog.format ⟨Reflog.RecKind.parse (asc k), oh f, oh t, unhex n, unhex e, intOf u, intOf o, unhex m⟩))
  | ["reflog.parse", f] =>
    (s, match Reflog.parse (unhex f) with | some rs => "ok " ++ listOut (rs.map loadedOut) | none => "err")
  | ["reflog.get", f, n] =>
    (s, match Reflog.parse (unhex f) with
        | some rs => (match Reflog.get rs (natOf n) with | some r => "ok " ++ loadedOut r | none => "ok none")
        | none => "err")
  | ["reset.arg", a] => (s, match Reflog.parseResetArg (unhex a) with | some n => s!"ok {n}" | none => "err")
  | ["sign.fmt", n, e, u, o] => (s, hexOut (Sign.format ⟨unhex n, unhex e, intOf u, intOf o⟩))
  | ["sign.parse", x] => (s, match Sign.parse (unhex x) with | some sg => "ok " ++ signOut sg | none => "err")
  | ["commit.parse", d] =>
    (s, match Commit.parse (unhex d) with
        | some c => "ok " ++ (match c.tree with | some t => hexOut t | none => "nil") ++ " " ++ listOut (c.parents.map hexOut)
              ++ " " ++ osignOut c.author ++ " " ++ osignOut c.committer ++ " " ++ hexOut c.message
        | none => "err")
  | ["log.walk", h, k] =>
    (s, resOut (fun l => listOut (l.map fun p => hexOut p.1)) (History.log H s.fn (unhex h) (intOf k)))
  | ["config.parse", f] => (s, match Config.parse (unhex f) with | some c => "ok " ++ sectionsOut c | none => "err")
  | ["config.add", f, sec, k, v] =>
    (s, match Config.parse (unhex f) with
        | some c => "ok " ++ sectionsOut ((Config.parse (Config.render (Config.add c (unhex sec) (unhex k) (unhex v)))).getD [])
        | none => "err")
  | ["config.user", l, g] =>
    (s, match Config.parse (unhex l), Config.parse (unhex g) with
        | some lc, some gc => s!"ok {Config.isUserSet lc gc} {hexOut (Config.userField lc gc (asc "name"))} {hexOut (Config.userField lc gc (asc "email"))}"
        | _, _ => "err")
  | ["ignore.match", f, p, kind] =>
    let ls := Ignore.lines (if f == "none" then none else some (unhex f))
    let t := Ignore.target (unhex p) (kind == "file" || kind == "dir") (kind == "dir") (kind == "tracked")
    (s, if ls.all Ignore.lineOK then toString (Ignore.matchesTarget ls t) else "unsupported")
  | "cmd.status" :: ix :: fs :: ds :: ig :: sn :: hh :: [] =>
    let w : Cmds.WS := ⟨entriesIn ix, pairsIn fs, (splitList ds).map unhex, (if ig == "none" then none else some (unhex ig)), entriesIn sn, hh == "1"⟩
    let sortB (l : List Bytes) := l.mergeSort (fun a b => decide (a ≤ b))
    (s, match Cmds.status H w with
        | .ok st => "ok S=" ++ listOut ((st.staged.map diffOut).mergeSort (fun a b => decide (a ≤ b))) ++ " M=" ++ listOut ((sortB st.modified).map hexOut)
            ++ " D=" ++ listOut ((sortB st.deleted).map hexOut) ++ " U=" ++ listOut ((sortB st.untracked).map hexOut)
        | .err => "err" | .crash => "crash")
  | "cmd.add" :: ix :: fs :: ds :: ig :: args :: [] =>
    let w : Cmds.WS := ⟨entriesIn ix, pairsIn fs, (splitList ds).map unhex, (if ig == "none" then none else some (unhex ig)), [], false⟩
    (s, resOut entriesOut (Cmds.add H w ((splitList args).map unhex)))
  | "cmd.rm" :: ix :: fs :: ds :: args :: [] =>
    let w : Cmds.WS := ⟨entriesIn ix, pairsIn fs, (splitList ds).map unhex, none, [], false⟩
    (s, resOut (fun r => entriesOut r.1 ++ " " ++ listOut ((r.2.mergeSort (fun a b => decide (a ≤ b))).eraseDups.map hexOut)) (Cmds.rm w ((splitList args).map unhex)))
  | "cmd.restore" :: ix :: args :: [] =>
    let w : Cmds.WS := ⟨entriesIn ix, [], [], none, [], false⟩
    (s, resOut (fun r => entriesOut ((r.mergeSort (fun a b => decide (a.path ≤ b.path))).eraseDups)) (Cmds.restoreWork w ((splitList args).map unhex)))
  | ["cmd.commit", ix, sn, br, anyB, cl, cg, unix, off, msg] =>
    let opt (x : String) : Option Bytes := if x == "none" then none else some (unhex x)
    let i : Cmds.CommitIn := ⟨entriesIn ix, (if sn == "none" then none else some (entriesIn sn)), opt br, anyB == "1",
      opt cl, opt cg, intOf unix, intOf off, unhex msg⟩
    (s, resOut (fun r => hexOut r.1) (Cmds.commitCmd sha1Fn i))
  | ["cmd.cat-file", flag, content] =>
    -- `goit cat-file -t|-p <id>` on the decompressed content of the object file named <id> (blobs and commits)
    (s, match Obj.decode (unhex content) with
        | some (k, d) =>
          if flag == "-t" then "ok " ++ hexOut (k.str ++ [10])
          else if k == .tree then "unsupported" else "ok " ++ hexOut (d ++ [10])
        | none => "err")
  | ["cmd.config", f, k, v] =>
    -- `goit config`: the sections of the rewritten file as they load again
    (s, match Cmds.configCmd (if f == "none" then none else some (unhex f)) (unhex k) (unhex v) with
        | .ok c => (match Config.parse (Config.render c) with | some c' => "ok " ++ sectionsOut c' | none => "ok unloadable")
        | .err => "err"
        | .crash => "crash")
  | ["cmd.reflog", lg] =>
    -- `goit reflog`: the listing `Reflog.Show` prints (position, 7 hex digits, kind, message), newest first
    (s, if lg == "none" then "err" else
        match Reflog.parse (unhex lg) with
        | some rs => "ok " ++ listOut ((Reflog.listing rs).map fun (i, h7, k, m) =>
            s!"{i}:" ++ String.ofList (h7.map (fun c => Char.ofNat c.toNat)) ++ ":" ++ recKindOut k ++ ":" ++ hexOut m)
        | none => "err")
  | ["cmd.log", anyB, hd, k, objs] =>
    let tbl : List (Bytes × Bytes) := (if objs == "-" then [] else objs.splitOn ";").filterMap fun x =>
      match x.splitOn "=" with
      | [i, c] => some (unhex i, unhex c)
      | _ => none
    let st : Store := fun i => (tbl.find? (fun p => p.1 == i)).map (·.2)
    (s, resOut (fun l => listOut (l.map hexOut)) (Cmds.logCmd H st (anyB == "1") (unhex hd) (intOf k)))
  | ["cmd.reset", so, mi, ha, arg, lg, sn, ix] =>
    let snaps : List (Bytes × List Entry) := (if sn == "-" then [] else sn.splitOn ";").filterMap fun x =>
      match x.splitOn "=" with
      | [c, es] => some (unhex c, entriesIn es)
      | _ => none
    (s, resOut (fun r => hexOut r.target ++ " " ++ entriesOut r.index ++ " " ++ (if r.hard then "1" else "0"))
      (Cmds.resetCmd (so == "1") (mi == "1") (ha == "1") (unhex arg) (unhex lg) snaps (entriesIn ix)))
  | "cmd.restore-staged" :: ix :: sn :: args :: [] =>
    let r := Cmds.restoreStagedArgs (entriesIn sn) ((splitList args).map unhex) (entriesIn ix)
    (s, (if r.1 then "ok " else "err ") ++ entriesOut r.2)
  | ["abs.run", cs, bs, rs, hd, ix, lg, ops] =>
    let ids (x : String) : List Bytes := (splitList x).map unhex
    let r : Abs.Repo := ⟨ids cs, ids bs, pairsIn rs, unhex hd, pairsIn ix, (splitList lg).map (fun x => if x == "nil" then none else some (unhex x))⟩
    let parseOp (o : String) : Option Abs.Op :=
      match o.splitOn ":" with
      | ["add", p, b] => some (.add (unhex p) (unhex b))
      | ["unstage", p] => some (.unstage (unhex p))
      | ["stage", p, b] => some (.stageFromHead (unhex p) (unhex b))
      | ["commit", c] => some (.commit (unhex c))
      | ["bcreate", n] => some (.branchCreate (unhex n))
      | ["bdelete", n] => some (.branchDelete (unhex n))
      | ["brename", n] => some (.branchRename (unhex n))
      | ["switch", n] => some (.switch (unhex n))
      | ["switchc", n] => some (.switchCreate (unhex n))
      | ["updateref", n, i] => some (.updateRef (unhex n) (unhex i))
      | ["reset", k] => some (.reset (natOf k))
      | _ => none
    let opl := (if ops == "-" then [] else ops.splitOn ";").filterMap parseOp
    let r' := Abs.run r opl
    let sortB (l : List Bytes) := (l.mergeSort (fun a b => decide (a ≤ b))).eraseDups
    (s, "C=" ++ listOut ((sortB r'.commits).map hexOut) ++ " B=" ++ listOut ((sortB r'.blobs).map hexOut)
      ++ " R=" ++ pairsOut (sortPairs r'.branches) ++ " H=" ++ hexOut r'.head ++ " I=" ++ pairsOut (sortPairs r'.index)
      ++ " L=" ++ listOut (r'.reflog.map fun x => match x with | none => "nil" | some i => hexOut i))
  | ["idx.reset", c] => (s, resOut entriesOut (Cmds.resetEntries H s.fn depth (unhex c)))
  | ["idx.reset", c, _before] => (s, resOut entriesOut (Cmds.resetEntries H s.fn depth (unhex c)))
  | "eff.shape" :: cmd :: rest =>
    let n (i : Nat) : Nat := natOf (rest.getD i "0")
    let objs (k : Nat) : List (Bytes × Bytes) := (List.range k).map fun i => ([UInt8.ofNat i], [])
    let es : Option (List Eff.E) :=
      match cmd with
      | "commit" => some (Eff.commit (objs (n 0)) [98] [1] [])
      | "add1" => some (if n 0 == 1 then Eff.addFile [1] [] [] else Eff.setIndex [])
      | "branch" => some (Eff.branchCreate [110] [1] [])
      | "switch" => some (Eff.switchTo [98] [])
      | "switch-c" => some (Eff.switchCreate [110] [1] [] [])
      | "update-ref" => some (Eff.updateRef [98] [1])
      | "reset" =>
        let files := (List.range (n 1)).map fun i => ([UInt8.ofNat i], ([] : Bytes))
        some (Eff.reset [98] [1] [] (if n 0 == 0 then none else some []) (if n 0 == 2 then files else []))
      | "rename" =>
        some (Eff.branchRename [111] [110] [1]
          [.append .logHead [], .append .logHead [], .remove (.logBranch [111]), .append (.logBranch [110]) [], .append (.logBranch [110]) []])
      | "config" => some (Eff.replace "config" .config [])
      | "branch-d" => some (Eff.branchDelete [111])
      | "rm" => some (Eff.rmFiles ((List.range (n 0)).map fun i => ([UInt8.ofNat i], ([] : Bytes))))
      | "restore-staged" => some (Eff.restoreStaged ((List.range (n 0)).map fun _ => ([] : Bytes)))
      | "init" => some Eff.init
      | _ => none
    (s, match es with | some es => " ".intercalate (Eff.shape es) | none => "unsupported")
  | _ => (s, "bad-op")

partial def loop (h : IO.FS.Stream) (out : IO.FS.Stream) (s : St) : IO Unit := do
  let line ← h.getLine
  if line.isEmpty then return ()
  let (s', o) := step s line
  out.putStrLn o
  loop h out s'

end Driver
