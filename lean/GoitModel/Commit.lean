import GoitModel.Refs

/-! `internal/object/commit.go`: signature lines, commit objects; `cmd/log.go`: history walk. -/

structure Sign where
  name   : Bytes
  email  : Bytes
  unix   : Int
  offset : Int          -- seconds east of UTC
deriving DecidableEq, Repr

namespace Sign

/-- `offsetHour`, `offsetMinute` and the sign as computed in `Sign.String`
    (Go `/` and `%` truncate toward zero). Repaired: magnitudes are printed after the sign.
    These three definitions are re-derived from the source by `tools/xlate` on every run. -/
def hour (o : Int) : Int := if o ≥ 0 then Int.tdiv o 3600 else -(Int.tdiv o 3600)
def minute (o : Int) : Int := if o ≥ 0 then Int.tmod (Int.tdiv o 60) 60 else -(Int.tmod (Int.tdiv o 60) 60)
def signByte (o : Int) : UInt8 := if o ≥ 0 then 43 else 45

def zone (o : Int) : Bytes := signByte o :: (Dec.pad2 (hour o) ++ Dec.pad2 (minute o))

/-- `Sign.String` -/
def format (s : Sign) : Bytes :=
  s.name ++ asc " <" ++ s.email ++ asc "> " ++ Dec.ofInt s.unix ++ [32] ++ zone s.offset

def isAlpha (c : UInt8) : Bool := (65 ≤ c && c ≤ 90) || (97 ≤ c && c ≤ 122)
def isAlnum (c : UInt8) : Bool := isAlpha c || Dec.isDigit c
def isLocalChar (c : UInt8) : Bool := isAlnum c || c = 95 || c = 46 || c = 43 || c = 45
def isLabel (l : Bytes) : Bool :=
  match l with
  | [] => false
  | c :: cs => isAlnum c && cs.all (fun x => isAlnum x || x = 45)
def isTld (l : Bytes) : Bool := decide (2 ≤ l.length) && l.all isAlpha

/-- full match of `emailRegexpString` -/
def matchesEmail (e : Bytes) : Bool :=
  match Bytes.cut1 64 e with
  | (_, none) => false
  | (loc, some dom) =>
    loc ≠ [] && loc.all isLocalChar &&
      (let parts := Bytes.split1 46 dom
       decide (2 ≤ parts.length) && parts.dropLast.all isLabel && (parts.getLast?.map isTld).getD false)

/-- full match of `timestampRegexpString`: `[1-9][0-9]* [+-][0-9]{4}` -/
def matchesStamp (t : Bytes) : Bool :=
  match Bytes.cut1 32 t with
  | (_, none) => false
  | (secs, some z) =>
    (match secs with
     | c :: cs => (49 ≤ c && c ≤ 57) && cs.all Dec.isDigit
     | [] => false) &&
    (match z with
     | [s, a, b, c, d] => (s = 43 || s = 45) && [a, b, c, d].all Dec.isDigit
     | _ => false)

/-- `readSign` (repaired: a `-HHMM` zone is negative). The anchored `signRegexp` is recognised
    deterministically: name = text before the first `<` (must end in a space), e-mail = up to the
    next `>`, which must be followed by a space and the time stamp. -/
def parse (s : Bytes) : Option Sign :=
  match Bytes.cut1 60 s with
  | (_, none) => none
  | (nameSp, some r) =>
    match nameSp.reverse with
    | 32 :: nrev =>
      let name := nrev.reverse
      match Bytes.cut1 62 r with
      | (_, none) => none
      | (email, some r2) =>
        match r2 with
        | 32 :: stamp =>
          if matchesEmail email && matchesStamp stamp then
            match Bytes.cut1 32 stamp with
            | (secs, some z) =>
              match Fmt.parseInt secs, z with
              | some t, sg :: ds =>
                match Fmt.sscanfZone sg (sg :: ds) with
                | some (h, m) =>
                  let off := 3600 * h + 60 * m
                  some ⟨name, email, t, if sg = 45 then -off else off⟩
                | none => none
              | _, _ => none
            | _ => none
          else none
        | _ => none
    | _ => none

end Sign

structure Commit where
  tree      : Option Bytes := none
  parents   : List Bytes := []
  author    : Option Sign := none
  committer : Option Sign := none
  message   : Bytes := []
deriving DecidableEq, Repr

namespace Commit

/-- the header loop of `NewCommit`: lines until the first one without a space (which is consumed) -/
def header : Commit → List Bytes → Option (Commit × List Bytes)
  | c, [] => some (c, [])
  | c, l :: ls =>
    match Bytes.cut1 32 l with
    | (_, none) => some (c, ls)
    | (ty, some body) =>
      if ty = asc "tree" then
        match readHash body with
        | some h => header { c with tree := some h } ls
        | none => none
      else if ty = asc "parent" then
        match readHash body with
        | some h => header { c with parents := c.parents ++ [h] } ls
        | none => none
      else if ty = asc "author" then
        match Sign.parse body with
        | some s => header { c with author := some s } ls
        | none => none
      else if ty = asc "committer" then
        match Sign.parse body with
        | some s => header { c with committer := some s } ls
        | none => none
      else header c ls

/-- `NewCommit` on the data of a commit object -/
def parse (data : Bytes) : Option Commit :=
  match header {} (Bytes.scanLines data) with
  | none => none
  | some (c, rest) => some { c with message := Bytes.join [10] rest }

/-- the data `cmd.commit` builds: `parent` is the raw content of the branch file -/
def format (tree : Bytes) (parentRaw : Option Bytes) (author committer : Sign) (msg : Bytes) : Bytes :=
  asc "tree " ++ hashStr tree ++ [10] ++
  (match parentRaw with | some p => asc "parent " ++ p ++ [10] | none => []) ++
  asc "author " ++ author.format ++ [10] ++ asc "committer " ++ committer.format ++ [10] ++ [10] ++ msg ++ [10]

end Commit

namespace History

/-- `walkHistory`: queue, visited set and a loop counter bounded by `-n` exactly as written;
    fuel = the counter bound. Returns the visited commits in order, or an error. -/
def walk (H : HashFn) (st : Store) : Nat → List Bytes → List Bytes → Res (List (Bytes × Commit))
  | 0, _, _ => .ok []
  | _ + 1, [], _ => .ok []
  | k + 1, cur :: queue, visited =>
    if visited.contains cur then walk H st k queue visited
    else
      match Store.get H st cur with
      | .crash => .crash
      | .err => .err
      | .ok (kind, data) =>
        if kind ≠ .commit then .err else
        match Commit.parse data with
        | none => .err
        | some c =>
          match walk H st k (queue ++ c.parents) (cur :: visited) with
          | .ok rest => .ok ((cur, c) :: rest)
          | r => r

/-- `log -n k` from the commit `head` -/
def log (H : HashFn) (st : Store) (head : Bytes) (k : Int) : Res (List (Bytes × Commit)) :=
  walk H st k.toNat [head] []

end History
