import GoitModel.Bytes

/-! `fmt.Sscanf` as used by Goit (`"%d"` on the object size, `"+%02d%02d"` on the zone) and
    `strconv.ParseInt/Atoi`. Library behaviour written into the model and validated differentially. -/

namespace Fmt

/-- blanks skipped by `Sscanf` before a number; a newline is an error -/
def isScanBlank (b : UInt8) : Bool := b = 32 || b = 9 || b = 11 || b = 12 || b = 13

def skipBlanks : Bytes → Bytes
  | [] => []
  | a :: as => if isScanBlank a then skipBlanks as else a :: as

def int64Max : Nat := 9223372036854775807

/-- `Sscanf(s, "%d", &n)` into an `int`: skip blanks, optional sign, ≥ 1 digit, stop at the first
    non-digit, overflow is an error, the remaining input is ignored. `none` = error. -/
def sscanfD (s : Bytes) : Option Int :=
  match skipBlanks s with
  | [] => none
  | c :: rest =>
    let neg := c = 45
    let body := if c = 45 || c = 43 then rest else c :: rest
    let ds := body.takeWhile Dec.isDigit
    if ds = [] then none
    else
      let v := Dec.value ds
      if neg then (if v ≤ int64Max + 1 then some (-(v : Int)) else none)
      else (if v ≤ int64Max then some (v : Int) else none)

/-- one `%02d` verb: skip blanks, optional sign, then **at most two** characters of the token
    (the width counts the sign), at least one digit. Returns value and rest. -/
def scanD2 (s : Bytes) : Option (Int × Bytes) :=
  match skipBlanks s with
  | [] => none
  | c :: rest =>
    if c = 45 || c = 43 then
      -- sign consumes one of the two width positions
      match rest with
      | d :: r => if Dec.isDigit d then some ((if c = 45 then -1 else 1) * ((d.toNat - 48 : Nat) : Int), r) else none
      | [] => none
    else if Dec.isDigit c then
      match rest with
      | d :: r => if Dec.isDigit d then some ((Dec.value [c, d] : Nat), r) else some ((Dec.value [c] : Nat), d :: r)
      | [] => some ((Dec.value [c] : Nat), [])
    else none

/-- `Sscanf(s, "<sign>%02d%02d", &h, &m)` where `<sign>` is the literal first byte -/
def sscanfZone (sign : UInt8) (s : Bytes) : Option (Int × Int) :=
  match s with
  | c :: rest =>
    if c = sign then
      match scanD2 rest with
      | some (h, r) =>
        match scanD2 r with
        | some (m, _) => some (h, m)
        | none => none
      | none => none
    else none
  | [] => none

/-- `strconv.ParseInt(s, 10, 64)` / `strconv.Atoi`: optional sign, digits only (underscores are
    not accepted in base 10), no blanks, range checked -/
def parseInt (s : Bytes) : Option Int :=
  match s with
  | [] => none
  | c :: rest =>
    let neg := c = 45
    let body := if c = 45 || c = 43 then rest else c :: rest
    if body = [] || !(body.all Dec.isDigit) then none
    else
      let v := Dec.value body
      if neg then (if v ≤ int64Max + 1 then some (-(v : Int)) else none)
      else (if v ≤ int64Max then some (v : Int) else none)

end Fmt
