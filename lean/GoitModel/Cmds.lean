import GoitModel.Effects

/-! Command-level model: `status`, `add`, `rm`, `restore` as pure functions of what the observer sees
    (staging area, work-tree files and directories, `.goitignore`, HEAD snapshot), mirroring
    `cmd/status.go`, `cmd/add.go`, `cmd/rm.go`, `cmd/restore.go` and `internal/file/path.go`.
    Invoked from the repository root; arguments are relative paths. -/

namespace Cmds

/-- the part of the repository these commands read -/
structure WS where
  index  : List Entry
  files  : List (Bytes × Bytes)     -- work-tree files outside .goit: path → bytes
  dirs   : List Bytes               -- work-tree directories outside .goit
  ignore : Option Bytes             -- content of .goitignore, if present
  snap   : List Entry               -- HEAD snapshot (entries staged when HEAD's commit was made); [] before the first commit
  hasHead : Bool                    -- HEAD resolves to a commit

def fileAt (w : WS) (p : Bytes) : Option Bytes := (w.files.find? (fun f => f.1 == p)).map (·.2)
def isFile (w : WS) (p : Bytes) : Bool := (fileAt w p).isSome
def isDirOnDisk (w : WS) (p : Bytes) : Bool := p == asc "." || w.dirs.contains p || p == asc ".goit" || Bytes.hasPrefix p (asc ".goit/")
/-- `os.Stat` succeeds -/
def existsOnDisk (w : WS) (p : Bytes) : Bool := isFile w p || isDirOnDisk w p

/-- `filepath.Clean` for the relative arguments the harness generates (no `..`): strips `./`, a trailing
    `/` and double slashes; `""` and `"."` are `"."` -/
def cleanPath (a : Bytes) : Bytes :=
  let comps := (Bytes.split1 47 a).filter (fun c => c ≠ [] && c ≠ asc ".")
  if comps.isEmpty then asc "." else Bytes.join [47] comps

/-- `Ignore.IsIncluded(path, index)` -/
def ignored (w : WS) (p : Bytes) : Bool :=
  let t := Ignore.target p (existsOnDisk w p) (isDirOnDisk w p) (IndexOps.isDir w.index p)
  Ignore.matchesTarget (Ignore.lines w.ignore) t

/-- files beneath directory `d` (`"."` = everything), in no particular order (`ReadDir` order is not modelled;
    the staging area is sorted anyway) -/
def filesUnder (w : WS) (d : Bytes) : List (Bytes × Bytes) :=
  w.files.filter fun f => d == asc "." || IndexOps.under d f.1

/-- all proper directory prefixes of a path, shortest first (`a/b/c` ↦ `a`, `a/b`) -/
def dirPrefixes (p : Bytes) : List Bytes :=
  let comps := Bytes.split1 47 p
  (List.range (comps.length - 1)).map fun i => Bytes.join [47] (comps.take (i + 1))

/-- `GetFilePathsUnderDirectoryWithIgnore(".")`: a file is reached iff neither one of its parent
    directories nor the file itself is ignored -/
def walkIgn (w : WS) : List Bytes :=
  (w.files.filter fun f => (dirPrefixes f.1).all (fun d => !ignored w d) && !ignored w f.1).map (·.1)

structure Status where
  staged    : List IndexOps.DiffEntry
  modified  : List Bytes
  deleted   : List Bytes
  untracked : List Bytes

/-- `goit status` -/
def status (H : HashFn) (w : WS) : Res Status :=
  let tree := TreeBuild.build H (TreeBuild.fuelFor w.snap) w.snap
  match IndexOps.diffWithTree w.index tree with
  | .crash => .crash
  | .err => .err
  | .ok staged =>
    .ok {
      staged := staged
      modified := (w.index.filter fun e =>
        match fileAt w e.path with
        | some data => Obj.id H .blob data != e.id
        | none => false).map (·.path)
      deleted := (w.index.filter fun e => !existsOnDisk w e.path).map (·.path)
      untracked := (walkIgn w).filter fun p => !IndexOps.found w.index p }

/-- `add()` for one file: stage the blob id of its bytes -/
def addOne (H : HashFn) (idx : List Entry) (p data : Bytes) : Res (List Entry) :=
  (IndexOps.update idx (Obj.id H .blob data) p).map (·.2)

/-- the per-argument loop of `goit add` (after the up-front validation) -/
def addArgs (H : HashFn) (w : WS) : List Bytes → List Entry → Res (List Entry)
  | [], idx => .ok idx
  | a :: rest, idx =>
    let p := cleanPath a
    if ignored { w with index := idx } p then addArgs H w rest idx
    else if !existsOnDisk w p then
      -- tracked but gone: unstage it
      match IndexOps.delete idx p with
      | .ok idx' => addArgs H w rest idx'
      | .err => .err
      | .crash => .crash
    else if isDirOnDisk w p then
      let fs := (filesUnder w p).filter fun f => !ignored { w with index := idx } f.1
      match fs.foldl (fun (acc : Res (List Entry)) f => acc.bind fun i => addOne H i f.1 f.2) (Res.ok idx) with
      | .ok idx' => addArgs H w rest idx'
      | r => r
    else
      match fileAt w p with
      | some data =>
        match addOne H idx p data with
        | .ok idx' => addArgs H w rest idx'
        | r => r
      | none => .err

/-- `goit add args`: every argument must exist or be tracked, otherwise nothing is done -/
def add (H : HashFn) (w : WS) (args : List Bytes) : Res (List Entry) :=
  if args.isEmpty then .err
  else if args.all (fun a => existsOnDisk w (cleanPath a) || IndexOps.found w.index (cleanPath a)) then
    addArgs H w args w.index
  else .err

/-- `goit rm args`: result index and the work files that are removed -/
def rmArgs (w : WS) : List Bytes → List Entry → List Bytes → Res (List Entry × List Bytes)
  | [], idx, removed => .ok (idx, removed)
  | a :: rest, idx, removed =>
    let p := cleanPath a
    let wasDir := IndexOps.isDir idx p
    let beneath := if wasDir then (IndexOps.byDir idx p).map (·.path) else []
    let idx1 := idx.filter fun e => !beneath.contains e.path
    let reg := IndexOps.found idx1 p
    if !reg && !wasDir then .err
    else
      let idx2 := if reg then idx1.filter (fun e => e.path != p) else idx1
      rmArgs w rest idx2 (removed ++ beneath ++ (if reg then [p] else []))

def rm (w : WS) (args : List Bytes) : Res (List Entry × List Bytes) :=
  if args.all (fun a => IndexOps.found w.index (cleanPath a) || IndexOps.isDir w.index (cleanPath a)) then
    rmArgs w args w.index []
  else .err

/-- `goit restore args` (working tree): the tracked paths that are rewritten with their staged blob -/
def restoreWork (w : WS) : List Bytes → Res (List Entry)
  | [] => .ok []
  | a :: rest =>
    let p := cleanPath a
    let reg := IndexOps.found w.index p
    let asDir := IndexOps.isDir w.index p
    if !(reg || asDir) then .err
    else
      let here := if asDir then IndexOps.byDir w.index p else w.index.filter (fun e => e.path == p)
      (restoreWork w rest).map (here ++ ·)

/-! ### `goit restore --staged args` -/

/-- the id HEAD's snapshot holds for a path (`GetNode` on HEAD's tree finds a *file* there; for the trees
    Goit writes that is exactly membership in the snapshot: `C07.getNode_build`) -/
def snapId (snap : List Entry) (p : Bytes) : Option Bytes := (snap.find? (fun e => e.path == p)).map (·.id)

/-- `restoreIndex`: the staged entry of one path becomes HEAD's entry (removed if HEAD has none) -/
def restoreIndexOne (idx snap : List Entry) (p : Bytes) : Res (List Entry) :=
  match snapId snap p with
  | some id => (IndexOps.update idx id p).map (·.2)
  | none => if IndexOps.found idx p then IndexOps.delete idx p else .err

/-- the loop over the paths of a directory argument; stops at the first failure, keeping what was done -/
def rsFold (snap : List Entry) : List Bytes → List Entry → Bool × List Entry
  | [], idx => (true, idx)
  | p :: ps, idx =>
    match restoreIndexOne idx snap p with
    | .ok idx' => rsFold snap ps idx'
    | _ => (false, idx)

/-- the paths a directory argument restores: what is staged beneath it, and what HEAD holds beneath it -/
def stagedDirPaths (idx snap : List Entry) (p : Bytes) : List Bytes :=
  (IndexOps.byDir idx p).map (·.path) ++ (snap.filter (fun t => IndexOps.under p t.path)).map (·.path)

/-- `goit restore --staged args` (with a HEAD commit): `(succeeded, staging area afterwards)`; an error
    on a later argument keeps the changes already made -/
def restoreStagedArgs (snap : List Entry) : List Bytes → List Entry → Bool × List Entry
  | [], idx => (true, idx)
  | a :: rest, idx =>
    let p := cleanPath a
    let isDirArg := snap.any (fun t => IndexOps.under p t.path) || IndexOps.isDir idx p
    let isFileArg := IndexOps.found idx p || (snapId snap p).isSome
    match rsFold snap (if isDirArg then stagedDirPaths idx snap p else []) idx with
    | (false, idx1) => (false, idx1)
    | (true, idx1) =>
      if isFileArg then
        match restoreIndexOne idx1 snap p with
        | .ok idx2 => restoreStagedArgs snap rest idx2
        | _ => (false, idx1)
      else if !isDirArg then (false, idx1)
      else restoreStagedArgs snap rest idx1

/-! ### `goit commit -m msg` -/

/-- what `commit` reads: the staging area, HEAD's snapshot (when a commit exists), the raw content of the
    current branch's file, whether `refs/heads` holds any branch, the two config files, the clock -/
structure CommitIn where
  index       : List Entry
  snap        : Option (List Entry)
  branchRaw   : Option Bytes
  anyBranches : Bool
  cfgLocal    : Option Bytes
  cfgGlobal   : Option Bytes
  unix        : Int
  offset      : Int
  msg         : Bytes

/-- the commit object `commit()` builds: root tree of the staged entries, the branch file's content as
    parent, the configured identity with the current time as author and committer, the message -/
def commitData (H : HashFn) (i : CommitIn) (name email : Bytes) : Bytes :=
  let sign : Sign := ⟨name, email, i.unix, i.offset⟩
  Commit.format (TreeBuild.writeTree H i.index).id i.branchRaw sign sign i.msg

/-- a config file that does not exist is empty; one that does not parse makes every command fail -/
def cfgOf (f : Option Bytes) : Option Config.Sections :=
  match f with | some b => Config.parse b | none => some []

/-- build the object; `NewCommit` re-reads what was just formatted: an identity the reader rejects is refused -/
def commitMake (H : HashFn) (i : CommitIn) (name email : Bytes) : Res (Bytes × Bytes) :=
  if (Commit.parse (commitData H i name email)).isNone then .err
  else .ok (Obj.id H .commit (commitData H i name email), commitData H i name email)

/-- `commit` once both config files are loaded -/
def commitWith (H : HashFn) (i : CommitIn) (loc glob : Config.Sections) : Res (Bytes × Bytes) :=
  if !Config.isUserSet loc glob then .err
  else if !i.anyBranches then
    (if i.index.isEmpty then .err
     else commitMake H i (Config.userField loc glob (asc "name")) (Config.userField loc glob (asc "email")))
  else
    match i.snap with
    | none => .err
    | some sn =>
      match IndexOps.diffWithTree i.index (TreeBuild.build H (TreeBuild.fuelFor sn) sn) with
      | .ok [] => .err            -- nothing to commit
      | .ok _ => commitMake H i (Config.userField loc glob (asc "name")) (Config.userField loc glob (asc "email"))
      | _ => .err

/-- `goit commit`: `(id, data)` of the new commit object, or a refusal -/
def commitCmd (H : HashFn) (i : CommitIn) : Res (Bytes × Bytes) :=
  match cfgOf i.cfgLocal, cfgOf i.cfgGlobal with
  | some loc, some glob => commitWith H i loc glob
  | _, _ => .err

/-! ### `goit reset [--soft|--mixed|--hard] HEAD@{n}` -/

/-- the mode flags of `reset` as evaluated in `cmd/reset.go`: exactly one mode must remain once
    `--soft`/`--hard` have cleared the default `--mixed` -/
def modeOf (soft mixed hard : Bool) : Option (Bool × Bool × Bool) :=
  let mixed' := if soft || hard then false else mixed
  if (soft && !mixed' && !hard) || (!soft && mixed' && !hard) || (!soft && !mixed' && hard) then some (soft, mixed', hard) else none

structure ResetOut where
  target : Bytes            -- the commit the current branch is set to
  index  : List Entry       -- the staging area afterwards
  hard   : Bool             -- the staged blobs are written to the working tree
deriving DecidableEq, Repr

/-- `goit reset`: flags, argument, the bytes of `logs/HEAD`, the snapshots of the stored commits
    (what `Index.Reset` reads back: `C05.reset_readback`), the staging area -/
def resetCmd (soft mixed hard : Bool) (arg logHead : Bytes) (snaps : List (Bytes × List Entry)) (idx : List Entry) : Res ResetOut :=
  match modeOf soft mixed hard with
  | none => .err
  | some (s, _, h) =>
    match Reflog.parseResetArg arg with
    | none => .err
    | some n =>
      match Reflog.parse logHead with
      | none => .err
      | some rs =>
        match Reflog.get rs n with
        | none => .err
        | some r =>
          match r.hash with
          | none => .err                       -- the record of a branch rename carries no commit
          | some t =>
            match snaps.find? (fun x => x.1 == t) with
            | none => .err
            | some (_, es) => .ok ⟨t, if s then idx else es, h⟩

/-! ### `goit log [-n k]` -/

/-- `goit log`: refused before the first commit; otherwise the walk from HEAD's commit, bounded by `-n`
    (default 5: regenerated fact) -/
def logCmd (H : HashFn) (st : Store) (anyBranches : Bool) (head : Bytes) (k : Int) : Res (List Bytes) :=
  if !anyBranches then .err
  else (History.log H st head k).map (fun l => l.map (·.1))

/-- `Index.Reset(hash)`: commit → its tree → `walkTree` → `getEntriesFromTree`; the new staging area -/
def resetEntries (H : HashFn) (s : Store) (depth : Nat) (commitId : Bytes) : Res (List Entry) :=
  match Store.get H s commitId with
  | .crash => .crash
  | .err => .err
  | .ok (kind, data) =>
    if kind ≠ .commit then .err else
    match Commit.parse data with
    | none => .err
    | some c =>
      match c.tree with
      | none => .crash          -- `GetObject` of a nil hash slices an empty string
      | some t =>
        match Store.get H s t with
        | .crash => .crash
        | .err => .err
        | .ok (tk, td) =>
          match TreeCodec.newTree H s depth tk td with
          | none => .err
          | some nodes => .ok (flattenTree nodes)

end Cmds
