import GoitModel.Bytes

/-! The reference side of the repository as an abstract state machine: which commits and blobs are
    stored, what each branch points to, which branch HEAD names, which blob each staged path names, and
    the ids recorded in the HEAD reflog. One operation per modifying command, with the validations of
    the (repaired) commands as guards; a refused operation leaves the state unchanged. This is the model
    the connectivity invariant (C03) and the branch state machine (C10) are proved on; it is compared
    with the abstraction of the real repository before and after every command of the generated histories. -/

namespace Abs

abbrev Id := Bytes
abbrev Name := Bytes

structure Repo where
  commits  : List Id := []
  blobs    : List Id := []
  branches : List (Name × Id) := []
  head     : Name := asc "main"
  index    : List (Bytes × Id) := []
  reflog   : List (Option Id) := []      -- oldest first; `none` = the zero id of a rename record
deriving Repr, DecidableEq

def names (r : Repo) : List Name := r.branches.map (·.1)
def tip (r : Repo) (n : Name) : Option Id := (r.branches.find? (fun b => b.1 == n)).map (·.2)
def setBranch (bs : List (Name × Id)) (n : Name) (i : Id) : List (Name × Id) :=
  if bs.any (fun b => b.1 == n) then bs.map (fun b => if b.1 == n then (n, i) else b) else bs ++ [(n, i)]
def setPath (ix : List (Bytes × Id)) (p : Bytes) (b : Id) : List (Bytes × Id) :=
  if ix.any (fun e => e.1 == p) then ix.map (fun e => if e.1 == p then (p, b) else e) else ix ++ [(p, b)]

/-- a branch name that stays inside `refs/heads` -/
def validName (n : Name) : Bool :=
  n ≠ [] && !List.elem (47 : UInt8) n && !List.elem (92 : UInt8) n && !List.elem (0 : UInt8) n && !List.elem (10 : UInt8) n && !List.elem (13 : UInt8) n && n ≠ asc "." && n ≠ asc ".."

inductive Op where
  | add (path : Bytes) (blob : Id)          -- `add`: the blob is stored, then the path is staged
  | unstage (path : Bytes)                  -- `rm`, `add` of a deleted path, `restore --staged` of a new path
  | stageFromHead (path : Bytes) (blob : Id) -- `restore --staged`, `reset --mixed/--hard`: an entry of a stored commit's snapshot
  | commit (newId : Id)                     -- `commit`: trees and the commit object are stored, then the branch moves
  | branchCreate (n : Name)
  | branchDelete (n : Name)
  | branchRename (n : Name)
  | switch (n : Name)
  | switchCreate (n : Name)
  | updateRef (n : Name) (id : Id)
  | reset (pos : Nat)                       -- `reset HEAD@{pos}` (any mode: the reference side is the same)
deriving Repr

/-- `Reflog.GetRecord`: position 0 is the newest record -/
def reflogAt (r : Repo) (pos : Nat) : Option (Option Id) :=
  if pos < r.reflog.length then r.reflog[r.reflog.length - 1 - pos]? else none

/-- one modifying command; a refused command changes nothing -/
def step (r : Repo) : Op → Repo
  | .add p b => { r with blobs := b :: r.blobs, index := setPath r.index p b }
  | .unstage p => { r with index := r.index.filter (fun e => e.1 != p) }
  | .stageFromHead p b => if r.blobs.contains b then { r with index := setPath r.index p b } else r
  | .commit c =>
    { r with commits := c :: r.commits, branches := setBranch r.branches r.head c, reflog := r.reflog ++ [some c] }
  | .branchCreate n =>
    match tip r r.head with
    | some t => if validName n && !(names r).contains n then { r with branches := r.branches ++ [(n, t)] } else r
    | none => r
  | .branchDelete n =>
    if n != r.head && (names r).contains n then { r with branches := r.branches.filter (fun b => b.1 != n) } else r
  | .branchRename n =>
    match tip r r.head with
    | some t =>
      if validName n && !(names r).contains n then
        { r with branches := (r.branches.filter (fun b => b.1 != r.head)) ++ [(n, t)], head := n,
                 reflog := r.reflog ++ [none, some t] }
      else r
    | none => r
  | .switch n =>
    match tip r n with
    | some t => { r with head := n, reflog := r.reflog ++ [some t] }
    | none => r
  | .switchCreate n =>
    match tip r r.head with
    | some t =>
      if validName n && !(names r).contains n then
        { r with branches := r.branches ++ [(n, t)], head := n, reflog := r.reflog ++ [some t] }
      else r
    | none => r
  | .updateRef n id =>
    if (names r).contains n && r.commits.contains id then { r with branches := setBranch r.branches n id, head := n } else r
  | .reset pos =>
    match reflogAt r pos, tip r r.head with
    | some (some id), some _ => { r with branches := setBranch r.branches r.head id, reflog := r.reflog ++ [some id] }
    | _, _ => r

def run (r : Repo) (ops : List Op) : Repo := ops.foldl step r

end Abs
