import GoitModel.Driver

def main (_args : List String) : IO Unit := do
  let stdin ← IO.getStdin
  let stdout ← IO.getStdout
  Driver.loop stdin stdout {}
  stdout.flush
