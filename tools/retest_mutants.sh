#!/bin/bash
# tools/retest_mutants.sh [seed...] : for every seeded change, confirm it (scratch worktree) and run the quick
# check of its property against it at each seed; prints one line per (mutant, seed). Never touches /repo's tree.
seeds=${@:-1}
mkdir -p /tmp/seed
for d in ${MUTANTS:-${VERIF_HOME:-/verif}/seeded/*/}; do d=${VERIF_HOME:-/verif}/seeded/$(basename $d)/
  m=$(basename $d); prop=${m%%-*}; [ "$m" = retired ] && continue
  c=$(bash ${VERIF_HOME:-/verif}/tools/confirm_mutant.sh $m 2>&1 | tail -1)
  echo "CONFIRM $c"
  for s in $seeds; do
    out=$(VERIF_SEED=$s bash ${VERIF_HOME:-/verif}/tools/trymutant.sh $d $prop 2>&1)
    if echo "$out" | grep -q VIOLATION; then echo "CAUGHT $m seed=$s $(echo "$out" | grep -c VIOLATION) violation line(s)"; else echo "MISSED $m seed=$s :: $(echo "$out" | tail -2 | tr '\n' ' ')"; fi
  done
done
