#!/bin/bash
# tools/process_mutant.sh <Cxx> <suffix> [other props...] : ingest a sub-agent's change, confirm it in a scratch worktree,
# run the quick check(s) against it
p=$1; suf=$2; shift; shift
export GOFLAGS=-mod=mod GOPROXY=off GOSUMDB=off GOTOOLCHAIN=local PATH=$PATH:/opt/veriftools/lean/bin
mkdir -p /tmp/seed
bash /verif/tools/ingest_mutant.sh $p $suf
bash /verif/tools/confirm_mutant.sh $p-$suf
bash /verif/tools/trymutant.sh /verif/seeded/$p-$suf $p "$@"
