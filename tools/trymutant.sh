#!/bin/bash
# tools/trymutant.sh <seeded dir> <prop>...  : apply patch to /repo, run quick checks, undo
d=$1; shift
cd /repo && git apply --3way "$d/patch.diff" 2>/dev/null || git apply "$d/patch.diff" || { echo "patch does not apply"; git checkout -- . ; exit 3; }
git -C /repo diff --stat | tail -1
for p in "$@"; do (cd /verif && bin/check $p quick 2>&1 | grep -E "VIOLATION|KNOWN|quick seed|failure" | cut -c1-220); done
cd /repo && git reset -q --hard HEAD && git status --short | head -3
