#!/bin/bash
# tools/trymutant.sh <seeded dir> <prop>...  : apply the patch in a scratch worktree of /repo (never in
# /repo itself), run the quick checks against it (VERIF_REPO), remove the worktree.
d=$1; shift
wt=/tmp/seed/try-$$
git -C /repo worktree add -q --detach $wt HEAD || exit 9
(cd $wt && git apply "$d/patch.diff") || { echo "patch does not apply"; git -C /repo worktree remove --force $wt; exit 3; }
for p in "$@"; do (cd ${VERIF_HOME:-/verif} && VERIF_REPO=$wt VERIF_EVIDENCE_DIR=/var/tmp/mutant-evidence bin/check $p quick 2>&1 | grep -E "VIOLATION|KNOWN|quick seed|failure" | cut -c1-220); done
git -C /repo worktree remove --force $wt
