#!/usr/bin/env python3
import json,sys,binascii,collections
d=json.load(open(sys.argv[1]))
def dec(l):
    f=l.split(' ')
    h=lambda x: '' if x=='-' else binascii.unhexlify(x).decode('utf8','replace')
    if f[0]=='W': return f"W {f[1]} {h(f[2])!r} {h(f[3])[:30]!r}"
    if f[0]=='X': return f"X tz={f[1]} goit " + ' '.join(repr(h(a)) for a in f[2].split(','))
    return l[:150]
for f in d.get('findings',[])+d.get('first_differences',[]):
    print('==',f['clause'],'| step',f['step'],'|',f.get('detail','')[:400], '| impl', f.get('impl','')[:100], '| model', f.get('model','')[:100])
    if len(sys.argv)>2:
        for i,l in enumerate(f['case']['lines'][:f['step']+1]): print('   ',i,dec(l))
print(d.get('no_longer_checks'))
