module factsgen

go 1.19
