// factsgen: regenerates, from the Go sources of /repo's working tree,
//   (1) the constants the Lean theorems depend on (regexp sources, Sprintf formats, mode strings,
//       index signature, default -n, record-type names, the order of calls in commit()), and
//   (2) a Lean translation of the straight-line integer code of Sign.String and log.NewRecord
//       (Go's truncating / and % become Int.tdiv / Int.tmod).
// Output: a Lean file on stdout. Anything outside the supported subset makes the tool fail loudly.
package main

import (
	"fmt"
	"go/ast"
	"go/parser"
	"go/token"
	"os"
	"path/filepath"
	"sort"
	"strconv"
	"strings"
)

var fset = token.NewFileSet()

func parse(path string) *ast.File {
	f, err := parser.ParseFile(fset, path, nil, 0)
	if err != nil {
		fmt.Fprintln(os.Stderr, "parse error:", err)
		os.Exit(1)
	}
	return f
}

func fail(format string, a ...interface{}) {
	fmt.Fprintf(os.Stderr, format+"\n", a...)
	os.Exit(1)
}

func leanStr(s string) string {
	var b strings.Builder
	b.WriteByte('"')
	for _, c := range []byte(s) {
		switch {
		case c == '"':
			b.WriteString(`\"`)
		case c == '\\':
			b.WriteString(`\\`)
		case c == '\n':
			b.WriteString(`\n`)
		case c == '\t':
			b.WriteString(`\t`)
		case c < 32 || c > 126:
			b.WriteString(fmt.Sprintf(`\x%02x`, c))
		default:
			b.WriteByte(c)
		}
	}
	b.WriteByte('"')
	return b.String()
}

func strLit(e ast.Expr) (string, bool) {
	switch v := e.(type) {
	case *ast.BasicLit:
		if v.Kind == token.STRING {
			s, err := strconv.Unquote(v.Value)
			return s, err == nil
		}
	case *ast.BinaryExpr:
		if v.Op == token.ADD {
			a, ok1 := strLit(v.X)
			b, ok2 := strLit(v.Y)
			if ok1 && ok2 {
				return a + b, true
			}
		}
	case *ast.ParenExpr:
		return strLit(v.X)
	}
	return "", false
}

// string literals passed as first argument of calls named `fn` (e.g. regexp.MustCompile, fmt.Sprintf)
// inside the function or top-level var declarations named `scope` ("" = package level vars)
func collectCallStrings(f *ast.File, scope string, fn string, vars map[string]string) []string {
	var out []string
	visit := func(n ast.Node) {
		ast.Inspect(n, func(n ast.Node) bool {
			c, ok := n.(*ast.CallExpr)
			if !ok || len(c.Args) == 0 {
				return true
			}
			name := ""
			switch fx := c.Fun.(type) {
			case *ast.SelectorExpr:
				name = fx.Sel.Name
			case *ast.Ident:
				name = fx.Name
			}
			if name != fn {
				return true
			}
			if s, ok := evalStr(c.Args[0], vars); ok {
				out = append(out, s)
			}
			return true
		})
	}
	for _, d := range f.Decls {
		switch v := d.(type) {
		case *ast.FuncDecl:
			full := v.Name.Name
			if v.Recv != nil && len(v.Recv.List) > 0 {
				t := v.Recv.List[0].Type
				if st, ok := t.(*ast.StarExpr); ok {
					t = st.X
				}
				if id, ok := t.(*ast.Ident); ok {
					full = id.Name + "." + full
				}
			}
			if full == scope {
				visit(v)
			}
		case *ast.GenDecl:
			if scope == "" && v.Tok == token.VAR {
				visit(v)
			}
		}
	}
	return out
}

func evalStr(e ast.Expr, vars map[string]string) (string, bool) {
	switch v := e.(type) {
	case *ast.Ident:
		s, ok := vars[v.Name]
		return s, ok
	case *ast.BinaryExpr:
		if v.Op == token.ADD {
			a, ok1 := evalStr(v.X, vars)
			b, ok2 := evalStr(v.Y, vars)
			return a + b, ok1 && ok2
		}
	}
	return strLit(e)
}

// package-level string variables / constants
func stringVars(f *ast.File) map[string]string {
	m := map[string]string{}
	for _, d := range f.Decls {
		g, ok := d.(*ast.GenDecl)
		if !ok {
			continue
		}
		for _, sp := range g.Specs {
			vs, ok := sp.(*ast.ValueSpec)
			if !ok {
				continue
			}
			for i, n := range vs.Names {
				if i < len(vs.Values) {
					if s, ok := evalStr(vs.Values[i], m); ok {
						m[n.Name] = s
					}
				}
			}
		}
	}
	return m
}

// regexp sources by variable name: `name = regexp.MustCompile(<expr>)`
func regexVars(f *ast.File) map[string]string {
	vars := stringVars(f)
	m := map[string]string{}
	for _, d := range f.Decls {
		g, ok := d.(*ast.GenDecl)
		if !ok {
			continue
		}
		for _, sp := range g.Specs {
			vs, ok := sp.(*ast.ValueSpec)
			if !ok {
				continue
			}
			for i, n := range vs.Names {
				if i >= len(vs.Values) {
					continue
				}
				if c, ok := vs.Values[i].(*ast.CallExpr); ok && len(c.Args) == 1 {
					if se, ok := c.Fun.(*ast.SelectorExpr); ok && se.Sel.Name == "MustCompile" {
						if s, ok := evalStr(c.Args[0], vars); ok {
							m[n.Name] = s
						}
					}
				}
			}
		}
	}
	return m
}

func findFunc(f *ast.File, name string) *ast.FuncDecl {
	for _, d := range f.Decls {
		if fd, ok := d.(*ast.FuncDecl); ok {
			full := fd.Name.Name
			if fd.Recv != nil && len(fd.Recv.List) > 0 {
				t := fd.Recv.List[0].Type
				if st, ok := t.(*ast.StarExpr); ok {
					t = st.X
				}
				if id, ok := t.(*ast.Ident); ok {
					full = id.Name + "." + full
				}
			}
			if full == name {
				return fd
			}
		}
	}
	return nil
}

// names of the functions/methods called in a function body, in source order
func callOrder(fd *ast.FuncDecl) []string {
	var out []string
	ast.Inspect(fd.Body, func(n ast.Node) bool {
		if c, ok := n.(*ast.CallExpr); ok {
			switch fx := c.Fun.(type) {
			case *ast.SelectorExpr:
				out = append(out, fx.Sel.Name)
			case *ast.Ident:
				out = append(out, fx.Name)
			}
		}
		return true
	})
	return out
}

// ---- mini translator: int expressions and if/else over int variables ----

type xl struct {
	intVars []string        // in declaration order
	strVars []string        // string variables assigned literals
	known   map[string]bool // int variables in scope
	kstr    map[string]bool
	inputs  map[string]bool
}

func (x *xl) expr(e ast.Expr) string {
	switch v := e.(type) {
	case *ast.BasicLit:
		if v.Kind == token.INT {
			return "(" + v.Value + " : Int)"
		}
	case *ast.Ident:
		if x.known[v.Name] || x.inputs[v.Name] {
			return v.Name
		}
	case *ast.ParenExpr:
		return x.expr(v.X)
	case *ast.UnaryExpr:
		if v.Op == token.SUB {
			return "(-" + x.expr(v.X) + ")"
		}
	case *ast.BinaryExpr:
		a, b := x.expr(v.X), x.expr(v.Y)
		switch v.Op {
		case token.ADD:
			return "(" + a + " + " + b + ")"
		case token.SUB:
			return "(" + a + " - " + b + ")"
		case token.MUL:
			return "(" + a + " * " + b + ")"
		case token.QUO:
			return "(Int.tdiv " + a + " " + b + ")"
		case token.REM:
			return "(Int.tmod " + a + " " + b + ")"
		}
	}
	fail("xlate: unsupported integer expression at %s", fset.Position(e.Pos()))
	return ""
}

func (x *xl) cond(e ast.Expr) string {
	if b, ok := e.(*ast.BinaryExpr); ok {
		op := map[token.Token]string{token.GEQ: "≥", token.LEQ: "≤", token.GTR: ">", token.LSS: "<", token.EQL: "=", token.NEQ: "≠"}[b.Op]
		if op != "" {
			return x.expr(b.X) + " " + op + " " + x.expr(b.Y)
		}
	}
	fail("xlate: unsupported condition at %s", fset.Position(e.Pos()))
	return ""
}

func (x *xl) result() string {
	var parts []string
	parts = append(parts, x.intVars...)
	parts = append(parts, x.strVars...)
	return "(" + strings.Join(parts, ", ") + ")"
}

// translate a statement list; `k` is the continuation (rest of the block) rendered afterwards
func (x *xl) stmts(ss []ast.Stmt, indent string, stop func(ast.Stmt) bool) string {
	if len(ss) == 0 {
		return indent + x.result()
	}
	s := ss[0]
	if stop != nil && stop(s) {
		return indent + x.result()
	}
	switch v := s.(type) {
	case *ast.AssignStmt:
		if len(v.Lhs) == 1 && len(v.Rhs) == 1 {
			if id, ok := v.Lhs[0].(*ast.Ident); ok {
				if x.inputs[id.Name] && v.Tok == token.DEFINE {
					// read from the clock / the time value: an input of the translated function
					return x.stmts(ss[1:], indent, stop)
				}
				if lit, ok := strLit(v.Rhs[0]); ok && (x.kstr[id.Name] || v.Tok == token.DEFINE) {
					if !x.kstr[id.Name] {
						x.kstr[id.Name] = true
						x.strVars = append(x.strVars, id.Name)
					}
					return indent + "let " + id.Name + " : String := " + leanStr(lit) + "\n" + x.stmts(ss[1:], indent, stop)
				}
				if x.kstr[id.Name] {
					fail("xlate: unsupported string assignment at %s", fset.Position(s.Pos()))
				}
				if v.Tok == token.DEFINE || x.known[id.Name] {
					rhs := x.expr(v.Rhs[0])
					if !x.known[id.Name] {
						x.known[id.Name] = true
						x.intVars = append(x.intVars, id.Name)
					}
					return indent + "let " + id.Name + " : Int := " + rhs + "\n" + x.stmts(ss[1:], indent, stop)
				}
			}
		}
		// `_, offsetSec := s.Timestamp.Zone()` and similar: inputs are given as parameters
		allInput := true
		for _, l := range v.Lhs {
			id, ok := l.(*ast.Ident)
			if !ok || !(id.Name == "_" || x.inputs[id.Name]) {
				allInput = false
			}
		}
		if allInput {
			return x.stmts(ss[1:], indent, stop)
		}
	case *ast.DeclStmt:
		if g, ok := v.Decl.(*ast.GenDecl); ok && g.Tok == token.VAR {
			for _, sp := range g.Specs {
				vs := sp.(*ast.ValueSpec)
				if id, ok := vs.Type.(*ast.Ident); ok && id.Name == "string" && len(vs.Values) == 0 {
					for _, n := range vs.Names {
						x.kstr[n.Name] = true
						x.strVars = append(x.strVars, n.Name)
					}
					// zero value
					out := ""
					for _, n := range vs.Names {
						out += indent + "let " + n.Name + " : String := \"\"\n"
					}
					return out + x.stmts(ss[1:], indent, stop)
				}
			}
		}
	case *ast.IfStmt:
		if v.Init == nil {
			c := x.cond(v.Cond)
			rest := ss[1:]
			thenS := append(append([]ast.Stmt{}, v.Body.List...), rest...)
			var elseS []ast.Stmt
			if v.Else != nil {
				if b, ok := v.Else.(*ast.BlockStmt); ok {
					elseS = append(append([]ast.Stmt{}, b.List...), rest...)
				} else {
					fail("xlate: unsupported else at %s", fset.Position(v.Pos()))
				}
			} else {
				elseS = rest
			}
			// each branch works on its own copy of the variable tables (declarations inside are local in Go,
			// but the subset only re-assigns outer variables)
			return indent + "if " + c + " then\n" + x.stmts(thenS, indent+"  ", stop) + "\n" + indent + "else\n" + x.stmts(elseS, indent+"  ", stop)
		}
	}
	fail("xlate: unsupported statement at %s", fset.Position(s.Pos()))
	return ""
}

func isSprintfAssign(s ast.Stmt) bool {
	found := false
	ast.Inspect(s, func(n ast.Node) bool {
		if c, ok := n.(*ast.CallExpr); ok {
			if se, ok := c.Fun.(*ast.SelectorExpr); ok && (se.Sel.Name == "Sprintf" || se.Sel.Name == "Sprint") {
				found = true
			}
		}
		return true
	})
	return found
}

func main() {
	if len(os.Args) < 2 {
		fail("usage: factsgen <repo>")
	}
	repo := os.Args[1]
	p := func(rel string) *ast.File { return parse(filepath.Join(repo, rel)) }
	commit := p("internal/object/commit.go")
	object := p("internal/object/object.go")
	tree := p("internal/object/tree.go")
	shaF := p("internal/sha/sha.go")
	index := p("internal/store/index.go")
	head := p("internal/store/head.go")
	ignore := p("internal/store/ignore.go")
	config := p("internal/store/config.go")
	logger := p("internal/log/logger.go")
	resetF := p("cmd/reset.go")
	updateRef := p("cmd/updateRef.go")
	writeTree := p("cmd/writeTree.go")
	commitCmd := p("cmd/commit.go")
	logCmd := p("cmd/log.go")

	var out strings.Builder
	out.WriteString("import GoitModel\n\n/-! GENERATED by tools/factsgen from the working tree of /repo. Do not edit. -/\n\nnamespace Facts\n\n")
	def := func(name, val string) { out.WriteString("def " + name + " : String := " + leanStr(val) + "\n") }
	defList := func(name string, vals []string) {
		var xs []string
		for _, v := range vals {
			xs = append(xs, leanStr(v))
		}
		out.WriteString("def " + name + " : List String := [" + strings.Join(xs, ", ") + "]\n")
	}
	need := func(m map[string]string, k string) string {
		v, ok := m[k]
		if !ok {
			fail("factsgen: regexp variable %s not found", k)
		}
		return v
	}
	def("sha1Regexp", need(regexVars(shaF), "sha1Regexp"))
	def("signRegexp", need(regexVars(commit), "signRegexp"))
	def("headRegexp", need(regexVars(head), "headRegexp"))
	def("resetRegexp", need(regexVars(resetF), "resetRegexp"))
	def("branchRegexp", need(regexVars(updateRef), "branchRegexp"))
	def("directoryRegexp", need(regexVars(ignore), "directoryRegexp"))
	def("identRegexp", need(regexVars(config), "identRegexp"))

	defList("fmtNewObject", collectCallStrings(object, "NewObject", "Sprintf", nil))
	defList("fmtHeader", collectCallStrings(object, "Object.Header", "Sprintf", nil))
	defList("fmtSignString", collectCallStrings(commit, "Sign.String", "Sprintf", nil))
	defList("fmtRecordString", collectCallStrings(logger, "record.String", "Sprintf", nil))
	defList("fmtNewRecord", collectCallStrings(logger, "NewRecord", "Sprintf", nil))
	defList("fmtTreeString", collectCallStrings(tree, "Tree.String", "Sprintf", nil))
	defList("fmtWriteTree", collectCallStrings(writeTree, "writeTreeObject", "Sprintf", nil))
	defList("fmtConfigWrite", collectCallStrings(config, "Config.Write", "Sprintf", nil))
	defList("fmtHeadUpdate", collectCallStrings(head, "Head.Update", "Sprintf", nil))
	defList("fmtCommit", collectCallStrings(commitCmd, "commit", "Sprintf", nil))
	defList("fmtIgnoreLoad", collectCallStrings(ignore, "Ignore.load", "Sprintf", nil))

	// quoted string literals in selected functions (mode strings, split separators, record type names)
	lits := func(f *ast.File, fn string) []string {
		fd := findFunc(f, fn)
		if fd == nil {
			fail("factsgen: function %s not found", fn)
		}
		var xs []string
		ast.Inspect(fd.Body, func(n ast.Node) bool {
			// error texts are not facts any theorem depends on: do not descend into Errorf / errors.New
			if c, ok := n.(*ast.CallExpr); ok {
				if se, ok := c.Fun.(*ast.SelectorExpr); ok && (se.Sel.Name == "Errorf" || se.Sel.Name == "New") {
					return false
				}
			}
			if b, ok := n.(*ast.BasicLit); ok && b.Kind == token.STRING {
				if s, err := strconv.Unquote(b.Value); err == nil {
					xs = append(xs, s)
				}
			}
			return true
		})
		return xs
	}
	defList("litsWalkTree", lits(tree, "walkTree"))
	defList("litsRecordTypeString", lits(logger, "RecordType.String"))
	defList("litsNewRecordType", lits(logger, "NewRecordType"))
	defList("litsTypeString", lits(p("internal/object/object_type.go"), "Type.String"))
	defList("litsNewType", lits(p("internal/object/object_type.go"), "NewType"))
	defList("litsNewIgnore", lits(ignore, "newIgnore"))
	defList("litsReflogLoad", lits(p("internal/store/reflog.go"), "Reflog.load"))
	defList("litsConfigLoad", lits(config, "Config.load"))
	defList("litsReadSign", lits(commit, "readSign"))
	defList("litsGetEntriesByDirectory", lits(index, "Index.GetEntriesByDirectory"))

	// index signature and version
	{
		fd := findFunc(index, "newIndex")
		var sig []string
		ver := ""
		ast.Inspect(fd.Body, func(n ast.Node) bool {
			if b, ok := n.(*ast.BasicLit); ok {
				if b.Kind == token.CHAR {
					c, _ := strconv.Unquote(b.Value)
					sig = append(sig, c)
				}
			}
			if kv, ok := n.(*ast.KeyValueExpr); ok {
				if id, ok := kv.Key.(*ast.Ident); ok && id.Name == "Version" {
					ast.Inspect(kv.Value, func(m ast.Node) bool {
						if b, ok := m.(*ast.BasicLit); ok && b.Kind == token.INT {
							ver = b.Value
						}
						return true
					})
				}
			}
			return true
		})
		def("indexSignature", strings.Join(sig, ""))
		def("indexVersion", ver)
	}
	// default of log -n
	{
		dflt := ""
		ast.Inspect(logCmd, func(n ast.Node) bool {
			if c, ok := n.(*ast.CallExpr); ok {
				if se, ok := c.Fun.(*ast.SelectorExpr); ok && se.Sel.Name == "IntVarP" && len(c.Args) >= 4 {
					if b, ok := c.Args[3].(*ast.BasicLit); ok {
						dflt = b.Value
					}
				}
			}
			return true
		})
		def("logDefaultN", dflt)
	}
	// order of calls
	keep := func(names []string, want map[string]bool) []string {
		var o []string
		for _, n := range names {
			if want[n] {
				o = append(o, n)
			}
		}
		return o
	}
	// only the calls whose relative order a property depends on (objects before refs, refs before logs,
	// HEAD last; blob before index)
	defList("orderCommit", keep(callOrder(findFunc(commitCmd, "commit")), map[string]bool{"writeTreeObject": true,
		"Write": true, "UpdateBranchHash": true, "AddBranch": true, "WriteHEAD": true, "WriteBranch": true, "Update": true}))
	defList("orderAdd", keep(callOrder(findFunc(p("cmd/add.go"), "add")), map[string]bool{"Update": true, "Write": true}))

	// ---- translated arithmetic ----
	{
		fd := findFunc(commit, "Sign.String")
		x := &xl{known: map[string]bool{}, kstr: map[string]bool{}, inputs: map[string]bool{"offsetSec": true, "unixTime": true}}
		body := x.stmts(fd.Body.List, "  ", isSprintfAssign)
		out.WriteString("\n/-- translated from `Sign.String` (internal/object/commit.go) up to the first Sprintf -/\n")
		out.WriteString("def signStringVars (offsetSec : Int) :=\n" + body + "\n")
		out.WriteString("def signStringVarNames : List String := [" + quoteAll(append(append([]string{}, x.intVars...), x.strVars...)) + "]\n")
	}
	{
		fd := findFunc(logger, "NewRecord")
		x := &xl{known: map[string]bool{}, kstr: map[string]bool{}, inputs: map[string]bool{"offset": true, "unixtime": true}}
		// the arguments of the timeDiff Sprintf are integer expressions of the variables before it
		var pre []ast.Stmt
		var args []ast.Expr
		for _, s := range fd.Body.List {
			if as, ok := s.(*ast.AssignStmt); ok && len(as.Lhs) == 1 {
				if id, ok := as.Lhs[0].(*ast.Ident); ok && id.Name == "timeDiff" {
					if c, ok := as.Rhs[0].(*ast.CallExpr); ok {
						args = c.Args[1:]
					}
					break
				}
				if id, ok := as.Lhs[0].(*ast.Ident); ok && id.Name == "unixtime" {
					continue
				}
			}
			pre = append(pre, s)
		}
		if len(args) != 2 {
			fail("xlate: NewRecord: timeDiff Sprintf with two integer arguments not found")
		}
		var lets strings.Builder
		for _, s := range pre {
			as, ok := s.(*ast.AssignStmt)
			if !ok {
				fail("xlate: NewRecord: unsupported statement at %s", fset.Position(s.Pos()))
			}
			if len(as.Lhs) == 1 {
				id := as.Lhs[0].(*ast.Ident)
				lets.WriteString("  let " + id.Name + " : Int := " + x.expr(as.Rhs[0]) + "\n")
				x.known[id.Name] = true
			}
		}
		out.WriteString("\n/-- translated from `log.NewRecord` (internal/log/logger.go): the two integer arguments of the zone Sprintf -/\n")
		out.WriteString("def newRecordZoneArgs (offset : Int) : Int × Int :=\n" + lets.String() + "  (" + x.expr(args[0]) + ", " + x.expr(args[1]) + ")\n")
	}
	out.WriteString("\nend Facts\n")
	fmt.Print(out.String())
	_ = sort.Strings
}

func quoteAll(xs []string) string {
	var o []string
	for _, x := range xs {
		o = append(o, leanStr(x))
	}
	return strings.Join(o, ", ")
}
