#!/bin/bash
# tools/confirm_mutant.sh <seeded dir name e.g. C02-a> : confirm in a scratch worktree that the change
# compiles, passes the existing tests, and that the demonstration fails with it and passes without it.
set -u
m=$1; prop=${m%%-*}
export GOFLAGS=-mod=mod GOPROXY=off GOSUMDB=off GOTOOLCHAIN=local
wt=/tmp/seed/$prop
[ -d $wt ] && { echo "worktree $wt exists"; exit 9; }
git -C /repo worktree add -q --detach $wt HEAD || exit 9
cp -r ${VERIF_HOME:-/verif}/seeded/$m/demo $wt/demo
cd $wt
run_demo() { if [ -f demo/run.sh ]; then bash demo/run.sh >/tmp/seed/$m.demo.log 2>&1; else go test ./demo/... >/tmp/seed/$m.demo.log 2>&1; fi; echo $?; }
base=$(run_demo)
git apply ${VERIF_HOME:-/verif}/seeded/$m/patch.diff || { echo "patch does not apply"; cd /; git -C /repo worktree remove --force $wt; exit 3; }
go build ./... || { echo "does not build"; }
tests=$(go test -mod=mod -vet=off -count=1 ./... 2>&1 | grep -c '^ok')
fails=$(go test -mod=mod -vet=off -count=1 ./... 2>&1 | grep -c '^FAIL\|^---')
mut=$(run_demo)
echo "$m: demo without change exit=$base, with change exit=$mut, test packages ok=$tests fail-lines=$fails"
cd /; git -C /repo worktree remove --force $wt; rm -f /tmp/seed/$m.demo.log
