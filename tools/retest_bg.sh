#!/bin/bash
# tools/retest_bg.sh [seed...] : for `vp run -- bash tools/retest_bg.sh 1 3` — builds the Lean project of this copy and
# re-confirms every seeded change and runs its property's quick check against it, from this copy
here=$(cd "$(dirname "$0")/.." && pwd)
export PATH=$PATH:/opt/veriftools/lean/bin VERIF_HOME=$here
(cd $here/lean && lake build GoitModel GoitProofs goitmodel >/dev/null 2>&1 && lake env lean GoitProofs/Audit.lean >/dev/null 2>&1)
bash $here/tools/retest_mutants.sh "$@"
