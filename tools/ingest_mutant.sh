#!/bin/bash
# tools/ingest_mutant.sh <Cxx> <suffix> : copy a sub-agent's deliverables from its scratch worktree /tmp/agents/<Cxx>
# into /verif/seeded/<Cxx>-<suffix>/ (paths rewritten to the confirmation worktree /tmp/seed/<Cxx>) and remove the worktree
p=$1; suf=$2; d=/verif/seeded/$p-$suf
mkdir -p $d && cp /tmp/agents/$p/patch.diff $d/ && cp -r /tmp/agents/$p/demo $d/ && cp /tmp/agents/$p/NOTES.md $d/
rm -f $d/demo/goit
grep -rl "/tmp/agents/$p" $d | xargs -r sed -i "s#/tmp/agents/$p#/tmp/seed/$p#g"
git -C /repo worktree remove --force /tmp/agents/$p
ls $d $d/demo | tr '\n' ' '; echo
