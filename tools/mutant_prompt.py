import json,sys
pid=sys.argv[1]
props={json.loads(l)['id']:json.loads(l) for l in open('/verif/properties.jsonl')}
p=props[pid]
print(f"""You are helping test a verification setup by playing the role of a developer who introduces a subtle bug.

Work ONLY inside the git worktree /tmp/agents/{pid} (a checkout of the Go project JunNishimura/Goit, a hobby Git clone: `goit init/add/rm/commit/branch/switch/reset/restore/status/log/reflog/cat-file/ls-files/write-tree/update-ref/config/rev-parse/hash-object`). Do not read or touch /repo or /verif or any other directory under /tmp/agents. There is no network. For every shell call that uses Go, first run: `export GOFLAGS=-mod=mod GOPROXY=off GOSUMDB=off GOTOOLCHAIN=local`. The existing test suite is run with `go test -mod=mod -vet=off -count=1 ./...` (147 tests, all pass).

Here is a semantic property of Goit (the same text is in /tmp/agents/{pid}.txt):

{pid} — {p['title']}.
{p['statement']}
Quantified over: {p['quantifier']['text']}

Your task: make ONE small, realistic source change to the Go code in the worktree (the kind of slip a developer could make in a refactor or "optimisation") that BREAKS this property while (a) the project still compiles, (b) the existing test suite still passes completely, unedited. The change must need something specific to manifest — a multi-step sequence of operations, a particular shape of names, an unusual input, a particular earlier state, a fault or crash at a particular point, or two cooperating sites that each look fine alone — NOT something that any ordinary use would expose at once. Note the unmodified code already has some quirks and bugs; your demonstration must PASS on the unmodified tree and FAIL with your change, so pick a scenario that works correctly before your change.

Deliver, inside /tmp/agents/{pid}:
1. `patch.diff` — output of `git diff` for your source change only (no test files in it).
2. `demo/` — a demonstration: either a Go test file or a shell script `demo/run.sh` that builds the `goit` binary from the worktree (`go build -o /tmp/agents/{pid}/goit .`), runs it in a fresh temp directory with an isolated HOME (`export HOME=$(mktemp -d)`; the scratch repo must not be inside another goit repo), and exits 0 if the property holds in the scenario and non-zero if violated. Identity must be configured with `goit config user.name X` and `goit config user.email x@example.com` before committing. Keep TZ=UTC unless the property is about time zones.
3. `NOTES.md` — which clause of the property breaks, what is needed for it to manifest, and the exact commands you ran to confirm: tests pass with the change, demo fails with the change, demo passes without it (use `git stash` or `git apply -R` to check, then leave the worktree WITH your change applied and patch.diff present).

Keep the source change small (ideally under 15 changed lines). Report back a short summary: the idea of the mutation, the files touched, and the confirmation results.""")
