#!/bin/bash
# tools/sweep.sh "<seeds>" [props...] : run the quick checks of the given properties (default: all) at each seed from
# this copy of /verif (meant for `vp run --with-repo -- bash tools/sweep.sh "11 12 13"`), against $VP_RUN_REPO when set.
# Prints one line per (property, seed) and the head of the replay summary of every failure. Evidence goes to scratch.
seeds=${1:-1}; shift
props=${@:-C01 C02 C03 C04 C05 C06 C07 C08 C09 C10 C11 C12 C13 C14 C15 C16 C17 C18 C19 C20}
here=$(cd "$(dirname "$0")/.." && pwd)
export PATH=$PATH:/opt/veriftools/lean/bin
(cd $here/lean && lake build GoitModel GoitProofs goitmodel >/dev/null 2>&1 && lake env lean GoitProofs/Audit.lean >/dev/null 2>&1)
ev=$(mktemp -d /var/tmp/sweep-ev.XXXXXX)
[ -n "${VP_RUN_REPO:-}" ] && export VERIF_REPO=$VP_RUN_REPO
for s in $seeds; do for p in $props; do
  out=$(cd $here && VERIF_SEED=$s VERIF_EVIDENCE_DIR=$ev bin/check $p ${TIER:-quick} 2>&1)
  echo "$out" | grep -E "VIOLATION|KNOWN|seed=" | cut -c1-220
  if echo "$out" | grep -q VIOLATION; then
    for f in $(echo "$out" | grep -o 'replay=[^ ]*' | cut -d= -f2 | sort -u); do python3 $here/tools/showreplay.py $f 2>/dev/null | cut -c1-420 | head -6; done
  fi
done; done
rm -rf $ev
