#!/usr/bin/env python3
"""Regenerates MANIFEST.json from the table below (claimed checks) + properties.jsonl (everything else
is listed under not_applicable with the reason given here)."""
import json, sys
props = [json.loads(l) for l in open('/verif/properties.jsonl')]
claimed = json.load(open('/verif/tools/claims.json'))
checks, na = [], []
for p in props:
    pid = p['id']
    c = claimed.get(pid)
    if c and c.get('claimed', True):
        checks.append({
            "property_id": pid,
            "quick_cmd": f"bin/check {pid} quick",
            "thorough_cmd": f"bin/check {pid} thorough",
            "evidence_file": f"/verif/evidence/{pid}.json",
            "replay_cmd_template": f"bin/check {pid} --replay {{path}}",
            "engine": "lean-model+correspondence",
            "level_claimed": {"category": "proof", "text": c['text'], "design_ref": c.get('design_ref', 'DESIGN.md section 7 ' + pid)},
            "level_note": c['note'],
            "technique": c.get('technique', 'Lean 4 theorems about a hand-written executable model + differential correspondence with the implementation'),
        })
    else:
        na.append({"property_id": pid, "reason": (c or {}).get('reason', "check not built yet (build in progress, see DESIGN.md section 12)")})
m = {
    "version": 1,
    "setup_cmd": "cd /verif/lean && lake build GoitModel GoitProofs goitmodel && lake env lean GoitProofs/Audit.lean > /dev/null",
    "hooks": {"guard": "verif", "enable": "no source hooks: the harness module github.com/JunNishimura/Goit/verifharness (replace => /repo) imports the internal packages of the working tree; crash/fault injection uses strace",
              "baseline_off_cmd": "cd /repo && go test -mod=mod -vet=off -count=1 ./...", "source_commits": [], "add_only": True},
    "engines": [{"name": "lean-model+correspondence", "path": "/verif/lean, /verif/harness, /verif/bin/check",
                 "serves_properties": [c['property_id'] for c in checks],
                 "kind_free_text": "Lean 4 model (core only) + property theorems (GoitProofs/Props) audited with #print axioms; Go harness runs the implementation (in-process API and CLI) and the compiled model driver on the same generated scripts and diffs canonical answers; executable specifications judged on the implementation's answers"}],
    "checks": checks,
    "not_applicable": na,
    "notes": "see DESIGN.md; VERIF_SEED seeds every generator; scratch under /var/tmp, removed on exit",
}
json.dump(m, open('/verif/MANIFEST.json', 'w'), indent=1)
print(len(checks), "claimed;", len(na), "not claimed")
