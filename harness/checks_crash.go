package main

// C15 (crash consistency) and C16 (single I/O faults).
//
// C15: the real binary is traced with strace; a crash "between two file-system modifications" is the
// pre-state plus a prefix of the traced mutation sequence, rebuilt on a copy of the pre-state and judged
// (every read-only command still loads, reachable objects intact, each branch old-or-new). The traced
// sequence of (kind, role) is also the tie to the Lean effect-order model.
// C16: every traced call on a repository path is failed in turn with strace's error injection and the
// outcome judged (same result or non-zero exit, no crash, still connected, no half commit).

import (
	"bytes"
	"fmt"
	"os"
	"path/filepath"
	"sort"
	"strings"
	"sync"
)

// reachable-object fsck for crash / fault states: everything reachable from branches and the index
func fsckReachable(o *Obs) []Viol {
	var vs []Viol
	add := func(c, d string) { vs = append(vs, Viol{Clause: c, Detail: d}) }
	if !o.Inited {
		return nil
	}
	if b, ok := o.headBranch(); !ok {
		add("head", fmt.Sprintf("HEAD does not name a branch: %q", clip(string(o.Head), 60)))
	} else if _, ex := o.Branches[b]; !ex && len(o.Branches) > 0 {
		add("head", fmt.Sprintf("HEAD names branch %q which does not exist", b))
	}
	seen := map[string]bool{}
	var walkTree func(id string, d int)
	walkTree = func(id string, d int) {
		if seen[id] || d > 64 {
			return
		}
		seen[id] = true
		x, ok := o.Objects[id]
		if !ok || !x.OK || !x.NameOK || x.Kind != "tree" {
			add("trees", "reachable tree "+id+" missing or damaged")
			return
		}
		items, ok := parseTree(x.Data)
		if !ok {
			add("trees", "reachable tree "+id+" does not parse")
		}
		for _, it := range items {
			if it.Mode == "040000" {
				walkTree(hx(it.ID), d+1)
			} else if y, ok := o.Objects[hx(it.ID)]; !ok || !y.OK || !y.NameOK || y.Kind != "blob" {
				add("trees", fmt.Sprintf("blob %s of %q missing or damaged", hx(it.ID), it.Name))
			}
		}
	}
	var walkCommit func(id string, d int)
	walkCommit = func(id string, d int) {
		if seen[id] || d > 10000 {
			return
		}
		seen[id] = true
		x, ok := o.Objects[id]
		if !ok || !x.OK || !x.NameOK || x.Kind != "commit" {
			add("commits", "reachable commit "+id+" missing or damaged")
			return
		}
		ci := parseCommit(x.Data)
		if !ci.OK {
			add("commits", "commit "+id+" does not parse")
			return
		}
		walkTree(ci.Tree, 0)
		for _, p := range ci.Parents {
			walkCommit(p, d+1)
		}
	}
	for n, v := range o.Branches {
		if !validHex40(v) {
			add("branches", fmt.Sprintf("branch %q holds %q, not a full id", n, clip(string(v), 50)))
			continue
		}
		walkCommit(string(v), 0)
	}
	if !o.IndexOK {
		add("index", "index file does not decode")
	}
	for _, e := range o.Index {
		if y, ok := o.Objects[hx(e.id)]; !ok || !y.OK || !y.NameOK || y.Kind != "blob" {
			add("index", fmt.Sprintf("staged %q -> %s is not a stored, intact blob", e.path, hx(e.id)))
		}
	}
	return vs
}

var readOnlyCmds = [][]string{{"ls-files"}, {"status"}, {"log"}, {"branch", "--list"}, {"rev-parse", "HEAD"}, {"reflog"}}

// loads: every read-only command ends normally; the start-up load itself succeeds (ls-files exits 0)
func loadsViol(ctx *Ctx, dir, home string) []Viol {
	var vs []Viol
	for _, c := range readOnlyCmds {
		r := runGoit(ctx.Goit, dir, home, 0, c)
		if r.Class != "ok" && r.Class != "error" {
			vs = append(vs, Viol{Clause: "loads", Detail: fmt.Sprintf("`goit %s` ended with %s: %s", strings.Join(c, " "), r.Class, clip(firstLine(r.Stderr), 120))})
		}
		if c[0] == "ls-files" && r.Class != "ok" {
			vs = append(vs, Viol{Clause: "loads", Detail: "the repository no longer loads: `goit ls-files` failed: " + clip(strings.TrimSpace(r.Stdout+r.Stderr), 120)})
		}
	}
	return vs
}

// a torn file at prefix k: created (truncated) inside the prefix, with some of its writes still to come
func tornRoles(muts []Sys, k int) []string {
	roles := map[string]bool{}
	lastCreate := map[string]int{}
	for i := 0; i < k; i++ {
		if muts[i].Kind == "create" {
			lastCreate[muts[i].Path] = i
		}
	}
	for p, c := range lastCreate {
		// writes belonging to this open: writes to p after c and before the next create/openappend of p
		for j := c + 1; j < len(muts); j++ {
			if muts[j].Path != p {
				continue
			}
			if muts[j].Kind != "write" {
				break
			}
			if j >= k {
				roles[muts[c].Role] = true
			}
		}
	}
	var out []string
	for r := range roles {
		out = append(out, r)
	}
	sort.Strings(out)
	return out
}

type crashScenario struct {
	name  string
	setup func(h *Hist)
	cmd   []string
}

func crashScenarios() []crashScenario {
	two := func(h *Hist) {
		h.W("write", "a.txt", []byte("one\n"))
		h.W("write", "d/b.txt", []byte("two\n"))
		h.X(0, "add", ".")
		h.X(0, "commit", "-m", "c1")
		h.W("write", "a.txt", []byte("one more\n"))
		h.W("write", "d/e/c.txt", []byte("three\n"))
	}
	staged := func(h *Hist) { two(h); h.X(0, "add", ".") }
	committed2 := func(h *Hist) { staged(h); h.X(0, "commit", "-m", "c2"); h.X(0, "branch", "dev") }
	return []crashScenario{
		{"init", func(h *Hist) { os.RemoveAll(filepath.Join(h.dir, ".goit")) }, []string{"init"}},
		{"first-add", func(h *Hist) { h.W("write", "a.txt", []byte("one\n")); h.W("write", "d/b.txt", []byte("two\n")) }, []string{"add", "."}},
		{"first-commit", func(h *Hist) {
			h.W("write", "a.txt", []byte("one\n"))
			h.W("write", "d/b.txt", []byte("two\n"))
			h.X(0, "add", ".")
		}, []string{"commit", "-m", "c1"}},
		{"add-modified", two, []string{"add", "."}},
		{"add-unchanged", func(h *Hist) { two(h); h.X(0, "add", "."); h.X(0, "commit", "-m", "c2") }, []string{"add", "a.txt", "d"}},
		{"commit", staged, []string{"commit", "-m", "second: with colon"}},
		{"rm", staged, []string{"rm", "d"}},
		{"branch", committed2, []string{"branch", "topic"}},
		{"branch-rename", committed2, []string{"branch", "-r", "zeta"}},
		{"branch-delete", committed2, []string{"branch", "-d", "dev"}},
		{"switch", committed2, []string{"switch", "dev"}},
		{"switch-c", committed2, []string{"switch", "-c", "feature"}},
		{"reset-soft", committed2, []string{"reset", "--soft", "HEAD@{1}"}},
		{"reset-mixed", committed2, []string{"reset", "--mixed", "HEAD@{1}"}},
		{"reset-hard", func(h *Hist) { committed2(h); h.W("rmall", "d", nil) }, []string{"reset", "--hard", "HEAD@{1}"}},
		{"restore", func(h *Hist) { committed2(h); h.W("rmall", "d", nil); h.W("write", "a.txt", []byte("edited\n")) }, []string{"restore", "a.txt", "d"}},
		{"restore-staged", func(h *Hist) { committed2(h); h.W("write", "a.txt", []byte("x\n")); h.X(0, "add", ".") }, []string{"restore", "--staged", "a.txt"}},
		{"update-ref", func(h *Hist) { committed2(h) }, []string{"update-ref", "refs/heads/dev", "@FIRST"}},
		{"config", committed2, []string{"config", "user.name", "New Name"}},
		{"config-global", committed2, []string{"config", "--global", "core.editor", "vi"}},
	}
}

type shapeObs struct {
	line     string // model query
	observed string // canonical shape of the traced run
	c        Case
}

type crashStats struct {
	mu          sync.Mutex
	shapeLines  []shapeObs
	instances   int
	points      int
	tornPoints  int
	unreliable  int
	shapes      map[string]bool
	faults      int
	injected    int
	notInjected int
}

// runCrashCase: one command instance. Returns the recorded case, the per-line answers and findings.
func runCrashCase(ctx *Ctx, prop string, idx int, sc *crashScenario, r *rng, st *crashStats) (Case, []string, []Finding) {
	base := filepath.Join(ctx.Scratch, fmt.Sprintf("crash-%s-%d", prop, idx))
	os.RemoveAll(base)
	defer os.RemoveAll(base)
	cfg := &HistCfg{Prop: prop, W: baseWeights, MinSteps: 3, MaxSteps: 14, FreshPct: 10}
	h := &Hist{ctx: ctx, cfg: cfg, r: r, dir: filepath.Join(base, "w"), home: filepath.Join(base, "home"),
		g: &Ghost{SnapAt: map[string][]ent{}, Objects: map[string]string{}}, stats: map[string]int{}, inProbe: true}
	mustMkdirAll(h.dir)
	mustMkdirAll(h.home)
	h.names = []string{"a", "d", "d0", "lib", "x y"}
	h.obs = observe(h.dir, h.home)
	h.X(0, "init")
	h.X(0, "config", "user.name", "Test User")
	h.X(0, "config", "user.email", "test@example.com")
	var cmd []string
	if sc != nil {
		sc.setup(h)
		cmd = append([]string{}, sc.cmd...)
		for i, a := range cmd {
			if a == "@FIRST" && len(h.g.Commits) > 0 {
				cmd[i] = h.g.Commits[0]
			}
		}
	} else {
		// random reachable state, then a random modifying command
		h.W("write", h.randPath(), h.content())
		h.X(0, "add", ".")
		h.X(0, "commit", "-m", "first")
		n := 3 + r.intn(12)
		for i := 0; i < n; i++ {
			h.step()
		}
		h.obs = observe(h.dir, h.home)
		cmds := [][]string{{"add", "."}, {"commit", "-m", "msg"}, {"branch", "nb" + fmt.Sprint(r.intn(9))}, {"switch", "-c", "sc" + fmt.Sprint(r.intn(9))},
			{"reset", "--soft", "HEAD@{1}"}, {"reset", "--mixed", "HEAD@{0}"}, {"reset", "--hard", "HEAD@{1}"}, {"config", "user.name", "X Y"}, {"branch", "-r", "rn" + fmt.Sprint(r.intn(9))}}
		if t, ok := h.pickTracked(); ok {
			cmds = append(cmds, []string{"rm", t}, []string{"restore", t}, []string{"restore", "--staged", t})
		}
		if b, ok := h.pickBranch(); ok {
			cmds = append(cmds, []string{"switch", b})
		}
		cmd = cmds[r.intn(len(cmds))]
		if cmd[0] == "commit" {
			h.W("write", h.randPath(), h.content())
			h.X(0, "add", ".")
		}
	}
	c := Case{Name: fmt.Sprintf("crash-%d", idx), Tag: "cmd=" + cmd[0]}
	if sc != nil {
		c.Name = "scenario-" + sc.name
	}
	c.Lines = append(c.Lines, h.lines...)
	outs := append([]string{}, h.outs...)
	var fs []Finding
	addF := func(clause, detail, sig string) {
		fs = append(fs, Finding{Kind: "spec-violation", Clause: clause, Step: len(c.Lines) - 1, Detail: detail + " | cmd: goit " + strings.Join(cmd, " "), Sig: sig})
	}
	// pre-state copy, traced run
	pre := filepath.Join(base, "pre")
	copyTree(h.dir, filepath.Join(base, "pre-w"))
	copyTree(h.home, filepath.Join(base, "pre-h"))
	_ = pre
	preObs := observe(h.dir, h.home)
	res, sys, reliable := straceGoit(ctx.Goit, h.dir, h.home, 0, cmd, "", base)
	postObs := observe(h.dir, h.home)
	c.Lines = append(c.Lines, argvLine(0, cmd))
	outs = append(outs, res.Class)
	st.mu.Lock()
	st.instances++
	if !reliable {
		st.unreliable++
	}
	st.mu.Unlock()
	if !reliable || (res.Class != "ok" && res.Class != "error") {
		if res.Class != "ok" && res.Class != "error" {
			addF("no-crash", "the traced command itself ended with "+res.Class+": "+clip(firstLine(res.Stderr), 100), prop+"/no-crash/"+cmd[0])
		}
		return c, outs, fs
	}
	var muts []Sys
	for _, s := range sys {
		if isMutation(s) {
			muts = append(muts, s)
		}
	}
	var shape []string
	for _, m := range muts {
		shape = append(shape, m.Kind+":"+m.Role)
	}
	st.mu.Lock()
	st.shapes[cmd[0]+" => "+strings.Join(shape, " ")] = true
	if q := shapeQuery(cmd, res, preObs, postObs); q != "" {
		st.shapeLines = append(st.shapeLines, shapeObs{q, canonicalShape(muts), c})
	}
	st.mu.Unlock()

	if prop == "C15" {
		for k := 0; k <= len(muts); k++ {
			cw := filepath.Join(base, fmt.Sprintf("k%d-w", k))
			ch := filepath.Join(base, fmt.Sprintf("k%d-h", k))
			copyTree(filepath.Join(base, "pre-w"), cw)
			copyTree(filepath.Join(base, "pre-h"), ch)
			for i := 0; i < k; i++ {
				if strings.HasPrefix(muts[i].Path, h.home) {
					applyEffect(muts[i], h.home, ch)
				} else {
					applyEffect(muts[i], h.dir, cw)
				}
			}
			torn := tornRoles(muts, k)
			o := observe(cw, ch)
			var vs []Viol
			vs = append(vs, fsckReachable(o)...)
			for n, v := range o.Branches {
				a, ina := preObs.Branches[n]
				b, inb := postObs.Branches[n]
				if !(ina && bytes.Equal(a, v)) && !(inb && bytes.Equal(b, v)) {
					vs = append(vs, Viol{Clause: "old-or-new", Detail: fmt.Sprintf("branch %q holds %q: neither its value before (%q) nor after (%q) the command", n, clip(string(v), 44), a, b)})
				}
			}
			if o.Inited && preObs.Inited {
				vs = append(vs, loadsViol(ctx, cw, ch)...)
			}
			st.mu.Lock()
			st.points++
			if len(torn) > 0 {
				st.tornPoints++
			}
			st.mu.Unlock()
			if len(vs) > 0 {
				where := "before any modification"
				if k > 0 {
					where = fmt.Sprintf("after modification %d/%d (%s %s)", k, len(muts), muts[k-1].Kind, muts[k-1].Role)
				}
				sig := prop + "/crash/" + vs[0].Clause + "/" + cmd[0]
				if len(torn) > 0 {
					// the known class: a file truncated by its create and not yet (completely) rewritten
					sig = prop + "/torn-write/" + torn[0]
				} else if cmd[0] == "init" && k < len(muts) {
					// an interrupted `init` leaves a partial .goit directory
					sig = prop + "/partial-init"
				}
				addF(vs[0].Clause, fmt.Sprintf("process killed %s: %s", where, vs[0].Detail), sig)
			}
			os.RemoveAll(cw)
			os.RemoveAll(ch)
		}
		return c, outs, fs
	}

	// C16: fail each call in turn
	type site struct {
		s Sys
	}
	var sites []Sys
	for _, s := range sys {
		switch s.Kind {
		case "create", "openappend", "openread", "write", "read", "readdir", "mkdir", "rename", "remove":
			if s.Ret >= 0 {
				sites = append(sites, s)
			}
		}
	}
	// thin long traces deterministically (every site of the first 40, then every third)
	for si, s := range sites {
		if si >= 40 && si%3 != 0 {
			continue
		}
		fw := filepath.Join(base, fmt.Sprintf("f%d-w", si))
		fh := filepath.Join(base, fmt.Sprintf("f%d-h", si))
		copyTree(filepath.Join(base, "pre-w"), fw)
		copyTree(filepath.Join(base, "pre-h"), fh)
		remap := func(p string) string {
			if rel, err := filepath.Rel(h.home, p); err == nil && !strings.HasPrefix(rel, "..") {
				return filepath.Join(fh, rel)
			}
			if rel, err := filepath.Rel(h.dir, p); err == nil && !strings.HasPrefix(rel, "..") {
				return filepath.Join(fw, rel)
			}
			return p
		}
		errno := "EIO"
		if s.Kind == "write" || s.Kind == "create" || s.Kind == "mkdir" {
			errno = []string{"ENOSPC", "EACCES", "EIO"}[si%3]
		}
		inj := fmt.Sprintf("-P %s -e inject=%s:error=%s:when=%d", remap(s.Path), s.Name, errno, s.Ord)
		fres, fsys, _ := straceGoit(ctx.Goit, fw, fh, 0, cmd, inj, base)
		injected := false
		for _, x := range fsys {
			if x.Name == s.Name && x.Path == remap(s.Path) && x.Ord == s.Ord && x.Ret < 0 {
				injected = true
			}
		}
		st.mu.Lock()
		st.faults++
		if injected {
			st.injected++
		} else {
			st.notInjected++
		}
		st.mu.Unlock()
		if injected {
			o := observe(fw, fh)
			what := fmt.Sprintf("%s of %s (%s) failing with %s", s.Name, s.Role, filepath.Base(s.Path), errno)
			tornClass := s.Kind == "write" && (s.Role == "branch" || s.Role == "HEAD" || s.Role == "index" || s.Role == "config")
			sigFor := func(clause string) string {
				if tornClass {
					return prop + "/failed-write-after-truncate/" + s.Role
				}
				return prop + "/fault/" + clause + "/" + cmd[0] + "/" + s.Kind + ":" + s.Role
			}
			if fres.Class != "ok" && fres.Class != "error" {
				addF("no-crash", "with "+what+" the process ended with "+fres.Class+": "+clip(firstLine(fres.Stderr), 100), sigFor("no-crash"))
			}
			if fres.Class == "ok" {
				if d, same := stateEqual(postObs, o); !same {
					addF("same-or-error", "with "+what+" the command reported success but the result differs from the fault-free run: "+d, sigFor("same-or-error"))
				}
			}
			if vs := fsckReachable(o); len(vs) > 0 {
				addF("connected", "after "+what+" (exit class "+fres.Class+"): "+vs[0].Detail, sigFor("connected"))
			}
		}
		os.RemoveAll(fw)
		os.RemoveAll(fh)
	}
	return c, outs, fs
}

// canonicalShape: the traced modifications in the vocabulary of the Lean effect model
// (mkdir dropped, open-for-append + write = append, payloads dropped)
func canonicalShape(muts []Sys) string {
	var out []string
	role := func(r string) string { return strings.TrimPrefix(strings.TrimSuffix(r, ".tmp"), "meta:") }
	for i := 0; i < len(muts); i++ {
		m := muts[i]
		r := role(m.Role)
		if strings.HasSuffix(m.Path, ".tmp") && m.Role == "meta:config.tmp" {
			r = "tmp-config"
		}
		switch m.Kind {
		case "mkdir":
		case "openappend":
		case "write":
			if i > 0 && muts[i-1].Kind == "openappend" && muts[i-1].Path == m.Path {
				out = append(out, "append:"+r)
			} else {
				out = append(out, "write:"+r)
			}
		case "rename":
			out = append(out, "rename:"+r+">"+role(roleOfPath(m.Path2, m)))
		default:
			out = append(out, m.Kind+":"+r)
		}
	}
	return strings.Join(out, " ")
}

func roleOfPath(p string, like Sys) string {
	// the destination of a rename lies in the same repository as its source
	base := filepath.Base(p)
	switch {
	case base == "HEAD":
		return "HEAD"
	case base == "index":
		return "index"
	case base == "config" || base == ".goitconfig":
		return "config"
	case strings.Contains(p, "/refs/heads/"):
		return "branch"
	}
	return "meta:" + base
}

// shapeQuery: the model query whose answer must equal the canonical shape (commands with a fixed shape)
func shapeQuery(cmd []string, res RunRes, pre, post *Obs) string {
	if res.Class != "ok" {
		return ""
	}
	newObjs := 0
	for id := range post.Objects {
		if _, ok := pre.Objects[id]; !ok {
			newObjs++
		}
	}
	switch {
	case cmd[0] == "commit":
		return fmt.Sprintf("eff.shape commit %d", newObjs)
	case cmd[0] == "branch" && len(cmd) == 2:
		return "eff.shape branch"
	case cmd[0] == "branch" && len(cmd) == 3 && cmd[1] == "-r":
		return "eff.shape rename"
	case cmd[0] == "switch" && len(cmd) == 2:
		return "eff.shape switch"
	case cmd[0] == "switch" && len(cmd) == 3:
		return "eff.shape switch-c"
	case cmd[0] == "update-ref":
		return "eff.shape update-ref"
	case cmd[0] == "reset" && len(cmd) == 3:
		mode := map[string]int{"--soft": 0, "--mixed": 1, "--hard": 2}[cmd[1]]
		return fmt.Sprintf("eff.shape reset %d %d", mode, len(post.Index))
	case cmd[0] == "config" && len(cmd) == 3 && pre.HasCfgLocal:
		return "eff.shape config"
	case cmd[0] == "branch" && len(cmd) == 3 && cmd[1] == "-d":
		if _, ok := pre.LogBranches[cmd[2]]; !ok {
			return ""
		}
		return "eff.shape branch-d"
	case cmd[0] == "init" && !pre.Inited:
		return "eff.shape init"
	case cmd[0] == "rm":
		// every removed entry's file was on disk: one work-file removal and one index rewrite each
		post := idxMap(post.Index)
		n := 0
		for _, e := range pre.Index {
			if _, still := post[string(e.path)]; !still {
				if _, on := pre.Files[string(e.path)]; !on {
					return ""
				}
				n++
			}
		}
		return fmt.Sprintf("eff.shape rm %d", n)
	case cmd[0] == "restore" && len(cmd) >= 3 && cmd[1] == "--staged":
		a, b := idxMap(pre.Index), idxMap(post.Index)
		n := 0
		for p, id := range a {
			if b[p] != id {
				n++
			}
		}
		for p := range b {
			if _, ok := a[p]; !ok {
				n++
			}
		}
		return fmt.Sprintf("eff.shape restore-staged %d", n)
	}
	return ""
}

func crashCheck(prop string, theorems []string, rule string) *Check {
	return &Check{Prop: prop, Theorems: theorems, Rule: rule, Impl: runImplAPI, Crash: true}
}

func runCrashCases(ctx *Ctx, prop string, r *rng) ([]Case, [][]string, []Finding, map[string]int) {
	scs := crashScenarios()
	nrand := tierN(ctx, 24, 400)
	if prop == "C16" {
		nrand = tierN(ctx, 10, 200)
	}
	total := len(scs) + nrand
	cases := make([]Case, total)
	outs := make([][]string, total)
	fnds := make([][]Finding, total)
	st := &crashStats{shapes: map[string]bool{}}
	seeds := make([]*rng, total)
	for i := range seeds {
		seeds[i] = r.fork()
	}
	var wg sync.WaitGroup
	sem := make(chan struct{}, ctx.Workers)
	for i := 0; i < total; i++ {
		wg.Add(1)
		sem <- struct{}{}
		go func(i int) {
			defer wg.Done()
			defer func() { <-sem }()
			var sc *crashScenario
			if i < len(scs) {
				sc = &scs[i]
			}
			cases[i], outs[i], fnds[i] = runCrashCase(ctx, prop, i, sc, seeds[i], st)
		}(i)
	}
	wg.Wait()
	var all []Finding
	for i := range fnds {
		for j := range fnds[i] {
			fnds[i][j].Case = cases[i]
		}
		all = append(all, fnds[i]...)
	}
	// tie to the Lean effect-order model: the canonical traced shape must be the model's shape
	if len(st.shapeLines) > 0 {
		var mc []Case
		for _, so := range st.shapeLines {
			mc = append(mc, Case{Name: "shape", Lines: []string{so.line}})
		}
		mo := runModel(ctx, mc)
		for i, so := range st.shapeLines {
			if len(mo[i]) == 1 && mo[i][0] != so.observed {
				cc := so.c
				cc.Lines = append(append([]string{}, cc.Lines...), so.line)
				all = append(all, Finding{Kind: "correspondence", Clause: "model=impl", Case: cc, Step: len(cc.Lines) - 1,
					Impl: so.observed, Model: mo[i][0], Sig: prop + "/model=impl/eff.shape"})
			}
		}
	}
	stats := map[string]int{"effect_shapes_compared_with_model": len(st.shapeLines), "command_instances": st.instances, "crash_points": st.points, "torn_points": st.tornPoints,
		"unreliable_traces": st.unreliable, "distinct_effect_shapes": len(st.shapes), "fault_sites": st.faults, "faults_injected": st.injected, "faults_not_injected": st.notInjected}
	i := 0
	for s := range st.shapes {
		if i < 12 {
			stats["shape: "+clip(s, 300)] = 1
		}
		i++
	}
	return cases, outs, all, stats
}

func init() {
	checks["C15"] = crashCheck("C15", []string{"C15.rename_head_always_names", "C15.switchCreate_head_always_names", "C15.reset_refs_old_or_new", "C15.switch_head_old_or_new", "C15.updateRef_old_or_new", "C15.branchCreate_absent_or_complete", "C15.replace_old_or_new", "C15.commit_objects_before_ref", "C15.commit_branch_old_or_new", "C15.add_blob_before_index", "C15.run_untouched", "C15.rm_keeps_refs", "C15.restoreStaged_keeps_refs", "C15.config_keeps_all", "C15.branchDelete_keeps_others", "C15.init_all_or_nothing"},
		"scenario corpus (init, add, commit, rm, branch create/rename/delete, switch, switch -c, reset soft/mixed/hard, restore both modes, update-ref, config local/global) plus random reachable states x random modifying commands; the real binary is traced with strace, and for EVERY prefix of its file-system modification sequence (create/truncate, write, mkdir, rename, remove; payloads from the trace) the crash state is rebuilt on a copy of the pre-state and judged: every read-only command still loads it, everything reachable from branches and the staging area is intact, each branch holds its old or its new commit")
	checks["C16"] = crashCheck("C16", []string{"C15.fault_same_or_error", "C15.fault_no_half_commit", "C15.replace_old_or_new", "C15.commit_objects_before_ref"},
		"same scenario corpus and random states; a fault-free traced run lists every open/read/readdir/create/write/mkdir/rename/remove call on a repository path; each is then failed in its own run with strace error injection (EIO/ENOSPC/EACCES, addressed by path and per-path ordinal, verified as injected from the trace) and the outcome judged: non-zero exit or a result identical to the fault-free run, no crash, reachable objects intact, no branch advanced to an incomplete commit")
}
