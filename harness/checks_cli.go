package main

import (
	"bytes"
	"fmt"
	"strings"
)

func tierN(ctx *Ctx, quick, thorough int) int {
	if ctx.Tier == "thorough" {
		return thorough
	}
	return quick
}

var baseWeights = Weights{
	"write": 14, "write-old": 2, "rewrite-same": 2, "touch": 1, "rmfile": 4, "rmdir": 2, "mkdir": 1,
	"add": 12, "add-all": 3, "rm": 4, "commit": 10, "branch": 2, "branch-rename": 1, "branch-delete": 1, "branch-list": 1,
	"switch": 2, "switch-c": 1, "reset": 3, "restore": 4, "update-ref": 1, "config": 1, "status": 3, "log": 1, "reflog": 1,
	"ls-files": 2, "rev-parse": 2, "cat-file": 1, "write-tree": 1, "hash-object": 1, "junk": 2, "edit-same-size": 2, "fd-swap": 1, "twins": 1, "hard-rmdir": 1, "dir-gone-probe": 1, "case-twin-commit": 1, "restore-dir-probe": 1, "twin-dirs": 1, "restore-family-probe": 1,
}

func weights(over Weights) Weights {
	w := Weights{}
	for k, v := range baseWeights {
		w[k] = v
	}
	for k, v := range over {
		w[k] = v
	}
	return w
}

// before a reset, sample the `reflog` listing so that the C08/C11 specifications can refer to
// "the commit reflog displays at position n"
func sampleReflog(h *Hist) {
	pre := h.obs
	res := runGoit(h.ctx.Goit, h.dir, h.home, 0, []string{"reflog"})
	h.lines = append(h.lines, argvLine(0, []string{"reflog"}))
	h.outs = append(h.outs, res.Class)
	h.g.ReflogPrev = nil
	if res.Class == "ok" {
		if l, ok := parseReflogOut(res.Stdout); ok {
			if l == nil {
				l = []reflogLine{}
			}
			h.g.ReflogPrev = l
		}
	}
	_ = pre
}

func histCheck(prop string, theorems []string, rule string, mk func(ctx *Ctx) *HistCfg) *Check {
	return &Check{Prop: prop, Theorems: theorems, Rule: rule, Impl: runImplAPI, Hist: func(ctx *Ctx) *HistCfg {
		c := mk(ctx)
		if c.FreshPct == 0 {
			c.FreshPct = 15
		}
		return c
	}}
}

const histRule = "adaptive random histories of work-tree edits and goit invocations run on the real binary (fresh repository, isolated HOME), " +
	"names drawn from a pool built around the byte order of '/', every choice from one PRNG; after every invocation the independent observer " +
	"re-reads the whole repository and the executable specification of the property is evaluated on (state before, command, exit class, output, state after); " +
	"a case is distinct by its recorded script"

func init() {
	checks["C03"] = histCheck("C03", []string{"C03.world_fsck", "C03.world_step_fsck", "C03.world_closed", "C03.world_staged_blobs_readable", "C03.world_step_closed", "C03.inv_run", "C03.inv_step", "C03.objects_monotone", "C03.world_connected", "C03.world_step_connected", "C03.noClash_of_not_commit", "C03.world_objects_monotone", "C03.world_history_objects_monotone", "C03.put_monotone", "C03.puts_monotone", "C03.put_present", "C03.name_is_hash", "C03.branch_target_present", "C10.add_invalid", "C19.get_returns_requested"}, histRule+"; hostile stream: ids of blobs/trees given to update-ref, names with '/', '..', resets to zero-id reflog entries",
		func(ctx *Ctx) *HistCfg {
			return &HistCfg{Prop: "C03", Cases: tierN(ctx, 150, 1500), MinSteps: 10, MaxSteps: 40,
				W:       weights(Weights{"update-ref": 5, "branch": 4, "branch-rename": 3, "reset": 6, "junk": 6, "switch-c": 2, "commit-inject": 4, "fd-swap": 4, "restore": 6, "lock-twin-probe": 3}),
				Oracles: []HistOracle{orC03}, PreReset: true, AbsRefine: true}
		})
	checks["C04"] = histCheck("C04", []string{"C04.world_rm_exact", "C04.world_add_file_stored", "C04.update_membership", "C04.world_add_is_cmd", "C04.world_rm_is_cmd", "C04.world_add_frame", "C04.world_rm_frame", "C04.update_perm", "C04.update_same_noop", "C04.delete_exact", "C04.eraseIdx_canonical", "C04.sortEntries_sorted", "C06.getEntry_correct", "C04.rm_exact", "C04.rmArgs_exact", "C04.rm_unknown_refused", "C04.addArgs_frame", "C04.add_file_staged", "C04.update_canonical", "C04.delete_frame", "C04.add_dir_staged", "C04.addFold_staged"}, histRule,
		func(ctx *Ctx) *HistCfg {
			return &HistCfg{Prop: "C04", Cases: tierN(ctx, 200, 2000), MinSteps: 8, MaxSteps: 30,
				W:       weights(Weights{"add": 25, "rm": 12, "write": 20, "rmfile": 8, "rmdir": 4, "reset": 1, "twins": 4, "junk": 0, "revert-add-probe": 5}),
				Oracles: []HistOracle{orC04, orC06}, Idempotent: true}
		})
	checks["C02"] = histCheck("C02", []string{"C02.world_commit_end_to_end", "C02.flatten_writeTree", "C02.world_commit_frame", "C02.world_commit_spec", "C05.world_readback", "C02.build_ne_nil", "C02.subtrees_wellformed", "C05.readback_writeTree", "C05.walk_write", "C05.holds_storeAfter", "C01.get_put", "C02.commitCmd_ok", "C02.commit_readback", "C02.commitMake_ok", "C05.reset_readback", "C12.commit_parse_format"}, histRule,
		func(ctx *Ctx) *HistCfg {
			return &HistCfg{Prop: "C02", Cases: tierN(ctx, 200, 2000), MinSteps: 8, MaxSteps: 30,
				W:       weights(Weights{"commit": 20, "add": 18, "add-all": 6, "twins": 3, "case-twin-commit": 3, "junk": 0, "update-ref-probe": 2, "revert-add-probe": 1}),
				Oracles: []HistOracle{orC02}}
		})
	checks["C07"] = histCheck("C07", []string{"C07.world_first_commit_succeeds", "C07.world_commit_succeeds_on_diff", "C07.world_commit_nothing_staged_refused", "C07.world_commit_needs_diff", "C07.world_commit_refused_unchanged", "C07.diff_fromTree", "C07.diff_fromTree_build", "C07.fromTree_nil_iff", "C07.fold_ok", "C06.getEntry_correct", "C07.diff_nil_iff", "C07.diff_exact", "C07.getNode_build", "C07.isNew_build", "C07.getNodeAux_build", "C02.commit_refuses_noop", "C02.commit_accepts_diff", "C07.status_staged_exact", "C07.status_clean_after_commit"}, histRule,
		func(ctx *Ctx) *HistCfg {
			return &HistCfg{Prop: "C07", Cases: tierN(ctx, 200, 2000), MinSteps: 8, MaxSteps: 30,
				W:       weights(Weights{"commit": 16, "status": 14, "add": 18, "rm": 6, "restore": 6, "fd-swap": 4, "junk": 0, "update-ref-probe": 2, "revert-add-probe": 1}),
				Oracles: []HistOracle{orC07}, StatusAfterCommit: true}
		})
	checks["C08"] = histCheck("C08", []string{"C08.world_reset_hard_files", "C08.world_reset_spec", "C05.reset_readback", "C08.accepts", "C08.accepts_number", "C08.accepted_shape", "C08.position_agrees", "C08.out_of_range_refused", "C08.mode_table", "C08.resetCmd_ok", "C08.reset_soft", "C08.reset_refused", "C05.reset_readback"}, histRule+"; before every reset the `reflog` listing is sampled",
		func(ctx *Ctx) *HistCfg {
			return &HistCfg{Prop: "C08", Cases: tierN(ctx, 200, 2000), MinSteps: 10, MaxSteps: 35,
				W:       weights(Weights{"commit": 16, "reset": 14, "rename-reset": 4, "hard-rmdir": 5, "edit-same-size": 8, "switch": 3, "switch-c": 2, "rmdir": 4, "rmfile": 5, "junk": 0, "switch-reset-probe": 4}),
				Oracles: []HistOracle{orC08}, PreReset: true}
		})
	checks["C09"] = histCheck("C09", []string{"C09.world_restore_staged_exact", "C09.world_restore_files", "C09.restore_only_tracked", "C09.world_restore_frame", "C09.world_restore_staged_frame", "C09.restore_named", "C09.restore_unknown_refused", "C06.isDir_iff", "C06.mem_byDir", "C06.getEntry_correct", "C04.update_membership", "C04.delete_exact", "C09.restoreStaged_exact", "C09.restoreStaged_unknown_refused", "C09.restoreIndexOne_spec", "C09.restoreIndexOne_refused_iff", "C09.rsFold_spec"}, histRule,
		func(ctx *Ctx) *HistCfg {
			return &HistCfg{Prop: "C09", Cases: tierN(ctx, 200, 2000), MinSteps: 10, MaxSteps: 35,
				W:       weights(Weights{"restore": 20, "commit": 8, "rmfile": 8, "rmdir": 5, "write": 16, "add": 14, "rm": 4, "fd-swap": 4, "edit-same-size": 4, "twins": 5, "restore-dir-probe": 6, "restore-family-probe": 6, "block-size-probe": 3, "update-ref-probe": 5, "junk": 0}),
				Oracles: []HistOracle{orC09}}
		})
	checks["C10"] = histCheck("C10", []string{"C10.world_switch_create_succeeds", "C10.world_branch_rename_succeeds", "C10.world_branch_create_succeeds", "C10.world_branch_delete_succeeds", "C10.world_switch_succeeds", "C10.world_branch_names_unique", "C10.world_init_spec", "C10.world_update_ref_spec", "C10.world_revparse_faithful", "C10.world_list_faithful", "C03.inv_run", "C10.world_others_keep", "C10.world_branch_switch_refused_unchanged", "C10.world_switch_spec", "C10.world_create_spec", "C10.world_delete_spec", "C10.world_rename_spec", "C10.world_switch_create_spec", "C03.inv_step", "C10.getBranchPos_correct", "C10.add_ok", "C10.add_dup", "C10.add_invalid", "C10.delete_ok", "C10.delete_current_refused", "C10.delete_unknown_refused", "C10.update_ok", "C10.update_unknown_refused", "C10.rename_ok", "C10.rename_dup_refused", "C10.others_keep", "C10.updateRef_spec", "C10.create_refused", "C10.delete_refused", "C10.switch_spec", "C10.add_lookup", "C10.delete_lookup", "C10.update_lookup", "C10.rename_lookup", "C10.add_refines", "C10.delete_refines", "C10.update_refines"}, histRule,
		func(ctx *Ctx) *HistCfg {
			return &HistCfg{Prop: "C10", Cases: tierN(ctx, 250, 2500), MinSteps: 10, MaxSteps: 40,
				W: weights(Weights{"branch": 10, "branch-rename": 6, "branch-delete": 6, "branch-list": 4, "switch": 8, "switch-c": 5, "update-ref": 6,
					"rev-parse": 6, "commit": 8, "reset": 2, "write": 8, "add": 6, "restore": 0, "rm": 1, "junk": 1, "lock-twin-probe": 3}),
				Oracles: []HistOracle{orC10}, AbsRefine: true}
		})
	checks["C13"] = histCheck("C13", []string{"C13.world_status_ok", "C13.status_ok", "C13.modified_iff", "C13.same_bytes_not_modified", "C13.deleted_iff", "C13.untracked_iff", "C01.encode_injective", "C06.getEntry_correct", "C17.nothing_hidden_without_ignore"}, histRule,
		func(ctx *Ctx) *HistCfg {
			return &HistCfg{Prop: "C13", Cases: tierN(ctx, 200, 2000), MinSteps: 8, MaxSteps: 30,
				W:       weights(Weights{"status": 18, "write": 18, "rewrite-same": 6, "touch": 4, "rmfile": 8, "rmdir": 4, "mkdir": 2, "ignore": 5, "ignore-probe": 6, "dir-gone-probe": 5, "commit": 8, "add": 12, "edit-same-size": 8, "block-size-probe": 4, "junk": 0}),
				Oracles: []HistOracle{orC13}, CommitFirst: true,
				// names with the extensions the generated `*.ext` entries use, so that ignored files really
				// exist next to files that sort before and after them
				Names: func(r *rng) []string {
					// and name families around the byte order of '/' (a directory `d` next to tracked siblings `d.c`, `d-old`, `d e`, `d0`):
					// directory order and byte order of full paths differ exactly there
					pool := []string{"a.log", "m.log", "z.log", "b.tmp", "y.tmp", "k.c", "n.txt", "d", "d0", "d.c", "d-old", "d e", "sub", "sub.log", "sub-2", "lib", "x+y", "zz", "aa", "m", "ü"}
					if r.chance(1, 2) {
						// one family only: collisions of a directory with its siblings become likely
						fam := r.pick([]string{"d", "sub", "m"})
						pool = []string{fam, fam + ".c", fam + "-old", fam + " e", fam + "0", fam + ".log", "a", "zz", "k.tmp"}
					}
					var out []string
					for i := 0; i < 6+r.intn(5); i++ {
						out = append(out, pool[r.intn(len(pool))])
					}
					return out
				}}
		})
	checks["C14"] = histCheck("C14", []string{"C14.world_log_ok", "C14.world_log_total", "C14.log_chain", "C14.log_nonpos", "C14.logCmd_chain", "C14.logCmd_count", "C14.logCmd_nonpos", "C14.logCmd_no_commits"}, histRule,
		func(ctx *Ctx) *HistCfg {
			return &HistCfg{Prop: "C14", Cases: tierN(ctx, 150, 1500), MinSteps: 15, MaxSteps: 60,
				W:       weights(Weights{"commit": 25, "log": 14, "add-all": 10, "write": 14, "write-old": 10, "reset": 4, "switch": 3, "switch-c": 3, "restore": 0, "rm": 1, "junk": 0, "update-ref-probe": 2, "revert-add-probe": 1}),
				Oracles: []HistOracle{orC14}, LongChain: true}
		})
	checks["C17"] = histCheck("C17", []string{"C17.world_restore_never_writes_meta", "C17.world_reset_never_writes_meta", "C17.world_no_meta", "C17.world_no_meta_partial", "C17.world_add_rm_no_meta", "C17.matches_dir", "C17.matches_ext", "C17.nothing_hidden_without_ignore", "C17.meta_always", "C17.addArgs_no_meta", "C17.ignored_meta", "C17.add_skips_meta_arg", "C17.status_never_lists_ignored", "C13.untracked_iff", "C17.restore_never_writes_meta", "C17.restoreStaged_no_meta"}, histRule,
		func(ctx *Ctx) *HistCfg {
			return &HistCfg{Prop: "C17", Cases: tierN(ctx, 200, 2000), MinSteps: 8, MaxSteps: 30,
				W:       weights(Weights{"ignore": 5, "ignore-probe": 5, "nested-ignore-probe": 5, "nested-meta-probe": 4, "add": 20, "add-all": 10, "status": 10, "write": 20, "commit": 5, "reset": 2, "restore": 2, "junk": 0}),
				Oracles: []HistOracle{orC17},
				Names: func(r *rng) []string {
					return []string{"a", "build", "mybuild", "x.log", "y.tmp", "z.c", "src", "out", "a.goit", "my.goit", "log", "b.o"}
				}}
		})
	checks["C18"] = histCheck("C18", []string{"C18.getEntry_never_crashes", "C18.world_readers_change_nothing", "C18.world_never_crashes", "C18.world_history_never_crashes", "C18.getBranchPos_never_crashes", "C18.update_never_crashes", "C18.delete_never_crashes", "C18.get_never_crashes", "C19.decodeEntries_bounded"}, histRule+"; malformed and refused invocations are weighted up",
		func(ctx *Ctx) *HistCfg {
			return &HistCfg{Prop: "C18", Cases: tierN(ctx, 250, 3000), MinSteps: 5, MaxSteps: 40,
				W:       weights(Weights{"junk": 14, "status": 5, "reflog": 4, "log": 3, "branch-rename": 4, "reset": 6, "rm": 6, "restore": 6}),
				Oracles: []HistOracle{orC18}, NoIdent: 15, FreshPct: 35, JunkSweep: true}
		})
	checks["C20"] = histCheck("C20", []string{"C20.world_config_global_readback", "C20.userField_precedence", "C20.world_config_readback", "C20.world_config_sets_identity", "C20.parse_render", "C20.world_only_config_writes_config", "C20.world_identity_gate", "C20.world_config_is_cmd", "C20.world_config_refused_unchanged", "C20.add_get", "C20.local_overrides_global", "C20.global_fallback", "C20.isUserSet_iff", "C20.add_cfgOK", "C20.config_set_roundtrip", "C20.configCmd_ok", "C20.configCmd_roundtrip", "C20.configCmd_refused"}, histRule,
		func(ctx *Ctx) *HistCfg {
			return &HistCfg{Prop: "C20", Cases: tierN(ctx, 200, 2000), MinSteps: 6, MaxSteps: 25,
				W:       Weights{"config": 30, "commit": 10, "write": 10, "add-all": 8, "status": 1},
				Oracles: []HistOracle{orC20}, NoIdent: 60, FreshPct: 100}
		})
	checks["C12"] = histCheck("C12", []string{"C12.zone_table", "C12.parse_format", "C12.parse_format_quarter", "C12.commit_parse_format", "C12.email_chars"}, histRule+"; every invocation runs under a generated TZif file for an offset drawn from all quarter hours in [-12:00,+14:00]",
		func(ctx *Ctx) *HistCfg {
			var tzs []int
			for o := -12 * 3600; o <= 14*3600; o += 900 {
				tzs = append(tzs, o)
			}
			return &HistCfg{Prop: "C12", Cases: tierN(ctx, 150, 1500), MinSteps: 6, MaxSteps: 20, TZs: tzs,
				W:        Weights{"commit": 20, "write": 15, "add-all": 15, "log": 5, "config": 0},
				Oracles:  []HistOracle{orC12, orC14, orC01}, ReadBackCommit: true,
				Messages: genMessage}
		})
	checks["C11"] = histCheck("C11", []string{"C11.world_head0_commit", "C11.world_head0_reset", "C11.world_head0_switch", "C11.world_head0_switch_create", "C11.world_head0_rename", "C11.world_log_history", "C11.world_appends_records", "C11.log_reads_back", "C11.world_log_step", "C11.parseLine_format", "C11.world_log_prefix", "C11.world_history_log_prefix", "C11.parse_append", "C11.parseLines_snoc", "C11.get_agrees_with_listing", "C11.get_append_zero", "C11.get_append_succ", "C11.get_out_of_range", "C11.step_appends", "C11.run_prefix", "C11.shift", "C11.head0_commit", "C11.head0_switch", "C11.head0_reset", "C11.reset_refused"}, histRule+"; `reflog` is run after every commit/switch/reset/rename and compared with the listing before",
		func(ctx *Ctx) *HistCfg {
			return &HistCfg{Prop: "C11", Cases: tierN(ctx, 200, 2000), MinSteps: 10, MaxSteps: 35, TZs: []int{0, 19800, -12600, 3600},
				W: weights(Weights{"commit": 18, "switch": 6, "switch-c": 4, "reset": 8, "branch-rename": 3, "branch-delete": 2, "branch": 3, "reflog": 4,
					"write": 12, "add-all": 8, "restore": 0, "rm": 0, "junk": 0}),
				Oracles: []HistOracle{orC08}, PreReset: true, ReflogAfter: true, Messages: genMessage, AbsRefine: true}
		})
	checks["C05"] = histCheck("C05", []string{"C05.world_commit_then_reset_reads_staged", "C05.world_readback", "C05.walk_monotone", "C05.reset_readback", "C05.readback_writeTree", "C05.walk_write", "C05.walk_encode", "C05.walk_empty", "C05.render_children", "C05.loop_encode", "C02.flatten_writeTree"}, histRule+"; after every commit `cat-file -p` is run on every tree of the snapshot, and `reset --mixed` + `ls-files -s` read snapshots back",
		func(ctx *Ctx) *HistCfg {
			return &HistCfg{Prop: "C05", Cases: tierN(ctx, 200, 2000), MinSteps: 8, MaxSteps: 30,
				W:       weights(Weights{"commit": 18, "add-all": 8, "add": 14, "rm": 6, "reset": 8, "rename-reset": 3, "ls-files": 6, "cat-file": 6, "write": 18, "twin-dirs": 4, "junk": 0}),
				Oracles: []HistOracle{orC05, orC08}, PreReset: true, CatTrees: true}
		})
	checks["C06"] = histCheck("C06", []string{"C06.world_index_canonical", "C06.world_commits_read_back_canonical", "C06.world_step_index_canonical", "C06.world_index_canonical_partial", "C06.decode_encode", "C06.getEntry_correct", "C06.isDir_iff", "C06.mem_byDir", "C06.byDir_sublist", "C04.eraseIdx_canonical", "C04.sortEntries_sorted"}, histRule,
		func(ctx *Ctx) *HistCfg {
			return &HistCfg{Prop: "C06", Cases: tierN(ctx, 150, 1500), MinSteps: 8, MaxSteps: 30,
				W:       weights(Weights{"add": 20, "rm": 10, "restore": 10, "reset": 4, "commit": 8, "write": 16, "rmdir": 4, "junk": 0}),
				Oracles: []HistOracle{orC06, orC04, orC09}}
		})
}

func genMessage(r *rng) string {
	pool := []string{"fix: colon msg", "title\nthis is bad", "tab\there", "  leading and trailing  ", "plain", "three word line\nand another three words",
		"ünïcödé mëssage", "a: b: c", "multi\n\nparagraph\nmessage", "x", "Merge: a\tb: c", "trailing newline\n", "colon at end:", ": starts with colon",
		"0000000000000000000000000000000000000000 looks like a hash", "commit: nested kind", "100% done", "%s %d %v: %q", "50%!"}
	if r.chance(1, 6) {
		return strings.Repeat("long line ", 300) + fmt.Sprint(r.intn(100))
	}
	return pool[r.intn(len(pool))]
}

// attach the function-level generators (compared with the Lean model line by line) to the checks
func init() {
	for prop, g := range map[string]func(*Ctx, *rng) []Case{
		"C06": genC06, "C07": genC07, "C10": genC10, "C11": genC11, "C12": genC12, "C17": genC17, "C20": genC20,
		"C02": func(c *Ctx, r *rng) []Case { return genTrees(c, r, "C02") },
		"C05": func(c *Ctx, r *rng) []Case { return genTrees(c, r, "C05") },
		// C08: the reset read-back cases (Index.Reset with a fresh and with a pre-filled staging area) on a sample of the tree shapes
		"C08": func(c *Ctx, r *rng) []Case {
			var out []Case
			for i, cs := range genTrees(c, r, "C08") {
				if i%4 == 0 {
					out = append(out, cs)
				}
			}
			return out
		},
	} {
		checks[prop].Gen = g
	}
	checks["C19"] = &Check{Prop: "C19", Gen: genC19, Impl: runImplAPI,
		// command level: histories in which one of Goit's own files is damaged, every read-only command is run on
		// the damaged repository, and the file is put back
		Hist: func(ctx *Ctx) *HistCfg {
			return &HistCfg{Prop: "C19", Cases: tierN(ctx, 120, 1200), MinSteps: 6, MaxSteps: 18, FreshPct: 5,
				W:       Weights{"damage": 30, "write": 10, "add-all": 8, "commit": 10, "branch": 3, "switch": 2, "reset": 2, "config": 2, "branch-rename": 1},
				Oracles: []HistOracle{orC19}, NoDerive: true, WorldAlways: true}
		},
		// no-wrong-data for the tree reader: whatever `walkTree` returns for a (damaged) tree stored under its own
		// name, every leaf it reports — name and id — must stand in the file as `name NUL id` (a reader that pads a
		// cut-off id with zeros, or invents a name, serves data that is not there)
		Oracle: func(c Case, step int, line string, impl string) *Finding {
			// the index reader: the entries it reports must stand in the file (a path completed with bytes that are not
			// there, an entry beyond the end of the file, is data that was never written)
			if strings.HasPrefix(line, "idx.dec ") && strings.HasPrefix(impl, "ok ") {
				f := strings.Fields(impl)
				file := unhx(strings.TrimPrefix(line, "idx.dec "))
				if len(f) == 4 && len(file) >= 12 {
					enc := encodeIndex(entriesIn(f[3]))
					if len(enc) > len(file) || !bytes.Equal(enc[12:], file[12:len(enc)]) {
						return &Finding{Kind: "spec-violation", Clause: "no-wrong-object", Detail: "the index reader reports entries whose bytes are not in the file (" + clip(f[3], 120) + ")"}
					}
				}
				return nil
			}
			if !strings.HasPrefix(line, "tree.walk ") || !strings.HasPrefix(impl, "ok ") || step == 0 || !strings.HasPrefix(c.Lines[step-1], "st.put ") {
				return nil
			}
			f := strings.Fields(c.Lines[step-1])
			if len(f) != 3 || "tree.walk "+f[1] != line {
				return nil
			}
			content := unhx(f[2])
			for _, n := range strings.Split(strings.TrimPrefix(impl, "ok "), ";") {
				if !strings.HasSuffix(n, "{}") {
					continue
				}
				ni := strings.SplitN(strings.TrimSuffix(n, "{}"), "/", 2)
				if len(ni) != 2 {
					continue
				}
				want := append(append(unhx(ni[0]), 0), unhx(ni[1])...)
				if !bytes.Contains(content, want) {
					return &Finding{Kind: "spec-violation", Clause: "no-wrong-object", Detail: fmt.Sprintf("the tree reader reports entry %q with id %s, which is not in the stored tree", unhx(ni[0]), ni[1])}
				}
			}
			return nil
		},
		Theorems: []string{"C19.get_crash_iff", "C19.get_returns_requested", "C19.parse_ne_undefined", "C19.decodeEntries_bounded", "C19.lookups_never_crash"},
		Rule: "valid files produced for the test (objects, trees, commits, index, HEAD, branch files, config, reflog) and every thinned truncation, random single-byte deletions and substitutions (0x00 0x0a 0x20 0x2f 0xff digits, +-1), swapped and self-referential object files, header corner cases; each decoder is called in-process under recover and must answer ok/err exactly like the model"}
}
