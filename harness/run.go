package main

// Orchestrator: generates cases, runs them on the implementation and on the Lean model driver,
// diffs the canonical answers, evaluates the property oracles on the implementation's answers,
// writes evidence and replay files, prints KNOWN-FINDING / VIOLATION lines.

import (
	"bufio"
	"encoding/json"
	"fmt"
	"io"
	"os"
	"os/exec"
	"path/filepath"
	"sort"
	"strings"
	"sync"
	"time"
)

type Case struct {
	Name  string   `json:"name"`
	Lines []string `json:"lines"`
	Tag   string   `json:"tag,omitempty"` // distribution bucket
	// Expect[i] (optional) is the answer the property's specification demands for line i, computed
	// independently by the generator; Clause[i] names the specification clause.
	Expect map[int]string `json:"expect,omitempty"`
	Clause map[int]string `json:"clause,omitempty"`
	World  *WorldScript   `json:"-"` // whole-repository model script of a history
}

func (c *Case) add(line string) int {
	c.Lines = append(c.Lines, line)
	return len(c.Lines) - 1
}

func (c *Case) addExpect(line, clause, want string) {
	i := c.add(line)
	if c.Expect == nil {
		c.Expect = map[int]string{}
		c.Clause = map[int]string{}
	}
	c.Expect[i] = want
	c.Clause[i] = clause
}

// Finding is a concrete failure: a spec clause violated on the implementation, or a
// model/implementation difference.
type Finding struct {
	Kind   string   `json:"kind"` // spec-violation | correspondence | proof-obligation
	Clause string   `json:"clause"`
	Case   Case     `json:"case"`
	Step   int      `json:"step"`
	Impl   string   `json:"impl,omitempty"`
	Model  string   `json:"model,omitempty"`
	Detail string   `json:"detail,omitempty"`
	Sig    string   `json:"signature,omitempty"` // for matching known findings
	Broken []string `json:"no_longer_checks,omitempty"`
}

type Ctx struct {
	APIStatus string // "ok", or why the in-process driver could not be built
	Prop     string
	Tier     string
	Seed     uint64
	Goit     string
	Model    string
	Scratch  string
	Workers  int
	Self     string
	VerifDir string
	Replay   string
}

// loadReplayScripts extracts the recorded scripts of a replay file written by an earlier run
func loadReplayScripts(path string) [][]string {
	var rp struct {
		Findings []Finding `json:"findings"`
		First    []Finding `json:"first_differences"`
	}
	b, err := os.ReadFile(path)
	if err != nil {
		return nil
	}
	json.Unmarshal(b, &rp)
	var out [][]string
	for _, f := range append(rp.Findings, rp.First...) {
		if len(f.Case.Lines) > 0 {
			out = append(out, f.Case.Lines)
		}
	}
	return out
}

// ---- running line scripts ----

// pipeLines feeds lines to a subprocess that answers one line per input line.
// If the process dies or stalls, the remaining answers are "died"/"hang".
func pipeLines(cmd *exec.Cmd, lines []string, perLine time.Duration) []string {
	out := make([]string, 0, len(lines))
	stdin, _ := cmd.StdinPipe()
	stdout, _ := cmd.StdoutPipe()
	cmd.Stderr = io.Discard
	if err := cmd.Start(); err != nil {
		for range lines {
			out = append(out, "died")
		}
		return out
	}
	go func() {
		w := bufio.NewWriterSize(stdin, 1<<20)
		for _, l := range lines {
			w.WriteString(l)
			w.WriteByte('\n')
		}
		w.Flush()
		stdin.Close()
	}()
	rd := bufio.NewReaderSize(stdout, 1<<20)
	type res struct {
		s   string
		err error
	}
	ch := make(chan res, 1)
	read := func() { s, err := rd.ReadString('\n'); ch <- res{strings.TrimRight(s, "\n"), err} }
	status := ""
	for range lines {
		if status != "" {
			out = append(out, status)
			continue
		}
		go read()
		select {
		case r := <-ch:
			if r.err != nil && r.s == "" {
				status = "died"
				out = append(out, status)
			} else {
				out = append(out, r.s)
			}
		case <-time.After(perLine):
			status = "hang"
			cmd.Process.Kill()
			out = append(out, status)
		}
	}
	cmd.Process.Kill()
	cmd.Wait()
	return out
}

// runChunks runs each case's lines through fresh-per-chunk subprocesses in parallel.
// A case whose run died/hung is re-run alone so that one bad operation does not mask others.
func runChunks(ctx *Ctx, cases []Case, mk func(worker int) *exec.Cmd) [][]string {
	res := make([][]string, len(cases))
	type job struct{ lo, hi int }
	n := ctx.Workers
	if n > len(cases) {
		n = len(cases)
	}
	if n == 0 {
		return res
	}
	var jobs []job
	per := (len(cases) + n - 1) / n
	for lo := 0; lo < len(cases); lo += per {
		hi := lo + per
		if hi > len(cases) {
			hi = len(cases)
		}
		jobs = append(jobs, job{lo, hi})
	}
	var wg sync.WaitGroup
	for wi, j := range jobs {
		wg.Add(1)
		go func(wi int, j job) {
			defer wg.Done()
			var lines []string
			for _, c := range cases[j.lo:j.hi] {
				lines = append(lines, c.Lines...)
			}
			outs := pipeLines(mk(wi), lines, 60*time.Second)
			k := 0
			for ci := j.lo; ci < j.hi; ci++ {
				res[ci] = outs[k : k+len(cases[ci].Lines)]
				k += len(cases[ci].Lines)
			}
			// re-run alone the cases after (and including) the first broken one
			for ci := j.lo; ci < j.hi; ci++ {
				bad := false
				for _, o := range res[ci] {
					if o == "died" || o == "hang" {
						bad = true
					}
				}
				if bad {
					res[ci] = pipeLines(mk(wi), cases[ci].Lines, 20*time.Second)
				}
			}
		}(wi, j)
	}
	wg.Wait()
	return res
}

func runImplAPI(ctx *Ctx, cases []Case) [][]string {
	return runChunks(ctx, cases, func(w int) *exec.Cmd {
		dir := filepath.Join(ctx.Scratch, fmt.Sprintf("api%d", w))
		c := exec.Command(ctx.Self, "api", dir, ctx.Goit)
		c.Env = append(os.Environ(), "HOME="+dir, "GOMEMLIMIT=2GiB")
		return c
	})
}

func runModel(ctx *Ctx, cases []Case) [][]string {
	return runChunks(ctx, cases, func(w int) *exec.Cmd {
		return exec.Command(ctx.Model)
	})
}

// ---- check definition ----

type Oracle func(c Case, step int, line string, impl string) *Finding

type Check struct {
	Prop       string
	Gen        func(ctx *Ctx, r *rng) []Case
	Impl       func(ctx *Ctx, cases []Case) [][]string
	Oracle     Oracle                               // spec on the implementation's own answers (may be nil)
	CaseOracle func(c Case, impl []string) *Finding // whole-case spec (may be nil)
	Compare    func(line string) bool               // which lines are compared with the model (nil = all)
	Nontrivial func(c Case, impl []string) bool
	Rule       string
	Theorems   []string // obligations: theorem names in GoitProofs
	Technique  string
	Trusted    []string
	Exhaustive bool
	Hist       func(ctx *Ctx) *HistCfg // CLI histories judged by the executable specifications
	Crash      bool                    // C15/C16: crash-prefix / fault-injection enumeration
}

type Known struct {
	Property  string `json:"property"`
	Signature string `json:"signature"`
	What      string `json:"what"`
	Status    string `json:"status"` // open | fixed
	Commit    string `json:"commit,omitempty"`
}

func loadKnown(dir string) []Known {
	var ks struct {
		Findings []Known `json:"findings"`
	}
	b, err := os.ReadFile(filepath.Join(dir, "known_findings.json"))
	if err != nil {
		return nil
	}
	json.Unmarshal(b, &ks)
	return ks.Findings
}

type auditEntry struct {
	Axioms []string
}

// parseAudit reads the output of `lake env lean GoitProofs/Audit.lean`:
// lines "'Name' depends on axioms: [a, b]" or "'Name' does not depend on any axioms"
func parseAudit(path string) map[string]auditEntry {
	m := map[string]auditEntry{}
	b, err := os.ReadFile(path)
	if err != nil {
		return m
	}
	txt := strings.ReplaceAll(string(b), "\n ", " ")
	for _, l := range strings.Split(txt, "\n") {
		l = strings.TrimSpace(l)
		if !strings.HasPrefix(l, "'") {
			continue
		}
		end := strings.Index(l[1:], "'")
		if end < 0 {
			continue
		}
		name := l[1 : 1+end]
		rest := l[2+end:]
		if strings.Contains(rest, "does not depend on any axioms") {
			m[name] = auditEntry{}
		} else if i := strings.Index(rest, "["); i >= 0 {
			j := strings.LastIndex(rest, "]")
			var ax []string
			for _, a := range strings.Split(rest[i+1:j], ",") {
				ax = append(ax, strings.TrimSpace(a))
			}
			m[name] = auditEntry{ax}
		}
	}
	return m
}

var allowedAxioms = map[string]bool{"propext": true, "Classical.choice": true, "Quot.sound": true}

func runCheck(ctx *Ctx, ck *Check, auditPath, factsStatus, evidencePath string) int {
	t0 := time.Now()
	r := newRng(ctx.Seed)
	var cases []Case
	var histScripts [][]string
	for _, c := range loadCorpus(ctx, ck.Prop) {
		if len(c.Lines) > 0 && (strings.HasPrefix(c.Lines[0], "W ") || strings.HasPrefix(c.Lines[0], "X ")) {
			histScripts = append(histScripts, c.Lines)
		} else {
			cases = append(cases, c)
		}
	}
	ncorpus := len(cases) + len(histScripts)
	if ctx.Replay != "" {
		for i, sc := range loadReplayScripts(ctx.Replay) {
			if len(sc) > 0 && !strings.HasPrefix(sc[0], "W ") && !strings.HasPrefix(sc[0], "X ") {
				cases = append(cases, Case{Name: fmt.Sprintf("replay-%d", i), Lines: sc, Tag: "replay"})
			}
		}
	} else if ck.Gen != nil && (ctx.APIStatus == "" || ctx.APIStatus == "ok") {
		cases = append(cases, ck.Gen(ctx, r)...)
	}
	var impl, model [][]string
	if len(cases) > 0 {
		impl = ck.Impl(ctx, cases)
		model = runModel(ctx, cases)
	}
	napi := len(cases)

	known := loadKnown(ctx.VerifDir)
	var findings []Finding
	addFinding := func(f Finding) { findings = append(findings, f) }
	histStats := map[string]int{}
	var derived []Derived
	if ck.Crash {
		hc, ho, hf, st := runCrashCases(ctx, ck.Prop, r.fork())
		cases = append(cases, hc...)
		impl = append(impl, ho...)
		model = append(model, ho...)
		findings = append(findings, hf...)
		histStats = st
	}
	if ck.Hist != nil {
		cfg := ck.Hist(ctx)
		if ctx.Replay != "" {
			cfg.Cases = 0
			for _, sc := range loadReplayScripts(ctx.Replay) {
				if len(sc) > 0 && (strings.HasPrefix(sc[0], "W ") || strings.HasPrefix(sc[0], "X ")) {
					histScripts = append(histScripts, sc)
				}
			}
		}
		for i, sc := range histScripts {
			c, outs, fs := replayScript(ctx, cfg, sc, i)
			cases = append(cases, c)
			impl = append(impl, outs)
			model = append(model, outs)
			findings = append(findings, fs...)
		}
		hc, ho, hf, st, ders := runHistories(ctx, cfg, r.fork())
		derived = ders
		cases = append(cases, hc...)
		impl = append(impl, ho...)
		model = append(model, ho...) // histories are judged; not compared line by line with the model driver
		findings = append(findings, hf...)
		histStats = st
	}

	steps, compared, agree := 0, 0, 0
	tagCount := map[string]int{}
	answerKinds := map[string]int{}
	distinct := map[string]bool{}
	nontrivial := 0
	for ci, c := range cases {
		tagCount[c.Tag]++
		key := strings.Join(c.Lines, "\n")
		isNew := !distinct[key]
		distinct[key] = true
		if isNew && (ck.Nontrivial == nil || ck.Nontrivial(c, impl[ci])) {
			nontrivial++
		}
		if ck.CaseOracle != nil {
			if f := ck.CaseOracle(c, impl[ci]); f != nil {
				f.Case = c
				addFinding(*f)
			}
		}
		for li, line := range c.Lines {
			steps++
			io_ := impl[ci][li]
			answerKinds[strings.SplitN(line, " ", 2)[0]+"→"+strings.SplitN(io_, " ", 2)[0]]++
			if io_ == "crash" || io_ == "died" || io_ == "hang" {
				// a Go panic / death / hang of the implementation is always a spec violation
				addFinding(Finding{Kind: "spec-violation", Clause: "no-crash", Case: c, Step: li, Impl: io_,
					Sig: sigOf(ck.Prop, "no-crash", line)})
			}
			if want, ok := c.Expect[li]; ok && want != io_ {
				addFinding(Finding{Kind: "spec-violation", Clause: c.Clause[li], Case: c, Step: li, Impl: io_,
					Detail: "specification demands: " + clip(want, 300), Sig: sigOf(ck.Prop, c.Clause[li], line)})
			}
			if ck.Oracle != nil {
				if f := ck.Oracle(c, li, line, io_); f != nil {
					f.Case, f.Step, f.Impl = c, li, io_
					if f.Sig == "" {
						f.Sig = sigOf(ck.Prop, f.Clause, line)
					}
					addFinding(*f)
				}
			}
			if ci < napi && (ck.Compare == nil || ck.Compare(line)) {
				compared++
				if io_ == model[ci][li] {
					agree++
				} else {
					addFinding(Finding{Kind: "correspondence", Clause: "model=impl", Case: c, Step: li, Impl: io_, Model: model[ci][li],
						Sig: sigOf(ck.Prop, "model=impl", line)})
				}
			}
		}
	}

	// command-level correspondence: lines derived from the observed CLI transitions are answered by the
	// Lean command model and compared with what the implementation did
	derivedCompared, derivedAgree := 0, 0
	derivedKinds := map[string]int{}
	if len(derived) > 0 {
		var mc []Case
		for _, d := range derived {
			mc = append(mc, Case{Name: "derived", Lines: []string{d.Line}})
		}
		mo := runModel(ctx, mc)
		for i, d := range derived {
			if len(mo[i]) != 1 {
				continue
			}
			derivedCompared++
			kind, ik := strings.SplitN(d.Line, " ", 2)[0], strings.SplitN(d.Impl, " ", 2)[0]
			if kind == "sha" {
				kind, ik = "cmd.hash-object", "ok"
			}
			derivedKinds[kind+" impl="+ik]++
			okk := mo[i][0] == d.Impl
			detail := ""
			if d.Verify != nil {
				detail = d.Verify(mo[i][0])
				okk = detail == ""
			}
			if okk {
				derivedAgree++
			} else {
				cc := d.Case
				n := d.Step + 1
				if n > len(cc.Lines) {
					n = len(cc.Lines)
				}
				cc.Lines = append(append([]string{}, cc.Lines[:n]...), d.Line)
				addFinding(Finding{Kind: "correspondence", Clause: "model=impl", Case: cc, Step: len(cc.Lines) - 1, Impl: d.Impl, Model: mo[i][0],
					Detail: detail, Sig: sigOf(ck.Prop, "model=impl", d.Line)})
			}
		}
		compared += derivedCompared
		agree += derivedAgree
	}
	// whole-repository correspondence: every history is replayed on the Lean model of the whole repository,
	// which carries its own state; its complete state after each invocation is compared with the observed one
	worldStats := map[string]int{}
	{
		var mc []Case
		var owners []int
		for ci, c := range cases {
			if c.World != nil && len(c.World.Expect) > 0 {
				mc = append(mc, Case{Name: "world", Lines: c.World.Lines})
				owners = append(owners, ci)
			}
		}
		if len(mc) > 0 {
			mo := runModel(ctx, mc)
			for k, ci := range owners {
				ws := cases[ci].World
				if len(mo[k]) != len(ws.Lines) {
					worldStats["scripts_not_answered"]++
					continue
				}
				reportedHere := false
				for li, line := range ws.Lines {
					ans := mo[k][li]
					if strings.HasPrefix(line, "w.sync ") {
						worldStats["state_"+ans]++
						continue
					}
					want, isX := ws.Expect[li]
					if !isX {
						continue
					}
					cmdName := "?"
					if a := ws.Args[li]; len(a) > 0 {
						cmdName = a[0]
					}
					if strings.HasPrefix(ans, "R=unsupported ") {
						worldStats["unsupported"]++
						worldStats["unsupported."+cmdName]++
						continue
					}
					worldStats["compared"]++
					worldStats["compared."+cmdName+"."+strings.TrimPrefix(strings.SplitN(want, " ", 2)[0], "R=")]++
					if ans == want {
						worldStats["agree"]++
						continue
					}
					if reportedHere {
						continue // one report per history: the state was re-synchronised, later differences are reported by other histories
					}
					reportedHere = true
					cc := cases[ci]
					n := ws.StepOf[li] + 1
					if n > len(cc.Lines) {
						n = len(cc.Lines)
					}
					cc.Lines = append(append([]string{}, cc.Lines[:n]...), line)
					cc.World = nil
					addFinding(Finding{Kind: "correspondence", Clause: "model=impl", Case: cc, Step: len(cc.Lines) - 1, Impl: want, Model: ans,
						Detail: "whole-repository model: fields that differ: " + strings.Join(diffFields(want, ans), ",") + " | cmd: goit " + strings.Join(ws.Args[li], " "),
						Sig: ck.Prop + "/model=impl/w.x " + cmdName})
				}
			}
			compared += worldStats["compared"]
			agree += worldStats["agree"]
		}
	}
	// the traced effect shapes of C15/C16 were compared with the Lean effect-order model inside runCrashCases
	if n := histStats["effect_shapes_compared_with_model"]; n > 0 {
		bad := 0
		for _, f := range findings {
			if strings.HasSuffix(f.Sig, "/model=impl/eff.shape") {
				bad++
			}
		}
		compared += n
		agree += n - bad
	}

	// proof obligations
	audit := parseAudit(auditPath)
	obligations, discharged := 0, 0
	var oblig []map[string]interface{}
	var broken []string
	for _, th := range ck.Theorems {
		obligations++
		e, ok := audit[th]
		good := ok
		for _, a := range e.Axioms {
			if !allowedAxioms[a] {
				good = false
			}
		}
		if good {
			discharged++
		} else {
			broken = append(broken, th)
		}
		oblig = append(oblig, map[string]interface{}{"theorem": th, "checked": ok, "axioms": e.Axioms})
	}
	obligations++ // the regenerated facts / translated definitions
	if factsStatus == "ok" {
		discharged++
	} else {
		broken = append(broken, "Generated facts / translated definitions: "+factsStatus)
	}
	if ctx.APIStatus != "" && ctx.APIStatus != "ok" {
		obligations++
		broken = append(broken, "function-level correspondence: "+ctx.APIStatus)
	}

	// verdict
	exit := 0
	printedKnown := map[string]bool{}
	specViol := 0
	var reported []Finding
	isKnown := func(f Finding) *Known {
		for i := range known {
			k := &known[i]
			if k.Status == "open" && k.Property == ck.Prop && k.Signature == f.Sig {
				return k
			}
		}
		return nil
	}
	// spec violations first: they are concrete failing inputs on the implementation
	for _, f := range findings {
		if f.Kind != "spec-violation" {
			continue
		}
		if k := isKnown(f); k != nil {
			if !printedKnown[k.Signature] {
				fmt.Printf("KNOWN-FINDING: property=%s %s\n", ck.Prop, k.What)
				printedKnown[k.Signature] = true
			}
			continue
		}
		specViol++
		reported = append(reported, f)
	}
	corr := 0
	for _, f := range findings {
		if f.Kind == "correspondence" {
			corr++
		}
	}
	replayDir := filepath.Join(ctx.VerifDir, "replays")
	os.MkdirAll(replayDir, 0o777)
	writeReplay := func(name string, v interface{}) string {
		p := filepath.Join(replayDir, name)
		b, _ := json.MarshalIndent(v, "", " ")
		os.WriteFile(p, b, 0o666)
		return p
	}
	if specViol > 0 {
		// report the smallest case per clause
		byClause := map[string]Finding{}
		for _, f := range reported {
			key := f.Clause + "|" + f.Sig
			g, ok := byClause[key]
			if !ok || len(strings.Join(f.Case.Lines, "")) < len(strings.Join(g.Case.Lines, "")) {
				byClause[key] = f
			}
		}
		var cl []string
		for c := range byClause {
			cl = append(cl, c)
		}
		sort.Strings(cl)
		var fs []Finding
		for _, c := range cl {
			fs = append(fs, byClause[c])
		}
		p := writeReplay(fmt.Sprintf("%s-seed%d-spec.json", ck.Prop, ctx.Seed), map[string]interface{}{
			"property": ck.Prop, "kind": "spec-violation", "seed": ctx.Seed, "tier": ctx.Tier, "findings": fs,
			"total_violations": specViol})
		fmt.Printf("VIOLATION property=%s replay=%s\n", ck.Prop, p)
		exit = 1
	} else if corr > 0 || len(broken) > 0 {
		// The tie or a proof obligation no longer checks and the search found no failing input.
		var fs []Finding
		for _, f := range findings {
			if f.Kind == "correspondence" && len(fs) < 5 {
				fs = append(fs, f)
			}
		}
		p := writeReplay(fmt.Sprintf("%s-seed%d-tie.json", ck.Prop, ctx.Seed), map[string]interface{}{
			"property": ck.Prop, "kind": "correspondence-or-proof-obligation", "seed": ctx.Seed, "tier": ctx.Tier,
			"no_longer_checks": broken, "correspondence_differences": corr, "first_differences": fs,
			"note": "the property is no longer shown to hold: the listed theorem / generated obligation / model-implementation correspondence broke; the search over the generated cases found no input on which the executable specification fails"})
		fmt.Printf("VIOLATION property=%s replay=%s no-failing-input-found\n", ck.Prop, p)
		exit = 1
	}

	// evidence
	var samples []interface{}
	for i := 0; i < len(cases) && len(samples) < 3; i += 1 + len(cases)/3 {
		n := len(cases[i].Lines)
		if n > 6 {
			n = 6
		}
		var outs []string
		for k := 0; k < n; k++ {
			o := impl[i][k]
			if len(o) > 200 {
				o = o[:200] + "…"
			}
			outs = append(outs, o)
		}
		ls := make([]string, n)
		for k := 0; k < n; k++ {
			ls[k] = cases[i].Lines[k]
			if len(ls[k]) > 200 {
				ls[k] = ls[k][:200] + "…"
			}
		}
		samples = append(samples, map[string]interface{}{"case": cases[i].Name, "tag": cases[i].Tag, "lines": ls, "impl_answers": outs})
	}
	for _, o := range oblig {
		if len(samples) < 8 {
			samples = append(samples, o)
		}
	}
	cov := map[string]interface{}{
		"obligations":                   obligations,
		"discharged":                    discharged,
		"checker_cmd":                   "cd /verif/lean && lake build GoitProofs && lake env lean GoitProofs/Audit.lean   (#print axioms of every obligation); generated facts: lake env lean <scratch>/FactsAll.lean",
		"trusted_base":                  append([]string{"Lean 4.33.0 kernel", "axioms: propext, Classical.choice, Quot.sound only (audited per theorem)", "hand-written Lean model tied to /repo by the differential correspondence run below and by the regenerated facts/translated arithmetic"}, ck.Trusted...),
		"theorems":                      oblig,
		"evaluations":                   steps,
		"cases":                         len(cases),
		"corpus_cases":                  ncorpus,
		"distinct_nontrivial":           nontrivial,
		"rule":                          ck.Rule,
		"samples":                       samples,
		"traces_validated_against_impl": agree,
		"lines_compared_with_model":     compared,
		"correspondence_differences":    corr,
		"spec_violations_unlisted":      specViol,
		"known_findings_printed":        len(printedKnown),
		"unlisted_violation_signatures": sigCounts(reported),
		"input_distribution":            tagCount,
		"operation_outcomes":            answerKinds,
		"history_step_outcomes":         histStats,
		"command_transitions_compared_with_model": derivedCompared,
		"command_transitions_by_kind":             derivedKinds,
		"whole_repository_model":                  worldStats,
		"exhaustive":                              ck.Exhaustive,
		"facts_status":                            factsStatus,
	}
	ev := map[string]interface{}{
		"property_id": ck.Prop,
		"tier":        ctx.Tier,
		"seed":        ctx.Seed,
		"level":       "proof",
		"coverage":    cov,
		"assumptions": []string{
			"zlib, cobra/pflag, the Go runtime and the OS file system are trusted (not modelled)",
			"the model's agreement with the code is checked on the generated cases, not proved",
			"SHA-1 is an arbitrary 20-byte hash function in the theorems; collision freedom is an explicit finite hypothesis where needed",
		},
		"wall_s":     time.Since(t0).Seconds(),
		"violations": specViol,
	}
	if exit != 0 && specViol == 0 {
		ev["violations"] = 1
	}
	b, _ := json.MarshalIndent(ev, "", " ")
	os.MkdirAll(filepath.Dir(evidencePath), 0o777)
	os.WriteFile(evidencePath, b, 0o666)
	fmt.Printf("%s %s seed=%d: cases=%d steps=%d compared=%d agree=%d spec-violations=%d obligations=%d/%d wall=%.1fs\n",
		ck.Prop, ctx.Tier, ctx.Seed, len(cases), steps, compared, agree, specViol, discharged, obligations, time.Since(t0).Seconds())
	return exit
}

func sigCounts(fs []Finding) map[string]int {
	m := map[string]int{}
	for _, f := range fs {
		m[f.Sig]++
	}
	return m
}

func clip(s string, n int) string {
	if len(s) > n {
		return s[:n] + "…"
	}
	return s
}

// signature of a finding: property, clause and the operation (first word of the line)
func sigOf(prop, clause, line string) string {
	return prop + "/" + clause + "/" + strings.SplitN(line, " ", 2)[0]
}

func loadCorpus(ctx *Ctx, prop string) []Case {
	var out []Case
	fs, _ := filepath.Glob(filepath.Join(ctx.VerifDir, "corpus", prop, "*.case"))
	sort.Strings(fs)
	for _, f := range fs {
		b, err := os.ReadFile(f)
		if err != nil {
			continue
		}
		var ls []string
		for _, l := range strings.Split(string(b), "\n") {
			l = strings.TrimSpace(l)
			if l != "" && !strings.HasPrefix(l, "#") {
				ls = append(ls, l)
			}
		}
		out = append(out, Case{Name: "corpus/" + filepath.Base(f), Lines: ls, Tag: "corpus"})
	}
	return out
}
