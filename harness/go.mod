module github.com/JunNishimura/Goit/verifharness

go 1.19

require github.com/JunNishimura/Goit v0.0.0

require (
	github.com/fatih/color v1.18.0 // indirect
	github.com/mattn/go-colorable v0.1.13 // indirect
	github.com/mattn/go-isatty v0.0.20 // indirect
	golang.org/x/sys v0.25.0 // indirect
)

replace github.com/JunNishimura/Goit => /repo
