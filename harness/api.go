//go:build !noapi

package main

// In-process driver: calls Goit's exported API (internal/...) on one operation per line and prints one
// canonical answer line, in the same format as the Lean model driver. Runs as its own process
// (own cwd and HOME); every call is under recover so that a Go panic becomes the answer "crash".

import (
	"bufio"
	"bytes"
	"fmt"
	"os"
	"os/exec"
	"path/filepath"
	"reflect"
	"sort"
	"strconv"
	"strings"
	"syscall"
	"time"

	glog "github.com/JunNishimura/Goit/internal/log"
	"github.com/JunNishimura/Goit/internal/object"
	"github.com/JunNishimura/Goit/internal/sha"
	"github.com/JunNishimura/Goit/internal/store"
)

const apiAvailable = true

type apiWorker struct {
	dir  string // work tree (cwd, HOME)
	root string // dir/.goit
	goit string // path of the goit binary (for cmd-level operations)
}

func (w *apiWorker) resetDir() {
	os.RemoveAll(w.dir)
	mustMkdirAll(filepath.Join(w.root, "objects"))
	mustMkdirAll(filepath.Join(w.root, "refs", "heads"))
	os.Chdir(w.dir)
}

func (w *apiWorker) objPath(id []byte) string {
	h := hx(id)
	if len(h) < 3 {
		return ""
	}
	return filepath.Join(w.root, "objects", h[:2], h[2:])
}

func kindOf(s string) object.Type {
	switch s {
	case "blob":
		return object.BlobObject
	case "tree":
		return object.TreeObject
	case "commit":
		return object.CommitObject
	case "tag":
		return object.TagObject
	}
	return object.UndefinedObject
}

func nodesOut(ns []*object.Node) string {
	var xs []string
	for _, n := range ns {
		xs = append(xs, hx([]byte(n.Name))+"/"+hx(n.Hash)+"{"+nodesOut(n.Children)+"}")
	}
	return strings.Join(xs, ";")
}

func (w *apiWorker) loadIndex(es []ent) (*store.Index, error) {
	writeFile(filepath.Join(w.root, "index"), encodeIndex(es))
	return store.NewIndex(w.root)
}

func idxEntries(ix *store.Index) []ent {
	var out []ent
	for _, e := range ix.Entries {
		out = append(out, ent{e.Hash, e.Path})
	}
	return out
}

// checks that the index file on disk decodes (independently) to exactly the in-memory entries
func (w *apiWorker) fileAgrees(ix *store.Index) string {
	f, err := os.ReadFile(filepath.Join(w.root, "index"))
	if err != nil {
		return " nofile"
	}
	es, ok := decodeIndex(f)
	if !ok || entriesOut(es) != entriesOut(idxEntries(ix)) {
		return " file-mismatch"
	}
	return ""
}

func (w *apiWorker) tree(id []byte) (*object.Tree, error) {
	o, err := object.GetObject(w.root, id)
	if err != nil {
		return nil, err
	}
	return object.NewTree(w.root, o)
}

func (w *apiWorker) writeHeads(files string) {
	os.RemoveAll(filepath.Join(w.root, "refs", "heads"))
	mustMkdirAll(filepath.Join(w.root, "refs", "heads"))
	for _, e := range entriesIn(files) {
		writeFile(filepath.Join(w.root, "refs", "heads", string(e.id)), e.path)
	}
}

func headsOut(r *store.Refs) string {
	var xs []string
	for _, b := range r.Heads {
		v := reflect.ValueOf(b).Elem()
		h := v.FieldByName("hash").Bytes()
		xs = append(xs, hx([]byte(b.Name))+":"+hx(h))
	}
	return listOut(xs)
}

// heads given as name:rawid are written as files holding the hex id
func (w *apiWorker) loadHeads(h string) (*store.Refs, error) {
	os.RemoveAll(filepath.Join(w.root, "refs", "heads"))
	mustMkdirAll(filepath.Join(w.root, "refs", "heads"))
	for _, e := range entriesIn(h) {
		writeFile(filepath.Join(w.root, "refs", "heads", string(e.id)), []byte(hx(e.path)))
	}
	return store.NewRefs(w.root)
}

func (w *apiWorker) headsOnDisk() string {
	fs, _ := os.ReadDir(filepath.Join(w.root, "refs", "heads"))
	var xs []string
	for _, f := range fs {
		c, _ := os.ReadFile(filepath.Join(w.root, "refs", "heads", f.Name()))
		xs = append(xs, hx([]byte(f.Name()))+":"+hx(unhx(string(c))))
	}
	return listOut(xs)
}

func sectionsOut(m reflect.Value) string {
	type sec struct {
		name string
		kvs  []string
	}
	var secs []sec
	it := m.MapRange()
	for it.Next() {
		s := sec{name: it.Key().String()}
		var kv [][2]string
		it2 := it.Value().MapRange()
		for it2.Next() {
			kv = append(kv, [2]string{it2.Key().String(), it2.Value().String()})
		}
		sort.Slice(kv, func(i, j int) bool { return kv[i][0] < kv[j][0] })
		for _, p := range kv {
			s.kvs = append(s.kvs, hx([]byte(p[0]))+":"+hx([]byte(p[1])))
		}
		secs = append(secs, s)
	}
	sort.Slice(secs, func(i, j int) bool { return secs[i].name < secs[j].name })
	var xs []string
	for _, s := range secs {
		xs = append(xs, hx([]byte(s.name))+"="+strings.Join(s.kvs, "+"))
	}
	return listOut(xs)
}

func oh(x string) sha.SHA1 {
	if x == "nil" {
		return nil
	}
	return unhx(x)
}

func signOut(s object.Sign) string {
	_, off := s.Timestamp.Zone()
	return fmt.Sprintf("%s %s %d %d", hx([]byte(s.Name)), hx([]byte(s.Email)), s.Timestamp.Unix(), off)
}

func osignOut(s object.Sign) string {
	if s.Timestamp.IsZero() && s.Name == "" && s.Email == "" {
		return "nosign"
	}
	return signOut(s)
}

func loadedOut(r *store.LogRecord) string {
	v := reflect.ValueOf(r).Elem()
	k := v.FieldByName("recType").Int()
	m := v.FieldByName("message").String()
	h := "nil"
	if r.Hash != nil {
		h = hx(r.Hash)
	}
	return h + "|" + glog.RecordType(k).String() + "|" + hx([]byte(m))
}

func (w *apiWorker) reflog(file []byte) (*store.Reflog, error) {
	writeFile(filepath.Join(w.root, "logs", "HEAD"), file)
	head := &store.Head{Reference: "main", Commit: &object.Commit{Object: &object.Object{Hash: make([]byte, 20)}}}
	refs, err := w.loadHeads("-")
	if err != nil {
		return nil, err
	}
	return store.NewReflog(w.root, head, refs)
}

func (w *apiWorker) op(f []string) (out string) {
	defer func() {
		if r := recover(); r != nil {
			out = "crash"
		}
	}()
	switch f[0] {
	case "st.clear":
		w.resetDir()
		return "ok"
	case "st.put":
		p := w.objPath(unhx(f[1]))
		if p != "" {
			writeFile(p, deflate(unhx(f[2])))
		}
		return "ok"
	case "sha":
		return hx(sha1sum(unhx(f[1])))
	case "obj.new":
		o, err := object.NewObject(kindOf(f[1]), unhx(f[2]))
		if err != nil {
			return "err"
		}
		if err := o.Write(w.root); err != nil {
			return "err-write"
		}
		file, err := os.ReadFile(w.objPath(o.Hash))
		if err != nil {
			return "err-nofile"
		}
		content, err := inflate(file)
		if err != nil {
			return "err-inflate"
		}
		return hx(o.Hash) + " " + hx(content)
	case "obj.big":
		// a large periodic payload named by its pattern and repeat count: stored, the file inflated independently,
		// read back through GetObject; the answer is the id, the length and the SHA-1 of the bytes read back
		n, _ := strconv.Atoi(f[3])
		data := bytes.Repeat(unhx(f[2]), n)
		o, err := object.NewObject(kindOf(f[1]), data)
		if err != nil {
			return "err"
		}
		if err := o.Write(w.root); err != nil {
			return "err-write"
		}
		file, err := os.ReadFile(w.objPath(o.Hash))
		if err != nil {
			return "err-nofile"
		}
		content, err := inflate(file)
		if err != nil || hx(sha1sum(content)) != hx(o.Hash) {
			return "err-inflate"
		}
		g, err := object.GetObject(w.root, o.Hash)
		if err != nil {
			return hx(o.Hash) + " get-err"
		}
		return hx(o.Hash) + " " + g.Type.String() + " " + strconv.Itoa(len(g.Data)) + " " + hx(sha1sum(g.Data))
	case "obj.heal":
		// an empty file under the object's name (what a store that failed after creating the file leaves behind), then
		// the object is stored: a store that reports success must leave an object that reads back
		o, err := object.NewObject(kindOf(f[1]), unhx(f[2]))
		if err != nil {
			return "err"
		}
		p := w.objPath(o.Hash)
		os.MkdirAll(filepath.Dir(p), 0o777)
		if err := os.WriteFile(p, nil, 0o644); err != nil {
			return "err-setup"
		}
		if err := o.Write(w.root); err != nil {
			return "write-error"
		}
		g, err := object.GetObject(w.root, o.Hash)
		if err != nil {
			return "stored-but-unreadable"
		}
		return "ok " + g.Type.String() + " " + hx(g.Data)
	case "obj.get":
		o, err := object.GetObject(w.root, unhx(f[1]))
		if err != nil {
			return "err"
		}
		return "ok " + o.Type.String() + " " + hx(o.Data)
	case "readhash":
		h, err := sha.ReadHash(string(unhx(f[1])))
		if err != nil {
			return "err"
		}
		return "ok " + hx(h)
	case "tree.walk":
		t, err := w.tree(unhx(f[1]))
		if err != nil {
			return "err"
		}
		return "ok " + nodesOut(t.Children)
	case "tree.render":
		t, err := w.tree(unhx(f[1]))
		if err != nil {
			return "err"
		}
		return "ok " + hx([]byte(t.String()))
	case "tree.flatten":
		t, err := w.tree(unhx(f[1]))
		if err != nil {
			return "err"
		}
		ix, err := w.loadIndex(nil)
		if err != nil {
			return "err-index"
		}
		ds, err := ix.DiffWithTree(t)
		if err != nil {
			return "err"
		}
		var es []ent
		for _, d := range ds {
			es = append(es, ent{d.Entry.Hash, d.Entry.Path})
		}
		return "ok " + entriesOut(es)
	case "tree.getnode":
		t, err := w.tree(unhx(f[1]))
		if err != nil {
			return "err"
		}
		n, ok := object.GetNode(t.Children, string(unhx(f[2])))
		if !ok {
			return "ok none"
		}
		var ps []string
		for _, p := range n.GetPaths() {
			ps = append(ps, hx([]byte(p)))
		}
		return fmt.Sprintf("ok some %s %s %d %s", hx([]byte(n.Name)), hx(n.Hash), len(n.Children), listOut(ps))
	case "tree.write":
		es := entriesIn(f[1])
		writeFile(filepath.Join(w.root, "index"), encodeIndex(es))
		writeFile(filepath.Join(w.root, "HEAD"), []byte("ref: refs/heads/main"))
		cmd := exec.Command(w.goit, "write-tree")
		cmd.Dir = w.dir
		cmd.Env = append(os.Environ(), "HOME="+w.dir)
		outb, err := cmd.Output()
		if err != nil {
			if ee, ok := err.(*exec.ExitError); ok && ee.ExitCode() == 2 {
				return "crash"
			}
			return "err"
		}
		root := strings.TrimSpace(string(outb))
		var ps []string
		filepath.Walk(filepath.Join(w.root, "objects"), func(p string, info os.FileInfo, err error) error {
			if err == nil && !info.IsDir() {
				name := filepath.Base(filepath.Dir(p)) + filepath.Base(p)
				file, _ := os.ReadFile(p)
				c, _ := inflate(file)
				ps = append(ps, hx(unhx(name))+":"+hx(c))
			}
			return nil
		})
		sort.Strings(ps)
		return hx(unhx(root)) + " " + listOut(ps)
	case "idx.dec":
		writeFile(filepath.Join(w.root, "index"), unhx(f[1]))
		ix, err := store.NewIndex(w.root)
		if err != nil {
			return "err"
		}
		return fmt.Sprintf("ok %s %d %s", hx(ix.Signature[:]), ix.Version, entriesOut(idxEntries(ix)))
	case "idx.enc":
		es := entriesIn(f[1])
		dummy := ent{make([]byte, 20), []byte("\xff\xff\xff\xffdummy")}
		ix, err := w.loadIndex(append(append([]ent{}, es...), dummy))
		if err != nil {
			return "err"
		}
		if err := ix.DeleteEntry(w.root, dummy.path); err != nil {
			return "err-delete"
		}
		file, _ := os.ReadFile(filepath.Join(w.root, "index"))
		return hx(file)
	case "idx.get":
		ix, err := w.loadIndex(entriesIn(f[1]))
		if err != nil {
			return "err"
		}
		pos, _, ok := ix.GetEntry(unhx(f[2]))
		if !ok {
			return "notfound"
		}
		return fmt.Sprintf("found %d", pos)
	case "idx.bydir":
		ix, err := w.loadIndex(entriesIn(f[1]))
		if err != nil {
			return "err"
		}
		var es []ent
		for _, e := range ix.GetEntriesByDirectory(string(unhx(f[2]))) {
			es = append(es, ent{e.Hash, e.Path})
		}
		return entriesOut(es)
	case "idx.isdir":
		ix, err := w.loadIndex(entriesIn(f[1]))
		if err != nil {
			return "err"
		}
		return strconv.FormatBool(ix.IsRegisteredAsDirectory(string(unhx(f[2]))))
	case "idx.update":
		ix, err := w.loadIndex(entriesIn(f[1]))
		if err != nil {
			return "err"
		}
		ch, err := ix.Update(w.root, unhx(f[2]), unhx(f[3]))
		if err != nil {
			return "err"
		}
		return fmt.Sprintf("ok %v %s%s", ch, entriesOut(idxEntries(ix)), w.fileAgrees(ix))
	case "idx.delete":
		ix, err := w.loadIndex(entriesIn(f[1]))
		if err != nil {
			return "err"
		}
		if err := ix.DeleteEntry(w.root, unhx(f[2])); err != nil {
			return "err"
		}
		return "ok " + entriesOut(idxEntries(ix)) + w.fileAgrees(ix)
	case "idx.reset":
		// optional third field: the staging area before the reset (what is staged must not matter)
		var before []ent
		if len(f) > 2 {
			before = entriesIn(f[2])
		}
		ix, err := w.loadIndex(before)
		if err != nil {
			return "err-index"
		}
		if err := ix.Reset(w.root, unhx(f[1])); err != nil {
			return "err"
		}
		return "ok " + entriesOut(idxEntries(ix)) + w.fileAgrees(ix)
	case "idx.diff":
		ix, err := w.loadIndex(entriesIn(f[1]))
		if err != nil {
			return "err-index"
		}
		t, err := w.tree(unhx(f[2]))
		if err != nil {
			return "err"
		}
		ds, err := ix.DiffWithTree(t)
		if err != nil {
			return "err"
		}
		var xs []string
		for _, d := range ds {
			k := map[string]string{"deleted:": "D", "new file:": "N", "modified:": "M"}[d.Dt.String()]
			xs = append(xs, k+":"+hx(d.Entry.Hash)+":"+hx(d.Entry.Path))
		}
		return "ok " + listOut(xs)
	case "refs.load":
		w.writeHeads(f[1])
		r, err := store.NewRefs(w.root)
		if err != nil {
			return "err"
		}
		return "ok " + headsOut(r)
	case "refs.add", "refs.rename", "refs.delete", "refs.update", "refs.exists":
		r, err := w.loadHeads(f[1])
		if err != nil {
			return "err-load"
		}
		switch f[0] {
		case "refs.add":
			err = r.AddBranch(w.root, string(unhx(f[2])), unhx(f[3]))
		case "refs.rename":
			// the unit `branch -r` performs: write the new name, (HEAD is switched,) remove the old name
			err = r.RenameBranch(w.root, string(unhx(f[2])), string(unhx(f[3])))
			if err == nil {
				err = r.RemoveRenamedBranch(w.root, string(unhx(f[2])))
			}
		case "refs.delete":
			// DeleteBranch prints a message on stdout: silence it
			so := os.Stdout
			os.Stdout, _ = os.Open(os.DevNull)
			err = r.DeleteBranch(w.root, string(unhx(f[2])), string(unhx(f[3])))
			os.Stdout = so
		case "refs.update":
			err = r.UpdateBranchHash(w.root, string(unhx(f[2])), unhx(f[3]))
		case "refs.exists":
			return strconv.FormatBool(r.IsBranchExist(string(unhx(f[2]))))
		}
		if err != nil {
			return "err"
		}
		res := headsOut(r)
		if disk := w.headsOnDisk(); disk != res {
			return "ok " + res + " disk-mismatch " + disk
		}
		return "ok " + res
	case "head.parse":
		writeFile(filepath.Join(w.root, "HEAD"), unhx(f[1]))
		os.RemoveAll(filepath.Join(w.root, "refs", "heads"))
		mustMkdirAll(filepath.Join(w.root, "refs", "heads"))
		h, err := store.NewHead(w.root)
		if err != nil {
			return "err"
		}
		return "ok " + hx([]byte(h.Reference))
	case "reflog.fmt":
		u, _ := strconv.ParseInt(f[6], 10, 64)
		off, _ := strconv.Atoi(f[7])
		t := time.Unix(u, 0).In(time.FixedZone("", off))
		rec := glog.NewRecord(glog.NewRecordType(f[1]), oh(f[2]), oh(f[3]), string(unhx(f[4])), string(unhx(f[5])), t, string(unhx(f[8])))
		return hx([]byte(rec.String()))
	case "reflog.parse":
		rl, err := w.reflog(unhx(f[1]))
		if err != nil {
			return "err"
		}
		n := reflect.ValueOf(rl).Elem().FieldByName("records").Len()
		var xs []string
		for i := n - 1; i >= 0; i-- {
			r, err := rl.GetRecord(i)
			if err != nil {
				return "err-get"
			}
			xs = append(xs, loadedOut(r))
		}
		return "ok " + listOut(xs)
	case "reflog.get":
		rl, err := w.reflog(unhx(f[1]))
		if err != nil {
			return "err"
		}
		k, _ := strconv.Atoi(f[2])
		r, err := rl.GetRecord(k)
		if err != nil {
			return "ok none"
		}
		return "ok " + loadedOut(r)
	case "sign.fmt":
		u, _ := strconv.ParseInt(f[3], 10, 64)
		off, _ := strconv.Atoi(f[4])
		s := object.Sign{Name: string(unhx(f[1])), Email: string(unhx(f[2])), Timestamp: time.Unix(u, 0).In(time.FixedZone("", off))}
		return hx([]byte(s.String()))
	case "sign.parse":
		data := append([]byte("author "), unhx(f[1])...)
		c, err := object.NewCommit(&object.Object{Type: object.CommitObject, Data: data})
		if err != nil {
			return "err"
		}
		return "ok " + signOut(c.Author)
	case "commit.parse":
		c, err := object.NewCommit(&object.Object{Type: object.CommitObject, Data: unhx(f[1])})
		if err != nil {
			return "err"
		}
		t := "nil"
		if c.Tree != nil {
			t = hx(c.Tree)
		}
		var ps []string
		for _, p := range c.Parents {
			ps = append(ps, hx(p))
		}
		return "ok " + t + " " + listOut(ps) + " " + osignOut(c.Author) + " " + osignOut(c.Committer) + " " + hx([]byte(c.Message))
	case "config.parse", "config.add":
		os.Remove(filepath.Join(w.dir, ".goitconfig"))
		writeFile(filepath.Join(w.root, "config"), unhx(f[1]))
		c, err := store.NewConfig(w.root)
		if err != nil {
			return "err"
		}
		if f[0] == "config.add" {
			c.Add(string(unhx(f[2])), string(unhx(f[3])), string(unhx(f[4])), false)
			if err := c.Write(filepath.Join(w.root, "config"), false); err != nil {
				return "err-write"
			}
			c, err = store.NewConfig(w.root)
			if err != nil {
				return "err-reload"
			}
		}
		return "ok " + sectionsOut(reflect.ValueOf(c).Elem().FieldByName("local"))
	case "config.user":
		writeFile(filepath.Join(w.root, "config"), unhx(f[1]))
		writeFile(filepath.Join(w.dir, ".goitconfig"), unhx(f[2]))
		c, err := store.NewConfig(w.root)
		if err != nil {
			return "err"
		}
		return fmt.Sprintf("ok %v %s %s", c.IsUserSet(), hx([]byte(c.GetUserName())), hx([]byte(c.GetEmail())))
	case "ignore.match":
		// ignore.match <file|none> <path> <file|dir|missing|tracked>
		os.Remove(filepath.Join(w.dir, ".goitignore"))
		if f[1] != "none" {
			writeFile(filepath.Join(w.dir, ".goitignore"), unhx(f[1]))
		}
		p := string(unhx(f[2]))
		var es []ent
		switch f[3] {
		case "file":
			writeFile(filepath.Join(w.dir, p), []byte("x"))
		case "dir":
			mustMkdirAll(filepath.Join(w.dir, p))
		case "tracked":
			es = []ent{{make([]byte, 20), []byte(p + "/f")}}
		}
		ix, err := w.loadIndex(es)
		if err != nil {
			return "err-index"
		}
		ig, err := store.NewIgnore(w.root)
		if err != nil {
			return "err"
		}
		return strconv.FormatBool(ig.IsIncluded(p, ix))
	}
	return "bad-op"
}

func apiMain(dir, goit string) {
	w := &apiWorker{dir: dir, root: filepath.Join(dir, ".goit"), goit: goit}
	os.Setenv("HOME", dir)
	// an address-space limit turns "allocates without bound" into a prompt death of this worker
	syscall.Setrlimit(syscall.RLIMIT_AS, &syscall.Rlimit{Cur: 6 << 30, Max: 6 << 30})
	w.resetDir()
	in := bufio.NewReaderSize(os.Stdin, 1<<20)
	out := bufio.NewWriter(os.Stdout)
	for {
		line, err := in.ReadString('\n')
		line = strings.TrimSpace(line)
		if line != "" {
			fmt.Fprintln(out, w.op(strings.Split(line, " ")))
			out.Flush()
		}
		if err != nil {
			break
		}
	}
}
